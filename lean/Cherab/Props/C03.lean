import Cherab.Model.PassiveEmission
import Cherab.Model.PassiveSpec
import Cherab.Model.Codata
import Cherab.Gen.Constants
import Cherab.Gen.PassiveFlags
import Mathlib.Tactic.Ring
import Mathlib.Tactic.Tauto
import Mathlib.Tactic.Linarith
import Mathlib.Tactic.FieldSimp
import Mathlib.Tactic.Positivity
import Mathlib.Tactic.NormNum.OfScientific
import Mathlib.Algebra.Order.Field.Basic
import Mathlib.Algebra.Order.Ring.Rat
import Mathlib.Algebra.BigOperators.Group.List.Basic
import Mathlib.Analysis.Real.Sqrt
import Mathlib.Analysis.Complex.Exponential


/-!
# C03 — passive emission models radiate exactly their documented totals

Property theorems about `Model/PassiveEmission.lean` (the code as it is) against `Model/PassiveSpec.lean` (the documented
expressions), over an arbitrary ordered field.  `π`, `sqrt`, `exp`, `log`, `log10`, the provider's rate functions, the
Gaunt factor and the integrator are parameters; hypotheses on them are named (`SqrtSpec`, `Additive`, positivity of
`exp`/`sqrt`) and shown satisfiable over ℝ at the end of the file.

Clause of the property sentence                         theorem(s)
  excitation / recombination = (1/4π) n_e n_i PEC        `excitation_eq_spec`, `recombination_eq_spec`, `line_missing_species`
  thermal CX = (1/4π) n_rec Σ_d n_d PEC_d                `thermalcx_eq_spec_current_source` (flags generated from the source), `cx_guards_present`,
                                                         `cx_donor_filter`; explicit unguarded instance: `thermalcx_unguarded_negative_witness`
  total radiated power, spread uniformly                 `trp_eq_spec_current_source`, `trp_hydrogen_tuple_complete`, `trp_integral`; explicit old tuple: `trp_unlisted_isotope_witness`
  bremsstrahlung = bin average of Hutchinson             `brems_eq_spec`, `brems_const_closed_form`, `exp_factor_closed_form`,
                                                         `brems_bins_edges`, `brems_bin_is_average`, `brems_bins_total`,
                                                         `gauss_quad_const_exact`; Gaunt branch logic `gaunt_branches`, `gaunt_branch_conditions`
  zero when a density / temperature is ≤ 0               `line_zero_guards`, `thermalcx_zero_guards`, `thermalcx_donor_zero_guards`,
                                                         `trp_zero_guards`, `brems_zero_guards`
  never negative for non-negative coefficients           `line_nonneg`, `thermalcx_nonneg_current_source`, `trp_nonneg`, `brems_nonneg`
  linear in each density                                 `line_linear_in_density`, `line_additive_in_density`, `thermalcx_linear_in_receiver`,
                                                         `thermalcx_linear_in_donor`, `thermalcx_additive_in_donors`, `trp_linear_in_density`,
                                                         `trp_three_terms`, `brems_linear_in_density`, `brems_linear_in_ne`
  no state carried between evaluations                   `bremsFill_overwrites`, `brems_eval_stateless`, `brems_history_independent`
  constants                                              `constants_match_codata`, `constants_translation_consistent`, `exp_factor_exact`
-/

namespace Cherab.Props.C03
set_option linter.unusedSectionVars false
set_option linter.unusedVariables false
open Cherab.Passive
open Cherab

variable {α : Type} [Field α] [LinearOrder α] [IsStrictOrderedRing α]

/-! ## helper lemmas (lists, sums) -/

theorem foldl_add_sum {β : Type} (f : β → α) (l : List β) (a : α) :
    l.foldl (fun acc s => acc + f s) a = a + (l.map f).sum := by
  induction l generalizing a with
  | nil => simp
  | cons x t ih => simp [List.foldl_cons, ih, add_assoc]

theorem sum_filter_ite {β : Type} (p : β → Bool) (f : β → α) (l : List β) :
    ((l.filter p).map f).sum = (l.map fun s => if p s then f s else 0).sum := by
  induction l with
  | nil => simp
  | cons x t ih =>
    by_cases h : p x <;> simp [h, ih]

theorem sum_map_zero {β : Type} (f : β → α) (l : List β) (h : ∀ s ∈ l, f s = 0) : (l.map f).sum = 0 := by
  induction l with
  | nil => simp
  | cons x t ih =>
    simp only [List.map_cons, List.sum_cons]
    rw [h x (by simp), ih (fun s hs => h s (by simp [hs]))]; simp

theorem sum_map_congr {β : Type} (f g : β → α) (l : List β) (h : ∀ s ∈ l, f s = g s) :
    (l.map f).sum = (l.map g).sum := by
  induction l with
  | nil => simp
  | cons x t ih =>
    simp only [List.map_cons, List.sum_cons]
    rw [h x (by simp), ih (fun s hs => h s (by simp [hs]))]

theorem sum_map_mul_left {β : Type} (k : α) (f : β → α) (l : List β) :
    (l.map fun s => k * f s).sum = k * (l.map f).sum := by
  induction l with
  | nil => simp
  | cons x t ih => simp [ih, mul_add]

theorem sum_map_nonneg {β : Type} (f : β → α) (l : List β) (h : ∀ s ∈ l, 0 ≤ f s) : 0 ≤ (l.map f).sum := by
  induction l with
  | nil => simp
  | cons x t ih =>
    simp only [List.map_cons, List.sum_cons]
    exact add_nonneg (h x (by simp)) (ih (fun s hs => h s (by simp [hs])))

/-- the species keys of a composition are unique (`Composition._species` is a dict keyed by (element, charge)) -/
def KeysNodup (comp : List (Sp α)) : Prop := (comp.map fun s => (s.elem, s.charge)).Nodup

theorem isKey_iff (e c : Nat) (s : Sp α) : isKey e c s = true ↔ (s.elem = e ∧ s.charge = c) := by
  simp [isKey]

/-- with unique keys, a sum over the composition restricted to one key is the value at the species found by `get` -/
theorem sumOver_key (comp : List (Sp α)) (hk : KeysNodup comp) (e c : Nat) (g : Sp α → α) :
    PassiveSpec.sumOver comp (fun s => if s.elem = e ∧ s.charge = c then g s else 0)
      = (getSp comp e c).elim 0 g := by
  unfold PassiveSpec.sumOver getSp
  induction comp with
  | nil => simp
  | cons x t ih =>
    have hk' : KeysNodup t := by
      unfold KeysNodup at hk ⊢; simp only [List.map_cons, List.nodup_cons] at hk; exact hk.2
    by_cases hx : x.elem = e ∧ x.charge = c
    · have hkey : isKey e c x = true := (isKey_iff e c x).2 hx
      have hrest : (t.map fun s => if s.elem = e ∧ s.charge = c then g s else 0).sum = 0 := by
        apply sum_map_zero
        intro s hs
        have : ¬(s.elem = e ∧ s.charge = c) := by
          intro hsk
          unfold KeysNodup at hk; simp only [List.map_cons, List.nodup_cons] at hk
          apply hk.1
          simp only [List.mem_map]
          exact ⟨s, hs, by rw [hsk.1, hsk.2, hx.1, hx.2]⟩
        simp [this]
      simp [hkey, hx, hrest]
    · have hkey : isKey e c x = false := by
        cases h : isKey e c x
        · rfl
        · exact absurd ((isKey_iff e c x).1 h) hx
      simp only [List.map_cons, List.sum_cons, List.find?_cons, hkey, if_neg hx, zero_add]
      exact ih hk'

theorem getSp_some_mem (comp : List (Sp α)) (e c : Nat) (s : Sp α) (h : getSp comp e c = some s) :
    s ∈ comp ∧ s.elem = e ∧ s.charge = c := by
  unfold getSp at h
  exact ⟨List.mem_of_find?_eq_some h, (isKey_iff e c s).1 (List.find?_some h)⟩

theorem getSp_none_iff (comp : List (Sp α)) (e c : Nat) :
    getSp comp e c = none ↔ ∀ s ∈ comp, ¬(s.elem = e ∧ s.charge = c) := by
  unfold getSp
  rw [List.find?_eq_none]
  constructor
  · intro h s hs hk; exact h s hs ((isKey_iff e c s).2 hk)
  · intro h s hs hk; exact h s hs ((isKey_iff e c s).1 hk)

/-! ## ExcitationLine / RecombinationLine -/

/-- value of the guarded product in closed form -/
theorem lineCall_val (pi : α) (rate : α → α → α) (ne te ni : α) :
    emitted (lineCall pi rate ne te ni)
      = if 0 < ne ∧ 0 < te ∧ 0 < ni then 1 / (4 * pi) * ne * ni * rate ne te else 0 := by
  unfold lineCall emitted recip4pi
  have h4 : (4.0 : α) = 4 := by norm_num
  rw [h4]
  by_cases h1 : ne ≤ 0
  · simp [h1, not_lt.mpr h1]
  · by_cases h2 : te ≤ 0
    · simp [h1, h2, not_lt.mpr h2]
    · by_cases h3 : ni ≤ 0
      · simp [h1, h2, h3, not_lt.mpr h3]
      · simp only [h1, h2, h3, if_false, Option.getD_some, not_le.mp h1, not_le.mp h2, not_le.mp h3, and_self, if_true]
        ring

theorem line_spec_val (pi : α) (rate : α → α → α) (comp : List (Sp α)) (hk : KeysNodup comp) (ne te : α) (e c : Nat) :
    PassiveSpec.line pi rate comp ne te e c
      = (getSp comp e c).elim 0 (fun s => emitted (lineCall pi rate ne te s.dens)) := by
  unfold PassiveSpec.line
  have h4 : (4.0 : α) = 4 := by norm_num
  rw [h4]
  by_cases hne : 0 < ne ∧ 0 < te
  · rw [if_pos hne]
    have : (fun s : Sp α => if s.elem = e ∧ s.charge = c ∧ 0 < s.dens then 1 / (4 * pi) * ne * s.dens * rate ne te else 0)
        = fun s => if s.elem = e ∧ s.charge = c then (emitted (lineCall pi rate ne te s.dens)) else 0 := by
      funext s
      rw [lineCall_val]
      by_cases h1 : s.elem = e <;> by_cases h2 : s.charge = c <;> by_cases h3 : 0 < s.dens <;> simp [h1, h2, h3, hne.1, hne.2]
    rw [this, sumOver_key comp hk]
  · rw [if_neg hne]
    cases h : getSp comp e c with
    | none => rfl
    | some s =>
      simp only [Option.elim_some, lineCall_val]
      rw [if_neg]
      intro hh; exact hne ⟨hh.1, hh.2.1⟩

/-- **excitation**: whenever the model can be evaluated (target species present) the emission equals the documented
`(1/4π) n_e n_i PEC_exc(n_e, T_e)` with `n_i` the density of `(line.element, line.charge)`, for every composition -/
theorem excitation_eq_spec (pi : α) (prov : Nat → Nat → α → α → α) (comp : List (Sp α)) (hk : KeysNodup comp)
    (ne te : α) (le lc : Nat) (r : Option α) (h : excitationLine pi prov comp ne te le lc = some r) :
    emitted r = PassiveSpec.excitation pi prov comp ne te le lc := by
  unfold PassiveSpec.excitation
  rw [line_spec_val pi _ comp hk]
  unfold excitationLine at h
  cases hg : getSp comp le lc with
  | none => rw [hg] at h; cases h
  | some s => rw [hg] at h; cases h; rfl

/-- **recombination**: the density is that of the *next* charge state, the coefficient that of the line's own ion -/
theorem recombination_eq_spec (pi : α) (prov : Nat → Nat → α → α → α) (comp : List (Sp α)) (hk : KeysNodup comp)
    (ne te : α) (le lc : Nat) (r : Option α) (h : recombinationLine pi prov comp ne te le lc = some r) :
    emitted r = PassiveSpec.recombination pi prov comp ne te le lc := by
  unfold PassiveSpec.recombination
  rw [line_spec_val pi _ comp hk]
  unfold recombinationLine at h
  cases hg : getSp comp le (lc + 1) with
  | none => rw [hg] at h; cases h
  | some s => rw [hg] at h; cases h; rfl

/-- the models raise exactly when the species they need is not in the composition -/
theorem line_missing_species (pi : α) (prov : Nat → Nat → α → α → α) (comp : List (Sp α)) (ne te : α) (le lc : Nat) :
    (excitationLine pi prov comp ne te le lc = none ↔ ∀ s ∈ comp, ¬(s.elem = le ∧ s.charge = lc)) ∧
    (recombinationLine pi prov comp ne te le lc = none ↔ ∀ s ∈ comp, ¬(s.elem = le ∧ s.charge = lc + 1)) := by
  constructor
  · rw [← getSp_none_iff]; unfold excitationLine; cases getSp comp le lc <;> simp
  · rw [← getSp_none_iff]; unfold recombinationLine; cases getSp comp le (lc + 1) <;> simp

/-- zero whenever `n_e`, `T_e` or the target density is non-positive (nothing is handed to the line shape) -/
theorem line_zero_guards (pi : α) (rate : α → α → α) (ne te ni : α) (h : ne ≤ 0 ∨ te ≤ 0 ∨ ni ≤ 0) :
    lineCall pi rate ne te ni = none ∧ emitted (lineCall pi rate ne te ni) = 0 := by
  have : lineCall pi rate ne te ni = none := by
    unfold lineCall
    rcases h with h | h | h <;> simp [h]
  rw [this]; exact ⟨rfl, rfl⟩

/-- never negative for a non-negative coefficient -/
theorem line_nonneg (pi : α) (hpi : 0 < pi) (rate : α → α → α) (ne te ni : α) (hr : 0 ≤ rate ne te) :
    0 ≤ emitted (lineCall pi rate ne te ni) := by
  rw [lineCall_val]
  split_ifs with h
  · obtain ⟨h1, h2, h3⟩ := h
    have : 0 < 1 / (4 * pi) := by positivity
    positivity
  · exact le_refl _

/-- linear in the target density: scaling `n_i` by `k > 0` scales the emission by `k` -/
theorem line_linear_in_density (pi : α) (rate : α → α → α) (ne te ni k : α) (hk : 0 < k) :
    emitted (lineCall pi rate ne te (k * ni)) = k * emitted (lineCall pi rate ne te ni) := by
  rw [lineCall_val, lineCall_val]
  have : 0 < k * ni ↔ 0 < ni := by
    constructor
    · intro h; by_contra hc; push Not at hc; nlinarith
    · intro h; positivity
  by_cases h : 0 < ne ∧ 0 < te ∧ 0 < ni
  · rw [if_pos h, if_pos ⟨h.1, h.2.1, this.2 h.2.2⟩]; ring
  · rw [if_neg h, if_neg (fun hh => h ⟨hh.1, hh.2.1, this.1 hh.2.2⟩)]; ring

/-- … and, where it emits, additive in it -/
theorem line_additive_in_density (pi : α) (rate : α → α → α) (ne te n1 n2 : α) (h1 : 0 < n1) (h2 : 0 < n2) :
    emitted (lineCall pi rate ne te (n1 + n2))
      = emitted (lineCall pi rate ne te n1) + emitted (lineCall pi rate ne te n2) := by
  simp only [lineCall_val]
  have h12 : 0 < n1 + n2 := by positivity
  by_cases h : 0 < ne ∧ 0 < te
  · simp only [h.1, h.2, h1, h2, h12, and_self, if_true]; ring
  · have : ∀ n : α, ¬(0 < ne ∧ 0 < te ∧ 0 < n) := fun n hh => h ⟨hh.1, hh.2.1⟩
    simp [this]

example : emitted (lineCall (α := ℚ) 3 (fun ne te => ne + te) 2 5 7) = 1 / 12 * 2 * 7 * 7 := by
  rw [lineCall_val]; norm_num

/-! ## ThermalCXLine -/

/-- contribution of one donor to the weighted rate under the guard switches -/
def cxTerm (gd gt : Bool) (prov : Nat → Nat → α → α → α → α) (ne te : α) (s : Sp α) : α :=
  if (gd && decide (s.dens ≤ 0)) || (gt && decide (s.temp ≤ 0)) then 0 else s.dens * prov s.elem s.charge ne te s.temp

theorem cxWeighted_sum (gd gt : Bool) (prov : Nat → Nat → α → α → α → α) (ne te : α) (donors : List (Sp α)) :
    cxWeighted gd gt prov ne te donors = (donors.map (cxTerm gd gt prov ne te)).sum := by
  unfold cxWeighted
  have : (fun (acc : α) (s : Sp α) =>
        if (gd && decide (s.dens ≤ 0)) || (gt && decide (s.temp ≤ 0)) then acc
        else acc + s.dens * prov s.elem s.charge ne te s.temp)
      = fun acc s => acc + cxTerm gd gt prov ne te s := by
    funext acc s; unfold cxTerm; split_ifs <;> simp
  rw [this, foldl_add_sum]; simp

theorem cxEligible_iff (e c : Nat) (s : Sp α) : cxEligible e c s = true ↔ PassiveSpec.donorOf e c s := by
  unfold cxEligible PassiveSpec.donorOf
  simp only [isKey, Bool.and_eq_true, Bool.not_eq_eq_eq_not, Bool.not_true, beq_iff_eq, decide_eq_true_eq,
    Bool.and_eq_false_imp]
  by_cases h1 : s.elem = e <;> by_cases h2 : s.charge = c <;> simp [h1, h2]

theorem thermalCXCall_val (gd gt : Bool) (pi : α) (prov : Nat → Nat → α → α → α → α) (ne te nrec : α)
    (donors : List (Sp α)) :
    emitted (thermalCXCall gd gt pi prov ne te nrec donors)
      = if 0 < ne ∧ 0 < te ∧ 0 < nrec then 1 / (4 * pi) * nrec * (donors.map (cxTerm gd gt prov ne te)).sum else 0 := by
  unfold thermalCXCall emitted recip4pi
  have h4 : (4.0 : α) = 4 := by norm_num
  rw [h4, cxWeighted_sum]
  by_cases h1 : ne ≤ 0
  · simp [h1, not_lt.mpr h1]
  · by_cases h2 : te ≤ 0
    · simp [h1, h2, not_lt.mpr h2]
    · by_cases h3 : nrec ≤ 0
      · simp [h1, h2, h3, not_lt.mpr h3]
      · simp only [h1, h2, h3, if_false, Option.getD_some, not_le.mp h1, not_le.mp h2, not_le.mp h3, and_self, if_true]
        ring

/-- the donor sum of the model equals the documented one as soon as every eligible donor with a non-positive
density / temperature is skipped by a guard (or there is none) -/
theorem cx_donor_sum (gd gt : Bool) (prov : Nat → Nat → α → α → α → α) (comp : List (Sp α)) (ne te : α) (e c : Nat)
    (hg : ∀ d ∈ comp, PassiveSpec.donorOf e c d → (gd = true ∨ 0 < d.dens) ∧ (gt = true ∨ 0 < d.temp)) :
    ((cxDonors comp e c).map (cxTerm gd gt prov ne te)).sum = PassiveSpec.donorSum prov comp ne te e c := by
  unfold cxDonors PassiveSpec.donorSum PassiveSpec.sumOver
  rw [sum_filter_ite]
  apply sum_map_congr
  intro d hd
  by_cases hel : PassiveSpec.donorOf e c d
  · have hb : cxEligible e c d = true := (cxEligible_iff e c d).2 hel
    obtain ⟨h1, h2⟩ := hg d hd hel
    rw [if_pos hb]
    unfold cxTerm
    by_cases hd0 : 0 < d.dens <;> by_cases ht0 : 0 < d.temp
    · simp [hel, hd0, ht0, not_le.mpr hd0, not_le.mpr ht0]
    · have htl : d.temp ≤ 0 := not_lt.mp ht0
      rcases h2 with h2 | h2
      · simp [hel, hd0, ht0, htl, h2]
      · exact absurd h2 ht0
    · have hdl : d.dens ≤ 0 := not_lt.mp hd0
      rcases h1 with h1 | h1
      · simp [hel, hd0, hdl, h1]
      · exact absurd h1 hd0
    · have hdl : d.dens ≤ 0 := not_lt.mp hd0
      rcases h1 with h1 | h1
      · simp [hel, hd0, hdl, h1]
      · exact absurd h1 hd0
  · have hb : cxEligible e c d = false := by
      cases h : cxEligible e c d
      · rfl
      · exact absurd ((cxEligible_iff e c d).1 h) hel
    simp [hb, hel]

theorem thermalcx_eq_spec_of_guards (gd gt : Bool) (pi : α) (prov : Nat → Nat → α → α → α → α) (comp : List (Sp α))
    (hk : KeysNodup comp) (ne te : α) (le lc : Nat) (r : Option α)
    (hg : ∀ d ∈ comp, PassiveSpec.donorOf le (lc + 1) d → (gd = true ∨ 0 < d.dens) ∧ (gt = true ∨ 0 < d.temp))
    (h : thermalCXLine gd gt pi prov comp ne te le lc = some r) :
    emitted r = PassiveSpec.thermalCX pi prov comp ne te le lc := by
  unfold PassiveSpec.thermalCX
  have h4 : (4.0 : α) = 4 := by norm_num
  rw [h4]
  unfold thermalCXLine at h
  cases hgs : getSp comp le (lc + 1) with
  | none => rw [hgs] at h; cases h
  | some s =>
    rw [hgs] at h; cases h
    rw [thermalCXCall_val, cx_donor_sum gd gt prov comp ne te le (lc + 1) hg]
    by_cases hne : 0 < ne ∧ 0 < te
    · rw [if_pos hne]
      have : (fun r : Sp α => if r.elem = le ∧ r.charge = lc + 1 ∧ 0 < r.dens then
            1 / (4 * pi) * r.dens * PassiveSpec.donorSum prov comp ne te le (lc + 1) else 0)
          = fun r => if r.elem = le ∧ r.charge = lc + 1 then
              (if 0 < r.dens then 1 / (4 * pi) * r.dens * PassiveSpec.donorSum prov comp ne te le (lc + 1) else 0) else 0 := by
        funext r
        by_cases h1 : r.elem = le <;> by_cases h2 : r.charge = lc + 1 <;> by_cases h3 : 0 < r.dens <;> simp [h1, h2, h3]
      rw [this, sumOver_key comp hk, hgs]
      simp only [Option.elim_some]
      by_cases h3 : 0 < s.dens
      · simp [hne.1, hne.2, h3]
      · simp [h3]
    · rw [if_neg hne, if_neg]
      intro hh; exact hne ⟨hh.1, hh.2.1⟩

/-- **thermal CX, donor guards present** (`Gen.PassiveFlags` = true/true, i.e. after the proposed fix):
model = documented expression for every composition and all densities / temperatures -/
theorem thermalcx_eq_spec (pi : α) (prov : Nat → Nat → α → α → α → α) (comp : List (Sp α))
    (hk : KeysNodup comp) (ne te : α) (le lc : Nat) (r : Option α)
    (h : thermalCXLine true true pi prov comp ne te le lc = some r) :
    emitted r = PassiveSpec.thermalCX pi prov comp ne te le lc :=
  thermalcx_eq_spec_of_guards true true pi prov comp hk ne te le lc r
    (fun d _ _ => ⟨Or.inl rfl, Or.inl rfl⟩) h

/-- the *unguarded* donor loop (explicit flags `false false`, the source before commit 0227355) equals the documented
expression only on plasmas whose eligible donors have positive density and temperature — see
`thermalcx_unguarded_negative_witness` for what happens otherwise.  Not a statement about the current source. -/
theorem thermalcx_unguarded_eq_spec_on_positive_donors (pi : α) (prov : Nat → Nat → α → α → α → α) (comp : List (Sp α))
    (hk : KeysNodup comp) (ne te : α) (le lc : Nat) (r : Option α)
    (hpos : ∀ d ∈ comp, PassiveSpec.donorOf le (lc + 1) d → 0 < d.dens ∧ 0 < d.temp)
    (h : thermalCXLine false false pi prov comp ne te le lc = some r) :
    emitted r = PassiveSpec.thermalCX pi prov comp ne te le lc :=
  thermalcx_eq_spec_of_guards false false pi prov comp hk ne te le lc r
    (fun d hd hel => ⟨Or.inr (hpos d hd hel).1, Or.inr (hpos d hd hel).2⟩) h

/-- both donor guards are in the source read on this run (`Gen/PassiveFlags.lean`, regenerated from `thermal_cx.pyx`);
reverting the fix makes these two facts — and with them the `…_current_source` theorems — fail to build -/
theorem cx_guards_present :
    Gen.PassiveFlags.thermalCXDonorDensityGuard = true ∧ Gen.PassiveFlags.thermalCXDonorTemperatureGuard = true := by
  decide

/-- **thermal CX, current source, full strength**: for the guard switches read from `thermal_cx.pyx` the model equals
the documented expression for *every* composition and all densities / temperatures (zero and negative included) -/
theorem thermalcx_eq_spec_current_source (pi : α) (prov : Nat → Nat → α → α → α → α) (comp : List (Sp α))
    (hk : KeysNodup comp) (ne te : α) (le lc : Nat) (r : Option α)
    (h : thermalCXLine Gen.PassiveFlags.thermalCXDonorDensityGuard Gen.PassiveFlags.thermalCXDonorTemperatureGuard
      pi prov comp ne te le lc = some r) :
    emitted r = PassiveSpec.thermalCX pi prov comp ne te le lc :=
  thermalcx_eq_spec_of_guards _ _ pi prov comp hk ne te le lc r
    (fun _ _ _ => ⟨Or.inl cx_guards_present.1, Or.inl cx_guards_present.2⟩) h

/-- donors are every species except the receiver and bare nuclei -/
theorem cx_donor_filter (comp : List (Sp α)) (e c : Nat) (d : Sp α) :
    d ∈ cxDonors comp e c ↔ d ∈ comp ∧ ¬(d.elem = e ∧ d.charge = c) ∧ d.charge < d.z := by
  unfold cxDonors
  rw [List.mem_filter, cxEligible_iff]; rfl

theorem thermalcx_zero_guards (gd gt : Bool) (pi : α) (prov : Nat → Nat → α → α → α → α) (ne te nrec : α)
    (donors : List (Sp α)) (h : ne ≤ 0 ∨ te ≤ 0 ∨ nrec ≤ 0) :
    thermalCXCall gd gt pi prov ne te nrec donors = none := by
  unfold thermalCXCall
  rcases h with h | h | h <;> simp [h]

/-- with the donor guards, a donor of non-positive density or temperature contributes nothing -/
theorem thermalcx_donor_zero_guards (prov : Nat → Nat → α → α → α → α) (ne te : α) (d : Sp α)
    (h : d.dens ≤ 0 ∨ d.temp ≤ 0) : cxTerm true true prov ne te d = 0 := by
  unfold cxTerm; rcases h with h | h <;> simp [h]

/-- never negative for non-negative coefficients — with the donor guards -/
theorem thermalcx_nonneg (pi : α) (hpi : 0 < pi) (prov : Nat → Nat → α → α → α → α) (ne te nrec : α)
    (donors : List (Sp α)) (hr : ∀ d ∈ donors, 0 ≤ prov d.elem d.charge ne te d.temp) :
    0 ≤ emitted (thermalCXCall true true pi prov ne te nrec donors) := by
  rw [thermalCXCall_val]
  split_ifs with h
  · have h0 : 0 ≤ (donors.map (cxTerm true true prov ne te)).sum := by
      apply sum_map_nonneg
      intro d hd
      unfold cxTerm
      split_ifs with hc
      · exact le_refl _
      · simp only [Bool.true_and, Bool.or_eq_true, decide_eq_true_eq, not_or, not_le] at hc
        exact mul_nonneg hc.1.le (hr d hd)
    have : 0 < 1 / (4 * pi) := by positivity
    have := h.2.2
    positivity
  · exact le_refl _

/-- **current source**: never negative for non-negative coefficients, whatever the donor densities / temperatures -/
theorem thermalcx_nonneg_current_source (pi : α) (hpi : 0 < pi) (prov : Nat → Nat → α → α → α → α) (ne te nrec : α)
    (donors : List (Sp α)) (hr : ∀ d ∈ donors, 0 ≤ prov d.elem d.charge ne te d.temp) :
    0 ≤ emitted (thermalCXCall Gen.PassiveFlags.thermalCXDonorDensityGuard
      Gen.PassiveFlags.thermalCXDonorTemperatureGuard pi prov ne te nrec donors) := by
  rw [cx_guards_present.1, cx_guards_present.2]
  exact thermalcx_nonneg pi hpi prov ne te nrec donors hr

/-- **current source**: a donor of non-positive density or temperature contributes nothing -/
theorem thermalcx_donor_zero_guards_current_source (prov : Nat → Nat → α → α → α → α) (ne te : α) (d : Sp α)
    (h : d.dens ≤ 0 ∨ d.temp ≤ 0) :
    cxTerm Gen.PassiveFlags.thermalCXDonorDensityGuard Gen.PassiveFlags.thermalCXDonorTemperatureGuard prov ne te d = 0 := by
  rw [cx_guards_present.1, cx_guards_present.2]
  exact thermalcx_donor_zero_guards prov ne te d h

/-- the *unguarded* loop (explicit flags `false false`) is non-negative only if no donor has a negative density -/
theorem thermalcx_unguarded_nonneg_on_nonneg_donors (pi : α) (hpi : 0 < pi) (prov : Nat → Nat → α → α → α → α) (ne te nrec : α)
    (donors : List (Sp α)) (hr : ∀ d ∈ donors, 0 ≤ prov d.elem d.charge ne te d.temp)
    (hd : ∀ d ∈ donors, 0 ≤ d.dens) :
    0 ≤ emitted (thermalCXCall false false pi prov ne te nrec donors) := by
  rw [thermalCXCall_val]
  split_ifs with h
  · have h0 : 0 ≤ (donors.map (cxTerm false false prov ne te)).sum := by
      apply sum_map_nonneg
      intro d hdm
      unfold cxTerm
      simp only [Bool.false_and, Bool.or_self, Bool.false_eq_true, if_false]
      exact mul_nonneg (hd d hdm) (hr d hdm)
    have : 0 < 1 / (4 * pi) := by positivity
    have := h.2.2
    positivity
  · exact le_refl _

/-- **witness**: the unguarded model (explicit flags `false false`; the source before 0227355) emits a *negative* radiance for the composition
{receiver C6+ 2·10¹⁷, donor D0 −10¹⁶ at 3 eV}, n_e = 10¹⁹, T_e = 100 with a positive coefficient, whereas the
documented emission is 0.  Replayed on the real code by harness/props/c03.py (`run_cx_edges`). -/
theorem thermalcx_unguarded_negative_witness :
    let comp : List (Sp ℚ) := [⟨9, 6, 6, 200000000000000000, 60⟩, ⟨2, 1, 0, -10000000000000000, 3⟩]
    let prov : Nat → Nat → ℚ → ℚ → ℚ → ℚ := fun _ _ _ _ _ => 1
    (∃ v, thermalCXLine false false (3 : ℚ) prov comp 10000000000000000000 100 9 5 = some (some v) ∧ v < 0) ∧
    PassiveSpec.thermalCX (3 : ℚ) prov comp 10000000000000000000 100 9 5 = 0 ∧
    thermalCXLine true true (3 : ℚ) prov comp 10000000000000000000 100 9 5 = some (some 0) := by
  refine ⟨⟨_, rfl, ?_⟩, ?_, ?_⟩
  · norm_num [recip4pi, cxWeighted, cxDonors, cxEligible, isKey]
  · norm_num [PassiveSpec.thermalCX, PassiveSpec.sumOver, PassiveSpec.donorSum, PassiveSpec.donorOf]
  · norm_num [thermalCXLine, getSp, isKey, thermalCXCall, recip4pi, cxWeighted, cxDonors, cxEligible]

/-- linear in the receiver density -/
theorem thermalcx_linear_in_receiver (gd gt : Bool) (pi : α) (prov : Nat → Nat → α → α → α → α) (ne te nrec k : α)
    (hk : 0 < k) (donors : List (Sp α)) :
    emitted (thermalCXCall gd gt pi prov ne te (k * nrec) donors)
      = k * emitted (thermalCXCall gd gt pi prov ne te nrec donors) := by
  rw [thermalCXCall_val, thermalCXCall_val]
  have : 0 < k * nrec ↔ 0 < nrec := by
    constructor
    · intro h; by_contra hc; push Not at hc; nlinarith
    · intro h; positivity
  by_cases h : 0 < ne ∧ 0 < te ∧ 0 < nrec
  · rw [if_pos h, if_pos ⟨h.1, h.2.1, this.2 h.2.2⟩]; ring
  · rw [if_neg h, if_neg (fun hh => h ⟨hh.1, hh.2.1, this.1 hh.2.2⟩)]; ring

/-- scale one donor's density -/
def scaleDens (k : α) (s : Sp α) : Sp α := { s with dens := k * s.dens }

/-- linear in each donor density: the contribution of a donor scales with its density (`k > 0`) … -/
theorem thermalcx_linear_in_donor (gd gt : Bool) (prov : Nat → Nat → α → α → α → α) (ne te k : α) (hk : 0 < k)
    (d : Sp α) : cxTerm gd gt prov ne te (scaleDens k d) = k * cxTerm gd gt prov ne te d := by
  unfold cxTerm scaleDens
  have : k * d.dens ≤ 0 ↔ d.dens ≤ 0 := by
    constructor
    · intro h; by_contra hc; push Not at hc; nlinarith
    · intro h; nlinarith
  simp only [this]
  split_ifs <;> ring

/-- … and the weighted rate is the sum of the donors' contributions (each donor enters additively) -/
theorem thermalcx_additive_in_donors (gd gt : Bool) (prov : Nat → Nat → α → α → α → α) (ne te : α) (d : Sp α)
    (ds : List (Sp α)) :
    cxWeighted gd gt prov ne te (d :: ds) = cxTerm gd gt prov ne te d + cxWeighted gd gt prov ne te ds := by
  simp [cxWeighted_sum]

example : emitted (thermalCXCall (α := ℚ) true true 3 (fun _ _ _ _ td => td) 1 1 2 [⟨0, 1, 0, 5, 7⟩, ⟨1, 1, 0, -5, 7⟩])
    = 1 / 12 * 2 * 35 := by
  rw [thermalCXCall_val]; norm_num [cxTerm]

/-! ## TotalRadiatedPower -/

theorem trpTerm_val (rate : Option (α → α → α)) (ne te : α) (g : Bool) (a b acc : α) :
    trpTerm rate ne te g a b acc = acc + (if g = true then a * b * PassiveSpec.coeff rate ne te else 0) := by
  unfold trpTerm PassiveSpec.coeff
  cases rate with
  | none => simp
  | some r => by_cases hg : g = true <;> simp [hg] ; ring

/-- the accumulated power density is the documented three-term sum -/
theorem trpPower_eq_spec (plt prb prc : Option (α → α → α)) (ne te ni niUp nhyd : α) :
    trpPower plt prb prc ne te ni niUp nhyd = PassiveSpec.trpPowerDensity plt prb prc ne te ni niUp nhyd := by
  unfold trpPower PassiveSpec.trpPowerDensity
  simp only [trpTerm_val, zero_add, gt_iff_lt, decide_eq_true_eq, Bool.and_eq_true]
  congr 1
  · congr 1
    · split_ifs <;> ring
    · split_ifs <;> ring
  · split_ifs <;> ring

theorem trpNhyd_sum (hs : List (Sp α)) : trpNhyd hs = (hs.map fun s => s.dens).sum := by
  unfold trpNhyd; rw [foldl_add_sum]; simp

/-- `n_hyd` of the model: the neutrals of the listed elements -/
theorem trpNhyd_listed (comp : List (Sp α)) (hk : KeysNodup comp) (hyd : List Nat) (hn : hyd.Nodup) :
    trpNhyd (trpHydSpecies comp hyd)
      = PassiveSpec.sumOver comp (fun s => if s.charge = 0 ∧ s.elem ∈ hyd then s.dens else 0) := by
  rw [trpNhyd_sum]
  unfold trpHydSpecies
  induction hyd with
  | nil => simp [PassiveSpec.sumOver]
  | cons h t ih =>
    have hn' : t.Nodup := (List.nodup_cons.1 hn).2
    have hnot : h ∉ t := (List.nodup_cons.1 hn).1
    have hsplit : PassiveSpec.sumOver comp (fun s => if s.charge = 0 ∧ s.elem ∈ h :: t then s.dens else 0)
        = PassiveSpec.sumOver comp (fun s => if s.elem = h ∧ s.charge = 0 then s.dens else 0)
          + PassiveSpec.sumOver comp (fun s => if s.charge = 0 ∧ s.elem ∈ t then s.dens else 0) := by
      unfold PassiveSpec.sumOver
      rw [← List.sum_map_add]
      apply sum_map_congr
      intro s _
      by_cases h0 : s.charge = 0 <;> by_cases h1 : s.elem = h <;> by_cases h2 : s.elem ∈ t
      · exact absurd (h1 ▸ h2) hnot
      · simp [h0, h1, hnot]
      · simp [h0, h1, h2]
      · simp [h0, h1, h2]
      · simp [h0]
      · simp [h0]
      · simp [h0]
      · simp [h0]
    rw [hsplit, sumOver_key comp hk, ← ih hn']
    cases hg : getSp comp h 0 with
    | none => simp [hg]
    | some s => simp [hg]

/-- every hydrogen-isotope neutral of the composition is one of the elements the code looks up, and those are
hydrogen isotopes -/
def HydNeutralsListed (comp : List (Sp α)) (hyd : List Nat) : Prop :=
  ∀ s ∈ comp, s.charge = 0 → (s.elem ∈ hyd ↔ s.z = 1)

theorem trpNhyd_eq_spec (comp : List (Sp α)) (hk : KeysNodup comp) (hyd : List Nat) (hn : hyd.Nodup)
    (hl : HydNeutralsListed comp hyd) : trpNhyd (trpHydSpecies comp hyd) = PassiveSpec.nHyd comp := by
  rw [trpNhyd_listed comp hk hyd hn]
  unfold PassiveSpec.nHyd PassiveSpec.sumOver
  apply sum_map_congr
  intro s hs
  by_cases h0 : s.charge = 0
  · have := hl s hs h0
    by_cases h1 : s.z = 1
    · simp [h0, h1, this.2 h1]
    · have : s.elem ∉ hyd := fun hm => h1 (this.1 hm)
      simp [h0, h1, this]
  · simp [h0]

theorem trpCall_val (pi : α) (plt prb prc : Option (α → α → α)) (ne te ni niUp nhyd mn mx : α) :
    emitted (trpCall pi plt prb prc ne te ni niUp nhyd mn mx)
      = if 0 < ne ∧ 0 < te then
          1 / (4 * pi * (mx - mn)) * PassiveSpec.trpPowerDensity plt prb prc ne te ni niUp nhyd
        else 0 := by
  unfold trpCall emitted recip4pi
  have h4 : (4.0 : α) = 4 := by norm_num
  rw [h4, trpPower_eq_spec]
  by_cases h1 : ne ≤ 0
  · simp [h1, not_lt.mpr h1]
  · by_cases h2 : te ≤ 0
    · simp [h1, h2, not_lt.mpr h2]
    · simp only [h1, h2, if_false, Option.getD_some, not_le.mp h1, not_le.mp h2, and_self, if_true]
      have hinv : (4 * pi * (mx - mn))⁻¹ = (4 * pi)⁻¹ * (mx - mn)⁻¹ := mul_inv _ _
      simp only [div_eq_mul_inv, hinv]; ring

theorem densOf_val (comp : List (Sp α)) (hk : KeysNodup comp) (e c : Nat) :
    PassiveSpec.densOf comp e c = (getSp comp e c).elim 0 (fun s => s.dens) := by
  unfold PassiveSpec.densOf; exact sumOver_key comp hk e c _

/-- total radiated power for an *explicit* tuple `hyd` of looked-up elements: model = documented expression on every
composition whose hydrogen-isotope neutrals are among `hyd` (lemma behind `trp_eq_spec_current_source`; with
`hyd = [hydrogen, deuterium, tritium]` a protium neutral falls outside — `trp_unlisted_isotope_witness`) -/
theorem trp_eq_spec_of_listed (pi : α) (prov : Nat → Nat → Nat → Option (α → α → α)) (hyd : List Nat) (hn : hyd.Nodup)
    (comp : List (Sp α)) (hk : KeysNodup comp) (hl : HydNeutralsListed comp hyd) (ne te mn mx : α) (e c : Nat)
    (r : Option α) (h : totalRadiatedPower pi prov hyd comp ne te mn mx e c = some r) :
    emitted r = PassiveSpec.totalRadiatedPower pi prov comp ne te mn mx e c := by
  unfold PassiveSpec.totalRadiatedPower
  have h4 : (4.0 : α) = 4 := by norm_num
  rw [h4, densOf_val comp hk, densOf_val comp hk]
  unfold totalRadiatedPower at h
  cases h1 : getSp comp e c with
  | none => rw [h1] at h; cases h
  | some s =>
    cases h2 : getSp comp e (c + 1) with
    | none => rw [h1, h2] at h; cases h
    | some su =>
      rw [h1, h2] at h; cases h
      rw [trpCall_val, trpNhyd_eq_spec comp hk hyd hn hl]
      rfl

/-- the composition is made of elements / isotopes of cherab's registry and `z` is the registry's atomic number of
`elem` (`Gen.PassiveFlags.registryZ`, regenerated from `elements.pyx`: all 374 elements and isotopes) -/
def OverRegistry (comp : List (Sp α)) : Prop := ∀ s ∈ comp, Gen.PassiveFlags.registryZ[s.elem]? = some s.z

/-- the tuple read from `total_radiated_power.pyx` on this run is *exactly* the set of registry entries with atomic
number 1 (hydrogen, protium, deuterium, tritium).  Fails to build if an isotope is dropped from the tuple. -/
theorem trp_hydrogen_tuple_complete :
    ∀ i, i < Gen.PassiveFlags.registryZ.length →
      (i ∈ Gen.PassiveFlags.trpHydrogenIds ↔ Gen.PassiveFlags.registryZ[i]? = some 1) := by
  have hall : (List.range Gen.PassiveFlags.registryZ.length).all (fun i =>
      decide (i ∈ Gen.PassiveFlags.trpHydrogenIds) == decide (Gen.PassiveFlags.registryZ[i]? = some 1)) = true := by
    decide +kernel
  intro i hi
  have := List.all_eq_true.1 hall i (List.mem_range.2 hi)
  simpa using this

theorem listed_of_registry (comp : List (Sp α)) (hr : OverRegistry comp) :
    HydNeutralsListed comp Gen.PassiveFlags.trpHydrogenIds := by
  intro s hs _
  have hz := hr s hs
  have hlt : s.elem < Gen.PassiveFlags.registryZ.length := by
    by_contra hc
    rw [List.getElem?_eq_none (by omega)] at hz
    cases hz
  rw [trp_hydrogen_tuple_complete s.elem hlt, hz]
  constructor
  · intro h; exact Option.some.inj h
  · intro h; rw [h]

/-- **total radiated power, current source, full strength**: for the tuple of hydrogen elements read from
`total_radiated_power.pyx` the model equals the documented expression (n_hyd = every neutral of atomic number 1) for
every composition over the element registry — any number of species, any isotopes, any densities -/
theorem trp_eq_spec_current_source (pi : α) (prov : Nat → Nat → Nat → Option (α → α → α))
    (comp : List (Sp α)) (hk : KeysNodup comp) (hr : OverRegistry comp)
    (ne te mn mx : α) (e c : Nat) (r : Option α)
    (h : totalRadiatedPower pi prov Gen.PassiveFlags.trpHydrogenIds comp ne te mn mx e c = some r) :
    emitted r = PassiveSpec.totalRadiatedPower pi prov comp ne te mn mx e c :=
  trp_eq_spec_of_listed pi prov _ (by decide) comp hk (listed_of_registry comp hr) ne te mn mx e c r h

/-- **witness** (`hyd = [hydrogen, deuterium, tritium]` = ids 0, 2, 3, an *explicit* tuple: the source before 894b08b): nitrogen 6+/7+ with a
*protium* neutral (id 1, Z = 1): the documented CX power is positive, the model emits nothing. -/
theorem trp_unlisted_isotope_witness :
    let comp : List (Sp ℚ) := [⟨10, 7, 6, 0, 1⟩, ⟨10, 7, 7, 100, 10⟩, ⟨1, 1, 0, 10, 5⟩]
    let prov : Nat → Nat → Nat → Option (ℚ → ℚ → ℚ) := fun _ _ _ => some (fun _ _ => 1)
    totalRadiatedPower (3 : ℚ) prov [0, 2, 3] comp 1 1 0 1 10 6 = some (some (1 / 12 * 100)) ∧
    PassiveSpec.totalRadiatedPower (3 : ℚ) prov comp 1 1 0 1 10 6 = 1 / 12 * (100 + 100 * 10) := by
  constructor
  · norm_num [totalRadiatedPower, getSp, isKey, trpCall, trpPower, trpTerm, trpNhyd, trpHydSpecies, recip4pi]
  · norm_num [PassiveSpec.totalRadiatedPower, PassiveSpec.trpPowerDensity, PassiveSpec.densOf, PassiveSpec.nHyd,
      PassiveSpec.sumOver, PassiveSpec.coeff]

theorem sum_map_add_const (l : List α) (v : α) : (l.map (· + v)).sum = l.sum + l.length * v := by
  induction l with
  | nil => simp
  | cons x t ih => simp [ih]; ring

/-- **spread uniformly over the window**: every bin receives the same increment and
Σ_bins increment · Δλ = P / 4π, whatever the number of bins and the window (`Δλ = (max − min)/bins`) -/
theorem trp_integral (pi : α) (plt prb prc : Option (α → α → α)) (ne te ni niUp nhyd mn mx : α)
    (hne : 0 < ne) (hte : 0 < te) (hpi : pi ≠ 0) (hw : mx ≠ mn) (samples : List α) (hb : samples.length ≠ 0) :
    ((addToBins samples (trpCall pi plt prb prc ne te ni niUp nhyd mn mx)).sum - samples.sum)
        * ((mx - mn) / samples.length)
      = 1 / (4 * pi) * PassiveSpec.trpPowerDensity plt prb prc ne te ni niUp nhyd := by
  have hv := trpCall_val pi plt prb prc ne te ni niUp nhyd mn mx
  rw [if_pos ⟨hne, hte⟩] at hv
  cases hc : trpCall pi plt prb prc ne te ni niUp nhyd mn mx with
  | none =>
    unfold trpCall at hc
    simp [not_le.mpr hne, not_le.mpr hte] at hc
  | some v =>
    rw [hc] at hv
    simp only [emitted, Option.getD_some] at hv
    simp only [addToBins]
    rw [sum_map_add_const, hv]
    have hl : (samples.length : α) ≠ 0 := by exact_mod_cast hb
    have hw' : mx - mn ≠ 0 := sub_ne_zero.mpr hw
    field_simp
    ring

theorem trp_zero_guards (pi : α) (plt prb prc : Option (α → α → α)) (ne te ni niUp nhyd mn mx : α) :
    ((ne ≤ 0 ∨ te ≤ 0) → trpCall pi plt prb prc ne te ni niUp nhyd mn mx = none) ∧
    (ni ≤ 0 → niUp ≤ 0 → trpPower plt prb prc ne te ni niUp nhyd = 0) ∧
    (ni ≤ 0 → trpPower plt prb prc ne te ni niUp nhyd = trpPower none prb prc ne te ni niUp nhyd) ∧
    (niUp ≤ 0 → trpPower plt prb prc ne te ni niUp nhyd = trpPower plt none none ne te ni niUp nhyd) ∧
    (nhyd ≤ 0 → trpPower plt prb prc ne te ni niUp nhyd = trpPower plt prb none ne te ni niUp nhyd) := by
  refine ⟨?_, ?_, ?_, ?_, ?_⟩
  · intro h; unfold trpCall; rcases h with h | h <;> simp [h]
  · intro h1 h2; simp [trpPower_eq_spec, PassiveSpec.trpPowerDensity, not_lt.mpr h1, not_lt.mpr h2]
  · intro h1; simp [trpPower_eq_spec, PassiveSpec.trpPowerDensity, not_lt.mpr h1]
  · intro h2; simp [trpPower_eq_spec, PassiveSpec.trpPowerDensity, not_lt.mpr h2, PassiveSpec.coeff]
  · intro h3; simp [trpPower_eq_spec, PassiveSpec.trpPowerDensity, not_lt.mpr h3, PassiveSpec.coeff]

theorem trp_nonneg (pi : α) (hpi : 0 < pi) (plt prb prc : Option (α → α → α)) (ne te ni niUp nhyd mn mx : α)
    (hw : mn < mx) (h0 : 0 ≤ PassiveSpec.coeff plt ne te) (h1 : 0 ≤ PassiveSpec.coeff prb ne te)
    (h2 : 0 ≤ PassiveSpec.coeff prc ne te) :
    0 ≤ emitted (trpCall pi plt prb prc ne te ni niUp nhyd mn mx) := by
  rw [trpCall_val]
  split_ifs with h
  · have hw' : 0 < mx - mn := sub_pos.mpr hw
    have hp : 0 ≤ PassiveSpec.trpPowerDensity plt prb prc ne te ni niUp nhyd := by
      unfold PassiveSpec.trpPowerDensity
      have := h.1
      refine add_nonneg (add_nonneg ?_ ?_) ?_
      · split_ifs <;> [positivity; exact le_refl _]
      · split_ifs <;> [positivity; exact le_refl _]
      · split_ifs with hh
        · have := hh.1; have := hh.2; positivity
        · exact le_refl _
    positivity
  · exact le_refl _

/-- linear in each of the three densities it involves (each scales its own terms) -/
theorem trp_linear_in_density (plt prb prc : Option (α → α → α)) (ne te ni niUp nhyd k : α) (hk : 0 < k) :
    PassiveSpec.trpPowerDensity plt none none ne te (k * ni) niUp nhyd
        = k * PassiveSpec.trpPowerDensity plt none none ne te ni niUp nhyd ∧
    PassiveSpec.trpPowerDensity none prb prc ne te ni (k * niUp) nhyd
        = k * PassiveSpec.trpPowerDensity none prb prc ne te ni niUp nhyd ∧
    PassiveSpec.trpPowerDensity none none prc ne te ni niUp (k * nhyd)
        = k * PassiveSpec.trpPowerDensity none none prc ne te ni niUp nhyd := by
  have hpos : ∀ x : α, 0 < k * x ↔ 0 < x := by
    intro x; constructor
    · intro h; by_contra hc; push Not at hc; nlinarith
    · intro h; positivity
  unfold PassiveSpec.trpPowerDensity PassiveSpec.coeff
  simp only [hpos]
  refine ⟨?_, ?_, ?_⟩ <;> split_ifs <;> ring

/-- the full power is the sum of the three single-process powers -/
theorem trp_three_terms (plt prb prc : Option (α → α → α)) (ne te ni niUp nhyd : α) :
    PassiveSpec.trpPowerDensity plt prb prc ne te ni niUp nhyd
      = PassiveSpec.trpPowerDensity plt none none ne te ni niUp nhyd
        + PassiveSpec.trpPowerDensity none prb none ne te ni niUp nhyd
        + PassiveSpec.trpPowerDensity none none prc ne te ni niUp nhyd := by
  unfold PassiveSpec.trpPowerDensity PassiveSpec.coeff
  split_ifs <;> ring

example : emitted (trpCall (α := ℚ) 3 (some fun _ _ => 2) (some fun _ _ => 3) (some fun _ _ => 5) 1 1 7 11 13 0 10)
    = 1 / (4 * 3 * 10) * (7 * 1 * 2 + 11 * 1 * 3 + 11 * 13 * 5) := by
  rw [trpCall_val]; norm_num [PassiveSpec.trpPowerDensity, PassiveSpec.coeff]

/-! ## Bremsstrahlung -/

/-- contribution of one cached (charge, density) pair -/
def bremsTerm (gaunt : α → α → α → α) (te wvl : α) (p : α × α) : α :=
  if p.2 > 0 then p.2 * gaunt p.1 te wvl * p.1 * p.1 else 0

theorem bremsSum_sum (gaunt : α → α → α → α) (te wvl : α) (charges dens : List α) :
    bremsSum gaunt te wvl charges dens = ((charges.zip dens).map (bremsTerm gaunt te wvl)).sum := by
  unfold bremsSum
  have : (fun (acc : α) (p : α × α) => if p.2 > 0 then acc + p.2 * gaunt p.1 te wvl * p.1 * p.1 else acc)
      = fun acc p => acc + bremsTerm gaunt te wvl p := by
    funext acc p; unfold bremsTerm; split_ifs <;> simp
  rw [this, foldl_add_sum]; simp

/-- the cached charge array and the density array filled at every call are aligned: the sum runs over the charged
species, and — because the neutral terms carry `Z² = 0` — equals the documented sum over *all* species -/
theorem bremsSum_composition (gaunt : α → α → α → α) (te wvl : α) (comp : List (Sp α)) :
    bremsSum gaunt te wvl (bremsCharges comp) (bremsDensities comp)
      = PassiveSpec.sumOver comp (fun s =>
          if 0 < s.dens then s.dens * gaunt (s.charge : α) te wvl * ((s.charge : α) * (s.charge : α)) else 0) := by
  rw [bremsSum_sum]
  unfold bremsCharges bremsDensities PassiveSpec.sumOver
  rw [List.zip_map', List.map_map, sum_filter_ite]
  apply sum_map_congr
  intro s _
  simp only [Function.comp, bremsTerm, gt_iff_lt, decide_eq_true_eq]
  by_cases hc : 0 < s.charge
  · rw [if_pos hc]; split_ifs <;> ring
  · have : s.charge = 0 := by omega
    rw [if_neg hc, this]; simp

/-- `sqrt` as a parameter: non-negative square root on non-negative arguments -/
def SqrtSpec (sqrt : α → α) : Prop := ∀ x : α, 0 ≤ x → 0 ≤ sqrt x ∧ sqrt x * sqrt x = x

theorem sqrt_div (sqrt : α → α) (hs : SqrtSpec sqrt) (a b : α) (ha : 0 ≤ a) (hb : 0 < b) :
    sqrt (a / b) = sqrt a / sqrt b := by
  obtain ⟨h1, h2⟩ := hs a ha
  obtain ⟨h3, h4⟩ := hs b hb.le
  obtain ⟨h5, h6⟩ := hs (a / b) (div_nonneg ha hb.le)
  have hsb : 0 < sqrt b := by
    rcases h3.lt_or_eq with h | h
    · exact h
    · rw [← h] at h4; simp at h4; exact absurd h4.symm hb.ne'
  have hq : 0 ≤ sqrt a / sqrt b := div_nonneg h1 hsb.le
  have hsq : (sqrt a / sqrt b) * (sqrt a / sqrt b) = a / b := by
    rw [div_mul_div_comm, h2, h4]
  have : (sqrt (a / b) - sqrt a / sqrt b) * (sqrt (a / b) + sqrt a / sqrt b) = 0 := by
    ring_nf; ring_nf at h6 hsq; rw [h6, hsq]; ring
  rcases mul_eq_zero.1 this with h | h
  · exact sub_eq_zero.1 h
  · have : sqrt (a / b) = 0 ∧ sqrt a / sqrt b = 0 := by
      constructor <;> linarith
    rw [this.1, this.2]

/-- **the module constant**: the four-step product equals the closed form of the docstring / Hutchinson -/
theorem brems_const_closed_form (sqrt : α → α) (pi e eps0 me c : α) :
    bremsConst sqrt pi e eps0 me c
      = (e ^ 2 / (4 * pi * eps0)) ^ 3 * (32 * pi ^ 2 / (3 * sqrt 3 * me ^ 2 * c ^ 3)) * sqrt (2 * me / (pi * e))
          * (1000000000 * c / (4 * pi)) := by
  unfold bremsConst recip4pi
  have h4 : (4.0 : α) = 4 := by norm_num
  have h32 : (32.0 : α) = 32 := by norm_num
  have h3 : (3.0 : α) = 3 := by norm_num
  have h2 : (2.0 : α) = 2 := by norm_num
  have h9 : (1e9 : α) = 1000000000 := by norm_num
  simp only [h4, h32, h3, h2, h9]
  have hinv : (4 * pi * eps0)⁻¹ = (4 * pi)⁻¹ * eps0⁻¹ := mul_inv _ _
  simp only [div_eq_mul_inv, one_mul, hinv]
  ring

theorem exp_factor_closed_form (h c e : α) : expFactor h c e = 1000000000 * h * c / e := by
  unfold expFactor
  have h9 : (1e9 : α) = 1000000000 := by norm_num
  rw [h9]; ring

theorem brems_const_pos (sqrt : α → α) (hs : ∀ x : α, 0 < x → 0 < sqrt x) (pi e eps0 me c : α)
    (hpi : 0 < pi) (he : 0 < e) (heps : 0 < eps0) (hme : 0 < me) (hc : 0 < c) :
    0 < bremsConst sqrt pi e eps0 me c := by
  rw [brems_const_closed_form]
  have h3 : 0 < sqrt 3 := hs 3 (by norm_num)
  have h2 : 0 < sqrt (2 * me / (pi * e)) := hs _ (by positivity)
  positivity

/-- **bremsstrahlung function = Hutchinson (5.3.40) in wavelength form**, for every composition (neutrals, bare nuclei,
non-positive densities included), `T_e > 0`, `λ > 0` -/
theorem brems_eq_spec (sqrt exp : α → α) (hs : SqrtSpec sqrt) (pi e eps0 me c h : α)
    (hpi : 0 < pi) (he : 0 < e) (heps : eps0 ≠ 0) (hme : 0 < me) (hc : c ≠ 0)
    (gaunt : α → α → α → α) (comp : List (Sp α)) (ne te wvl : α) (hte : 0 < te) (hw : wvl ≠ 0) :
    bremsFunction sqrt exp (bremsConst sqrt pi e eps0 me c) (expFactor h c e) gaunt ne te
        (bremsCharges comp) (bremsDensities comp) wvl
      = PassiveSpec.bremsstrahlung sqrt exp pi e eps0 me c h gaunt comp ne te wvl := by
  unfold bremsFunction PassiveSpec.bremsstrahlung
  rw [bremsSum_composition, brems_const_closed_form, exp_factor_closed_form]
  have h4 : (4.0 : α) = 4 := by norm_num
  have h32 : (32.0 : α) = 32 := by norm_num
  have h3 : (3.0 : α) = 3 := by norm_num
  have h2 : (2.0 : α) = 2 := by norm_num
  have h9 : (1e9 : α) = 1000000000 := by norm_num
  simp only [h4, h32, h3, h2, h9]
  have hexp : -(1000000000 * h * c / e) / (te * wvl) = -(1000000000 * h * c / (e * te * wvl)) := by
    field_simp
  have hsq : sqrt (2 * me / (pi * e * te)) = sqrt (2 * me / (pi * e)) / sqrt te := by
    have : 2 * me / (pi * e * te) = (2 * me / (pi * e)) / te := by field_simp
    rw [this, sqrt_div sqrt hs _ _ (by positivity) hte]
  rw [hexp, hsq]
  have hst : sqrt te ≠ 0 := by
    obtain ⟨h1, h2'⟩ := hs te hte.le
    intro h0; rw [h0] at h2'; simp at h2'; exact hte.ne' h2'.symm
  have hinv1 : (4 * pi * eps0)⁻¹ = (4 * pi)⁻¹ * eps0⁻¹ := mul_inv _ _
  have hinv2 : (sqrt te * wvl * wvl)⁻¹ = (sqrt te)⁻¹ * wvl⁻¹ * wvl⁻¹ := by rw [mul_inv, mul_inv]
  have hinv3 : (4 * pi * (wvl * wvl))⁻¹ = (4 * pi)⁻¹ * wvl⁻¹ * wvl⁻¹ := by rw [mul_inv, mul_inv]; ring
  simp only [div_eq_mul_inv, hinv1, hinv2, hinv3]
  ring

/-- emission is switched off by `n_e ≤ 0` or `T_e ≤ 0`; a species of non-positive density contributes nothing -/
theorem brems_zero_guards (sqrt exp : α → α) (bc ef : α) (gaunt : α → α → α → α)
    (integ : (α → α) → α → α → α) (comp : List (Sp α)) (ne te mn delta : α) (bins : Nat) (te' wvl z n : α) :
    ((ne ≤ 0 ∨ te ≤ 0) → bremsEmission sqrt exp bc ef gaunt integ comp ne te mn delta bins = none) ∧
    (n ≤ 0 → bremsTerm gaunt te' wvl (z, n) = 0) := by
  constructor
  · intro h; unfold bremsEmission; rcases h with h | h <;> simp [h]
  · intro h; unfold bremsTerm; simp [not_lt.mpr h]

theorem bremsSum_nonneg (gaunt : α → α → α → α) (hg : ∀ z t w, 0 ≤ gaunt z t w) (te wvl : α) (charges dens : List α) :
    0 ≤ bremsSum gaunt te wvl charges dens := by
  rw [bremsSum_sum]
  apply sum_map_nonneg
  intro p _
  unfold bremsTerm
  split_ifs with h
  · have : 0 ≤ p.1 * p.1 := mul_self_nonneg _
    have h1 : 0 ≤ p.2 * gaunt p.1 te wvl := mul_nonneg (le_of_lt h) (hg _ _ _)
    calc 0 ≤ (p.2 * gaunt p.1 te wvl) * (p.1 * p.1) := mul_nonneg h1 this
      _ = p.2 * gaunt p.1 te wvl * p.1 * p.1 := by ring
  · exact le_refl _

/-- never negative for a non-negative Gaunt factor (any charges, any densities) -/
theorem brems_nonneg (sqrt exp : α → α) (hsq : ∀ x : α, 0 < x → 0 < sqrt x) (hexp : ∀ x : α, 0 < exp x) (bc ef : α)
    (hbc : 0 ≤ bc) (gaunt : α → α → α → α) (hg : ∀ z t w, 0 ≤ gaunt z t w) (ne te : α) (hne : 0 ≤ ne) (hte : 0 < te)
    (charges dens : List α) (wvl : α) :
    0 ≤ bremsFunction sqrt exp bc ef gaunt ne te charges dens wvl := by
  unfold bremsFunction
  have h1 := bremsSum_nonneg gaunt hg te wvl charges dens
  have h2 := hsq te hte
  have h3 := hexp (-ef / (te * wvl))
  have h4 : 0 ≤ sqrt te * wvl * wvl := by
    have : 0 ≤ wvl * wvl := mul_self_nonneg _
    calc 0 ≤ sqrt te * (wvl * wvl) := mul_nonneg h2.le this
      _ = sqrt te * wvl * wvl := by ring
  have h5 : 0 ≤ bc / (sqrt te * wvl * wvl) := div_nonneg hbc h4
  exact mul_nonneg (mul_nonneg (mul_nonneg h5 hne) h1) h3.le

/-- linear in every ion density: a species' term scales with its density, and the sum is additive over species -/
theorem brems_linear_in_density (gaunt : α → α → α → α) (te wvl z n k : α) (hk : 0 < k) (zs ns : List α) :
    bremsTerm gaunt te wvl (z, k * n) = k * bremsTerm gaunt te wvl (z, n) ∧
    bremsSum gaunt te wvl (z :: zs) (n :: ns) = bremsTerm gaunt te wvl (z, n) + bremsSum gaunt te wvl zs ns := by
  constructor
  · unfold bremsTerm
    have : k * n > 0 ↔ n > 0 := by
      constructor
      · intro h; by_contra hc; push Not at hc; nlinarith
      · intro h; positivity
    simp only [this]; split_ifs <;> ring
  · simp [bremsSum_sum]

/-- … and the whole function is linear in the electron density -/
theorem brems_linear_in_ne (sqrt exp : α → α) (bc ef : α) (gaunt : α → α → α → α) (ne te k : α)
    (charges dens : List α) (wvl : α) :
    bremsFunction sqrt exp bc ef gaunt (k * ne) te charges dens wvl
      = k * bremsFunction sqrt exp bc ef gaunt ne te charges dens wvl := by
  unfold bremsFunction; ring

/-! ### the bin loop -/

theorem bremsBins_map (integ : α → α → α) (mn delta : α) (k i : Nat) (lower : α) :
    bremsBinsFrom integ mn delta k i lower
      = (bremsEdgesFrom mn delta k i lower).map (fun ab => integ ab.1 ab.2 / delta) := by
  induction k generalizing i lower with
  | zero => rfl
  | succ k ih => simp [bremsBinsFrom, bremsEdgesFrom, ih]

/-- **bin edges**: the j-th call of the integrator covers `[min + jΔ, min + (j+1)Δ]` (the running lower limit is the
previous upper limit; the first is `min` itself) -/
theorem brems_bins_edges (mn delta : α) (k i : Nat) (j : Nat) (hj : j < k) :
    (bremsEdgesFrom mn delta k i (mn + delta * (i : α)))[j]?
      = some (mn + delta * ((i + j : Nat) : α), mn + delta * ((i + j + 1 : Nat) : α)) := by
  induction k generalizing i j with
  | zero => omega
  | succ k ih =>
    cases j with
    | zero => simp [bremsEdgesFrom]
    | succ j =>
      simp only [bremsEdgesFrom, List.getElem?_cons_succ]
      rw [ih (i + 1) j (by omega)]
      have : i + 1 + j = i + (j + 1) := by omega
      rw [this]

theorem bremsBinsFrom_length (integ : α → α → α) (mn delta : α) (k i : Nat) (lower : α) :
    (bremsBinsFrom integ mn delta k i lower).length = k := by
  induction k generalizing i lower with
  | zero => rfl
  | succ k ih => simp [bremsBinsFrom, ih]

/-- one increment per spectral bin -/
theorem brems_bins_length (integ : α → α → α) (mn delta : α) (bins : Nat) :
    (bremsBins integ mn delta bins).length = bins := bremsBinsFrom_length integ mn delta bins 0 mn

/-- an integrator that is additive over adjacent intervals (true of the exact integral) -/
def Additive (integ : α → α → α) : Prop := ∀ a b c : α, integ a b + integ b c = integ a c

theorem bremsBinsFrom_total (integ : α → α → α) (ha : Additive integ) (mn delta : α) (hd : delta ≠ 0) (k i : Nat) :
    (bremsBinsFrom integ mn delta k i (mn + delta * (i : α))).sum * delta
      = integ (mn + delta * (i : α)) (mn + delta * ((i + k : Nat) : α)) := by
  induction k generalizing i with
  | zero =>
    have h0 : integ (mn + delta * (i : α)) (mn + delta * (i : α)) = 0 := by
      have := ha (mn + delta * (i : α)) (mn + delta * (i : α)) (mn + delta * (i : α))
      linarith
    simp [bremsBinsFrom, h0]
  | succ k ih =>
    simp only [bremsBinsFrom, List.sum_cons, add_mul]
    rw [ih (i + 1), div_mul_cancel₀ _ hd, ha]
    have : i + 1 + k = i + (k + 1) := by omega
    rw [this]

/-- **bin average**: with an exact (additive) integrator the increments, weighted by the bin width, add up to the
integral of the documented spectrum over the whole window `[min, min + bins·Δ]`; each is the bin average -/
theorem brems_bins_total (integ : α → α → α) (ha : Additive integ) (mn delta : α) (hd : delta ≠ 0) (bins : Nat) :
    (bremsBins integ mn delta bins).sum * delta = integ mn (mn + delta * (bins : α)) := by
  have := bremsBinsFrom_total integ ha mn delta hd bins 0
  simp only [Nat.cast_zero, mul_zero, add_zero, zero_add] at this
  exact this

theorem brems_bin_is_average (integ : α → α → α) (mn delta : α) (bins j : Nat) (hj : j < bins) :
    (bremsBins integ mn delta bins)[j]?
      = some (integ (mn + delta * (j : α)) (mn + delta * ((j + 1 : Nat) : α)) / delta) := by
  unfold bremsBins
  rw [bremsBins_map]
  have h := brems_bins_edges mn delta bins 0 j hj
  simp only [Nat.cast_zero, mul_zero, add_zero, zero_add] at h
  rw [List.getElem?_map, h]; rfl

/-! ## GaussianQuadrature (the default per-bin integrator) -/

theorem gqOrder_const (kc c d : α) (rule : List (α × α)) (hw : (rule.map Prod.snd).sum = 2) :
    gqOrder (fun _ => kc) c d rule = kc * (2 * d) := by
  unfold gqOrder
  rw [foldl_add_sum]
  have : (rule.map fun xw => xw.2 * kc).sum = kc * (rule.map Prod.snd).sum := by
    rw [← sum_map_mul_left]; apply sum_map_congr; intro s _; ring
  rw [this, hw]; ring

theorem gqLoop_const (kc c d rtol : α) (rules : List (List (α × α)))
    (hw : ∀ r ∈ rules, (r.map Prod.snd).sum = 2) (old : Option α) (last : α) (hl : rules = [] → last = kc * (2 * d)) :
    gqLoop (fun _ => kc) c d rtol rules old last = kc * (2 * d) := by
  induction rules generalizing old last with
  | nil => simp [gqLoop, hl]
  | cons r rs ih =>
    have hr := gqOrder_const kc c d r (hw r (by simp))
    simp only [gqLoop, hr]
    split_ifs
    · rfl
    · exact ih (fun r' hr' => hw r' (by simp [hr'])) _ _ (fun _ => rfl)

/-- a spectrum that is constant over the bin is integrated exactly, whatever the stopping rule does: the bin average
of a flat emissivity is that emissivity (rules whose weights sum to 2, as all Gauss–Legendre rules do) -/
theorem gauss_quad_const_exact (kc a b rtol : α) (rules : List (List (α × α))) (hne : rules ≠ [])
    (hw : ∀ r ∈ rules, (r.map Prod.snd).sum = 2) :
    gaussQuad rules rtol (fun _ => kc) a b = kc * (b - a) := by
  unfold gaussQuad
  rw [gqLoop_const kc _ _ rtol rules hw none 0 (fun h => absurd h hne)]
  have h5 : (0.5 : α) = 1 / 2 := by norm_num
  rw [h5]; ring

/-- the first order is never accepted on its own (`oldval = INFINITY`): with two or more rules at least two are evaluated -/
theorem gauss_quad_first_not_accepted (f : α → α) (c d rtol : α) (r1 r2 : List (α × α)) (rs : List (List (α × α))) (last : α) :
    gqLoop f c d rtol (r1 :: r2 :: rs) none last
      = gqLoop f c d rtol (r2 :: rs) (some (gqOrder f c d r1)) (gqOrder f c d r1) := by
  simp [gqLoop]

/-! ## Free-free Gaunt factor: branch logic of `InterpolatedFreeFreeGauntFactor.evaluate` -/

theorem gaunt_branches (sqrt log log10 : α → α) (interp : α → α → α)
    (pi euler ryd ph umin umax g2min g2max z te wvl : α) :
    gauntFactor sqrt log log10 interp pi euler ryd ph umin umax g2min g2max z te wvl
      = match gauntBranch ryd ph umin umax g2min g2max z te wvl with
        | 0 => 0
        | 1 => 1
        | 2 => sqrt 3 / pi * (log (4 / (ph / (te * wvl))) - euler)
        | _ => interp (log10 (ph / (te * wvl))) (log10 (z * z * ryd / te)) := by
  unfold gauntFactor gauntBranch
  have h3 : (3.0 : α) = 3 := by norm_num
  have h4 : (4.0 : α) = 4 := by norm_num
  simp only [h3, h4]
  split_ifs <;> rfl

theorem gaunt_zero_charge (ryd ph umin umax g2min g2max te wvl : α) :
    gauntBranch ryd ph umin umax g2min g2max 0 te wvl = 0 := by
  simp [gauntBranch]

/-- classical limit above the table, Born approximation below it, table only strictly inside its range: the
interpolator is never asked to extrapolate -/
theorem gaunt_branch_conditions (ryd ph umin umax g2min g2max z te wvl : α) (hz : z ≠ 0) :
    let u := ph / (te * wvl)
    let g2 := z * z * ryd / te
    (gauntBranch ryd ph umin umax g2min g2max z te wvl = 1 ↔ (umax ≤ u ∨ g2max ≤ g2)) ∧
    (gauntBranch ryd ph umin umax g2min g2max z te wvl = 2 ↔ (u < umax ∧ g2 < g2max) ∧ (u < umin ∨ g2 < g2min)) ∧
    (gauntBranch ryd ph umin umax g2min g2max z te wvl = 3 ↔ (umin ≤ u ∧ u < umax) ∧ (g2min ≤ g2 ∧ g2 < g2max)) := by
  intro u g2
  unfold gauntBranch
  simp only [beq_iff_eq, hz, if_false, ge_iff_le, Bool.or_eq_true, decide_eq_true_eq]
  by_cases h1 : umax ≤ u ∨ g2max ≤ g2
  · have h1c : umax ≤ ph / (te * wvl) ∨ g2max ≤ z * z * ryd / te := h1
    simp only [h1c, if_true]
    refine ⟨by simp [h1], ?_, ?_⟩
    · constructor
      · intro h; cases h
      · intro h; rcases h1 with h1 | h1
        · exact absurd h.1.1 (not_lt.mpr h1)
        · exact absurd h.1.2 (not_lt.mpr h1)
    · constructor
      · intro h; cases h
      · intro h; rcases h1 with h1 | h1
        · exact absurd h.1.2 (not_lt.mpr h1)
        · exact absurd h.2.2 (not_lt.mpr h1)
  · have h1c : ¬(umax ≤ ph / (te * wvl) ∨ g2max ≤ z * z * ryd / te) := h1
    simp only [h1c, if_false]
    have h1' := h1
    push Not at h1'
    by_cases h2 : u < umin ∨ g2 < g2min
    · have h2c : ph / (te * wvl) < umin ∨ z * z * ryd / te < g2min := h2
      simp only [h2c, if_true]
      refine ⟨by simp [h1], by simp [h1', h2], ?_⟩
      constructor
      · intro h; cases h
      · intro h; rcases h2 with h2 | h2
        · exact absurd h.1.1 (not_le.mpr h2)
        · exact absurd h.2.1 (not_le.mpr h2)
    · have h2c : ¬(ph / (te * wvl) < umin ∨ z * z * ryd / te < g2min) := h2
      simp only [h2c, if_false]
      have h2' := h2
      push Not at h2'
      refine ⟨by simp [h1], by simp [h2], by simp [h1', h2']⟩

/-! ## RadiationFunction -/

/-- Σ_bins emission · Δλ = φ / 4π for a window of any size and any number of bins -/
theorem radfn_integral (pi phi rmin rmax : α) (hpi : pi ≠ 0) (hw : rmax ≠ rmin) (bins : Nat) (hb : bins ≠ 0) :
    (List.replicate bins (radiationFunction pi phi rmin rmax)).sum * ((rmax - rmin) / bins) = phi / (4 * pi) := by
  unfold radiationFunction
  have h4 : (4.0 : α) = 4 := by norm_num
  rw [h4, List.sum_replicate, nsmul_eq_mul]
  have hl : (bins : α) ≠ 0 := by exact_mod_cast hb
  have hw' : rmax - rmin ≠ 0 := sub_ne_zero.mpr hw
  field_simp

/-! ## Physical constants: `constants.pyx` (regenerated into `Gen/Constants.lean` on every run) vs CODATA 2018 -/

/-- the exact rational denoted by a hand-written decimal of `Model/Codata.lean` -/
def decQ (d : Codata.Dec) : ℚ := (d.mant : ℚ) * (10 : ℚ) ^ d.exp10

/-- **every constant the passive emission models use** (`e`, `c`, `h` exact by SI definition; `m_e`, `ε₀`, `Ry` measured,
all published digits) **and** the atomic mass constant and classical electron radius equal their CODATA-2018 values -/
theorem constants_match_codata :
    (Gen.Constants.ELEMENTARY_CHARGE : ℚ) = decQ Codata.elementaryCharge ∧
    (Gen.Constants.SPEED_OF_LIGHT : ℚ) = decQ Codata.speedOfLight ∧
    (Gen.Constants.PLANCK_CONSTANT : ℚ) = decQ Codata.planck ∧
    (Gen.Constants.ELECTRON_REST_MASS : ℚ) = decQ Codata.electronMass ∧
    (Gen.Constants.VACUUM_PERMITTIVITY : ℚ) = decQ Codata.vacuumPermittivity ∧
    (Gen.Constants.RYDBERG_CONSTANT_EV : ℚ) = decQ Codata.rydbergEv ∧
    (Gen.Constants.ATOMIC_MASS : ℚ) = decQ Codata.atomicMass ∧
    (Gen.Constants.ELECTRON_CLASSICAL_RADIUS : ℚ) = decQ Codata.electronClassicalRadius ∧
    (Gen.Constants.EULER_GAMMA : ℚ) = decQ Codata.eulerGamma := by
  refine ⟨?_, ?_, ?_, ?_, ?_, ?_, ?_, ?_, ?_⟩ <;>
    norm_num [decQ, Gen.Constants.ELEMENTARY_CHARGE, Gen.Constants.SPEED_OF_LIGHT, Gen.Constants.PLANCK_CONSTANT,
      Gen.Constants.ELECTRON_REST_MASS, Gen.Constants.VACUUM_PERMITTIVITY, Gen.Constants.RYDBERG_CONSTANT_EV,
      Gen.Constants.ATOMIC_MASS, Gen.Constants.ELECTRON_CLASSICAL_RADIUS, Gen.Constants.EULER_GAMMA,
      Codata.elementaryCharge, Codata.speedOfLight, Codata.planck, Codata.electronMass, Codata.vacuumPermittivity,
      Codata.rydbergEv, Codata.atomicMass, Codata.electronClassicalRadius, Codata.eulerGamma]

/-- the translator's polymorphic literal and its (mantissa, exponent) rendering denote the same number, and the
derived constants are written as expected (`RECIP_4_PI = 1 / (4 * M_PI)` is what `recip4pi` models) -/
theorem constants_translation_consistent :
    (Gen.Constants.ELEMENTARY_CHARGE : ℚ) = (Gen.Constants.ELEMENTARY_CHARGE_mant : ℚ) * 10 ^ Gen.Constants.ELEMENTARY_CHARGE_exp10 ∧
    (Gen.Constants.ELECTRON_REST_MASS : ℚ) = (Gen.Constants.ELECTRON_REST_MASS_mant : ℚ) * 10 ^ Gen.Constants.ELECTRON_REST_MASS_exp10 ∧
    (Gen.Constants.VACUUM_PERMITTIVITY : ℚ) = (Gen.Constants.VACUUM_PERMITTIVITY_mant : ℚ) * 10 ^ Gen.Constants.VACUUM_PERMITTIVITY_exp10 ∧
    Gen.Constants.derived.lookup "RECIP_4_PI" = some "1 / (4 * M_PI)" ∧
    Gen.Constants.literalNames = ["ATOMIC_MASS", "ELEMENTARY_CHARGE", "SPEED_OF_LIGHT", "PLANCK_CONSTANT", "HC_EV_NM",
      "ELECTRON_CLASSICAL_RADIUS", "ELECTRON_REST_MASS", "RYDBERG_CONSTANT_EV", "VACUUM_PERMITTIVITY", "BOHR_MAGNETON",
      "EULER_GAMMA"] := by
  refine ⟨?_, ?_, ?_, by decide, by decide⟩ <;>
    norm_num [Gen.Constants.ELEMENTARY_CHARGE, Gen.Constants.ELEMENTARY_CHARGE_mant, Gen.Constants.ELEMENTARY_CHARGE_exp10,
      Gen.Constants.ELECTRON_REST_MASS, Gen.Constants.ELECTRON_REST_MASS_mant, Gen.Constants.ELECTRON_REST_MASS_exp10,
      Gen.Constants.VACUUM_PERMITTIVITY, Gen.Constants.VACUUM_PERMITTIVITY_mant, Gen.Constants.VACUUM_PERMITTIVITY_exp10]

/-- `EXP_FACTOR` / `PH_TO_EV_FACTOR` built from the code's literals is the exact SI value of `10⁹ h c / e` -/
theorem exp_factor_exact :
    expFactor (Gen.Constants.PLANCK_CONSTANT : ℚ) Gen.Constants.SPEED_OF_LIGHT Gen.Constants.ELEMENTARY_CHARGE
      = 1000000000 * decQ Codata.planck * decQ Codata.speedOfLight / decQ Codata.elementaryCharge := by
  norm_num [expFactor, decQ, Gen.Constants.ELEMENTARY_CHARGE, Gen.Constants.SPEED_OF_LIGHT, Gen.Constants.PLANCK_CONSTANT,
    Codata.elementaryCharge, Codata.speedOfLight, Codata.planck]

/-- **observation outside C03** (the two constants are used by the Zeeman / Stark line shapes only, not by any passive
emission total): `HC_EV_NM` and `BOHR_MAGNETON` are *not* the CODATA-2018 values the comment in `constants.pyx` claims
(they are the 2014 adjustment): `HC_EV_NM` differs from the exact `10⁹hc/e` by 8.4·10⁻⁹ (relative), `BOHR_MAGNETON`
from the 2018 value by more than two standard uncertainties; both deviations are below 10⁻⁸. -/
theorem hc_ev_nm_bohr_magneton_not_codata2018 :
    let hc : ℚ := 1000000000 * decQ Codata.planck * decQ Codata.speedOfLight / decQ Codata.elementaryCharge
    (Gen.Constants.HC_EV_NM : ℚ) ≠ hc ∧ |(Gen.Constants.HC_EV_NM : ℚ) - hc| < hc / 100000000 ∧
    hc / 125000000 < |(Gen.Constants.HC_EV_NM : ℚ) - hc| ∧
    2 * decQ Codata.bohrMagnetonEvUnc < |(Gen.Constants.BOHR_MAGNETON : ℚ) - decQ Codata.bohrMagnetonEv| ∧
    |(Gen.Constants.BOHR_MAGNETON : ℚ) - decQ Codata.bohrMagnetonEv| < decQ Codata.bohrMagnetonEv / 1000000000 := by
  intro hc
  have hval : hc = 1000000000 * (662607015 / 10 ^ 42) * 299792458 / (1602176634 / 10 ^ 28) := by
    norm_num [hc, decQ, Codata.planck, Codata.speedOfLight, Codata.elementaryCharge]
  have h1 : (Gen.Constants.HC_EV_NM : ℚ) = 12398419738620933 / 10000000000000 := by
    norm_num [Gen.Constants.HC_EV_NM]
  have h2 : (Gen.Constants.BOHR_MAGNETON : ℚ) = 578838180123 / 10000000000000000 := by
    norm_num [Gen.Constants.BOHR_MAGNETON]
  have h3 : decQ Codata.bohrMagnetonEv = 57883818060 / 1000000000000000 := by
    norm_num [decQ, Codata.bohrMagnetonEv]
  have h4 : decQ Codata.bohrMagnetonEvUnc = 17 / 1000000000000000 := by
    norm_num [decQ, Codata.bohrMagnetonEvUnc]
  rw [hval, h1, h2, h3, h4]
  have n1 : (12398419738620933 / 10000000000000 : ℚ)
      - 1000000000 * (662607015 / 10 ^ 42) * 299792458 / (1602176634 / 10 ^ 28) < 0 := by norm_num
  have n2 : (578838180123 / 10000000000000000 : ℚ) - 57883818060 / 1000000000000000 < 0 := by norm_num
  rw [abs_of_neg n1, abs_of_neg n2]
  refine ⟨by norm_num, by norm_num, by norm_num, by norm_num, by norm_num⟩

/-! ## Non-vacuity: the hypotheses on the external functions are satisfiable (ℝ), and the bin theorems have instances -/

example : SqrtSpec Real.sqrt := fun x hx => ⟨Real.sqrt_nonneg x, Real.mul_self_sqrt hx⟩
example : ∀ x : ℝ, 0 < x → 0 < Real.sqrt x := fun _ hx => Real.sqrt_pos.2 hx
example : ∀ x : ℝ, 0 < Real.exp x := Real.exp_pos

/-- `brems_eq_spec` and `brems_nonneg` instantiated at ℝ with the real `sqrt`, `exp` -/
example (pi e eps0 me c h : ℝ) (hpi : 0 < pi) (he : 0 < e) (heps : 0 < eps0) (hme : 0 < me) (hc : 0 < c)
    (gaunt : ℝ → ℝ → ℝ → ℝ) (hg : ∀ z t w, 0 ≤ gaunt z t w) (comp : List (Sp ℝ)) (ne te wvl : ℝ)
    (hne : 0 ≤ ne) (hte : 0 < te) (hw : 0 < wvl) :
    0 ≤ PassiveSpec.bremsstrahlung Real.sqrt Real.exp pi e eps0 me c h gaunt comp ne te wvl := by
  rw [← brems_eq_spec Real.sqrt Real.exp (fun x hx => ⟨Real.sqrt_nonneg x, Real.mul_self_sqrt hx⟩) pi e eps0 me c h
    hpi he heps.ne' hme hc.ne' gaunt comp ne te wvl hte hw.ne']
  exact brems_nonneg Real.sqrt Real.exp (fun _ hx => Real.sqrt_pos.2 hx) Real.exp_pos _ _
    (brems_const_pos Real.sqrt (fun _ hx => Real.sqrt_pos.2 hx) pi e eps0 me c hpi he heps hme hc).le gaunt hg ne te hne hte _ _ wvl

/-- an exact integrator is additive: `∫_a^b f = F b − F a` -/
example (F : ℚ → ℚ) : Additive (fun a b => F b - F a) := fun a b c => by ring

example : (bremsBins (α := ℚ) (fun a b => b * b - a * a) 400 (1 / 2) 4).sum * (1 / 2) = 402 * 402 - 400 * 400 := by
  rw [brems_bins_total _ (fun a b c => by ring) _ _ (by norm_num)]; norm_num

/-- the one- and two-point Gauss–Legendre rules integrate a constant exactly (weights 2; 1 + 1) -/
example : gaussQuad (α := ℚ) [[(0, 2)], [(-1 / 2, 1), (1 / 2, 1)]] (1 / 100000) (fun _ => 7) 400 403 = 21 := by
  rw [gauss_quad_const_exact 7 400 403 _ _ (by simp) (by intro r hr; simp at hr; rcases hr with h | h <;> subst h <;> norm_num)]
  norm_num

example : gauntBranch (α := ℚ) 13 1240 (1 / 10) 10 (1 / 10) 10 1 100 500 = 2 := by
  norm_num [gauntBranch]

example : KeysNodup ([⟨9, 6, 5, 1, 1⟩, ⟨9, 6, 6, 2, 1⟩, ⟨2, 1, 0, 3, 1⟩] : List (Sp ℚ)) := by
  unfold KeysNodup; decide

example : OverRegistry ([⟨9, 6, 5, 1, 1⟩, ⟨1, 1, 0, 2, 1⟩, ⟨2, 1, 0, 3, 1⟩, ⟨12, 10, 10, 3, 1⟩] : List (Sp ℚ)) := by
  intro s hs
  simp only [List.mem_cons, List.not_mem_nil, or_false] at hs
  rcases hs with h | h | h | h <;> subst h <;> decide

example : HydNeutralsListed ([⟨9, 6, 5, 1, 1⟩, ⟨0, 1, 0, 2, 1⟩, ⟨2, 1, 0, 3, 1⟩, ⟨2, 1, 1, 3, 1⟩] : List (Sp ℚ))
    Gen.PassiveFlags.trpHydrogenIds := by
  intro s hs h0
  simp only [List.mem_cons, List.not_mem_nil, or_false] at hs
  rcases hs with h | h | h | h <;> subst h <;> simp_all [Gen.PassiveFlags.trpHydrogenIds]

/-! ## Proof-deepening pass -/

/-! ### (v) no state is carried between evaluations: the Bremsstrahlung cache -/

theorem bremsFill_append (comp : List (Sp α)) (pre buf : List α)
    (hl : buf.length = (bremsDensities comp).length) :
    bremsFill comp (pre ++ buf) pre.length = pre ++ bremsDensities comp := by
  induction comp generalizing pre buf with
  | nil =>
    simp only [bremsDensities, List.filter_nil, List.map_nil, List.length_nil] at hl
    simp [bremsFill, bremsDensities, List.eq_nil_of_length_eq_zero hl]
  | cons s t ih =>
    by_cases hc : s.charge > 0
    · have hd : bremsDensities (s :: t) = s.dens :: bremsDensities t := by
        simp [bremsDensities, hc]
      rw [hd] at hl ⊢
      cases buf with
      | nil => simp at hl
      | cons b bs =>
        simp only [List.length_cons, Nat.add_right_cancel_iff] at hl
        simp only [bremsFill, hc, if_true]
        have hset : (pre ++ b :: bs).set pre.length s.dens = (pre ++ [s.dens]) ++ bs := by
          rw [List.set_append_right _ _ (le_refl _)]; simp
        have hlen : pre.length + 1 = (pre ++ [s.dens]).length := by simp
        rw [hset, hlen, ih (pre ++ [s.dens]) bs hl]; simp
    · have hd : bremsDensities (s :: t) = bremsDensities t := by
        simp [bremsDensities, hc]
      rw [hd] at hl ⊢
      simp only [bremsFill, hc, if_false]
      exact ih pre buf hl

/-- **the buffer is overwritten completely**: whatever the buffer held (values of a previously evaluated point), after the
fill loop it holds exactly the current densities of the charged species, provided only its length matches -/
theorem bremsFill_overwrites (comp : List (Sp α)) (buf : List α) (hl : buf.length = (bremsDensities comp).length) :
    bremsFill comp buf 0 = bremsDensities comp := by
  have := bremsFill_append comp [] buf hl
  simpa using this

/-- cache invariant: the cached charges are those of the composition and the buffer has one slot per charge -/
def CacheFor (comp : List (Sp α)) (c : BremsCache α) : Prop :=
  c.charges = bremsCharges comp ∧ c.buf.length = c.charges.length

theorem charges_densities_length (comp : List (Sp α)) : (bremsDensities comp).length = (bremsCharges comp).length := by
  simp [bremsDensities, bremsCharges]

theorem cacheFor_populate (comp : List (Sp α)) : CacheFor comp (bremsPopulate comp) := by
  simp [CacheFor, bremsPopulate]

/-- the state admitted at a point: cleared (`_change()` ran), or a cache for a composition with the same charged species -/
def StateFor (comp : List (Sp α)) (st : Option (BremsCache α)) : Prop := ∀ c, st = some c → CacheFor comp c

/-- **point independence**: one `emission` call on *any* admissible persistent state returns exactly what the stateless
model returns for that point, and leaves an admissible state -/
theorem brems_eval_stateless (sqrt exp : α → α) (bc ef : α) (gaunt : α → α → α → α) (integ : (α → α) → α → α → α)
    (st : Option (BremsCache α)) (comp : List (Sp α)) (hst : StateFor comp st) (ne te mn delta : α) (bins : Nat) :
    (bremsEvalSt sqrt exp bc ef gaunt integ st comp ne te mn delta bins).2
        = bremsEmission sqrt exp bc ef gaunt integ comp ne te mn delta bins ∧
    StateFor comp (bremsEvalSt sqrt exp bc ef gaunt integ st comp ne te mn delta bins).1 := by
  have key : ∀ c : BremsCache α, CacheFor comp c →
      (bremsEvalSt sqrt exp bc ef gaunt integ (some c) comp ne te mn delta bins).2
          = bremsEmission sqrt exp bc ef gaunt integ comp ne te mn delta bins ∧
      StateFor comp (bremsEvalSt sqrt exp bc ef gaunt integ (some c) comp ne te mn delta bins).1 := by
    intro c hc
    have hfill : bremsFill comp c.buf 0 = bremsDensities comp :=
      bremsFill_overwrites comp c.buf (by rw [hc.2, hc.1, charges_densities_length])
    unfold bremsEvalSt bremsEmission
    by_cases h1 : ne ≤ 0
    · simp only [h1, if_true]
      exact ⟨trivial, fun c' h' => by cases h'; exact hc⟩
    · by_cases h2 : te ≤ 0
      · simp only [h1, h2, if_true, if_false]
        exact ⟨trivial, fun c' h' => by cases h'; exact hc⟩
      · simp only [h1, h2, if_false, hfill, hc.1]
        refine ⟨trivial, fun c' h' => ?_⟩
        cases h'
        exact ⟨rfl, by simp [charges_densities_length]⟩
  cases st with
  | none =>
    have := key (bremsPopulate comp) (cacheFor_populate comp)
    simpa [bremsEvalSt] using this
  | some c => exact key c (hst c rfl)

/-- **history theorem**: any sequence of evaluations of one instance over a non-uniform plasma (the charged species are
the same at every point, their densities, `n_e`, `T_e` arbitrary: present, zero, negative) yields at every step the
stateless value of that point — nothing is carried over from previously evaluated points, in any visiting order -/
theorem brems_history_independent (sqrt exp : α → α) (bc ef : α) (gaunt : α → α → α → α) (integ : (α → α) → α → α → α)
    (mn delta : α) (bins : Nat) (comp0 : List (Sp α)) (hist : List (BremsPoint α))
    (hsame : ∀ p ∈ hist, bremsCharges p.comp = bremsCharges comp0)
    (st : Option (BremsCache α)) (hst : StateFor comp0 st) :
    bremsRun sqrt exp bc ef gaunt integ mn delta bins st hist
      = hist.map (fun p => bremsEmission sqrt exp bc ef gaunt integ p.comp p.ne p.te mn delta bins) := by
  have transfer : ∀ (a b : List (Sp α)) (s : Option (BremsCache α)), bremsCharges a = bremsCharges b → StateFor a s → StateFor b s := by
    intro a b s hab h c hc
    obtain ⟨h1, h2⟩ := h c hc
    exact ⟨by rw [h1, hab], h2⟩
  induction hist generalizing st with
  | nil => rfl
  | cons p ps ih =>
    have hp := hsame p (by simp)
    have hstp : StateFor p.comp st := transfer comp0 p.comp st hp.symm hst
    obtain ⟨hval, hnext⟩ := brems_eval_stateless sqrt exp bc ef gaunt integ st p.comp hstp p.ne p.te mn delta bins
    simp only [bremsRun, List.map_cons, hval]
    congr 1
    exact ih (fun q hq => hsame q (by simp [hq])) _ (transfer p.comp comp0 _ hp hnext)

/-- counter-model (NOT the code): the fill loop that writes a slot only for a positive density ("skip absent species") -/
def bremsFillIfPositive : List (Sp α) → List α → Nat → List α
  | [], buf, _ => buf
  | s :: t, buf, i =>
    if s.charge > 0 then bremsFillIfPositive t (if s.dens > 0 then buf.set i s.dens else buf) (i + 1)
    else bremsFillIfPositive t buf i

/-- **witness**: for that variant `bremsFill_overwrites` is false — a species absent at the current point keeps the density
of the previously evaluated point (the round-3 seeded change); the code's loop gives the current value -/
theorem brems_fill_if_positive_keeps_stale_value :
    bremsFillIfPositive ([⟨2, 1, 1, 0, 5⟩] : List (Sp ℚ)) [7] 0 = [7] ∧
    bremsFill ([⟨2, 1, 1, 0, 5⟩] : List (Sp ℚ)) [7] 0 = [0] := by
  constructor <;> simp [bremsFillIfPositive, bremsFill]

example : StateFor ([⟨2, 1, 1, 3, 5⟩, ⟨9, 6, 0, 1, 1⟩] : List (Sp ℚ)) (some ⟨[1], [42]⟩) := by
  intro c hc; cases hc; simp [CacheFor, bremsCharges]

example : bremsRun (α := ℚ) id (fun _ => 1) 1 0 (fun _ _ _ => 1) (fun f a b => f a * (b - a)) 1 1 1 none
    [⟨[⟨2, 1, 1, 3, 5⟩], 1, 1⟩, ⟨[⟨2, 1, 1, 0, 5⟩], 1, 1⟩, ⟨[⟨2, 1, 1, 3, 5⟩], 0, 1⟩, ⟨[⟨2, 1, 1, 2, 5⟩], 1, 1⟩]
    = [some [3], some [0], none, some [2]] := by
  rw [brems_history_independent id (fun _ => 1) 1 0 _ _ 1 1 1 [⟨2, 1, 1, 3, 5⟩] _ (by intro p hp; simp at hp; rcases hp with h | h | h | h <;> subst h <;> simp [bremsCharges])
    none (fun c h => by cases h)]
  norm_num [bremsEmission, bremsBins, bremsBinsFrom, bremsFunction, bremsSum, bremsCharges, bremsDensities]

/-! ### donor-set selection over arbitrary compositions -/

/-- **TotalRadiatedPower donors**: the species summed into `n_hyd` are exactly the neutrals of the composition whose element
is in the looked-up tuple — each found by `get(element, 0)`, nothing else, for every composition -/
theorem trp_donor_selection (comp : List (Sp α)) (hyd : List Nat) (s : Sp α) :
    s ∈ trpHydSpecies comp hyd ↔ ∃ h ∈ hyd, getSp comp h 0 = some s := by
  unfold trpHydSpecies
  simp [List.mem_filterMap]

theorem getSp_of_mem (comp : List (Sp α)) (hk : KeysNodup comp) (s : Sp α) (hs : s ∈ comp) :
    getSp comp s.elem s.charge = some s := by
  unfold getSp
  induction comp with
  | nil => cases hs
  | cons x t ih =>
    unfold KeysNodup at hk
    simp only [List.map_cons, List.nodup_cons] at hk
    rcases List.mem_cons.1 hs with h | h
    · subst h; simp [isKey]
    · have hne : isKey s.elem s.charge x = false := by
        cases hx : isKey s.elem s.charge x
        · rfl
        · exfalso
          have := (isKey_iff s.elem s.charge x).1 hx
          apply hk.1
          simp only [List.mem_map]
          exact ⟨s, h, by rw [this.1, this.2]⟩
      simp only [List.find?_cons, hne]
      exact ih hk.2 h

/-- … hence, with unique keys: `s` is a CX donor of the total-radiated-power model iff it is a neutral of a listed element -/
theorem trp_donor_selection_keys (comp : List (Sp α)) (hk : KeysNodup comp) (hyd : List Nat) (s : Sp α) :
    s ∈ trpHydSpecies comp hyd ↔ s ∈ comp ∧ s.charge = 0 ∧ s.elem ∈ hyd := by
  rw [trp_donor_selection]
  constructor
  · rintro ⟨h, hh, hg⟩
    obtain ⟨hm, he, hc⟩ := getSp_some_mem comp h 0 s hg
    exact ⟨hm, hc, he ▸ hh⟩
  · rintro ⟨hm, hc, he⟩
    exact ⟨s.elem, he, by have := getSp_of_mem comp hk s hm; rwa [hc] at this⟩

/-- **current source**: over the element registry the donors are exactly the hydrogen-isotope neutrals (Z = 1, charge 0) -/
theorem trp_donor_selection_current_source (comp : List (Sp α)) (hk : KeysNodup comp) (hr : OverRegistry comp) (s : Sp α) :
    s ∈ trpHydSpecies comp Gen.PassiveFlags.trpHydrogenIds ↔ s ∈ comp ∧ s.charge = 0 ∧ s.z = 1 := by
  rw [trp_donor_selection_keys comp hk]
  constructor
  · rintro ⟨hm, hc, he⟩; exact ⟨hm, hc, ((listed_of_registry comp hr) s hm hc).1 he⟩
  · rintro ⟨hm, hc, hz⟩; exact ⟨hm, hc, ((listed_of_registry comp hr) s hm hc).2 hz⟩

example : (⟨1, 1, 0, 5, 1⟩ : Sp ℚ) ∈ trpHydSpecies ([⟨10, 7, 7, 1, 1⟩, ⟨1, 1, 0, 5, 1⟩, ⟨2, 1, 1, 9, 1⟩] : List (Sp ℚ))
    Gen.PassiveFlags.trpHydrogenIds := by
  rw [trp_donor_selection]; exact ⟨1, by decide, by simp [getSp, isKey]⟩

/-! ### guards ⇒ exactly zero emission, at composition level, for every model kind -/

/-- **excitation / recombination**: whenever the model evaluates (species present), `n_e ≤ 0`, `T_e ≤ 0` or a non-positive
target density give *no* `add_line` call — exactly zero emission, for every composition and coefficient -/
theorem line_models_zero_when_guarded (pi : α) (prov : Nat → Nat → α → α → α) (comp : List (Sp α)) (ne te : α)
    (le lc : Nat) :
    (∀ s, getSp comp le lc = some s → (ne ≤ 0 ∨ te ≤ 0 ∨ s.dens ≤ 0) →
      excitationLine pi prov comp ne te le lc = some none) ∧
    (∀ s, getSp comp le (lc + 1) = some s → (ne ≤ 0 ∨ te ≤ 0 ∨ s.dens ≤ 0) →
      recombinationLine pi prov comp ne te le lc = some none) := by
  constructor <;> intro s hs hg
  · unfold excitationLine; rw [hs]; simp [(line_zero_guards pi _ ne te s.dens hg).1]
  · unfold recombinationLine; rw [hs]; simp [(line_zero_guards pi _ ne te s.dens hg).1]

/-- **thermal CX, current source**: no `add_line` call when `n_e`, `T_e` or the receiver density is non-positive; and when
every eligible donor has a non-positive density or temperature the radiance handed over is exactly 0 -/
theorem thermalcx_zero_when_guarded (pi : α) (prov : Nat → Nat → α → α → α → α) (comp : List (Sp α)) (ne te : α)
    (le lc : Nat) (s : Sp α) (hs : getSp comp le (lc + 1) = some s) :
    ((ne ≤ 0 ∨ te ≤ 0 ∨ s.dens ≤ 0) →
      thermalCXLine Gen.PassiveFlags.thermalCXDonorDensityGuard Gen.PassiveFlags.thermalCXDonorTemperatureGuard
        pi prov comp ne te le lc = some none) ∧
    ((∀ d ∈ comp, PassiveSpec.donorOf le (lc + 1) d → d.dens ≤ 0 ∨ d.temp ≤ 0) →
      ∀ r, thermalCXLine Gen.PassiveFlags.thermalCXDonorDensityGuard Gen.PassiveFlags.thermalCXDonorTemperatureGuard
        pi prov comp ne te le lc = some r → emitted r = 0) := by
  constructor
  · intro hg
    unfold thermalCXLine; rw [hs]
    simp [thermalcx_zero_guards _ _ pi prov ne te s.dens _ hg]
  · intro hd r hr
    unfold thermalCXLine at hr; rw [hs] at hr; cases hr
    rw [thermalCXCall_val, cx_guards_present.1, cx_guards_present.2]
    have : ((cxDonors comp le (lc + 1)).map (cxTerm true true prov ne te)).sum = 0 := by
      apply sum_map_zero
      intro d hdm
      obtain ⟨hm, h1, h2⟩ := (cx_donor_filter comp le (lc + 1) d).1 hdm
      exact thermalcx_donor_zero_guards prov ne te d (hd d hm ⟨h1, h2⟩)
    rw [this]; split_ifs <;> simp

/-- **total radiated power**: early return for `n_e ≤ 0` / `T_e ≤ 0`; exactly zero increment when the line-radiating and
the recombining density are both non-positive (whatever the hydrogen density and the coefficients) -/
theorem trp_zero_when_guarded (pi : α) (prov : Nat → Nat → Nat → Option (α → α → α)) (hyd : List Nat)
    (comp : List (Sp α)) (ne te mn mx : α) (e c : Nat) (s su : Sp α)
    (hs : getSp comp e c = some s) (hsu : getSp comp e (c + 1) = some su) :
    ((ne ≤ 0 ∨ te ≤ 0) → totalRadiatedPower pi prov hyd comp ne te mn mx e c = some none) ∧
    (s.dens ≤ 0 → su.dens ≤ 0 → ∀ r, totalRadiatedPower pi prov hyd comp ne te mn mx e c = some r → emitted r = 0) := by
  constructor
  · intro hg
    unfold totalRadiatedPower; rw [hs, hsu]
    simp [(trp_zero_guards pi _ _ _ ne te s.dens su.dens _ mn mx).1 hg]
  · intro h1 h2 r hr
    unfold totalRadiatedPower at hr; rw [hs, hsu] at hr; cases hr
    rw [trpCall_val]
    have : PassiveSpec.trpPowerDensity (prov 0 e c) (prov 1 e (c + 1)) (prov 2 e (c + 1)) ne te s.dens su.dens
        (trpNhyd (trpHydSpecies comp hyd)) = 0 := by
      simp [PassiveSpec.trpPowerDensity, not_lt.mpr h1, not_lt.mpr h2]
    rw [this]; split_ifs <;> simp

theorem gqOrder_zero (c d : α) (rule : List (α × α)) : gqOrder (fun _ => (0 : α)) c d rule = 0 := by
  unfold gqOrder; rw [foldl_add_sum]; simp

theorem gaussQuad_zero (rules : List (List (α × α))) (rtol a b : α) : gaussQuad rules rtol (fun _ => (0 : α)) a b = 0 := by
  unfold gaussQuad
  have : ∀ (old : Option α) (last : α), last = 0 →
      gqLoop (fun _ => (0 : α)) (0.5 * (a + b)) (0.5 * (b - a)) rtol rules old last = 0 := by
    induction rules with
    | nil => intro old last h; simp [gqLoop, h]
    | cons r rs ih =>
      intro old last _
      simp only [gqLoop, gqOrder_zero]
      split_ifs
      · rfl
      · exact ih _ _ rfl
  exact this none 0 rfl

theorem bremsBinsFrom_zero (integ : α → α → α) (hz : ∀ a b, integ a b = 0) (mn delta : α) (k i : Nat) (lower : α) :
    bremsBinsFrom integ mn delta k i lower = List.replicate k 0 := by
  induction k generalizing i lower with
  | zero => rfl
  | succ k ih => simp [bremsBinsFrom, hz, ih, List.replicate_succ]

/-- **bremsstrahlung with the default integrator** (the code's Gauss–Legendre loop, any rules, any tolerance): early return
for `n_e ≤ 0` / `T_e ≤ 0`; and when no charged species has a positive density every bin receives exactly 0 -/
theorem brems_zero_when_guarded (sqrt exp : α → α) (bc ef : α) (gaunt : α → α → α → α) (rules : List (List (α × α)))
    (rtol : α) (comp : List (Sp α)) (ne te mn delta : α) (bins : Nat) :
    ((ne ≤ 0 ∨ te ≤ 0) → bremsEmission sqrt exp bc ef gaunt (gaussQuad rules rtol) comp ne te mn delta bins = none) ∧
    (0 < ne → 0 < te → (∀ s ∈ comp, 0 < s.charge → s.dens ≤ 0) →
      bremsEmission sqrt exp bc ef gaunt (gaussQuad rules rtol) comp ne te mn delta bins = some (List.replicate bins 0)) := by
  constructor
  · exact (brems_zero_guards sqrt exp bc ef gaunt _ comp ne te mn delta bins 0 0 0 0).1
  · intro hne hte hall
    have hsum : ∀ wvl, bremsSum gaunt te wvl (bremsCharges comp) (bremsDensities comp) = 0 := by
      intro wvl
      rw [bremsSum_sum]
      apply sum_map_zero
      intro p hp
      unfold bremsCharges bremsDensities at hp
      rw [List.zip_map', List.mem_map] at hp
      obtain ⟨s, hsm, rfl⟩ := hp
      obtain ⟨hm, hc⟩ := List.mem_filter.1 hsm
      have : s.dens ≤ 0 := hall s hm (by simpa using hc)
      simp [bremsTerm, not_lt.mpr this]
    have hf : bremsFunction sqrt exp bc ef gaunt ne te (bremsCharges comp) (bremsDensities comp) = fun _ => 0 := by
      funext wvl; unfold bremsFunction; rw [hsum]; simp
    unfold bremsEmission
    simp only [not_le.mpr hne, not_le.mpr hte, if_false, hf, bremsBins]
    rw [bremsBinsFrom_zero _ (fun a b => gaussQuad_zero rules rtol a b)]

/-- `samples[i] += radiance`: what was in the incoming spectrum is kept, the increment is the same in every bin -/
theorem add_to_bins_keeps_incoming (samples : List α) (r : Option α) (i : Nat) (hi : i < samples.length) :
    (addToBins samples r)[i]? = some (samples[i] + emitted r) := by
  cases r with
  | none => simp [addToBins, emitted, hi]
  | some v => simp [addToBins, emitted, hi]

example : bremsEmission (α := ℚ) id id 1 1 (fun _ _ _ => 1) (gaussQuad [[(0, 2)]] (1 / 10)) [⟨2, 1, 1, -3, 5⟩, ⟨2, 1, 0, 4, 5⟩] 1 1 400 1 3
    = some [0, 0, 0] := by
  rw [(brems_zero_when_guarded id id 1 1 _ _ _ _ 1 1 400 1 3).2 (by norm_num) (by norm_num)
    (by intro s hs hc; simp at hs; rcases hs with h | h <;> subst h <;> simp_all)]
  rfl

end Cherab.Props.C03
