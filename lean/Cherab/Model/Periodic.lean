/-
Reference periodic table for C19: (Z, symbol, IUPAC name) for Z = 1 … 118.  HAND-WRITTEN (part of the trusted base):
it is the independent statement of what "atomic numbers match the periodic table" means, and is deliberately not
derived from /repo.  IUPAC spellings (aluminium, caesium, sulfur); `altNames` lists the accepted variant spellings.
Mathlib-free.
-/
import Cherab.Model.Registry
namespace Cherab.Periodic
open Cherab.Registry

def table : List (Nat × String × String) := [
  (1, "H", "hydrogen"), (2, "He", "helium"), (3, "Li", "lithium"), (4, "Be", "beryllium"),
  (5, "B", "boron"), (6, "C", "carbon"), (7, "N", "nitrogen"), (8, "O", "oxygen"),
  (9, "F", "fluorine"), (10, "Ne", "neon"), (11, "Na", "sodium"), (12, "Mg", "magnesium"),
  (13, "Al", "aluminium"), (14, "Si", "silicon"), (15, "P", "phosphorus"), (16, "S", "sulfur"),
  (17, "Cl", "chlorine"), (18, "Ar", "argon"), (19, "K", "potassium"), (20, "Ca", "calcium"),
  (21, "Sc", "scandium"), (22, "Ti", "titanium"), (23, "V", "vanadium"), (24, "Cr", "chromium"),
  (25, "Mn", "manganese"), (26, "Fe", "iron"), (27, "Co", "cobalt"), (28, "Ni", "nickel"),
  (29, "Cu", "copper"), (30, "Zn", "zinc"), (31, "Ga", "gallium"), (32, "Ge", "germanium"),
  (33, "As", "arsenic"), (34, "Se", "selenium"), (35, "Br", "bromine"), (36, "Kr", "krypton"),
  (37, "Rb", "rubidium"), (38, "Sr", "strontium"), (39, "Y", "yttrium"), (40, "Zr", "zirconium"),
  (41, "Nb", "niobium"), (42, "Mo", "molybdenum"), (43, "Tc", "technetium"), (44, "Ru", "ruthenium"),
  (45, "Rh", "rhodium"), (46, "Pd", "palladium"), (47, "Ag", "silver"), (48, "Cd", "cadmium"),
  (49, "In", "indium"), (50, "Sn", "tin"), (51, "Sb", "antimony"), (52, "Te", "tellurium"),
  (53, "I", "iodine"), (54, "Xe", "xenon"), (55, "Cs", "caesium"), (56, "Ba", "barium"),
  (57, "La", "lanthanum"), (58, "Ce", "cerium"), (59, "Pr", "praseodymium"), (60, "Nd", "neodymium"),
  (61, "Pm", "promethium"), (62, "Sm", "samarium"), (63, "Eu", "europium"), (64, "Gd", "gadolinium"),
  (65, "Tb", "terbium"), (66, "Dy", "dysprosium"), (67, "Ho", "holmium"), (68, "Er", "erbium"),
  (69, "Tm", "thulium"), (70, "Yb", "ytterbium"), (71, "Lu", "lutetium"), (72, "Hf", "hafnium"),
  (73, "Ta", "tantalum"), (74, "W", "tungsten"), (75, "Re", "rhenium"), (76, "Os", "osmium"),
  (77, "Ir", "iridium"), (78, "Pt", "platinum"), (79, "Au", "gold"), (80, "Hg", "mercury"),
  (81, "Tl", "thallium"), (82, "Pb", "lead"), (83, "Bi", "bismuth"), (84, "Po", "polonium"),
  (85, "At", "astatine"), (86, "Rn", "radon"), (87, "Fr", "francium"), (88, "Ra", "radium"),
  (89, "Ac", "actinium"), (90, "Th", "thorium"), (91, "Pa", "protactinium"), (92, "U", "uranium"),
  (93, "Np", "neptunium"), (94, "Pu", "plutonium"), (95, "Am", "americium"), (96, "Cm", "curium"),
  (97, "Bk", "berkelium"), (98, "Cf", "californium"), (99, "Es", "einsteinium"), (100, "Fm", "fermium"),
  (101, "Md", "mendelevium"), (102, "No", "nobelium"), (103, "Lr", "lawrencium"), (104, "Rf", "rutherfordium"),
  (105, "Db", "dubnium"), (106, "Sg", "seaborgium"), (107, "Bh", "bohrium"), (108, "Hs", "hassium"),
  (109, "Mt", "meitnerium"), (110, "Ds", "darmstadtium"), (111, "Rg", "roentgenium"), (112, "Cn", "copernicium"),
  (113, "Nh", "nihonium"), (114, "Fl", "flerovium"), (115, "Mc", "moscovium"), (116, "Lv", "livermorium"),
  (117, "Ts", "tennessine"), (118, "Og", "oganesson")]

/-- accepted variant spellings of element names -/
def altNames : List (Nat × String) := [(13, "aluminum"), (16, "sulphur"), (55, "cesium")]

/-- the table with symbols and (lower-case) names as codes -/
def coded : List (Nat × Nat × Nat) := table.map fun r => (r.1, enc r.2.1, enc r.2.2)
def altCoded : List (Nat × Nat) := altNames.map fun r => (r.1, enc r.2)

/-- symbol (code) of atomic number `z` -/
def symbolOf (z : Nat) : Option Nat := (coded.find? fun r => r.1.beq z).map fun r => r.2.1
/-- IUPAC name (code, lower case) of atomic number `z` -/
def nameOf (z : Nat) : Option Nat := (coded.find? fun r => r.1.beq z).map fun r => r.2.2

/-- `(z, symbol)` is a row of the table (symbol compared exactly, e.g. "Fe") -/
def symbolMatches (z sym : Nat) : Bool := coded.any fun r => r.1.beq z && r.2.1.beq sym
/-- `name` (any letter case) is the IUPAC name or an accepted variant for `z` -/
def nameMatches (z name : Nat) : Bool :=
  (coded.any fun r => r.1.beq z && r.2.2.beq (lower name)) || (altCoded.any fun r => r.1.beq z && r.2.beq (lower name))

/-- documented special names of the hydrogen isotopes: (mass number, symbol, name).  Every other isotope is named
`<element name><A>` with symbol `<element symbol><A>`. -/
def hydrogenIsotopes : List (Nat × String × String) := [(1, "H", "protium"), (2, "D", "deuterium"), (3, "T", "tritium")]
def hydrogenIsotopesCoded : List (Nat × Nat × Nat) := hydrogenIsotopes.map fun r => (r.1, enc r.2.1, enc r.2.2)

/-- an isotope called `name` / `sym` with mass number `a` is named after the element (`z`, `elName`, `elSym`):
`<elName><a>` / `<elSym><a>` (letter case ignored), or one of the special hydrogen names when `z = 1` -/
def isotopeNamedAfter (z elName elSym a name sym : Nat) : Bool :=
  ((lower name).beq (lower (cat elName (strNat a))) && (lower sym).beq (lower (cat elSym (strNat a)))) ||
  (z.beq 1 && hydrogenIsotopesCoded.any fun r => r.1.beq a && r.2.1.beq sym && r.2.2.beq (lower name))

end Cherab.Periodic
