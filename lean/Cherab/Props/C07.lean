import Cherab.Model.Rates
import Mathlib.Tactic.Ring
import Mathlib.Tactic.Linarith
import Mathlib.Tactic.FieldSimp
import Mathlib.Tactic.Positivity
import Mathlib.Algebra.Order.Field.Basic
import Mathlib.Data.List.Pairwise

/-!
# C07 — OpenADAS rates reproduce stored tables and honour the range / missing-data policy

Property theorems about `Cherab/Model/Rates.lean`, for every table size and every input, over an arbitrary ordered
field.  `10 ** x`, the two `log10`s and raysect's interpolators are parameters constrained by `ExtSpec`
(the contract of an interpolant: passes through its knots; inside the knot range it returns; outside it raises iff
the extrapolation type is 'none').  The table-dependent obligations are in `Props/C07Table.lean`.
-/
namespace Cherab.Props.C07
set_option linter.unusedSectionVars false
set_option linter.unusedVariables false
open Cherab.Rates

variable {α : Type} [Field α] [LinearOrder α] [IsStrictOrderedRing α]

/-- strictly increasing knots (raysect rejects anything else) -/
def Sorted (xs : List α) : Prop := xs.Pairwise (· < ·)

/-- `p` lies below the first / above the last knot -/
def Below (xs : List α) (p : α) : Prop := ∃ a ∈ xs.head?, p < a
def Above (xs : List α) (p : α) : Prop := ∃ b ∈ xs.getLast?, b < p
def Within (xs : List α) (p : α) : Prop := (∀ a ∈ xs.head?, a ≤ p) ∧ (∀ b ∈ xs.getLast?, p ≤ b)

def Valid1 (xs fs : List α) : Prop := 2 ≤ xs.length ∧ fs.length = xs.length ∧ Sorted xs
def Valid2 (xs ys : List α) (f : List (List α)) : Prop :=
  2 ≤ xs.length ∧ 2 ≤ ys.length ∧ Sorted xs ∧ Sorted ys ∧ f.length = xs.length ∧ ∀ r ∈ f, r.length = ys.length
def Valid3 (xs ys zs : List α) (f : List (List (List α))) : Prop :=
  2 ≤ xs.length ∧ 2 ≤ ys.length ∧ 2 ≤ zs.length ∧ Sorted xs ∧ Sorted ys ∧ Sorted zs ∧ f.length = xs.length ∧
    (∀ pl ∈ f, pl.length = ys.length) ∧ ∀ pl ∈ f, ∀ r ∈ pl, r.length = zs.length

/-- contract of the external functions.  Nothing is assumed about values *between* knots (raysect's cubic). -/
structure ExtSpec (E : Ext α) : Prop where
  pow_log : ∀ y, 0 < y → E.pow10 (E.logc y) = y
  pow_pos : ∀ x, 0 < E.pow10 x
  pow_add : ∀ a b, E.pow10 (a + b) = E.pow10 a * E.pow10 b
  logc_mono : ∀ x y, 0 < x → x < y → E.logc x < E.logc y
  i1_knot : ∀ (k : Extrap) (xs fs : List α) (i : Nat) (x v : α), Valid1 xs fs → xs[i]? = some x → fs[i]? = some v → E.i1 k xs fs x = some v
  i1_within : ∀ (k : Extrap) (xs fs : List α) (p : α), Valid1 xs fs → Within xs p → (E.i1 k xs fs p).isSome
  i1_outside : ∀ (xs fs : List α) (p : α), Valid1 xs fs → Below xs p ∨ Above xs p → E.i1 Extrap.none xs fs p = none
  i1_extrap : ∀ (k : Extrap) (xs fs : List α) (p : α), Valid1 xs fs → k ≠ Extrap.none → (E.i1 k xs fs p).isSome
  i2_knot : ∀ (k : Extrap) (xs ys : List α) (f : List (List α)) (i j : Nat) (x y : α) (row : List α) (v : α), Valid2 xs ys f → xs[i]? = some x → ys[j]? = some y → f[i]? = some row →
    row[j]? = some v → E.i2 k xs ys f x y = some v
  i2_within : ∀ (k : Extrap) (xs ys : List α) (f : List (List α)) (p q : α), Valid2 xs ys f → Within xs p → Within ys q → (E.i2 k xs ys f p q).isSome
  i2_outside : ∀ (xs ys : List α) (f : List (List α)) (p q : α), Valid2 xs ys f → Below xs p ∨ Above xs p ∨ Below ys q ∨ Above ys q →
    E.i2 Extrap.none xs ys f p q = none
  i2_extrap : ∀ (k : Extrap) (xs ys : List α) (f : List (List α)) (p q : α), Valid2 xs ys f → k ≠ Extrap.none → (E.i2 k xs ys f p q).isSome
  i3_knot : ∀ (k : Extrap) (xs ys zs : List α) (f : List (List (List α))) (i j l : Nat) (x y z : α)
    (pl : List (List α)) (row : List α) (v : α), Valid3 xs ys zs f → xs[i]? = some x → ys[j]? = some y →
    zs[l]? = some z → f[i]? = some pl → pl[j]? = some row → row[l]? = some v → E.i3 k xs ys zs f x y z = some v
  i3_within : ∀ (k : Extrap) (xs ys zs : List α) (f : List (List (List α))) (p q r : α), Valid3 xs ys zs f → Within xs p → Within ys q → Within zs r →
    (E.i3 k xs ys zs f p q r).isSome
  i3_outside : ∀ (xs ys zs : List α) (f : List (List (List α))) (p q r : α), Valid3 xs ys zs f →
    Below xs p ∨ Above xs p ∨ Below ys q ∨ Above ys q ∨ Below zs r ∨ Above zs r →
    E.i3 Extrap.none xs ys zs f p q r = none
  i3_extrap : ∀ (k : Extrap) (xs ys zs : List α) (f : List (List (List α))) (p q r : α), Valid3 xs ys zs f → k ≠ Extrap.none → (E.i3 k xs ys zs f p q r).isSome

/-- positive, strictly increasing axis -/
def Axis (xs : List α) : Prop := Sorted xs ∧ ∀ x ∈ xs, 0 < x

theorem sorted_map_logc {E : Ext α} (S : ExtSpec E) {xs : List α} (h : Axis xs) : Sorted (xs.map E.logc) := by
  unfold Sorted
  rw [List.pairwise_map]
  exact h.1.imp_of_mem fun {a b} ha hb hab => S.logc_mono a b (h.2 a ha) hab

theorem head_map_logc (E : Ext α) (xs : List α) : (xs.map E.logc).head? = xs.head?.map E.logc := by
  cases xs <;> simp

theorem getLast_map_logc (E : Ext α) (xs : List α) : (xs.map E.logc).getLast? = xs.getLast?.map E.logc := by
  simp [List.getLast?_map]

/-! ## 2-D log-log classes -/

/-- a well-formed table: what `repository.update_*` accepts plus raysect's monotonicity and the property's
"positive rate tables" -/
structure WF2 (t : Table2 α) : Prop where
  ne : Axis t.ne
  te : Axis t.te
  rows : t.rate.length = t.ne.length
  cols : ∀ r ∈ t.rate, r.length = t.te.length
  pos : ∀ r ∈ t.rate, ∀ y ∈ r, 0 < y

theorem conv_pos (cf : α) (wl : Option α) (hcf : 0 < cf) (hwl : ∀ w ∈ wl, 0 < w) (y : α) (hy : 0 < y) :
    0 < conv cf wl y := by
  unfold conv
  cases wl with
  | none => simpa using hy
  | some w =>
    have hw : 0 < w := hwl w rfl
    simp only [photonToJ]
    positivity

theorem valid2_of_wf {E : Ext α} (S : ExtSpec E) {t : Table2 α} (h : WF2 t) (g : α → α)
    (h1 : 2 ≤ t.ne.length) (h2 : 2 ≤ t.te.length) :
    Valid2 (t.ne.map E.logc) (t.te.map E.logc) (t.rate.map fun row => row.map g) := by
  refine ⟨by simpa using h1, by simpa using h2, sorted_map_logc S h.ne, sorted_map_logc S h.te, by simpa using h.rows, ?_⟩
  intro r hr
  obtain ⟨r', hr', rfl⟩ := List.mem_map.mp hr
  simpa using h.cols r' hr'

/-- **table reproduction** (2-D classes): at a grid point the rate equals the stored value after the unit
conversion — provided the two `log10`s agree on that grid point's coordinates (see `grid2_edge_knot_raises`). -/
theorem grid2_at_knot {E : Ext α} (S : ExtSpec E) (cf : α) (wl : Option α) (hcf : 0 < cf) (hwl : ∀ w ∈ wl, 0 < w)
    (k : Extrap) (ex : Bool) (t : Table2 α) (h : WF2 t) (h1 : 2 ≤ t.ne.length) (h2 : 2 ≤ t.te.length)
    (i j : Nat) (n T y : α) (row : List α) (hn : t.ne[i]? = some n) (hT : t.te[j]? = some T)
    (hrow : t.rate[i]? = some row) (hy : row[j]? = some y)
    (hln : E.loge n = E.logc n) (hlT : E.loge T = E.logc T) :
    grid2 E cf wl k ex t n T = Out.val (conv cf wl y) := by
  have hnpos : 0 < n := h.ne.2 n (List.mem_of_getElem? hn)
  have hTpos : 0 < T := h.te.2 T (List.mem_of_getElem? hT)
  have hypos : 0 < y := h.pos row (List.mem_of_getElem? hrow) y (List.mem_of_getElem? hy)
  unfold grid2
  rw [if_neg (by omega), if_neg (by push Not; exact ⟨hnpos, hTpos⟩), hln, hlT]
  rw [S.i2_knot _ _ _ _ i j (E.logc n) (E.logc T) (row.map fun y => E.logc (conv cf wl y)) (E.logc (conv cf wl y))
    (valid2_of_wf S h _ h1 h2) (by simp [hn]) (by simp [hT]) (by simp [hrow]) (by simp [hy])]
  simp only
  rw [S.pow_log _ (conv_pos cf wl hcf hwl y hypos)]

/-- the two `log10`s agree (true of real numbers; **not** of NumPy's SIMD `log10` vs libm's `log10`) -/
def LogAgree (E : Ext α) : Prop := ∀ x, 0 < x → E.loge x = E.logc x

theorem grid2_at_knot' {E : Ext α} (S : ExtSpec E) (hl : LogAgree E) (cf : α) (wl : Option α) (hcf : 0 < cf)
    (hwl : ∀ w ∈ wl, 0 < w) (k : Extrap) (ex : Bool) (t : Table2 α) (h : WF2 t) (h1 : 2 ≤ t.ne.length)
    (h2 : 2 ≤ t.te.length) (i j : Nat) (n T y : α) (row : List α) (hn : t.ne[i]? = some n) (hT : t.te[j]? = some T)
    (hrow : t.rate[i]? = some row) (hy : row[j]? = some y) :
    grid2 E cf wl k ex t n T = Out.val (conv cf wl y) :=
  grid2_at_knot S cf wl hcf hwl k ex t h h1 h2 i j n T y row hn hT hrow hy
    (hl n (h.ne.2 n (List.mem_of_getElem? hn))) (hl T (h.te.2 T (List.mem_of_getElem? hT)))

/-- **non-negativity**, for every table (well-formed or not) and all arguments -/
theorem grid2_nonneg {E : Ext α} (S : ExtSpec E) (cf : α) (wl : Option α) (k : Extrap) (ex : Bool) (t : Table2 α)
    (d T v : α) (h : grid2 E cf wl k ex t d T = Out.val v) : 0 ≤ v := by
  unfold grid2 at h
  split_ifs at h with h1 h2
  · cases h; exact le_refl _
  · split at h
    · cases h; exact (S.pow_pos _).le
    · cases h

/-- **zero on a non-positive density or temperature** (whenever the object could be constructed) -/
theorem grid2_zero_on_nonpositive (E : Ext α) (cf : α) (wl : Option α) (k : Extrap) (ex : Bool) (t : Table2 α)
    (h1 : 2 ≤ t.ne.length) (h2 : 2 ≤ t.te.length) (d T : α) (h : d ≤ 0 ∨ T ≤ 0) :
    grid2 E cf wl k ex t d T = Out.val 0 := by
  unfold grid2
  rw [if_neg (by omega), if_pos h]

/-- raysect refuses a single-point axis: the accessor raises ValueError instead of returning a rate object -/
theorem grid2_single_point_axis (E : Ext α) (cf : α) (wl : Option α) (k : Extrap) (ex : Bool) (t : Table2 α)
    (h : t.ne.length < 2 ∨ t.te.length < 2) (d T : α) : grid2 E cf wl k ex t d T = Out.ctorError := by
  unfold grid2
  rw [if_pos h]

/-- **range policy, extrapolation not permitted**: outside the tabulated range (in the log space the code compares
in) the call raises -/
theorem grid2_outside_raises {E : Ext α} (S : ExtSpec E) (cf : α) (wl : Option α) (k : Extrap) (t : Table2 α)
    (h : WF2 t) (h1 : 2 ≤ t.ne.length) (h2 : 2 ≤ t.te.length) (d T : α) (hd : 0 < d) (hT : 0 < T)
    (hout : Below (t.ne.map E.logc) (E.loge d) ∨ Above (t.ne.map E.logc) (E.loge d) ∨
      Below (t.te.map E.logc) (E.loge T) ∨ Above (t.te.map E.logc) (E.loge T)) :
    grid2 E cf wl k false t d T = Out.valueError := by
  unfold grid2
  rw [if_neg (by omega), if_neg (by push Not; exact ⟨hd, hT⟩)]
  have : kindOf k false = Extrap.none := rfl
  rw [this, S.i2_outside _ _ _ _ _ (valid2_of_wf S h _ h1 h2) hout]

/-- the same in terms of the raw arguments when the two `log10`s agree -/
theorem grid2_below_density_range_raises {E : Ext α} (S : ExtSpec E) (hl : LogAgree E) (cf : α) (wl : Option α)
    (k : Extrap) (t : Table2 α) (h : WF2 t) (h1 : 2 ≤ t.ne.length) (h2 : 2 ≤ t.te.length) (d T n0 : α)
    (hd : 0 < d) (hT : 0 < T) (hn0 : t.ne.head? = some n0) (hlt : d < n0) :
    grid2 E cf wl k false t d T = Out.valueError := by
  apply grid2_outside_raises S cf wl k t h h1 h2 d T hd hT
  left
  refine ⟨E.logc n0, ?_, ?_⟩
  · rw [head_map_logc, hn0]; rfl
  · rw [hl d hd]; exact S.logc_mono d n0 hd hlt

theorem grid2_above_temperature_range_raises {E : Ext α} (S : ExtSpec E) (hl : LogAgree E) (cf : α) (wl : Option α)
    (k : Extrap) (t : Table2 α) (h : WF2 t) (h1 : 2 ≤ t.ne.length) (h2 : 2 ≤ t.te.length) (d T T1 : α)
    (hd : 0 < d) (hT : 0 < T) (hT1 : t.te.getLast? = some T1) (hlt : T1 < T) :
    grid2 E cf wl k false t d T = Out.valueError := by
  apply grid2_outside_raises S cf wl k t h h1 h2 d T hd hT
  right; right; right
  refine ⟨E.logc T1, ?_, ?_⟩
  · rw [getLast_map_logc, hT1]; rfl
  · rw [hl T hT]
    exact S.logc_mono T1 T (h.te.2 T1 (List.mem_of_getLast? hT1)) hlt

/-- **the float gap, as a theorem about the model**: if libm's `log10` of the lowest tabulated density is smaller
than NumPy's (1 ulp suffices), evaluating *at that grid point* raises instead of reproducing the table.  This is
the behaviour of the unchanged tree (finding C07:grid-point:edge-knot-raises). -/
theorem grid2_edge_knot_raises {E : Ext α} (S : ExtSpec E) (cf : α) (wl : Option α) (k : Extrap) (t : Table2 α)
    (h : WF2 t) (h1 : 2 ≤ t.ne.length) (h2 : 2 ≤ t.te.length) (n0 T : α) (hT : 0 < T)
    (hn0 : t.ne.head? = some n0) (hgap : E.loge n0 < E.logc n0) :
    grid2 E cf wl k false t n0 T = Out.valueError := by
  apply grid2_outside_raises S cf wl k t h h1 h2 n0 T (h.ne.2 n0 (List.mem_of_head? hn0)) hT
  left
  exact ⟨E.logc n0, by rw [head_map_logc, hn0]; rfl, hgap⟩

/-- **range policy, extrapolation permitted**: every positive argument pair yields a (positive) value -/
theorem grid2_extrapolated_returns {E : Ext α} (S : ExtSpec E) (cf : α) (wl : Option α) (k : Extrap)
    (hk : k ≠ Extrap.none) (t : Table2 α) (h : WF2 t) (h1 : 2 ≤ t.ne.length) (h2 : 2 ≤ t.te.length) (d T : α)
    (hd : 0 < d) (hT : 0 < T) : ∃ v, 0 < v ∧ grid2 E cf wl k true t d T = Out.val v := by
  unfold grid2
  rw [if_neg (by omega), if_neg (by push Not; exact ⟨hd, hT⟩)]
  have hk' : kindOf k true = k := rfl
  have := S.i2_extrap (kindOf k true) _ _ _ (E.loge d) (E.loge T) (valid2_of_wf S h
    (fun y => E.logc (conv cf wl y)) h1 h2) (by rw [hk']; exact hk)
  obtain ⟨v, hv⟩ := Option.isSome_iff_exists.mp this
  rw [hv]
  exact ⟨_, S.pow_pos v, rfl⟩

/-- inside the tabulated range a value is returned whatever the extrapolation setting -/
theorem grid2_within_returns {E : Ext α} (S : ExtSpec E) (cf : α) (wl : Option α) (k : Extrap) (ex : Bool)
    (t : Table2 α) (h : WF2 t) (h1 : 2 ≤ t.ne.length) (h2 : 2 ≤ t.te.length) (d T : α) (hd : 0 < d) (hT : 0 < T)
    (hin1 : Within (t.ne.map E.logc) (E.loge d)) (hin2 : Within (t.te.map E.logc) (E.loge T)) :
    ∃ v, 0 < v ∧ grid2 E cf wl k ex t d T = Out.val v := by
  unfold grid2
  rw [if_neg (by omega), if_neg (by push Not; exact ⟨hd, hT⟩)]
  have := S.i2_within (kindOf k ex) _ _ _ (E.loge d) (E.loge T) (valid2_of_wf S h
    (fun y => E.logc (conv cf wl y)) h1 h2) hin1 hin2
  obtain ⟨v, hv⟩ := Option.isSome_iff_exists.mp this
  rw [hv]
  exact ⟨_, S.pow_pos v, rfl⟩

/-- **documented unit conversion** of the photon emission coefficients: `x ↦ x · (hc·10⁹) / λ` -/
theorem conv_photon (cf w x : α) : conv cf (some w) x = x * cf / w := by
  simp only [conv, photonToJ]; ring

theorem conv_plain (cf x : α) : conv cf none x = x := rfl

/-- a different wavelength gives a different converted value: the species whose wavelength is used matters -/
theorem conv_photon_injective_in_wavelength (cf w w' x : α) (hcf : 0 < cf) (hx : 0 < x) (hw : 0 < w) (hw' : 0 < w')
    (h : conv cf (some w) x = conv cf (some w') x) : w = w' := by
  rw [conv_photon, conv_photon] at h
  have hne : x * cf ≠ 0 := (mul_pos hx hcf).ne'
  field_simp at h
  linarith [h]

end Cherab.Props.C07
