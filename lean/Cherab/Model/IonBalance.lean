/-
C09 — ionisation balance (cherab/tools/plasmas/ionisation_balance.py).  Mathlib-free; polymorphic over notation
so that the same definitions run at `Float` in the driver and are reasoned about over an ordered field.

Transcribed from the code as it is:

* `balEntry`/`matEntry`/`rhsEntry`  — the matrix filled by `_fractional_abundance_point` (lines 209-238): first row,
  last row, interior rows, thermal-CX terms `tcx_donor_density / n_e * coef_tcx[i]`, scaling by `n_e`, the appended
  row of ones, the right-hand side `(0,…,0,n_e)`; `bounds = (0, n_e)`.
* `fracPoint`  — `lsq_linear(matbal, rhs, bounds=(0, n_e))["x"] / n_e`; the least-squares solver is a *parameter*.
* `bdSolve`    — a solver for this matrix family that only reads the matrix and the right-hand side (ratio of the
  two off-diagonals, normalised to the last rhs entry); it is what the native driver plugs in for `lsq_linear`.
* `closedFrac` — the closed form  f_{z+1}/f_z = S_z / (α_{z+1} + (n_D/n_e)·C_{z+1}),  Σ f = 1.
* `selectTcx`  — the `if tcx_donor is not None and coef_tcx is None: … else: coef_tcx = None` of the three helpers
  (`keeps = false` is the code as written: a *supplied* `coef_tcx` is discarded; `keeps = true` is the patched
  `elif tcx_donor is None: coef_tcx = None`).  Which one the current tree has is read from the source by
  `harness/translators/ionbalance.py` into `Cherab/Gen/IonBalance.lean`.
* `entryFractional`, `entryFromDensity`, `entryMatch` — the public entry points at one profile index, composed the
  way `fractional_abundance`/`_from_elementdensity`/`_match_plasma_neutrality` compose them.
* `subAll`, `zMean`, `matchPoint` — `_match_element_density_point` lines 343-362.
* `Profile`, `toArray`, `assignDonor`, `profile*` — `_parameters_to_numpy`, `_assign_donor_density` and the
  `np.ndindex` loops (value level; 1-D arrays are lists, 2-D arrays are flattened in C order).

Rates enter as functions of the charge index: `S i = coef_ion[i](n_e,t_e)` (i = 0…Z-1), `A i = coef_recom[i](n_e,t_e)`
(i = 1…Z), `C i = coef_tcx[i](n_e,t_e)` (i = 1…Z).
-/
namespace Cherab.IonBalance

section
variable {α : Type} [Add α] [Sub α] [Mul α] [Div α] [Neg α] [Zero α] [One α] [OfScientific α] [NatCast α]
  [LT α] [LE α] [DecidableLT α] [DecidableLE α] [BEq α]

/-- `Σ_{j<n} f j`, accumulated left to right starting from 0 (the `z_mean = 0; z_mean += …` loops, `np.sum`) -/
def sumTo (f : Nat → α) : Nat → α
  | 0 => 0
  | n + 1 => sumTo f n + f n

/-- `tcx_donor_density / n_e * coef_tcx[i](n_e, t_e)` — only `if coef_tcx is not None` -/
def cxTerm (tcx : Option (Nat → α)) (ne nD : α) (i : Nat) : α :=
  match tcx with
  | none => 0
  | some c => nD / ne * c i

/-- entry `[i, j]` of `matbal` before the multiplication by `n_e`; `np.zeros` then `+=` / `-=` exactly as coded.
Rows `0` (first), `Z` (last, written `-1`), `1 … Z-1` (loop). -/
def balEntry (Z : Nat) (S A : Nat → α) (tcx : Option (Nat → α)) (ne nD : α) (i j : Nat) : α :=
  if i = 0 then
    if j = 0 then 0 - S 0
    else if j = 1 then 0 + A 1 + cxTerm tcx ne nD 1
    else 0
  else if i = Z then
    if j = Z then 0 - A Z - cxTerm tcx ne nD Z
    else if j + 1 = Z then 0 + S (Z - 1)
    else 0
  else
    if j + 1 = i then 0 + S (i - 1)
    else if j = i then 0 - (S i + A i) - cxTerm tcx ne nD i
    else if j = i + 1 then 0 + A (i + 1) + cxTerm tcx ne nD (i + 1)
    else 0

/-- the `(Z+2) × (Z+1)` matrix handed to `lsq_linear`: `matbal * n_e` with a row of ones appended -/
def matEntry (Z : Nat) (S A : Nat → α) (tcx : Option (Nat → α)) (ne nD : α) (i j : Nat) : α :=
  if i = Z + 1 then 1 else balEntry Z S A tcx ne nD i j * ne

/-- `rhs = zeros; rhs[-1] = n_e` -/
def rhsEntry (Z : Nat) (ne : α) (i : Nat) : α := if i = Z + 1 then ne else 0

def matrixRows (Z : Nat) (S A : Nat → α) (tcx : Option (Nat → α)) (ne nD : α) : List (List α) :=
  (List.range (Z + 2)).map fun i => (List.range (Z + 1)).map fun j => matEntry Z S A tcx ne nD i j

def rhsList (Z : Nat) (ne : α) : List α := (List.range (Z + 2)).map (rhsEntry Z ne)

/-- row `i` of `M · x` for a matrix with `cols` columns -/
def rowDot (cols : Nat) (M : Nat → Nat → α) (x : Nat → α) (i : Nat) : α := sumTo (fun j => M i j * x j) cols

/-- signature of the least-squares solver: matrix, rhs, number of rows, number of columns, lower and upper bound -/
abbrev Solver (α : Type) := (Nat → Nat → α) → (Nat → α) → Nat → Nat → α → α → Nat → α

/-- `_fractional_abundance_point`: `lsq_linear(matbal, rhs, bounds=(0, n_e))["x"] / n_e` -/
def fracPoint (solve : Solver α) (Z : Nat) (S A : Nat → α) (tcx : Option (Nat → α)) (ne nD : α) (z : Nat) : α :=
  solve (matEntry Z S A tcx ne nD) (rhsEntry Z ne) (Z + 2) (Z + 1) 0 ne z / ne

/-! ### closed form -/

/-- total recombination coefficient into charge `i-1`:  α_i + (n_D/n_e)·C_i -/
def recTot (A : Nat → α) (tcx : Option (Nat → α)) (ne nD : α) (i : Nat) : α := A i + cxTerm tcx ne nD i

/-- un-normalised abundances: 1, S₀/R₁, S₀S₁/(R₁R₂), … -/
def unnorm (S A : Nat → α) (tcx : Option (Nat → α)) (ne nD : α) : Nat → α
  | 0 => 1
  | z + 1 => unnorm S A tcx ne nD z * (S z / recTot A tcx ne nD (z + 1))

def closedFrac (Z : Nat) (S A : Nat → α) (tcx : Option (Nat → α)) (ne nD : α) (z : Nat) : α :=
  unnorm S A tcx ne nD z / sumTo (unnorm S A tcx ne nD) (Z + 1)

/-- the stage abundances the code solves for (`abundance`, before `/ n_e`) -/
def closedAbundance (Z : Nat) (S A : Nat → α) (tcx : Option (Nat → α)) (ne nD : α) (z : Nat) : α :=
  ne * closedFrac Z S A tcx ne nD z

/-- solver for birth–death balance matrices that reads nothing but the matrix and the right-hand side:
`x_{j+1}/x_j = M[j+1][j] / M[j][j+1]`, scaled so that the last equation (`Σ x = rhs[-1]`) holds. -/
def bdUnnorm (M : Nat → Nat → α) : Nat → α
  | 0 => 1
  | j + 1 => bdUnnorm M j * (M (j + 1) j / M j (j + 1))

def bdSolve : Solver α := fun M b rows cols _ _ z =>
  b (rows - 1) * (bdUnnorm M z / sumTo (bdUnnorm M) cols)

/-! ### selection of the thermal-CX coefficients, entry points -/

/-- `if tcx_donor is not None and coef_tcx is None: coef_tcx = get_rates_tcx(…)` / `else: coef_tcx = None`
(`keeps = false`, the code as written) or `elif tcx_donor is None: coef_tcx = None` (`keeps = true`). -/
def selectTcx (keeps : Bool) (donor : Bool) (supplied : Option (Nat → α)) (load : Nat → α) : Option (Nat → α) :=
  if donor && supplied.isNone then some load
  else if keeps then (if donor then supplied else none)
  else none

/-- `_from_elementdensity` / `_match_plasma_neutrality`: `if tcx_donor is not None: coef_tcx = get_rates_tcx(…) else: None` -/
def outerTcx (donor : Bool) (load : Nat → α) : Option (Nat → α) := if donor then some load else none

/-- which of the three helpers keep a supplied `coef_tcx` (generated from the source) -/
structure Flags where
  fa : Bool   -- `_fractional_abundance`
  fd : Bool   -- `_from_element_density_point`
  mn : Bool   -- `_match_element_density_point`
deriving Repr, DecidableEq

/-- `fractional_abundance` at one profile index (`_fractional_abundance` is called without `coef_tcx`) -/
def entryFractional (fl : Flags) (solve : Solver α) (Z : Nat) (S A C : Nat → α) (donor : Bool) (ne nD : α)
    (z : Nat) : α :=
  fracPoint solve Z S A (selectTcx fl.fa donor none C) ne nD z

/-- `from_elementdensity` at one profile index: `_from_elementdensity` loads the rates and *passes them* to
`_from_element_density_point`; `abundance = fractional_abundance * element_density` -/
def entryFromDensity (fl : Flags) (solve : Solver α) (Z : Nat) (S A C : Nat → α) (donor : Bool) (ne nD dens : α)
    (z : Nat) : α :=
  fracPoint solve Z S A (selectTcx fl.fd donor (outerTcx donor C) C) ne nD z * dens

/-- `element_n_e -= index * value` over one species -/
def subOne : α → Nat → List α → α
  | acc, _, [] => acc
  | acc, i, v :: vs => subOne (acc - (i : α) * v) (i + 1) vs

/-- … over all species, starting from `n_e` -/
def subAll (acc : α) (species : List (List α)) : α := species.foldl (fun a sp => subOne a 0 sp) acc

/-- `z_mean = Σ index * value` over the fractional abundance -/
def zMean (f : Nat → α) (Z : Nat) : α := sumTo (fun i => (i : α) * f i) (Z + 1)

/-- lines 343-362 of `_match_element_density_point` for a given fractional abundance `f` -/
def matchPoint (f : Nat → α) (Z : Nat) (species : List (List α)) (ne : α) (z : Nat) : α :=
  let e := subAll ne species
  let e' := if e < 0 then 0 else e
  f z * (e' / zMean f Z)

/-- `match_plasma_neutrality` at one profile index -/
def entryMatch (fl : Flags) (solve : Solver α) (Z : Nat) (S A C : Nat → α) (donor : Bool) (ne nD : α)
    (species : List (List α)) (z : Nat) : α :=
  matchPoint (fracPoint solve Z S A (selectTcx fl.mn donor (outerTcx donor C) C) ne nD) Z species ne z

/-! ### input normalisation (`_parameters_to_numpy`, `_assign_donor_density`) and the `np.ndindex` loops -/

/-- an input profile: scalar, 1-D array, 2-D array (rows), `Function1D`, `Function2D` -/
inductive Profile (α : Type) where
  | scalar (v : α)
  | arr1 (vs : List α)
  | arr2 (vs : List (List α))
  | fn1 (f : α → α)
  | fn2 (f : α → α → α)

/-- `free_variable`: absent, a 1-D coordinate array, or a pair of 1-D coordinate arrays -/
inductive FreeVar (α : Type) where
  | none
  | one (xs : List α)
  | two (xs ys : List α)

/-- shape and C-order data of a numpy array of at most two dimensions -/
structure Arr (α : Type) where
  shape : List Nat
  data : List α

/-- one parameter of `_parameters_to_numpy`; `none` = the call raises -/
def toArray (fv : FreeVar α) : Profile α → Option (Arr α)
  | .scalar v => some ⟨[1], [v]⟩
  | .arr1 vs => some ⟨[vs.length], vs⟩
  | .arr2 vs => some ⟨[vs.length, (vs.headD []).length], vs.flatten⟩
  | .fn1 f =>
      match fv with
      | .one xs => some ⟨[xs.length], xs.map f⟩
      | _ => none
  | .fn2 f =>
      match fv with
      | .two xs ys => some ⟨[xs.length, ys.length], (xs.map fun x => ys.map fun y => f x y).flatten⟩
      | _ => none

/-- `_assign_donor_density`: zeros shaped like the major profile when no donor density is given -/
def assignDonor (fv : FreeVar α) (major : Profile α) : Option (Profile α) → Option (Arr α)
  | some d => toArray fv d
  | none =>
      match toArray fv major with
      | some a => some ⟨a.shape, a.data.map fun _ => 0⟩
      | none => none

/-- `_parameters_to_numpy(*parameters)`: all shapes must coincide (else `ValueError`) -/
def toArrays (ps : List (Option (Arr α))) : Option (List Nat × List (List α)) :=
  match ps with
  | [] => none
  | none :: _ => none
  | some a :: rest =>
      if rest.all (fun p => match p with | some b => b.shape == a.shape | none => false) then
        some (a.shape, (some a :: rest).map fun p => match p with | some b => b.data | none => [])
      else none

/-- `_parameters_to_numpy` for a `{charge: value}` dictionary at one profile index: `array = np.zeros(len(param))`, then
`array[key] = value` for the items **in insertion order** -/
def dictToArray (n : Nat) (items : List (Nat × α)) : List α :=
  items.foldl (fun a kv => a.set kv.1 kv.2) (List.replicate n 0)

/-- every species given as a dictionary -/
def speciesOfDicts (ds : List (List (Nat × α))) : List (List α) := ds.map fun d => dictToArray d.length d

/-- the residual sum of squares that `lsq_linear` minimises -/
def sumSq (rows cols : Nat) (M : Nat → Nat → α) (b : Nat → α) (x : Nat → α) : α :=
  sumTo (fun i => (rowDot cols M x i - b i) * (rowDot cols M x i - b i)) rows

/-- the `for index in np.ndindex(*n_e.shape)` loop of `_fractional_abundance`: one point solve per index (C order);
the result for charge `z` at flat index `k` is `(profileFractional … )[k] z` -/
def profileFractional (fl : Flags) (solve : Solver α) (Z : Nat) (S A C : α → α → Nat → α) (donor : Bool)
    (ne te nD : List α) : List (Nat → α) :=
  (ne.zip (te.zip nD)).map fun p =>
    entryFractional fl solve Z (S p.1 p.2.1) (A p.1 p.2.1) (C p.1 p.2.1) donor p.1 p.2.2

def profileFromDensity (fl : Flags) (solve : Solver α) (Z : Nat) (S A C : α → α → Nat → α) (donor : Bool)
    (dens ne te nD : List α) : List (Nat → α) :=
  (dens.zip (ne.zip (te.zip nD))).map fun p =>
    entryFromDensity fl solve Z (S p.2.1 p.2.2.1) (A p.2.1 p.2.2.1) (C p.2.1 p.2.2.1) donor p.2.1 p.2.2.2 p.1

/-! ### the public array-level entry points: normalisation ladder + loop (round 6) -/

/-- `fractional_abundance` lines 427-437: `tcx_donor_n = _assign_donor_density(tcx_donor_n, n_e, free_variable)`, then
`n_e, t_e, tcx_donor_n = _parameters_to_numpy(n_e, t_e, tcx_donor_n, free_variable=…)` (raises unless all shapes coincide),
then the `np.ndindex` loop.  `none` = the call raises; otherwise the common shape, the normalised `n_e`, `t_e` (C order) and
the result per flat index. -/
def callFractional (fl : Flags) (solve : Solver α) (Z : Nat) (S A C : α → α → Nat → α) (donor : Bool)
    (fv : FreeVar α) (pne pte : Profile α) (pd : Option (Profile α)) :
    Option (List Nat × List α × List α × List (Nat → α)) :=
  match toArrays [toArray fv pne, toArray fv pte, assignDonor fv pne pd] with
  | some (sh, [ne, te, nD]) => some (sh, ne, te, profileFractional fl solve Z S A C donor ne te nD)
  | _ => none

/-- `from_elementdensity` lines 499-510: the same ladder with `element_density` as first parameter of `_parameters_to_numpy`
(the donor zeros are still shaped like `n_e`) -/
def callFromDensity (fl : Flags) (solve : Solver α) (Z : Nat) (S A C : α → α → Nat → α) (donor : Bool)
    (fv : FreeVar α) (pdens pne pte : Profile α) (pd : Option (Profile α)) :
    Option (List Nat × List α × List α × List (Nat → α)) :=
  match toArrays [toArray fv pdens, toArray fv pne, toArray fv pte, assignDonor fv pne pd] with
  | some (sh, [dens, ne, te, nD]) => some (sh, ne, te, profileFromDensity fl solve Z S A C donor dens ne te nD)
  | _ => none

end
end Cherab.IonBalance
