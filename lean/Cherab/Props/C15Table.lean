import Cherab.Model.Groups
import Cherab.Gen.GroupTable

/-!
# C15 — the generated descriptor table is well-formed

`table_wf` is the obligation that ties the generic broadcast laws (`Cherab.Props.C15`) to the source as it is now:
every property object reachable on a group class is a correctly wired instance of the broadcast skeleton, or one of
the documented special shapes under its documented name.  It lives in its own module because it is *expected to
break* when the source contains a mis-wired property (then the check searches the implementation for the failing
assignment); the generic laws build and are audited independently.
-/
namespace Cherab.Props.C15Table
open Cherab.Groups Cherab.Gen.GroupTable

theorem table_all_admissible : table.all (fun d => d.admissible table) = true := by decide +kernel

/-- every (class, attribute) descriptor generated from /repo is admissible -/
theorem table_wf : ∀ d ∈ table, d.admissible table = true :=
  List.all_eq_true.mp table_all_admissible

end Cherab.Props.C15Table
