/- helper lemmas for C04 (beam density): fold/sum, cumulative trapezoid, piecewise-linear interpolation -/
import Cherab.Model.BeamDensity
import Mathlib.Tactic.Ring
import Mathlib.Tactic.Linarith
import Mathlib.Tactic.FieldSimp
import Mathlib.Tactic.Positivity
import Mathlib.Tactic.NormNum.OfScientific
import Mathlib.Algebra.Order.Field.Basic
import Mathlib.Algebra.Order.BigOperators.Group.List
import Mathlib.Data.List.Pairwise

namespace Cherab.Lemmas.BeamDensity
set_option linter.unusedSectionVars false
set_option linter.unusedVariables false
open Cherab.BeamDensity

variable {α : Type} [Field α] [LinearOrder α] [IsStrictOrderedRing α]

theorem two_lit : (2.0 : α) = 2 := by norm_num
theorem half_lit : (0.5 : α) = 1 / 2 := by norm_num

/-- an accumulation loop `acc += f s` is a sum -/
theorem foldl_add_eq_sum {β : Type} (f : β → α) (l : List β) (a : α) :
    l.foldl (fun acc s => acc + f s) a = a + (l.map f).sum := by
  induction l generalizing a with
  | nil => simp
  | cons h t ih => simp [List.foldl_cons, ih, add_assoc]

/-! ### zip and Pairwise -/

theorem pairwise_zip_fst {β γ : Type} (R : β → β → Prop) :
    ∀ (xs : List β) (ys : List γ), xs.Pairwise R → (xs.zip ys).Pairwise (fun a b => R a.1 b.1)
  | [], _, _ => by simp
  | _ :: _, [], _ => by simp
  | x :: xs, y :: ys, h => by
      rw [List.zip_cons_cons, List.pairwise_cons]
      rw [List.pairwise_cons] at h
      exact ⟨fun p hp => h.1 p.1 (List.of_mem_zip (a := p.1) (b := p.2) hp).1, pairwise_zip_fst R xs ys h.2⟩

theorem pairwise_zip_snd {β γ : Type} (R : γ → γ → Prop) :
    ∀ (xs : List β) (ys : List γ), ys.Pairwise R → (xs.zip ys).Pairwise (fun a b => R a.2 b.2)
  | [], _, _ => by simp
  | _ :: _, [], _ => by simp
  | x :: xs, y :: ys, h => by
      rw [List.zip_cons_cons, List.pairwise_cons]
      rw [List.pairwise_cons] at h
      exact ⟨fun p hp => h.1 p.2 (List.of_mem_zip (a := p.1) (b := p.2) hp).2, pairwise_zip_snd R xs ys h.2⟩

/-! ### cumulative trapezoid -/

theorem trap_nonneg (x0 x1 y0 y1 : α) (hx : x0 ≤ x1) (h0 : 0 ≤ y0) (h1 : 0 ≤ y1) :
    0 ≤ (x1 - x0) * (y1 + y0) / 2.0 := by
  rw [two_lit]
  have : 0 ≤ x1 - x0 := sub_nonneg.mpr hx
  positivity

theorem cumtrapzFrom_ge (rest : List (α × α)) :
    ∀ (acc x0 y0 : α), ((x0, y0) :: rest).Pairwise (fun a b => a.1 ≤ b.1) → (∀ p ∈ (x0, y0) :: rest, 0 ≤ p.2) →
      ∀ c ∈ cumtrapzFrom acc x0 y0 rest, acc ≤ c := by
  induction rest with
  | nil => intro acc x0 y0 _ _ c hc; simp [cumtrapzFrom] at hc
  | cons p rest ih =>
      intro acc x0 y0 hx hy c hc
      obtain ⟨x1, y1⟩ := p
      rw [List.pairwise_cons] at hx
      have h01 : x0 ≤ x1 := hx.1 (x1, y1) (by simp)
      have hy0 : 0 ≤ y0 := hy (x0, y0) (by simp)
      have hy1 : 0 ≤ y1 := hy (x1, y1) (by simp)
      have ht := trap_nonneg x0 x1 y0 y1 h01 hy0 hy1
      simp only [cumtrapzFrom, List.mem_cons] at hc
      rcases hc with rfl | hc
      · linarith
      · have := ih _ x1 y1 hx.2 (fun q hq => hy q (List.mem_cons_of_mem _ hq)) c hc
        linarith

theorem cumtrapzFrom_sorted (rest : List (α × α)) :
    ∀ (acc x0 y0 : α), ((x0, y0) :: rest).Pairwise (fun a b => a.1 ≤ b.1) → (∀ p ∈ (x0, y0) :: rest, 0 ≤ p.2) →
      (cumtrapzFrom acc x0 y0 rest).Pairwise (· ≤ ·) := by
  induction rest with
  | nil => intro acc x0 y0 _ _; simp [cumtrapzFrom]
  | cons p rest ih =>
      intro acc x0 y0 hx hy
      obtain ⟨x1, y1⟩ := p
      rw [List.pairwise_cons] at hx
      have hy' : ∀ q ∈ (x1, y1) :: rest, 0 ≤ q.2 := fun q hq => hy q (List.mem_cons_of_mem _ hq)
      simp only [cumtrapzFrom, List.pairwise_cons]
      exact ⟨fun c hc => cumtrapzFrom_ge rest _ x1 y1 hx.2 hy' c hc, ih _ x1 y1 hx.2 hy'⟩

/-- with a constant integrand `s` the cumulative trapezoid is exact: `acc + s (x - x0)` at every abscissa -/
theorem cumtrapzFrom_const (s : α) (rest : List (α × α)) (hs : ∀ p ∈ rest, p.2 = s) :
    ∀ (acc x0 : α), ∀ q ∈ (rest.map Prod.fst).zip (cumtrapzFrom acc x0 s rest), q.2 = acc + s * (q.1 - x0) := by
  induction rest with
  | nil => intro acc x0 q hq; simp [cumtrapzFrom] at hq
  | cons p rest ih =>
      intro acc x0 q hq
      obtain ⟨x1, y1⟩ := p
      have hy1 : y1 = s := hs (x1, y1) (by simp)
      subst hy1
      simp only [cumtrapzFrom, List.map_cons, List.zip_cons_cons, List.mem_cons] at hq
      rcases hq with rfl | hq
      · simp only; rw [two_lit]; ring
      · have := ih (fun p hp => hs p (List.mem_cons_of_mem _ hp)) _ x1 q hq
        rw [this, two_lit]; ring

theorem cumtrapzFrom_length (rest : List (α × α)) : ∀ (acc x0 y0 : α), (cumtrapzFrom acc x0 y0 rest).length = rest.length := by
  induction rest with
  | nil => intros; simp [cumtrapzFrom]
  | cons p rest ih => intro acc x0 y0; obtain ⟨x1, y1⟩ := p; simp [cumtrapzFrom, ih]

theorem cumtrapz_length (pts : List (α × α)) : (cumtrapz pts).length = pts.length := by
  cases pts with
  | nil => simp [cumtrapz]
  | cons p rest => obtain ⟨x0, y0⟩ := p; simp [cumtrapz, cumtrapzFrom_length]

/-! ### raysect `linear1d` and the piecewise-linear interpolant -/

theorem linear1d_left (x0 x1 f0 f1 : α) : linear1d x0 x1 f0 f1 x0 = f0 := by
  unfold linear1d; simp

theorem linear1d_right (x0 x1 f0 f1 : α) (h : x0 < x1) : linear1d x0 x1 f0 f1 x1 = f1 := by
  unfold linear1d
  have : x1 - x0 ≠ 0 := ne_of_gt (sub_pos.mpr h)
  field_simp
  ring

theorem linear1d_const (x0 x1 c x : α) : linear1d x0 x1 c c x = c := by
  unfold linear1d; simp

/-- a chord with non-positive slope is antitone -/
theorem linear1d_antitone (x0 x1 f0 f1 z z' : α) (h : x0 < x1) (hf : f1 ≤ f0) (hz : z ≤ z') :
    linear1d x0 x1 f0 f1 z' ≤ linear1d x0 x1 f0 f1 z := by
  unfold linear1d
  have hd : 0 < x1 - x0 := sub_pos.mpr h
  have hs : (f1 - f0) / (x1 - x0) ≤ 0 := div_nonpos_of_nonpos_of_nonneg (by linarith) hd.le
  have : (f1 - f0) / (x1 - x0) * (z' - x0) ≤ (f1 - f0) / (x1 - x0) * (z - x0) :=
    mul_le_mul_of_nonpos_left (by linarith) hs
  linarith

theorem linear1d_ge_right (x0 x1 f0 f1 z : α) (h : x0 < x1) (hf : f1 ≤ f0) (hz : z ≤ x1) :
    f1 ≤ linear1d x0 x1 f0 f1 z := by
  have := linear1d_antitone x0 x1 f0 f1 z x1 h hf hz
  rwa [linear1d_right x0 x1 f0 f1 h] at this

theorem linear1d_le_left (x0 x1 f0 f1 z : α) (h : x0 < x1) (hf : f1 ≤ f0) (hz : x0 ≤ z) :
    linear1d x0 x1 f0 f1 z ≤ f0 := by
  have := linear1d_antitone x0 x1 f0 f1 x0 z h hf hz
  rwa [linear1d_left] at this

/-- knots sorted by abscissa (strictly) with non-increasing values -/
def Knots (x0 f0 : α) (rest : List (α × α)) : Prop :=
  ((x0, f0) :: rest).Pairwise (fun a b => a.1 < b.1) ∧ ((x0, f0) :: rest).Pairwise (fun a b => b.2 ≤ a.2)

theorem Knots.tail {x0 f0 x1 f1 : α} {rest : List (α × α)} (h : Knots x0 f0 ((x1, f1) :: rest)) : Knots x1 f1 rest :=
  ⟨(List.pairwise_cons.mp h.1).2, (List.pairwise_cons.mp h.2).2⟩

theorem Knots.lt {x0 f0 x1 f1 : α} {rest : List (α × α)} (h : Knots x0 f0 ((x1, f1) :: rest)) : x0 < x1 :=
  (List.pairwise_cons.mp h.1).1 (x1, f1) (by simp)

theorem Knots.ge {x0 f0 x1 f1 : α} {rest : List (α × α)} (h : Knots x0 f0 ((x1, f1) :: rest)) : f1 ≤ f0 :=
  (List.pairwise_cons.mp h.2).1 (x1, f1) (by simp)

theorem interpFrom_le_first (rest : List (α × α)) :
    ∀ (x0 f0 z : α), Knots x0 f0 rest → x0 ≤ z → interpFrom x0 f0 rest z ≤ f0 := by
  induction rest with
  | nil => intro x0 f0 z _ _; simp [interpFrom]
  | cons p rest ih =>
      intro x0 f0 z hk hz
      obtain ⟨x1, f1⟩ := p
      cases rest with
      | nil =>
          simp only [interpFrom]
          split_ifs with h
          · exact linear1d_le_left x0 x1 f0 f1 z hk.lt hk.ge hz
          · exact hk.ge
      | cons q rest =>
          simp only [interpFrom]
          split_ifs with h
          · exact linear1d_le_left x0 x1 f0 f1 z hk.lt hk.ge hz
          · exact le_trans (ih x1 f1 z hk.tail (not_lt.mp h)) hk.ge

/-- the interpolant of non-increasing knots is antitone on the whole line -/
theorem interpFrom_antitone (rest : List (α × α)) :
    ∀ (x0 f0 z z' : α), Knots x0 f0 rest → z ≤ z' → interpFrom x0 f0 rest z' ≤ interpFrom x0 f0 rest z := by
  induction rest with
  | nil => intro x0 f0 z z' _ _; simp [interpFrom]
  | cons p rest ih =>
      intro x0 f0 z z' hk hz
      obtain ⟨x1, f1⟩ := p
      cases rest with
      | nil =>
          simp only [interpFrom]
          split_ifs with h' h h
          · exact linear1d_antitone x0 x1 f0 f1 z z' hk.lt hk.ge hz
          · exact absurd (le_trans hz h') h
          · exact linear1d_ge_right x0 x1 f0 f1 z hk.lt hk.ge h
          · exact le_refl _
      | cons q rest =>
          simp only [interpFrom]
          split_ifs with h' h h
          · exact linear1d_antitone x0 x1 f0 f1 z z' hk.lt hk.ge hz
          · exact absurd (lt_of_le_of_lt hz h') h
          · exact le_trans (interpFrom_le_first (q :: rest) x1 f1 z' hk.tail (not_lt.mp h'))
              (linear1d_ge_right x0 x1 f0 f1 z hk.lt hk.ge h.le)
          · exact ih x1 f1 z z' hk.tail hz

/-- lower bound: if every knot value is `≥ m` so is the interpolant to the right of the first knot -/
theorem interpFrom_ge (m : α) (rest : List (α × α)) :
    ∀ (x0 f0 z : α), Knots x0 f0 rest → (∀ p ∈ (x0, f0) :: rest, m ≤ p.2) → x0 ≤ z →
      m ≤ interpFrom x0 f0 rest z := by
  induction rest with
  | nil => intro x0 f0 z _ hm _; simpa [interpFrom] using hm (x0, f0) (by simp)
  | cons p rest ih =>
      intro x0 f0 z hk hm hz
      obtain ⟨x1, f1⟩ := p
      have hm1 : m ≤ f1 := hm (x1, f1) (by simp)
      cases rest with
      | nil =>
          simp only [interpFrom]
          split_ifs with h
          · exact le_trans hm1 (linear1d_ge_right x0 x1 f0 f1 z hk.lt hk.ge h)
          · exact hm1
      | cons q rest =>
          simp only [interpFrom]
          split_ifs with h
          · exact le_trans hm1 (linear1d_ge_right x0 x1 f0 f1 z hk.lt hk.ge h.le)
          · exact ih x1 f1 z hk.tail (fun p hp => hm p (List.mem_cons_of_mem _ hp)) (not_lt.mp h)

/-- the interpolant passes through its knots -/
theorem interpFrom_knot (rest : List (α × α)) :
    ∀ (x0 f0 : α), ((x0, f0) :: rest).Pairwise (fun a b => a.1 < b.1) →
      ∀ p ∈ (x0, f0) :: rest, interpFrom x0 f0 rest p.1 = p.2 := by
  induction rest with
  | nil => intro x0 f0 _ p hp; simp at hp; subst hp; simp [interpFrom]
  | cons q rest ih =>
      intro x0 f0 hx p hp
      obtain ⟨x1, f1⟩ := q
      have h01 : x0 < x1 := (List.pairwise_cons.mp hx).1 (x1, f1) (by simp)
      have hx' := (List.pairwise_cons.mp hx).2
      rw [List.mem_cons] at hp
      rcases hp with rfl | hp
      · cases rest with
        | nil => simp only [interpFrom]; rw [if_pos h01.le]; exact linear1d_left _ _ _ _
        | cons r rest => simp only [interpFrom]; rw [if_pos h01]; exact linear1d_left _ _ _ _
      · have hge : x1 ≤ p.1 := by
          rw [List.mem_cons] at hp
          rcases hp with rfl | hp
          · exact le_refl _
          · exact ((List.pairwise_cons.mp hx').1 p hp).le
        cases rest with
        | nil =>
            simp at hp; subst hp
            simp only [interpFrom]; rw [if_pos (le_refl _)]; exact linear1d_right _ _ _ _ h01
        | cons r rest =>
            simp only [interpFrom]; rw [if_neg (not_lt.mpr hge)]
            exact ih x1 f1 hx' p hp

/-- constant knots give a constant interpolant -/
theorem interpFrom_const (c : α) (rest : List (α × α)) :
    ∀ (x0 z : α), (∀ p ∈ rest, p.2 = c) → interpFrom x0 c rest z = c := by
  induction rest with
  | nil => intro x0 z _; simp [interpFrom]
  | cons q rest ih =>
      intro x0 z hc
      obtain ⟨x1, f1⟩ := q
      have h1 : f1 = c := hc (x1, f1) (by simp)
      subst h1
      cases rest with
      | nil => simp only [interpFrom]; split_ifs <;> simp [linear1d_const]
      | cons r rest =>
          simp only [interpFrom]
          split_ifs
          · exact linear1d_const _ _ _ _
          · exact ih x1 z (fun p hp => hc p (List.mem_cons_of_mem _ hp))

theorem le_lastX (rest : List (α × α)) :
    ∀ (x0 f0 : α), ((x0, f0) :: rest).Pairwise (fun a b => a.1 < b.1) → ∀ p ∈ (x0, f0) :: rest, p.1 ≤ lastX x0 rest := by
  induction rest with
  | nil => intro x0 f0 _ p hp; simp at hp; subst hp; simp [lastX]
  | cons q rest ih =>
      intro x0 f0 hx p hp
      obtain ⟨x1, f1⟩ := q
      have h01 : x0 < x1 := (List.pairwise_cons.mp hx).1 (x1, f1) (by simp)
      have hx' := (List.pairwise_cons.mp hx).2
      simp only [lastX]
      rw [List.mem_cons] at hp
      rcases hp with rfl | hp
      · exact le_trans h01.le (ih x1 f1 hx' (x1, f1) (by simp))
      · exact ih x1 f1 hx' p hp

end Cherab.Lemmas.BeamDensity
