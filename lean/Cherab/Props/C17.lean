import Cherab.Model.Voxels
import Cherab.Lemmas.Voxels
import Mathlib.Tactic.Ring
import Mathlib.Tactic.Linarith
import Mathlib.Tactic.FieldSimp
import Mathlib.Tactic.Positivity
import Mathlib.Tactic.NormNum.OfScientific
import Mathlib.Algebra.Order.Field.Basic
import Mathlib.Algebra.Order.Ring.Rat
import Mathlib.Data.List.Rotate
import Mathlib.Algebra.BigOperators.Ring.List
import Mathlib.Algebra.Order.BigOperators.Group.List
import Mathlib.MeasureTheory.Measure.Lebesgue.Basic

/-!
# C17 — voxel area, centroid and volume are exact and independent of vertex order; grid volume is the sum;
emissivity sampling picks triangles by area and averages the samples

Property theorems only, over an arbitrary ordered field, for every vertex list.
-/
namespace Cherab.Props.C17
set_option linter.unusedSectionVars false
open Cherab.Voxels Cherab.Lemmas.Voxels

variable {α : Type} [Field α] [LinearOrder α] [IsStrictOrderedRing α]

/-! ## 1. independence of the starting vertex and of the orientation -/

theorem shoelace2_eq (l : List (α × α)) : shoelace2 l = esum cross l := accum_eq_esum _ _

theorem cross_anti (p q : α × α) : cross q p = - cross p q := by unfold cross; ring
theorem cxTerm_anti (p q : α × α) : cxTerm q p = - cxTerm p q := by unfold cxTerm cross; ring
theorem cyTerm_anti (p q : α × α) : cyTerm q p = - cyTerm p q := by unfold cyTerm cross; ring

theorem lit6 : (6.0 : α) = 6 := by norm_num
theorem lit2 : (2.0 : α) = 2 := by norm_num
theorem lit05 : (0.5 : α) = 1 / 2 := by norm_num

theorem absv_eq_abs (x : α) : absv x = |x| := by
  unfold absv; split_ifs with h
  · rw [abs_of_neg h]
  · rw [abs_of_nonneg (not_lt.mp h)]

/-- the signed shoelace sum does not depend on which vertex the list starts at -/
theorem shoelace_rotate (l : List (α × α)) (n : Nat) : shoelace2 (l.rotate n) = shoelace2 l := by
  rw [shoelace2_eq, shoelace2_eq, esum_rotate]

/-- reversing the orientation negates the signed sum -/
theorem shoelace_reverse (l : List (α × α)) : shoelace2 l.reverse = - shoelace2 l := by
  rw [shoelace2_eq, shoelace2_eq, esum_reverse_anti cross cross_anti]

theorem area_rotate (l : List (α × α)) (n : Nat) : area (l.rotate n) = area l := by
  unfold area; rw [shoelace_rotate]

theorem area_reverse (l : List (α × α)) : area l.reverse = area l := by
  unfold area; rw [shoelace_reverse, absv_eq_abs, absv_eq_abs, abs_neg]

theorem centroid_rotate (l : List (α × α)) (n : Nat) : centroid (l.rotate n) = centroid l := by
  unfold centroid
  simp only [shoelace_rotate, accum_eq_esum, esum_rotate]

theorem centroid_reverse (l : List (α × α)) : centroid l.reverse = centroid l := by
  unfold centroid
  have hx : accum cxTerm l.reverse = - accum cxTerm l := by
    rw [accum_eq_esum, accum_eq_esum, esum_reverse_anti cxTerm cxTerm_anti]
  have hy : accum cyTerm l.reverse = - accum cyTerm l := by
    rw [accum_eq_esum, accum_eq_esum, esum_reverse_anti cyTerm cyTerm_anti]
  simp only [shoelace_reverse, hx, hy]
  rw [lit6, lit2]
  have e : (6 : α) * (-shoelace2 l / 2) = -(6 * (shoelace2 l / 2)) := by ring
  rw [e]
  simp only [beq_iff_eq, neg_eq_zero]
  split_ifs with h
  · rfl
  · rw [neg_div_neg_eq, neg_div_neg_eq]

theorem volume_rotate (pi : α) (l : List (α × α)) (n : Nat) : volume pi (l.rotate n) = volume pi l := by
  unfold volume; rw [centroid_rotate, area_rotate]

theorem volume_reverse (pi : α) (l : List (α × α)) : volume pi l.reverse = volume pi l := by
  unfold volume; rw [centroid_reverse, area_reverse]

/-- raysect's winding sum is the negated shoelace sum (they differ by a telescoping term) -/
theorem winding_eq_neg_shoelace (l : List (α × α)) : windingSum l = - shoelace2 l := by
  unfold windingSum
  rw [accum_eq_esum, shoelace2_eq]
  rw [esum_eq_of_telescope (fun p q => (-1 : α) * cross p q) windTerm (fun p => p.1 * p.2)
    (by intro p q; unfold windTerm cross; ring), esum_smul]
  ring

/-- the stored vertex list (after `__init__`'s winding normalisation) gives the same area, centroid, volume -/
theorem normalise_invariant (pi : α) (l : List (α × α)) :
    area (normalise l) = area l ∧ centroid (normalise l) = centroid l ∧
      volume pi (normalise l) = volume pi l := by
  unfold normalise
  split_ifs
  · exact ⟨rfl, rfl, rfl⟩
  · exact ⟨area_reverse l, centroid_reverse l, volume_reverse pi l⟩

/-- … and is clockwise (non-positive signed area) -/
theorem normalise_clockwise (l : List (α × α)) : shoelace2 (normalise l) ≤ 0 := by
  unfold normalise clockwise
  have hw := winding_eq_neg_shoelace l
  split_ifs with h
  · have : windingSum l > 0 := by simpa using h
    linarith
  · have : ¬ windingSum l > 0 := by simpa using h
    rw [shoelace_reverse]; linarith [not_lt.mp this]

/-- both orientations of a non-degenerate polygon are stored as the same list -/
theorem normalise_reverse (l : List (α × α)) (h : shoelace2 l ≠ 0) : normalise l.reverse = normalise l := by
  unfold normalise clockwise
  rw [winding_eq_neg_shoelace, winding_eq_neg_shoelace, shoelace_reverse]
  rcases lt_or_gt_of_ne h with h1 | h1
  · have c1 : decide (- -shoelace2 l > 0) = false := by simp; linarith
    have c2 : decide (- shoelace2 l > 0) = true := by simp; linarith
    rw [c1, c2]; simp
  · have c1 : decide (- -shoelace2 l > 0) = true := by simp; linarith
    have c2 : decide (- shoelace2 l > 0) = false := by simp; linarith
    rw [c1, c2]; simp

/-! ## 2. any radius and height: translation -/

/-- translate a vertex by `t` -/
def shift (t p : α × α) : α × α := (p.1 + t.1, p.2 + t.2)

theorem shoelace_translate (t : α × α) (l : List (α × α)) : shoelace2 (l.map (shift t)) = shoelace2 l := by
  rw [shoelace2_eq, shoelace2_eq, esum_map]
  exact esum_eq_of_telescope cross _ (fun p => t.1 * p.2 - t.2 * p.1)
    (by intro p q; unfold cross shift; ring) l

theorem area_translate (t : α × α) (l : List (α × α)) : area (l.map (shift t)) = area l := by
  unfold area; rw [shoelace_translate]

theorem cx_translate (t : α × α) (l : List (α × α)) :
    accum cxTerm (l.map (shift t)) = accum cxTerm l + 3 * t.1 * shoelace2 l := by
  rw [accum_eq_esum, accum_eq_esum, shoelace2_eq, esum_map]
  rw [esum_eq_of_telescope (fun p q => cxTerm p q + (3 * t.1) * cross p q) _
    (fun p => t.1 * p.1 * p.2 - t.2 * p.1 * p.1 + 2 * t.1 * t.1 * p.2 - 2 * t.1 * t.2 * p.1)
    (by intro p q; unfold cxTerm cross shift; ring) l]
  rw [esum_add, esum_smul]

theorem cy_translate (t : α × α) (l : List (α × α)) :
    accum cyTerm (l.map (shift t)) = accum cyTerm l + 3 * t.2 * shoelace2 l := by
  rw [accum_eq_esum, accum_eq_esum, shoelace2_eq, esum_map]
  rw [esum_eq_of_telescope (fun p q => cyTerm p q + (3 * t.2) * cross p q) _
    (fun p => t.1 * p.2 * p.2 - t.2 * p.1 * p.2 + 2 * t.1 * t.2 * p.2 - 2 * t.2 * t.2 * p.1)
    (by intro p q; unfold cyTerm cross shift; ring) l]
  rw [esum_add, esum_smul]

/-- moving the polygon moves the centroid by the same vector -/
theorem centroid_translate (t : α × α) (l : List (α × α)) :
    centroid (l.map (shift t)) = (centroid l).map (shift t) := by
  unfold centroid
  simp only [shoelace_translate, cx_translate, cy_translate, beq_iff_eq]
  split_ifs with h
  · rfl
  · simp only [Option.map_some, shift, Option.some.injEq, Prod.mk.injEq]
    rw [lit6, lit2] at h ⊢
    have hS : shoelace2 l ≠ 0 := by
      intro e; apply h; rw [e]; ring
    constructor <;> field_simp <;> ring

/-! ## 3. the formulas give the true area and centroid: fan and diagonal-split additivity -/

/-- twice the signed area of the triangle `(a, p, q)` -/
def tri2 (a p q : α × α) : α := cross a p + cross p q + cross q a

theorem tri2_eq_shoelace (a p q : α × α) : tri2 a p q = shoelace2 [a, p, q] := by
  simp [tri2, shoelace2, accum, edges]

theorem fanSum_congr {β : Type} (T T' : β → β → β → α) (h : ∀ a p q, T a p q = T' a p q) (a : β) (l : List β) :
    fanSum T a l = fanSum T' a l := by
  have : T = T' := by funext a p q; exact h a p q
  rw [this]

theorem fanSum_smul {β : Type} (c : α) (T : β → β → β → α) (a : β) (l : List β) :
    fanSum (fun a p q => c * T a p q) a l = c * fanSum T a l := by
  induction l with
  | nil => simp [fanSum]
  | cons p r ih =>
    cases r with
    | nil => simp [fanSum]
    | cons q r' =>
      simp only [fanSum] at ih ⊢
      rw [ih]; ring

/-- the signed shoelace area of any vertex list is the sum of the signed areas of the fan triangles
`(v0, v_i, v_{i+1})` -/
theorem shoelace_fan (a : α × α) (l : List (α × α)) : shoelace2 (a :: l) = fanSum tri2 a l := by
  rw [shoelace2_eq, esum_fan cross cross_anti]
  rfl

/-- first moments: Bourke's numerators are the fan triangles' (vertex sum) × (signed double area) -/
theorem centroid_fan (a : α × α) (l : List (α × α)) :
    accum cxTerm (a :: l) = fanSum (fun a p q => (a.1 + p.1 + q.1) * tri2 a p q) a l ∧
    accum cyTerm (a :: l) = fanSum (fun a p q => (a.2 + p.2 + q.2) * tri2 a p q) a l := by
  constructor
  · rw [accum_eq_esum, esum_fan cxTerm cxTerm_anti]
    apply fanSum_congr; intro a p q; unfold cxTerm tri2 cross; ring
  · rw [accum_eq_esum, esum_fan cyTerm cyTerm_anti]
    apply fanSum_congr; intro a p q; unfold cyTerm tri2 cross; ring

/-- the reported centroid is the area-weighted mean of the fan triangles' centroids (vertex means) -/
theorem centroid_is_weighted_mean (a : α × α) (l : List (α × α)) (c : α × α)
    (h : centroid (a :: l) = some c) :
    c.1 * fanSum tri2 a l = fanSum (fun a p q => (a.1 + p.1 + q.1) / 3 * tri2 a p q) a l ∧
    c.2 * fanSum tri2 a l = fanSum (fun a p q => (a.2 + p.2 + q.2) / 3 * tri2 a p q) a l := by
  unfold centroid at h
  simp only [beq_iff_eq, lit6, lit2] at h
  split_ifs at h with h0
  have hS : shoelace2 (a :: l) ≠ 0 := by intro e; apply h0; rw [e]; ring
  obtain ⟨hx, hy⟩ := centroid_fan a l
  simp only [Option.some.injEq] at h
  rw [← shoelace_fan]
  have e1 : (fun a p q : α × α => (a.1 + p.1 + q.1) / 3 * tri2 a p q)
      = fun a p q => (1 / 3 : α) * ((a.1 + p.1 + q.1) * tri2 a p q) := by funext a p q; ring
  have e2 : (fun a p q : α × α => (a.2 + p.2 + q.2) / 3 * tri2 a p q)
      = fun a p q => (1 / 3 : α) * ((a.2 + p.2 + q.2) * tri2 a p q) := by funext a p q; ring
  rw [e1, e2, fanSum_smul, fanSum_smul, ← hx, ← hy, ← h]
  constructor <;> field_simp <;> ring

/-- cutting a polygon along the diagonal `(a, b)`: signed areas add -/
theorem shoelace_split (a b : α × α) (Q R : List (α × α)) :
    shoelace2 (a :: Q ++ b :: R) = shoelace2 (a :: Q ++ [b]) + shoelace2 (a :: b :: R) := by
  simp only [shoelace2_eq]; exact esum_split cross cross_anti a b Q R

/-- … and so do the first moments -/
theorem moments_split (a b : α × α) (Q R : List (α × α)) :
    accum cxTerm (a :: Q ++ b :: R) = accum cxTerm (a :: Q ++ [b]) + accum cxTerm (a :: b :: R) ∧
    accum cyTerm (a :: Q ++ b :: R) = accum cyTerm (a :: Q ++ [b]) + accum cyTerm (a :: b :: R) := by
  simp only [accum_eq_esum]
  exact ⟨esum_split cxTerm cxTerm_anti a b Q R, esum_split cyTerm cyTerm_anti a b Q R⟩

/-- a triangulation obtained by repeatedly cutting along diagonals (what ear clipping does) -/
inductive Triangulates : List (α × α) → List ((α × α) × (α × α) × (α × α)) → Prop
  | tri (a b c : α × α) : Triangulates [a, b, c] [(a, b, c)]
  | split (a b : α × α) (Q R : List (α × α)) (t1 t2 : List ((α × α) × (α × α) × (α × α))) :
      Triangulates (a :: Q ++ [b]) t1 → Triangulates (a :: b :: R) t2 →
      Triangulates (a :: Q ++ b :: R) (t1 ++ t2)
  | rotate (l : List (α × α)) (n : Nat) (t : List ((α × α) × (α × α) × (α × α))) :
      Triangulates l t → Triangulates (l.rotate n) t
  | perm (l : List (α × α)) (t t' : List ((α × α) × (α × α) × (α × α))) :
      Triangulates l t → t.Perm t' → Triangulates l t'

/-- for every triangulation by diagonals, the triangles' signed areas add up to the polygon's signed area -/
theorem triangulation_area (l : List (α × α)) (t : List ((α × α) × (α × α) × (α × α)))
    (h : Triangulates l t) : (t.map fun T => tri2 T.1 T.2.1 T.2.2).sum = shoelace2 l := by
  induction h with
  | tri a b c => simp [tri2_eq_shoelace]
  | split a b Q R t1 t2 _ _ ih1 ih2 =>
    rw [List.map_append, List.sum_append, ih1, ih2]; exact (shoelace_split a b Q R).symm
  | rotate l n t _ ih => rw [ih, shoelace_rotate]
  | perm l t t' _ hp ih => rw [← ih]; exact (hp.map _).sum_eq.symm

/-- … and the first moments add up as well: Σ (vertex sum)·(signed double area) = Bourke numerator -/
theorem triangulation_moments (l : List (α × α)) (t : List ((α × α) × (α × α) × (α × α)))
    (h : Triangulates l t) :
    (t.map fun T => (T.1.1 + T.2.1.1 + T.2.2.1) * tri2 T.1 T.2.1 T.2.2).sum = accum cxTerm l ∧
    (t.map fun T => (T.1.2 + T.2.1.2 + T.2.2.2) * tri2 T.1 T.2.1 T.2.2).sum = accum cyTerm l := by
  induction h with
  | tri a b c =>
    obtain ⟨hx, hy⟩ := centroid_fan a [b, c]
    simp [hx, hy, fanSum]
  | split a b Q R t1 t2 _ _ ih1 ih2 =>
    obtain ⟨mx, my⟩ := moments_split a b Q R
    rw [List.map_append, List.sum_append, List.map_append, List.sum_append, ih1.1, ih1.2, ih2.1, ih2.2, mx, my]
    exact ⟨rfl, rfl⟩
  | rotate l n t _ ih =>
    simp only [accum_eq_esum, esum_rotate] at ih ⊢
    exact ih
  | perm l t t' _ hp ih =>
    rw [← ih.1, ← ih.2]
    exact ⟨(hp.map _).sum_eq.symm, (hp.map _).sum_eq.symm⟩

theorem list_sum_nonpos (l : List α) (h : ∀ x ∈ l, x ≤ 0) : l.sum ≤ 0 := by
  induction l with
  | nil => simp
  | cons x xs ih =>
    rw [List.sum_cons]
    have h1 := h x (by simp)
    have h2 := ih (fun y hy => h y (by simp [hy]))
    linarith

/-- with consistently oriented triangles (a triangulation of a *simple* polygon) the unsigned triangle areas
used by `emissivity_from_function` add up to `cross_sectional_area` -/
theorem triangulation_unsigned (l : List (α × α)) (t : List ((α × α) × (α × α) × (α × α)))
    (h : Triangulates l t) (hor : (∀ T ∈ t, tri2 T.1 T.2.1 T.2.2 ≤ 0) ∨ (∀ T ∈ t, 0 ≤ tri2 T.1 T.2.1 T.2.2)) :
    (t.map fun T => |tri2 T.1 T.2.1 T.2.2| / 2).sum = area l := by
  unfold area
  rw [absv_eq_abs, lit2, ← triangulation_area l t h]
  rcases hor with hn | hp
  · have e : ∀ T ∈ t, |tri2 T.1 T.2.1 T.2.2| / 2 = (-1 / 2 : α) * tri2 T.1 T.2.1 T.2.2 := by
      intro T hT; rw [abs_of_nonpos (hn T hT)]; ring
    rw [List.map_congr_left e, List.sum_map_mul_left]
    have : (t.map fun T => tri2 T.1 T.2.1 T.2.2).sum ≤ 0 := list_sum_nonpos _ (by
      intro x hx; obtain ⟨T, hT, rfl⟩ := List.mem_map.mp hx; exact hn T hT)
    rw [abs_of_nonpos this]; ring
  · have e : ∀ T ∈ t, |tri2 T.1 T.2.1 T.2.2| / 2 = (1 / 2 : α) * tri2 T.1 T.2.1 T.2.2 := by
      intro T hT; rw [abs_of_nonneg (hp T hT)]; ring
    rw [List.map_congr_left e, List.sum_map_mul_left]
    have : 0 ≤ (t.map fun T => tri2 T.1 T.2.1 T.2.2).sum := List.sum_nonneg (by
      intro x hx; obtain ⟨T, hT, rfl⟩ := List.mem_map.mp hx; exact hp T hT)
    rw [abs_of_nonneg this]; ring

/-- the code's `triangle_area` is half the absolute signed double area -/
theorem triArea_eq (a b c : α × α) : triArea a b c = |tri2 a b c| / 2 := by
  unfold triArea tri2 cross
  rw [absv_eq_abs, lit05]
  have : a.1 * b.2 + b.1 * c.2 + c.1 * a.2 - b.1 * a.2 - c.1 * b.2 - a.1 * c.2
      = a.1 * b.2 - b.1 * a.2 + (b.1 * c.2 - c.1 * b.2) + (c.1 * a.2 - a.1 * c.2) := by ring
  rw [this]; ring

/-! ### closed forms -/

/-- triangle: half base × height (cross product form) and the vertex mean -/
theorem triangle_exact (a b c : α × α) :
    area [a, b, c] = |(b.1 - a.1) * (c.2 - a.2) - (c.1 - a.1) * (b.2 - a.2)| / 2 ∧
    ((b.1 - a.1) * (c.2 - a.2) - (c.1 - a.1) * (b.2 - a.2) ≠ 0 →
      centroid [a, b, c] = some ((a.1 + b.1 + c.1) / 3, (a.2 + b.2 + c.2) / 3)) := by
  have hS : shoelace2 [a, b, c] = (b.1 - a.1) * (c.2 - a.2) - (c.1 - a.1) * (b.2 - a.2) := by
    simp [shoelace2, accum, edges, cross]; ring
  constructor
  · unfold area; rw [absv_eq_abs, lit2, hS]
  · intro hne
    obtain ⟨hx, hy⟩ := centroid_fan a [b, c]
    unfold centroid
    simp only [beq_iff_eq, lit6, lit2, hx, hy, fanSum, add_zero, ← tri2_eq_shoelace]
    rw [tri2_eq_shoelace, hS]
    have : (6 : α) * (((b.1 - a.1) * (c.2 - a.2) - (c.1 - a.1) * (b.2 - a.2)) / 2) ≠ 0 := by
      intro e; apply hne; linarith
    rw [if_neg this]
    simp only [Option.some.injEq, Prod.mk.injEq]
    constructor <;> field_simp <;> ring

/-- axis-aligned rectangle `[r0,r1] × [z0,z1]`: width × height, mid-point, and the exact volume of the ring
`π (r1² − r0²) (z1 − z0)` -/
theorem rect_exact (pi r0 r1 z0 z1 : α) (hr : r0 < r1) (hz : z0 < z1) :
    let l := [(r0, z0), (r1, z0), (r1, z1), (r0, z1)]
    area l = (r1 - r0) * (z1 - z0) ∧ centroid l = some ((r0 + r1) / 2, (z0 + z1) / 2) ∧
      volume pi l = pi * (r1 * r1 - r0 * r0) * (z1 - z0) := by
  intro l
  have hpos : 0 < (r1 - r0) * (z1 - z0) := mul_pos (by linarith) (by linarith)
  have hS : shoelace2 l = 2 * ((r1 - r0) * (z1 - z0)) := by
    simp [l, shoelace2, accum, edges, cross]; ring
  have hx : accum cxTerm l = 2 * ((r1 - r0) * (z1 - z0)) * (3 * (r0 + r1) / 2) := by
    simp [l, accum, edges, cxTerm, cross]; ring
  have hy : accum cyTerm l = 2 * ((r1 - r0) * (z1 - z0)) * (3 * (z0 + z1) / 2) := by
    simp [l, accum, edges, cyTerm, cross]; ring
  have ha : area l = (r1 - r0) * (z1 - z0) := by
    unfold area; rw [absv_eq_abs, lit2, hS, abs_of_pos (by linarith)]; ring
  have hc : centroid l = some ((r0 + r1) / 2, (z0 + z1) / 2) := by
    unfold centroid
    simp only [beq_iff_eq, lit6, lit2, hS, hx, hy]
    have : (6 : α) * (2 * ((r1 - r0) * (z1 - z0)) / 2) ≠ 0 := by
      have : (0 : α) < 6 * (2 * ((r1 - r0) * (z1 - z0)) / 2) := by linarith
      exact this.ne'
    rw [if_neg this]
    simp only [Option.some.injEq, Prod.mk.injEq]
    have h1 : (r1 - r0) ≠ 0 := by intro e; rw [e] at hpos; simp at hpos
    have h2 : (z1 - z0) ≠ 0 := by intro e; rw [e] at hpos; simp at hpos
    constructor <;> field_simp <;> ring
  refine ⟨ha, hc, ?_⟩
  unfold volume; rw [hc, ha, lit2]; simp only; ring

/-! ## 4. volume -/

/-- `volume = 2π · centroid radius · area` (Pappus), and 0 for a degenerate cross-section -/
theorem volume_pappus (pi : α) (l : List (α × α)) :
    (∀ c, centroid l = some c → volume pi l = 2 * pi * c.1 * area l) ∧
    (centroid l = none → volume pi l = 0) := by
  constructor
  · intro c h; unfold volume; rw [h, lit2]
  · intro h; unfold volume; rw [h]

/-- signed volume of the conical frustum swept by the edge `(p, q)` (times 3/π) -/
def frTerm (p q : α × α) : α := (p.1 * p.1 + p.1 * q.1 + q.1 * q.1) * (q.2 - p.2)

/-- Pappus' volume equals the classical solid-of-revolution volume: the signed sum of the conical frusta swept by
the edges, `π/3 · |Σ (r_i² + r_i r_{i+1} + r_{i+1}²)(z_{i+1} − z_i)|` up to the orientation sign -/
theorem volume_frustum (pi : α) (l : List (α × α)) (h : shoelace2 l ≠ 0) :
    volume pi l = pi / 3 * (if shoelace2 l < 0 then - esum frTerm l else esum frTerm l) := by
  have hF : esum frTerm l = accum cxTerm l := by
    rw [accum_eq_esum]
    exact esum_eq_of_telescope cxTerm frTerm (fun p => p.1 * p.1 * p.2)
      (by intro p q; unfold frTerm cxTerm cross; ring) l
  unfold volume centroid area
  simp only [beq_iff_eq, lit6, lit2, absv_eq_abs]
  have : (6 : α) * (shoelace2 l / 2) ≠ 0 := by intro e; apply h; linarith
  rw [if_neg this, hF]
  simp only
  split_ifs with hs
  · rw [abs_of_neg hs]; field_simp; ring
  · have : 0 < shoelace2 l := lt_of_le_of_ne (not_lt.mp hs) (Ne.symm h)
    rw [abs_of_pos this]; field_simp; ring

/-- the grid's total volume is the sum of its voxels' volumes … -/
theorem total_volume_sum (vols : List α) : totalVolume vols = vols.sum := by
  unfold totalVolume
  have := foldl_add_eq (fun x : α => x) 0 vols
  simpa using this

/-- … additive over concatenated grids and independent of the order of the voxels -/
theorem total_volume_append (v w : List α) : totalVolume (v ++ w) = totalVolume v + totalVolume w := by
  simp [total_volume_sum]

theorem total_volume_perm (v w : List α) (h : v.Perm w) : totalVolume v = totalVolume w := by
  simp only [total_volume_sum]; exact h.sum_eq

theorem total_volume_grid (pi : α) (cells : List (List (α × α))) :
    totalVolume (cells.map (volume pi)) = (cells.map (volume pi)).sum := total_volume_sum _

/-! ## 5. emissivity sampling: the cumulative table, the lookup, the sample point, the mean -/

theorem cumFrom_length (acc : α) (l : List α) : (cumFrom acc l).length = l.length := by
  induction l generalizing acc with
  | nil => rfl
  | cons a as ih => simp [cumFrom, ih]

theorem cumulativeAreas_length (l : List α) : (cumulativeAreas l).length = l.length := by
  cases l with
  | nil => rfl
  | cons a as => simp [cumulativeAreas, cumFrom_length]

theorem cumFrom_getD (acc : α) (l : List α) (j : Nat) (h : j < l.length) :
    (cumFrom acc l).getD j 0 = acc + (l.take (j + 1)).sum := by
  induction l generalizing acc j with
  | nil => simp at h
  | cons a as ih =>
    cases j with
    | zero => simp [cumFrom]
    | succ k =>
      simp only [cumFrom, List.getD_cons_succ, List.take_succ_cons, List.sum_cons]
      rw [ih (acc + a) k (by simpa using h)]; ring

/-- entry `j` of the table is the sum of the first `j+1` triangle areas -/
theorem cumulativeAreas_getD (l : List α) (j : Nat) (h : j < l.length) :
    (cumulativeAreas l).getD j 0 = (l.take (j + 1)).sum := by
  cases l with
  | nil => simp at h
  | cons a as =>
    cases j with
    | zero => simp [cumulativeAreas]
    | succ k =>
      simp only [cumulativeAreas, List.getD_cons_succ, List.take_succ_cons, List.sum_cons]
      exact cumFrom_getD a as k (by simpa using h)

/-- a table is sorted when later entries are not smaller -/
def SortedTable (x : List α) : Prop := ∀ i j, i ≤ j → j < x.length → x.getD i 0 ≤ x.getD j 0

theorem take_sum_mono (l : List α) (hl : ∀ a ∈ l, 0 ≤ a) (i j : Nat) (h : i ≤ j) :
    (l.take i).sum ≤ (l.take j).sum := by
  obtain ⟨d, rfl⟩ := Nat.exists_eq_add_of_le h
  rw [List.take_add, List.sum_append]
  have : 0 ≤ ((l.drop i).take d).sum := List.sum_nonneg (by
    intro x hx; exact hl x (List.mem_of_mem_drop (List.mem_of_mem_take hx)))
  linarith

theorem cumulativeAreas_sorted (l : List α) (hl : ∀ a ∈ l, 0 ≤ a) : SortedTable (cumulativeAreas l) := by
  intro i j hij hj
  rw [cumulativeAreas_length] at hj
  rw [cumulativeAreas_getD l i (by omega), cumulativeAreas_getD l j hj]
  exact take_sum_mono l hl _ _ (by omega)

/-- the bisection loop keeps `x[bottom] ≤ v < x[top]` and stops with adjacent indices -/
theorem bisect_spec (x : List α) (v : α) : ∀ (fuel b t : Nat), b < t → x.getD b 0 ≤ v → v < x.getD t 0 →
    t - b ≤ fuel →
    b ≤ bisect x v fuel b t ∧ bisect x v fuel b t < t ∧
      x.getD (bisect x v fuel b t) 0 ≤ v ∧ v < x.getD (bisect x v fuel b t + 1) 0 := by
  intro fuel
  induction fuel with
  | zero => intro b t hbt _ _ hf; omega
  | succ k ih =>
    intro b t hbt hb ht hf
    by_cases h1 : t - b = 1
    · have e : bisect x v (k + 1) b t = b := by simp only [bisect, h1, ↓reduceIte]
      rw [e]
      have : b + 1 = t := by omega
      exact ⟨le_refl _, hbt, hb, by rw [this]; exact ht⟩
    · have hm1 : b < (t + b) / 2 := by omega
      have hm2 : (t + b) / 2 < t := by omega
      by_cases h2 : v ≥ x.getD ((t + b) / 2) 0
      · have e : bisect x v (k + 1) b t = bisect x v k ((t + b) / 2) t := by
          simp only [bisect, h1, h2, ↓reduceIte]
        rw [e]
        obtain ⟨r1, r2, r3, r4⟩ := ih ((t + b) / 2) t hm2 h2 ht (by omega)
        exact ⟨by omega, r2, r3, r4⟩
      · have e : bisect x v (k + 1) b t = bisect x v k b ((t + b) / 2) := by
          simp only [bisect, h1, h2, ↓reduceIte]
        rw [e]
        obtain ⟨r1, r2, r3, r4⟩ := ih b ((t + b) / 2) hm1 hb (not_le.mp h2) (by omega)
        exact ⟨r1, by omega, r3, r4⟩

/-- `v` lies in bin `j` of the table: `x[j-1] ≤ v < x[j]`, open-ended at both ends (`j = 0`: below the table,
`j = length`: at or above its last entry) -/
def InBin (x : List α) (v : α) (j : Nat) : Prop :=
  j ≤ x.length ∧ (j = 0 ∨ x.getD (j - 1) 0 ≤ v) ∧ (j = x.length ∨ v < x.getD j 0)

/-- raysect's `find_index` returns the bin of `v` (minus one) — for every non-empty table, sorted or not -/
theorem findIndex_spec (x : List α) (v : α) (hx : 1 ≤ x.length) :
    ∃ j : Nat, findIndex x v + 1 = (j : Int) ∧ InBin x v j := by
  by_cases h1 : v < x.getD 0 0
  · refine ⟨0, ?_, ?_⟩
    · simp only [findIndex, h1, ↓reduceIte]; rfl
    · exact ⟨by omega, Or.inl rfl, Or.inr h1⟩
  · by_cases h2 : v ≥ x.getD (x.length - 1) 0
    · refine ⟨x.length, ?_, ?_⟩
      · simp only [findIndex, h1, h2, ↓reduceIte]; omega
      · exact ⟨le_refl _, Or.inr h2, Or.inl rfl⟩
    · have h1' : x.getD 0 0 ≤ v := not_lt.mp h1
      have h2' : v < x.getD (x.length - 1) 0 := not_le.mp h2
      have hlen : 0 < x.length - 1 := by
        rcases Nat.eq_or_lt_of_le hx with e | e
        · exfalso; rw [← e] at h2'; exact absurd h1' (not_le.mpr h2')
        · omega
      obtain ⟨r1, r2, r3, r4⟩ := bisect_spec x v x.length 0 (x.length - 1) hlen h1' h2' (by omega)
      refine ⟨bisect x v x.length 0 (x.length - 1) + 1, ?_, ?_⟩
      · simp only [findIndex, h1, h2, ↓reduceIte]; push_cast; ring
      · refine ⟨by omega, Or.inr ?_, Or.inr r4⟩
        simpa using r3

/-- in a sorted table the bin is unique -/
theorem inBin_unique (x : List α) (hs : SortedTable x) (v : α) (j j' : Nat) (h : InBin x v j) (h' : InBin x v j') :
    j = j' := by
  by_contra hne
  rcases Nat.lt_or_gt_of_ne hne with hlt | hlt
  · obtain ⟨hj, _, hu⟩ := h
    obtain ⟨hj', hl', _⟩ := h'
    have a1 : v < x.getD j 0 := by rcases hu with e | e; · omega
                                   · exact e
    have a2 : x.getD (j' - 1) 0 ≤ v := by rcases hl' with e | e; · omega
                                          · exact e
    have := hs j (j' - 1) (by omega) (by omega)
    linarith
  · obtain ⟨hj, hl, _⟩ := h
    obtain ⟨hj', _, hu'⟩ := h'
    have a1 : v < x.getD j' 0 := by rcases hu' with e | e; · omega
                                    · exact e
    have a2 : x.getD (j - 1) 0 ≤ v := by rcases hl with e | e; · omega
                                         · exact e
    have := hs j' (j - 1) (by omega) (by omega)
    linarith

/-- **the lookup as found in the code** returns `j` iff `cum[j-1] ≤ total·u < cum[j]` -/
theorem lookup_eq_iff (cum : List α) (hs : SortedTable cum) (hn : 1 ≤ cum.length) (total u : α) (j : Nat) :
    lookup true false cum total u = (j : Int) ↔ InBin cum (total * u) j := by
  obtain ⟨j0, e0, b0⟩ := findIndex_spec cum (total * u) hn
  simp only [lookup, if_true]
  constructor
  · intro h
    have : j0 = j := by
      have : (j0 : Int) = j := by rw [← e0]; simpa using h
      exact_mod_cast this
    rw [← this]; exact b0
  · intro h
    have := inBin_unique cum hs _ _ _ b0 h
    rw [← this]; simpa using e0

theorem sum_take_succ (l : List α) (j : Nat) (h : j < l.length) :
    (l.take (j + 1)).sum = (l.take j).sum + l.getD j 0 := by
  rw [List.take_add_one, List.sum_append]
  simp [List.getD, List.getElem?_eq_getElem h]

/-- **area-weighted choice**: with a table built from non-negative triangle areas whose sum is the total area,
triangle `j` is chosen exactly for `u` in the interval `[Σ_{i<j} a_i / total, Σ_{i≤j} a_i / total)`, whose length is
`a_j / total` — i.e. with probability `area_j / total` for uniform `u` -/
theorem pick_triangle_measure (as : List α) (hl : ∀ a ∈ as, 0 ≤ a) (hn : 2 ≤ as.length) (total : α)
    (ht : total = as.sum) (hpos : 0 < total) (u : α) (hu : 0 ≤ u) (j : Nat) (hj : j < as.length) :
    (pickTriangleG true false (cumulativeAreas as) total u = (j : Int) ↔
      (as.take j).sum / total ≤ u ∧ u < (as.take (j + 1)).sum / total) ∧
    (as.take (j + 1)).sum / total - (as.take j).sum / total = as.getD j 0 / total ∧
    (as.take 0).sum / total = 0 ∧ (as.take as.length).sum / total = 1 := by
  refine ⟨?_, ?_, by simp, by rw [List.take_length, ← ht]; exact div_self hpos.ne'⟩
  · unfold pickTriangleG
    rw [cumulativeAreas_length, if_pos (by omega),
      lookup_eq_iff _ (cumulativeAreas_sorted as hl) (by rw [cumulativeAreas_length]; omega)]
    unfold InBin
    rw [cumulativeAreas_length, cumulativeAreas_getD as j hj]
    rw [div_le_iff₀ hpos, lt_div_iff₀ hpos]
    constructor
    · rintro ⟨_, h1, h2⟩
      refine ⟨?_, ?_⟩
      · rcases h1 with e | e
        · subst e; simp; nlinarith
        · rw [cumulativeAreas_getD as (j - 1) (by omega)] at e
          rcases Nat.eq_zero_or_pos j with z | z
          · subst z; simp; nlinarith
          · rw [Nat.sub_add_cancel z] at e; linarith
      · rcases h2 with e | e
        · omega
        · linarith
    · rintro ⟨h1, h2⟩
      refine ⟨by omega, ?_, Or.inr (by linarith)⟩
      rcases Nat.eq_zero_or_pos j with z | z
      · exact Or.inl z
      · right
        rw [cumulativeAreas_getD as (j - 1) (by omega), Nat.sub_add_cancel z]; linarith
  · rw [sum_take_succ as j hj]; ring

/-- the index stays inside the triangle table when the table ends at the total area (true in exact arithmetic
for a consistently oriented triangulation: `triangulation_unsigned`) -/
theorem pick_in_range (as : List α) (hn : 1 ≤ as.length) (total : α)
    (ht : total = as.sum) (hpos : 0 < total) (u : α) (hu1 : u < 1) (st cl : Bool) :
    0 ≤ pickTriangleG st cl (cumulativeAreas as) total u ∧
      pickTriangleG st cl (cumulativeAreas as) total u < (as.length : Int) := by
  unfold pickTriangleG
  rw [cumulativeAreas_length]
  split_ifs with h2
  swap
  · constructor <;> omega
  have hlast : (cumulativeAreas as).getD (as.length - 1) 0 = total := by
    rw [cumulativeAreas_getD as (as.length - 1) (by omega), Nat.sub_add_cancel hn, List.take_length, ht]
  have hscale : (if st = true then total else (cumulativeAreas as).getD (as.length - 1) 0) = total := by
    split_ifs
    · rfl
    · exact hlast
  obtain ⟨j0, e0, b0⟩ := findIndex_spec (cumulativeAreas as) (total * u) (by rw [cumulativeAreas_length]; omega)
  have hj0 : j0 < as.length := by
    obtain ⟨hle, hlow, _⟩ := b0
    rw [cumulativeAreas_length] at hle
    rcases Nat.lt_or_ge j0 as.length with h | h
    · exact h
    · exfalso
      have hj : j0 = as.length := by omega
      rcases hlow with e | e
      · omega
      · rw [hj, hlast] at e; nlinarith
  simp only [lookup, cumulativeAreas_length, hscale, e0]
  split_ifs <;> constructor <;> omega

/-- `find_index` never returns less than −1 -/
theorem findIndex_ge (x : List α) (v : α) : -1 ≤ findIndex x v := by
  simp only [findIndex]
  split_ifs <;> omega

/-- **as found in the code** (`scaleTotal`, not clamped): if the table ends at or below `total·u` — which
rounding produces — the index is `num_triangles`, one past the end of `_triangles` -/
theorem lookup_leaves_table (cum : List α) (hs : SortedTable cum) (hn : 1 ≤ cum.length) (total u : α)
    (h : cum.getD (cum.length - 1) 0 ≤ total * u) : lookup true false cum total u = (cum.length : Int) := by
  rw [lookup_eq_iff cum hs hn]
  exact ⟨le_refl _, Or.inr h, Or.inl rfl⟩

/-- a clamped lookup (the proposed fix) stays inside the triangle table for every table, total and `u` -/
theorem lookup_clamped_in_range (st : Bool) (cum : List α) (hn : 1 ≤ cum.length) (total u : α) :
    0 ≤ lookup st true cum total u ∧ lookup st true cum total u < (cum.length : Int) := by
  have key : ∀ i n : Int, -1 ≤ i → 1 ≤ n →
      0 ≤ (if i + 1 ≥ n then n - 1 else i + 1) ∧ (if i + 1 ≥ n then n - 1 else i + 1) < n := by
    intro i n h1 h2; split_ifs <;> constructor <;> omega
  simp only [lookup, if_true]
  exact key _ _ (findIndex_ge _ _) (by exact_mod_cast hn)

/-- what holds of the lookup **as generated from the current source**: inside the table whenever the table ends
at the total area; and unconditionally once the source clamps the index (`Gen.pickClamped`) -/
theorem pickTriangle_in_range (as : List α) (hn : 1 ≤ as.length) (total : α) (ht : total = as.sum)
    (hpos : 0 < total) (u : α) (hu1 : u < 1) :
    0 ≤ pickTriangle (cumulativeAreas as) total u ∧ pickTriangle (cumulativeAreas as) total u < (as.length : Int) :=
  pick_in_range as hn total ht hpos u hu1 _ _

theorem pickTriangle_in_range_if_clamped (h : Cherab.Gen.Voxels.pickClamped = true) (cum : List α)
    (hn : 1 ≤ cum.length) (total u : α) :
    0 ≤ pickTriangle cum total u ∧ pickTriangle cum total u < (cum.length : Int) := by
  unfold pickTriangle pickTriangleG
  rw [h]
  split_ifs
  · exact lookup_clamped_in_range _ cum hn total u
  · constructor <;> omega

/-- raysect's `point_triangle`: with a true square root and `u1, u2 ∈ [0,1)` the sample point is a convex
combination of the chosen triangle's vertices, i.e. lies in that triangle -/
theorem sample_point_convex (sqrt : α → α) (hs : ∀ t, 0 ≤ t → 0 ≤ sqrt t ∧ sqrt t * sqrt t = t)
    (v1 v2 v3 : α × α) (u1 u2 : α) (h1 : 0 ≤ u1 ∧ u1 < 1) (h2 : 0 ≤ u2 ∧ u2 < 1) :
    ∃ a b c : α, 0 ≤ a ∧ 0 ≤ b ∧ 0 ≤ c ∧ a + b + c = 1 ∧
      samplePoint sqrt v1 v2 v3 u1 u2 = (a * v1.1 + b * v2.1 + c * v3.1, a * v1.2 + b * v2.2 + c * v3.2) := by
  obtain ⟨s0, s2⟩ := hs u1 h1.1
  have s1 : sqrt u1 < 1 := by
    by_contra hc
    have : 1 ≤ sqrt u1 := not_lt.mp hc
    nlinarith
  refine ⟨1 - sqrt u1, u2 * sqrt u1, 1 - (1 - sqrt u1) - u2 * sqrt u1, by linarith, mul_nonneg h2.1 s0, ?_, by ring, rfl⟩
  nlinarith [h2.2]

theorem meanOf_eq (f : α → α → α) (ss : List (Nat × (α × α))) (n : Nat) :
    meanOf f ss n = (ss.map fun s => f s.2.1 s.2.2).sum / (n : α) := by
  unfold meanOf
  rw [foldl_add_eq]; simp

/-- the estimate is exact for constant emissivities, whatever the random stream -/
theorem estimate_const (c : α) (ss : List (Nat × (α × α))) (n : Nat) (hn : 0 < n) (hl : ss.length = n) :
    meanOf (fun _ _ => c) ss n = c := by
  rw [meanOf_eq]
  have key : ∀ l : List (Nat × (α × α)), (l.map fun _ => c).sum = (l.length : α) * c := by
    intro l
    induction l with
    | nil => simp
    | cons x xs ih => simp only [List.map_cons, List.sum_cons, ih, List.length_cons]; push_cast; ring
  have : (ss.map fun _ => c).sum = (n : α) * c := by rw [key, hl]
  rw [this]
  have : (n : α) ≠ 0 := by exact_mod_cast hn.ne'
  field_simp

/-- … and linear in the emissivity function (same stream) -/
theorem estimate_linear (a b : α) (f g : α → α → α) (ss : List (Nat × (α × α))) (n : Nat) :
    meanOf (fun x z => a * f x z + b * g x z) ss n = a * meanOf f ss n + b * meanOf g ss n := by
  simp only [meanOf_eq]
  have : (ss.map fun s => a * f s.2.1 s.2.2 + b * g s.2.1 s.2.2).sum
      = a * (ss.map fun s => f s.2.1 s.2.2).sum + b * (ss.map fun s => g s.2.1 s.2.2).sum := by
    induction ss with
    | nil => simp
    | cons x xs ih => simp only [List.map_cons, List.sum_cons, ih]; ring
  rw [this]; ring

/-- one pass of the loop returns an index inside the triangle table and the `point_triangle` image of that
triangle's vertices -/
theorem finishDraw_ok (sqrt : α → α) (verts : List (α × α)) (tris : List (Nat × Nat × Nat)) (ti : Int)
    (u1 u2 : α) (r us' : List α) (s : Nat × (α × α))
    (h : finishDraw sqrt verts tris ti u1 u2 r = .ok (s, us')) :
    ∃ t, tris[s.1]? = some t ∧
      s.2 = samplePoint sqrt (vtx verts t.1) (vtx verts t.2.1) (vtx verts t.2.2) u1 u2 := by
  unfold finishDraw at h
  split_ifs at h with hr
  split at h
  · rename_i t ht
    simp only [Except.ok.injEq, Prod.mk.injEq] at h
    refine ⟨t, ?_, ?_⟩
    · rw [← h.1]; exact ht
    · rw [← h.1]
  · cases h

theorem drawOne_ok (sqrt : α → α) (verts : List (α × α)) (tris : List (Nat × Nat × Nat)) (cum : List α)
    (total : α) (us us' : List α) (s : Nat × (α × α))
    (h : drawOne sqrt verts tris cum total us = .ok (s, us')) :
    ∃ t u1 u2, tris[s.1]? = some t ∧
      s.2 = samplePoint sqrt (vtx verts t.1) (vtx verts t.2.1) (vtx verts t.2.2) u1 u2 := by
  unfold drawOne at h
  split_ifs at h
  · split at h
    · rename_i u u1 u2 r
      obtain ⟨t, h1, h2⟩ := finishDraw_ok sqrt verts tris _ u1 u2 r us' s h
      exact ⟨t, u1, u2, h1, h2⟩
    · cases h
  · split at h
    · rename_i u1 u2 r
      obtain ⟨t, h1, h2⟩ := finishDraw_ok sqrt verts tris _ u1 u2 r us' s h
      exact ⟨t, u1, u2, h1, h2⟩
    · cases h

theorem drawN_ok (sqrt : α → α) (verts : List (α × α)) (tris : List (Nat × Nat × Nat)) (cum : List α)
    (total : α) : ∀ (n : Nat) (us : List α) (ss : List (Nat × (α × α))),
    drawN sqrt verts tris cum total n us = (ss, none) →
    ss.length = n ∧ ∀ s ∈ ss, ∃ t u1 u2, tris[s.1]? = some t ∧
      s.2 = samplePoint sqrt (vtx verts t.1) (vtx verts t.2.1) (vtx verts t.2.2) u1 u2 := by
  intro n
  induction n with
  | zero => intro us ss h; simp [drawN] at h; subst h; simp
  | succ k ih =>
    intro us ss h
    unfold drawN at h
    split at h
    · simp at h
    · rename_i s us' hd
      simp only [Prod.mk.injEq] at h
      obtain ⟨h1, h2⟩ := h
      have hrec : drawN sqrt verts tris cum total k us' = ((drawN sqrt verts tris cum total k us').1, none) := by
        rw [← h2]
      obtain ⟨l1, l2⟩ := ih us' _ hrec
      subst h1
      refine ⟨by simp [l1], ?_⟩
      intro x hx
      rcases List.mem_cons.mp hx with e | e
      · subst e; exact drawOne_ok sqrt verts tris cum total us us' _ hd
      · exact l2 x e

/-- `emissivity_from_function`: when it returns, the value is the mean of the emissivity over `grid_samples`
points, each the `point_triangle` image of one of the voxel's triangles; exact for constants -/
theorem emissivity_is_sample_mean (sqrt : α → α) (f : α → α → α) (verts : List (α × α))
    (tris : List (Nat × Nat × Nat)) (n : Nat) (us : List α) (est : α) (ss : List (Nat × (α × α)))
    (h : emissivity sqrt f verts tris n us = .ok (est, ss)) :
    0 < n ∧ ss.length = n ∧ est = (ss.map fun s => f s.2.1 s.2.2).sum / (n : α) ∧
    (∀ s ∈ ss, ∃ t u1 u2, tris[s.1]? = some t ∧
      s.2 = samplePoint sqrt (vtx verts t.1) (vtx verts t.2.1) (vtx verts t.2.2) u1 u2) ∧
    (∀ c, f = (fun _ _ => c) → est = c) := by
  unfold emissivity at h
  simp only at h
  split at h
  · cases h
  · rename_i ss' hd
    split_ifs at h with hn
    simp only [Except.ok.injEq, Prod.mk.injEq] at h
    obtain ⟨h1, h2⟩ := h
    subst h2
    obtain ⟨l1, l2⟩ := drawN_ok sqrt verts tris _ _ n us ss' hd
    have hpos : 0 < n := Nat.pos_of_ne_zero hn
    refine ⟨hpos, l1, ?_, l2, ?_⟩
    · rw [← h1, meanOf_eq]
    · intro c hc; rw [← h1, hc]; exact estimate_const c ss' n hpos l1

/-- the geometric triangle of an index triple of `triangulate2d` -/
def geo (verts : List (α × α)) (t : Nat × Nat × Nat) : (α × α) × (α × α) × (α × α) :=
  (vtx verts t.1, vtx verts t.2.1, vtx verts t.2.2)

/-- for a consistently oriented triangulation by diagonals the cumulative table ends exactly at
`cross_sectional_area` — the fact the code's comment relies on -/
theorem table_ends_at_total (verts : List (α × α)) (tris : List (Nat × Nat × Nat))
    (h : Triangulates verts (tris.map (geo verts)))
    (hor : (∀ T ∈ tris.map (geo verts), tri2 T.1 T.2.1 T.2.2 ≤ 0) ∨
      (∀ T ∈ tris.map (geo verts), 0 ≤ tri2 T.1 T.2.1 T.2.2)) :
    (triAreas verts tris).sum = area verts ∧ (∀ a ∈ triAreas verts tris, 0 ≤ a) := by
  constructor
  · rw [← triangulation_unsigned verts _ h hor]
    unfold triAreas
    rw [List.map_map]
    congr 1
    apply List.map_congr_left
    intro t _
    simp [geo, triArea_eq]
  · intro a ha
    unfold triAreas at ha
    obtain ⟨t, _, rfl⟩ := List.mem_map.mp ha
    rw [triArea_eq]; positivity

/-- hence (exact arithmetic) every `u ∈ [0,1)` looks up a triangle of the table: the index is in range -/
theorem emissivity_index_in_range (verts : List (α × α)) (tris : List (Nat × Nat × Nat))
    (h : Triangulates verts (tris.map (geo verts)))
    (hor : (∀ T ∈ tris.map (geo verts), tri2 T.1 T.2.1 T.2.2 ≤ 0) ∨
      (∀ T ∈ tris.map (geo verts), 0 ≤ tri2 T.1 T.2.1 T.2.2))
    (hn : 1 ≤ tris.length) (hpos : 0 < area verts) (u : α) (hu : u < 1) :
    0 ≤ pickTriangle (cumulativeAreas (triAreas verts tris)) (area verts) u ∧
      pickTriangle (cumulativeAreas (triAreas verts tris)) (area verts) u < (tris.length : Int) := by
  obtain ⟨hsum, _⟩ := table_ends_at_total verts tris h hor
  have hl : (triAreas verts tris).length = tris.length := by simp [triAreas]
  have := pickTriangle_in_range (triAreas verts tris) (by omega) (area verts) hsum.symm hpos u hu
  rwa [hl] at this

/-- mixture of per-triangle means with weights `a_j / total` is the integral over all triangles divided by the
total area: with the selection probabilities of `pick_triangle_measure` and uniform sampling inside each
triangle, the expectation of one sample is the area-mean.  (Partial: uniformity of `point_triangle` within a
triangle and the identification of `I_j` with `∫_{T_j} f` are not formalised.) -/
theorem unbiased_partial (total : α) (aI : List (α × α)) (ha : ∀ p ∈ aI, 0 < p.1) (ht : total ≠ 0) :
    (aI.map fun p => p.1 / total * (p.2 / p.1)).sum = (aI.map fun p => p.2).sum / total := by
  induction aI with
  | nil => simp
  | cons x xs ih =>
    have hx : x.1 ≠ 0 := (ha x (by simp)).ne'
    simp only [List.map_cons, List.sum_cons]
    rw [ih (fun p hp => ha p (by simp [hp]))]
    field_simp

/-! ## 6. the grid as a state machine: total volume over every history of activations / re-parenting -/

theorem grid_step_vols (g : Grid α) (op : GridOp) : (g.step op).vols = g.vols := by
  cases op <;> simp [Grid.step]
  split_ifs <;> rfl

/-- after any sequence of `set_active('all' | i)`, `unparent_all_voxels`, `parent_all_voxels` and individual
re-parenting, the grid's total volume is still the sum of the volumes of **all** its voxels -/
theorem grid_total_history (g : Grid α) (ops : List GridOp) :
    (g.run ops).total = g.vols.sum ∧ (g.run ops).vols = g.vols := by
  unfold Grid.run
  induction ops generalizing g with
  | nil => exact ⟨total_volume_sum _, rfl⟩
  | cons op ops ih =>
    simp only [List.foldl_cons]
    obtain ⟨h1, h2⟩ := ih (g.step op)
    rw [grid_step_vols] at h1 h2
    exact ⟨h1, h2⟩

/-- … at every intermediate step, and whatever the `active=` constructor argument -/
theorem grid_trace_const (g : Grid α) (ops : List GridOp) : ∀ t ∈ g.trace ops, t = g.vols.sum := by
  induction ops generalizing g with
  | nil => intro t ht; simp [Grid.trace] at ht
  | cons op ops ih =>
    intro t ht
    simp only [Grid.trace, List.mem_cons] at ht
    rcases ht with e | e
    · rw [e]; unfold Grid.total; rw [total_volume_sum, grid_step_vols]
    · have := ih (g.step op) t e
      rwa [grid_step_vols] at this

theorem grid_ctor_total (vols : List α) (active : Option Nat) : (Grid.mk' vols active).total = vols.sum := by
  unfold Grid.total
  rw [total_volume_sum]
  cases active <;> rfl

/-! ## 7. proof-deepening pass -/

/-- **Pappus volume is non-negative for r ≥ 0** (and the centroid radius too): for every polygon with a consistently
oriented triangulation by diagonals (the predicate of the harness probe) whose vertices have `r ≥ 0` -/
theorem centroid_r_nonneg (l : List (α × α)) (t : List ((α × α) × (α × α) × (α × α)))
    (h : Triangulates l t)
    (hor : (∀ T ∈ t, tri2 T.1 T.2.1 T.2.2 ≤ 0) ∨ (∀ T ∈ t, 0 ≤ tri2 T.1 T.2.1 T.2.2))
    (hr : ∀ T ∈ t, 0 ≤ T.1.1 ∧ 0 ≤ T.2.1.1 ∧ 0 ≤ T.2.2.1) (c : α × α) (hc : centroid l = some c) :
    0 ≤ c.1 := by
  have hS := triangulation_area l t h
  have hX := (triangulation_moments l t h).1
  unfold centroid at hc
  simp only [beq_iff_eq, lit6, lit2] at hc
  split_ifs at hc with h0
  simp only [Option.some.injEq] at hc
  rw [← hc]
  simp only
  rcases hor with hn | hp
  · have s1 : shoelace2 l ≤ 0 := by
      rw [← hS]; exact list_sum_nonpos _ (by
        intro x hx; obtain ⟨T, hT, rfl⟩ := List.mem_map.mp hx; exact hn T hT)
    have x1 : accum cxTerm l ≤ 0 := by
      rw [← hX]; exact list_sum_nonpos _ (by
        intro x hx; obtain ⟨T, hT, rfl⟩ := List.mem_map.mp hx
        obtain ⟨a1, a2, a3⟩ := hr T hT
        exact mul_nonpos_of_nonneg_of_nonpos (by linarith) (hn T hT))
    exact div_nonneg_of_nonpos x1 (by linarith)
  · have s1 : 0 ≤ shoelace2 l := by
      rw [← hS]; exact List.sum_nonneg (by
        intro x hx; obtain ⟨T, hT, rfl⟩ := List.mem_map.mp hx; exact hp T hT)
    have x1 : 0 ≤ accum cxTerm l := by
      rw [← hX]; exact List.sum_nonneg (by
        intro x hx; obtain ⟨T, hT, rfl⟩ := List.mem_map.mp hx
        obtain ⟨a1, a2, a3⟩ := hr T hT
        exact mul_nonneg (by linarith) (hp T hT))
    exact div_nonneg x1 (by linarith)

theorem volume_nonneg (pi : α) (hpi : 0 ≤ pi) (l : List (α × α)) (t : List ((α × α) × (α × α) × (α × α)))
    (h : Triangulates l t)
    (hor : (∀ T ∈ t, tri2 T.1 T.2.1 T.2.2 ≤ 0) ∨ (∀ T ∈ t, 0 ≤ tri2 T.1 T.2.1 T.2.2))
    (hr : ∀ T ∈ t, 0 ≤ T.1.1 ∧ 0 ≤ T.2.1.1 ∧ 0 ≤ T.2.2.1) : 0 ≤ volume pi l := by
  unfold volume
  cases hc : centroid l with
  | none => simp
  | some c =>
    have hcx := centroid_r_nonneg l t h hor hr c hc
    have ha : 0 ≤ area l := by
      unfold area; rw [absv_eq_abs, lit2]; positivity
    simp only [lit2]
    exact mul_nonneg (mul_nonneg (mul_nonneg (by norm_num) hpi) hcx) ha

example : 0 ≤ volume (3 : ℚ) [(0, 0), (1, 0), (1, 1), (0, 1)] :=
  volume_nonneg 3 (by norm_num) _ ([((0, 0), (1, 0), (1, 1))] ++ [((0, 0), (1, 1), (0, 1))])
    (Triangulates.split (0, 0) (1, 1) [(1, 0)] [(0, 1)] _ _ (Triangulates.tri _ _ _) (Triangulates.tri _ _ _))
    (Or.inr (by intro T hT; simp at hT; rcases hT with rfl | rfl <;> norm_num [tri2, cross]))
    (by intro T hT; simp at hT; rcases hT with rfl | rfl <;> norm_num)

/-- **the chosen triangle has positive area**: zero-area triangles of the table are never selected -/
theorem pick_positive_area (as : List α) (hl : ∀ a ∈ as, 0 ≤ a) (hn : 2 ≤ as.length) (total : α)
    (ht : total = as.sum) (hpos : 0 < total) (u : α) (hu : 0 ≤ u) (j : Nat) (hj : j < as.length)
    (hp : pickTriangleG true false (cumulativeAreas as) total u = (j : Int)) : 0 < as.getD j 0 := by
  obtain ⟨hiff, hlen, _, _⟩ := pick_triangle_measure as hl hn total ht hpos u hu j hj
  obtain ⟨h1, h2⟩ := hiff.mp hp
  have : 0 < (as.take (j + 1)).sum / total - (as.take j).sum / total := by linarith
  rw [hlen] at this
  by_contra hc
  have : as.getD j 0 / total ≤ 0 := div_nonpos_of_nonpos_of_nonneg (not_lt.mp hc) hpos.le
  linarith

/-- **… and every triangle of positive area is reachable**: some `u ∈ [0,1)` selects it.  Together with
`sample_point_convex` / `sample_point_onto`: the sampled set is exactly the union of the positive-area triangles. -/
theorem every_positive_triangle_reachable (as : List α) (hl : ∀ a ∈ as, 0 ≤ a) (hn : 2 ≤ as.length) (total : α)
    (ht : total = as.sum) (hpos : 0 < total) (j : Nat) (hj : j < as.length) (hpa : 0 < as.getD j 0) :
    ∃ u, 0 ≤ u ∧ u < 1 ∧ pickTriangleG true false (cumulativeAreas as) total u = (j : Int) := by
  have hlo : 0 ≤ (as.take j).sum / total :=
    div_nonneg (List.sum_nonneg (fun x hx => hl x (List.mem_of_mem_take hx))) hpos.le
  obtain ⟨hiff, hlen, _, _⟩ := pick_triangle_measure as hl hn total ht hpos ((as.take j).sum / total) hlo j hj
  have hhi : (as.take (j + 1)).sum / total ≤ 1 := by
    rw [div_le_one hpos, ht]
    have := take_sum_mono as hl (j + 1) as.length (by omega)
    rwa [List.take_length] at this
  have hgap : (as.take j).sum / total < (as.take (j + 1)).sum / total := by
    have : 0 < as.getD j 0 / total := div_pos hpa hpos
    linarith
  exact ⟨_, hlo, lt_of_lt_of_le hgap hhi, hiff.mpr ⟨le_refl _, hgap⟩⟩

example : ∃ u : ℚ, 0 ≤ u ∧ u < 1 ∧ pickTriangleG true false (cumulativeAreas [(1 : ℚ), 2, 1]) 4 u = (2 : ℕ) :=
  every_positive_triangle_reachable [1, 2, 1] (by intro a ha; simp at ha; rcases ha with rfl | rfl | rfl <;> norm_num)
    (by simp) 4 (by norm_num) (by norm_num) 2 (by simp) (by norm_num)

/-- **`point_triangle` is onto the triangle** (up to the edge `v1 v2`): every convex combination with positive
weights on `v1` and `v3` is the image of some `(u1, u2) ∈ [0,1)²` -/
theorem sample_point_onto (sqrt : α → α) (hs : ∀ s, 0 ≤ s → sqrt (s * s) = s)
    (v1 v2 v3 : α × α) (a b c : α) (ha : 0 < a) (hb : 0 ≤ b) (hc : 0 < c) (habc : a + b + c = 1) :
    ∃ u1 u2, (0 ≤ u1 ∧ u1 < 1) ∧ (0 ≤ u2 ∧ u2 < 1) ∧
      samplePoint sqrt v1 v2 v3 u1 u2 = (a * v1.1 + b * v2.1 + c * v3.1, a * v1.2 + b * v2.2 + c * v3.2) := by
  have hs0 : 0 < 1 - a := by linarith
  have hs1 : 1 - a < 1 := by linarith
  refine ⟨(1 - a) * (1 - a), b / (1 - a), ⟨by positivity, by nlinarith⟩, ⟨by positivity, ?_⟩, ?_⟩
  · rw [div_lt_one hs0]; linarith
  · unfold samplePoint
    rw [hs (1 - a) hs0.le]
    have e1 : b / (1 - a) * (1 - a) = b := by field_simp
    have e2 : 1 - a - b = c := by linarith
    simp only [e1, sub_sub_cancel, e2]

/-- **the sampling loop never leaves the triangle table** (exact arithmetic): for a table that ends at the total
area — `table_ends_at_total`: any consistently oriented triangulation by diagonals — every stream of uniforms in
`[0,1)` that is long enough is consumed without an `IndexOutOfRange`, with the lookup as generated from the source -/
theorem drawOne_total (sqrt : α → α) (verts : List (α × α)) (tris : List (Nat × Nat × Nat))
    (hsum : (triAreas verts tris).sum = area verts) (hpos : 0 < area verts) (hn : 1 ≤ tris.length)
    (us : List α) (hlen : 3 ≤ us.length) (hu : ∀ x ∈ us, x < 1) :
    ∃ s k, k ≤ 3 ∧
      drawOne sqrt verts tris (cumulativeAreas (triAreas verts tris)) (area verts) us = .ok (s, us.drop k) := by
  have hl : (triAreas verts tris).length = tris.length := by simp [triAreas]
  match us, hlen, hu with
  | u :: u1 :: u2 :: r, _, hu =>
    unfold drawOne
    split_ifs with h1
    · have hr := pick_in_range (triAreas verts tris) (by omega) (area verts) hsum.symm hpos u
        (hu u (by simp)) Cherab.Gen.Voxels.pickScaleIsTotal Cherab.Gen.Voxels.pickClamped
      unfold pickTriangleG at hr
      rw [cumulativeAreas_length, hl, if_pos h1] at hr
      obtain ⟨r1, r2⟩ := hr
      simp only
      unfold finishDraw
      rw [if_neg (by omega)]
      have hidx : (lookup Cherab.Gen.Voxels.pickScaleIsTotal Cherab.Gen.Voxels.pickClamped
          (cumulativeAreas (triAreas verts tris)) (area verts) u).toNat < tris.length := by omega
      rw [List.getElem?_eq_getElem hidx]
      exact ⟨_, 3, le_refl _, rfl⟩
    · simp only
      unfold finishDraw
      rw [if_neg (by omega)]
      have hidx : (0 : Int).toNat < tris.length := by simp; omega
      rw [List.getElem?_eq_getElem hidx]
      exact ⟨_, 2, by omega, rfl⟩

theorem drawN_never_leaves_table (sqrt : α → α) (verts : List (α × α)) (tris : List (Nat × Nat × Nat))
    (hsum : (triAreas verts tris).sum = area verts) (hpos : 0 < area verts) (hn : 1 ≤ tris.length) :
    ∀ (n : Nat) (us : List α), 3 * n ≤ us.length → (∀ x ∈ us, x < 1) →
      (drawN sqrt verts tris (cumulativeAreas (triAreas verts tris)) (area verts) n us).2 = none := by
  intro n
  induction n with
  | zero => intro us _ _; simp [drawN]
  | succ k ih =>
    intro us hlen hu
    obtain ⟨s, j, hj, hd⟩ := drawOne_total sqrt verts tris hsum hpos hn us (by omega) hu
    unfold drawN
    rw [hd]
    simp only
    exact ih (us.drop j) (by rw [List.length_drop]; omega) (fun x hx => hu x (List.mem_of_mem_drop hx))

example : (drawN (fun _ : ℚ => 1 / 2) [(0, 0), (1, 0), (1, 1), (0, 1)] [(0, 1, 2), (0, 2, 3)]
    (cumulativeAreas (triAreas [(0, 0), (1, 0), (1, 1), (0, 1)] [(0, 1, 2), (0, 2, 3)]))
    (area [(0, 0), (1, 0), (1, 1), (0, 1)]) 2 [1 / 2, 1 / 4, 1 / 2, 3 / 4, 1 / 4, 1 / 4]).2 = none :=
  drawN_never_leaves_table _ _ _
    (by norm_num [triAreas, triArea, vtx, area, shoelace2, accum, edges, cross, absv])
    (by norm_num [area, shoelace2, accum, edges, cross, absv]) (by simp) 2 _ (by simp)
    (by intro x hx; simp at hx; rcases hx with rfl | rfl | rfl | rfl | rfl <;> norm_num)

example : ∃ u1 u2 : ℝ, (0 ≤ u1 ∧ u1 < 1) ∧ (0 ≤ u2 ∧ u2 < 1) ∧
    samplePoint Real.sqrt (0, 0) (1, 0) (0, 1) u1 u2 = (1 / 2 * 0 + 1 / 4 * 1 + 1 / 4 * 0, 1 / 2 * 0 + 1 / 4 * 0 + 1 / 4 * 1) :=
  sample_point_onto Real.sqrt (fun s hs => Real.sqrt_mul_self hs) (0, 0) (1, 0) (0, 1) (1 / 2) (1 / 4) (1 / 4)
    (by norm_num) (by norm_num) (by norm_num) (by norm_num)

/-- grid state machine: a rejected operation (`set_active(i)` out of range → IndexError) leaves the whole state
unchanged; an accepted `set_active(i)` parents exactly voxel `i`; no operation touches the voxels' volumes -/
theorem grid_rejected_op_unchanged (g : Grid α) (i : Nat) (h : g.vols.length ≤ i) : g.step (.active i) = g := by
  simp [Grid.step, Nat.not_lt.mpr h]

theorem grid_active_exactly_one (g : Grid α) (i : Nat) (h : i < g.vols.length) (j : Nat)
    (hj : j < g.parented.length) : (g.step (.active i)).parented[j]? = some (j == i) := by
  simp [Grid.step, h, hj]

example : (Grid.mk' [(1 : ℚ), 2, 3] none).step (.active 7) = Grid.mk' [(1 : ℚ), 2, 3] none :=
  grid_rejected_op_unchanged _ 7 (by simp [Grid.mk'])

/-! ## 8. round 6: the constructor's validation ladder on raw rows (guard order, acceptance, order independence of the
constructor's outcome); the collection-level sampling entry point `emissivities_from_function` -/

/-- the encoding of a well-formed vertex as a raw row -/
def rowOf (p : α × α) : List α := [p.1, p.2]

/-- a row that passes both per-vertex checks of `__init__`'s loop -/
def GoodRow (r : List α) : Prop := ∃ x y, r = [x, y] ∧ ¬ x < 0

theorem rowLadder_wellformed (l : List (α × α)) :
    rowLadder (l.map rowOf) = if l.any (fun v => decide (v.1 < 0)) then .error "ValueError" else .ok l := by
  induction l with
  | nil => simp [rowLadder]
  | cons p ps ih =>
    simp only [List.map_cons, rowOf, rowLadder, List.any_cons]
    rw [ih]
    by_cases h : p.1 < 0
    · simp [h]
    · by_cases h2 : (ps.any fun v => decide (v.1 < 0)) = true
      · simp [h, h2]
      · simp only [Bool.not_eq_true] at h2
        simp [h, h2]

/-- two entry points agree: the constructor on raw rows that happen to be well-formed pairs is the constructor on
the vertex list (`geom`/`norm` streams and all theorems about `mkVoxel` apply to the raw-row form) -/
theorem mkVoxelRows_agrees (l : List (α × α)) : mkVoxelRows (l.map rowOf) = mkVoxel l := by
  unfold mkVoxelRows mkVoxel
  rw [rowLadder_wellformed, List.length_map]
  by_cases h1 : l.length < 3
  · simp [h1]
  · by_cases h2 : (l.any fun v => decide (v.1 < 0)) = true
    · simp [h1, h2]
    · simp only [Bool.not_eq_true] at h2
      simp [h1, h2]

/-- guard order: the exception is decided by the FIRST offending row — `TypeError` if it has not exactly two entries,
`ValueError` if it has two and the first is negative — whatever follows it (a later malformed row never masks an
earlier negative radius and vice versa) -/
theorem rowLadder_first_offender (pre : List (List α)) (bad : List α) (post : List (List α))
    (hpre : ∀ r ∈ pre, GoodRow r) (hbad : ¬ GoodRow bad) :
    rowLadder (pre ++ bad :: post) = .error (if bad.length = 2 then "ValueError" else "TypeError") := by
  induction pre with
  | nil =>
    simp only [List.nil_append]
    match bad, hbad with
    | [], _ => simp [rowLadder]
    | [_], _ => simp [rowLadder]
    | [x, y], hb =>
      have hx : x < 0 := by
        by_contra hx; exact hb ⟨x, y, rfl, hx⟩
      simp [rowLadder, hx]
    | _ :: _ :: _ :: _, _ => simp [rowLadder]
  | cons r rs ih =>
    obtain ⟨x, y, rfl, hx⟩ := hpre r (by simp)
    have := ih (fun r hr => hpre r (by simp [hr]))
    simp only [List.cons_append, rowLadder, hx, if_false, this]

/-- acceptance, exactly: the ladder returns a vertex list iff every row is a pair with non-negative first entry, and
then it returns those pairs in order -/
theorem rowLadder_ok_iff (rows : List (List α)) (l : List (α × α)) :
    rowLadder rows = .ok l ↔ rows = l.map rowOf ∧ ∀ v ∈ l, ¬ v.1 < 0 := by
  constructor
  · intro h
    by_cases hg : ∀ r ∈ rows, GoodRow r
    · -- all rows good: rows = map rowOf of some list
      have key : ∀ rows : List (List α), (∀ r ∈ rows, GoodRow r) →
          ∃ l' : List (α × α), rows = l'.map rowOf ∧ ∀ v ∈ l', ¬ v.1 < 0 := by
        intro rows
        induction rows with
        | nil => intro _; exact ⟨[], rfl, by simp⟩
        | cons r rs ih =>
          intro hg
          obtain ⟨x, y, rfl, hx⟩ := hg r (by simp)
          obtain ⟨l', e, hl'⟩ := ih (fun r hr => hg r (by simp [hr]))
          refine ⟨(x, y) :: l', by simp [rowOf, e], ?_⟩
          intro v hv
          rcases List.mem_cons.mp hv with rfl | hv
          · exact hx
          · exact hl' v hv
      obtain ⟨l', e, hl'⟩ := key rows hg
      have hany : (l'.any fun v => decide (v.1 < 0)) = false := by
        rw [List.any_eq_false]; intro v hv; simpa using hl' v hv
      rw [e, rowLadder_wellformed, hany] at h
      simp only [Bool.false_eq_true, if_false, Except.ok.injEq] at h
      subst h
      exact ⟨e, hl'⟩
    · exfalso
      -- split at the first offending row
      have key : ∀ rows : List (List α), (¬ ∀ r ∈ rows, GoodRow r) →
          ∃ pre bad post, rows = pre ++ bad :: post ∧ (∀ r ∈ pre, GoodRow r) ∧ ¬ GoodRow bad := by
        intro rows
        induction rows with
        | nil => intro h; exact absurd (by simp) h
        | cons r rs ih =>
          intro h
          by_cases hr : GoodRow r
          · have : ¬ ∀ r ∈ rs, GoodRow r := by
              intro hall; apply h; intro r' hr'
              rcases List.mem_cons.mp hr' with rfl | hr'
              · exact hr
              · exact hall r' hr'
            obtain ⟨pre, bad, post, e, hp, hb⟩ := ih this
            refine ⟨r :: pre, bad, post, by simp [e], ?_, hb⟩
            intro r' hr'
            rcases List.mem_cons.mp hr' with rfl | hr'
            · exact hr
            · exact hp r' hr'
          · exact ⟨[], r, rs, rfl, by simp, hr⟩
      obtain ⟨pre, bad, post, e, hp, hb⟩ := key rows hg
      rw [e, rowLadder_first_offender pre bad post hp hb] at h
      cases h
  · rintro ⟨e, hl⟩
    have hany : (l.any fun v => decide (v.1 < 0)) = false := by
      rw [List.any_eq_false]; intro v hv; simpa using hl v hv
    rw [e, rowLadder_wellformed, hany]; simp

/-- the constructor accepts exactly the lists of ≥ 3 vertices with no negative radius, and stores `normalise l` -/
theorem mkVoxel_ok_iff (l s : List (α × α)) :
    mkVoxel l = .ok s ↔ 3 ≤ l.length ∧ (∀ v ∈ l, ¬ v.1 < 0) ∧ s = normalise l := by
  unfold mkVoxel
  by_cases h1 : l.length < 3
  · simp [h1]
  · by_cases h2 : (l.any fun v => decide (v.1 < 0)) = true
    · simp only [h1, h2, if_false, if_true]
      constructor
      · intro h; cases h
      · rintro ⟨_, hl, _⟩
        obtain ⟨v, hv, hd⟩ := List.any_eq_true.mp h2
        exact absurd (by simpa using hd) (hl v hv)
    · simp only [Bool.not_eq_true] at h2
      simp only [h1, h2, if_false, Bool.false_eq_true, Except.ok.injEq]
      constructor
      · intro h
        refine ⟨by omega, ?_, h.symm⟩
        intro v hv
        have := List.any_eq_false.mp h2 v hv
        simpa using this
      · rintro ⟨_, _, h⟩; exact h.symm

/-- … and so does the raw-row constructor (all rows pairs), with the TypeError/ValueError ladder otherwise -/
theorem mkVoxelRows_ok_iff (rows : List (List α)) (s : List (α × α)) :
    mkVoxelRows rows = .ok s ↔
      3 ≤ rows.length ∧ ∃ l : List (α × α), rows = l.map rowOf ∧ (∀ v ∈ l, ¬ v.1 < 0) ∧ s = normalise l := by
  unfold mkVoxelRows
  by_cases h1 : rows.length < 3
  · simp [h1]
  · simp only [h1, if_false]
    constructor
    · intro h
      split at h
      · cases h
      · rename_i l hl
        simp only [Except.ok.injEq] at h
        obtain ⟨e, hv⟩ := (rowLadder_ok_iff rows l).mp hl
        exact ⟨by omega, l, e, hv, h.symm⟩
    · rintro ⟨_, l, e, hv, hs⟩
      rw [(rowLadder_ok_iff rows l).mpr ⟨e, hv⟩, hs]

/-- what the constructor stores is a clockwise listing of the same vertices -/
theorem mkVoxel_stored (l s : List (α × α)) (h : mkVoxel l = .ok s) :
    shoelace2 s ≤ 0 ∧ s.Perm l ∧ s.length = l.length := by
  obtain ⟨_, _, rfl⟩ := (mkVoxel_ok_iff l s).mp h
  refine ⟨normalise_clockwise l, ?_, ?_⟩
  · unfold normalise; split_ifs
    · exact List.Perm.refl _
    · exact List.reverse_perm l
  · unfold normalise; split_ifs <;> simp

/-- what the `geom` observation reads off a constructed voxel -/
def geomOf (pi : α) (s : List (α × α)) : α × Option (α × α) × α := (area s, centroid s, volume pi s)

/-- the whole constructor outcome — which exception, or the reported area/centroid/volume of the stored list — is the
same for every cyclic rotation of the vertex list … -/
theorem ctor_geom_rotate (pi : α) (l : List (α × α)) (n : Nat) :
    (mkVoxel (l.rotate n)).map (geomOf pi) = (mkVoxel l).map (geomOf pi) := by
  have hany : ((l.rotate n).any fun v => decide (v.1 < 0)) = l.any fun v => decide (v.1 < 0) :=
    (List.rotate_perm l n).any_eq
  unfold mkVoxel
  rw [List.length_rotate, hany]
  by_cases h1 : l.length < 3
  · simp [h1]
  · by_cases h2 : (l.any fun v => decide (v.1 < 0)) = true
    · simp [h1, h2]
    · simp only [Bool.not_eq_true] at h2
      simp only [h1, h2, if_false, Bool.false_eq_true, Except.map]
      obtain ⟨a1, a2, a3⟩ := normalise_invariant pi (l.rotate n)
      obtain ⟨b1, b2, b3⟩ := normalise_invariant pi l
      simp only [geomOf, a1, a2, a3, b1, b2, b3, area_rotate, centroid_rotate, volume_rotate]

/-- … and for the reversed list (either orientation) -/
theorem ctor_geom_reverse (pi : α) (l : List (α × α)) :
    (mkVoxel l.reverse).map (geomOf pi) = (mkVoxel l).map (geomOf pi) := by
  unfold mkVoxel
  rw [List.length_reverse, List.any_reverse]
  by_cases h1 : l.length < 3
  · simp [h1]
  · by_cases h2 : (l.any fun v => decide (v.1 < 0)) = true
    · simp [h1, h2]
    · simp only [Bool.not_eq_true] at h2
      simp only [h1, h2, if_false, Bool.false_eq_true, Except.map]
      obtain ⟨a1, a2, a3⟩ := normalise_invariant pi l.reverse
      obtain ⟨b1, b2, b3⟩ := normalise_invariant pi l
      simp only [geomOf, a1, a2, a3, b1, b2, b3, area_reverse, centroid_reverse, volume_reverse]

example : rowLadder ([[(1 : ℚ), 0], [2, 0]] ++ [-1] :: [[2, 1]]) = .error "TypeError" := by
  have h := rowLadder_first_offender [[(1 : ℚ), 0], [2, 0]] [-1] [[2, 1]]
    (by intro r hr; simp at hr; rcases hr with rfl | rfl; exacts [⟨1, 0, rfl, by norm_num⟩, ⟨2, 0, rfl, by norm_num⟩])
    (by rintro ⟨x, y, h, _⟩; simp at h)
  simpa using h

example : (mkVoxel [((1 : ℚ), 0), (2, 0), (2, 1)]).map (geomOf 3) = (mkVoxel [((2 : ℚ), 1), (2, 0), (1, 0)]).map (geomOf 3) :=
  (ctor_geom_reverse 3 [((1 : ℚ), 0), (2, 0), (2, 1)]).symm

/-! ### `VoxelCollection.emissivities_from_function` -/

theorem emissivity_zero_samples (sqrt : α → α) (f : α → α → α) (verts : List (α × α))
    (tris : List (Nat × Nat × Nat)) (us : List α) :
    emissivity sqrt f verts tris 0 us = .error "ZeroDivisionError" := by
  simp [emissivity, drawN]

/-- one result per voxel -/
theorem emissivities_length (sqrt : α → α) (f : α → α → α) (vs : List (List (α × α) × List (Nat × Nat × Nat)))
    (n : Nat) : ∀ (us : List α) (r : List α), emissivities sqrt f vs n us = .ok r → r.length = vs.length := by
  induction vs with
  | nil => intro us r h; simp [emissivities] at h; subst h; rfl
  | cons vt vs ih =>
    intro us r h
    unfold emissivities at h
    split at h
    · cases h
    · split at h
      · cases h
      · rename_i r' hr
        simp only [Except.ok.injEq] at h
        subst h
        simp [ih _ _ hr]

/-- two entry points agree: entry `i` of the collection call is `emissivity_from_function` of voxel `i` run on the
shared uniform stream advanced by what voxels `0 … i-1` consumed (3 uniforms per sample, 2 for a one-triangle voxel) -/
theorem emissivities_entry (sqrt : α → α) (f : α → α → α) (vs : List (List (α × α) × List (Nat × Nat × Nat)))
    (n : Nat) : ∀ (us : List α) (r : List α), emissivities sqrt f vs n us = .ok r →
    ∀ i (hi : i < vs.length), ∃ ss,
      emissivity sqrt f vs[i].1 vs[i].2 n (us.drop ((vs.take i).map fun vt => consumed vt.2 n).sum)
        = .ok (r.getD i 0, ss) := by
  induction vs with
  | nil => intro us r _ i hi; simp at hi
  | cons vt vs ih =>
    intro us r h i hi
    unfold emissivities at h
    split at h
    · cases h
    · rename_i er he
      split at h
      · cases h
      · rename_i r' hr
        simp only [Except.ok.injEq] at h
        subst h
        cases i with
        | zero => exact ⟨er.2, by simpa using he⟩
        | succ j =>
          obtain ⟨ss, hss⟩ := ih _ _ hr j (by simpa using hi)
          refine ⟨ss, ?_⟩
          simpa [List.drop_drop, add_comm] using hss

/-- exact for constants at the collection level: every entry is the constant, whatever the stream -/
theorem emissivities_const (sqrt : α → α) (c : α) (vs : List (List (α × α) × List (Nat × Nat × Nat)))
    (n : Nat) : ∀ (us : List α) (r : List α), emissivities sqrt (fun _ _ => c) vs n us = .ok r → ∀ x ∈ r, x = c := by
  induction vs with
  | nil => intro us r h; simp [emissivities] at h; subst h; simp
  | cons vt vs ih =>
    intro us r h
    unfold emissivities at h
    split at h
    · cases h
    · rename_i er he
      split at h
      · cases h
      · rename_i r' hr
        simp only [Except.ok.injEq] at h
        subst h
        intro x hx
        rcases List.mem_cons.mp hx with rfl | hx
        · exact (emissivity_is_sample_mean sqrt _ vt.1 vt.2 n us er.1 er.2 he).2.2.2.2 c rfl
        · exact ih _ _ hr x hx

/-- `grid_samples = 0` on a non-empty collection raises ZeroDivisionError (first voxel); the empty collection returns
the empty array for every `grid_samples` -/
theorem emissivities_zero_samples (sqrt : α → α) (f : α → α → α) (vt : List (α × α) × List (Nat × Nat × Nat))
    (vs : List (List (α × α) × List (Nat × Nat × Nat))) (us : List α) :
    emissivities sqrt f (vt :: vs) 0 us = .error "ZeroDivisionError" ∧ ∀ n, emissivities sqrt f [] n us = .ok [] := by
  constructor
  · unfold emissivities; rw [emissivity_zero_samples]
  · intro n; simp [emissivities]

/-! ## non-vacuity and the float-gap witness (over ℚ) -/

/-- an L-shaped hexagon: area 3, same for every rotation and for the reversed listing -/
example : area ([(0, 0), (2, 0), (2, 1), (1, 1), (1, 2), (0, 2)] : List (ℚ × ℚ)) = 3 := by
  norm_num [area, shoelace2, accum, edges, cross, absv]

example : centroid ([(0, 0), (2, 0), (2, 1), (1, 1), (1, 2), (0, 2)] : List (ℚ × ℚ)) = some (5 / 6, 5 / 6) := by
  norm_num [centroid, shoelace2, accum, edges, cross, cxTerm, cyTerm]

example : Triangulates ([(0, 0), (1, 0), (1, 1), (0, 1)] : List (ℚ × ℚ))
    ([((0, 0), (1, 0), (1, 1))] ++ [((0, 0), (1, 1), (0, 1))]) :=
  Triangulates.split (0, 0) (1, 1) [(1, 0)] [(0, 1)] _ _ (Triangulates.tri _ _ _) (Triangulates.tri _ _ _)

/-- the interval theorem is not vacuous: areas 1, 2, 1 — `u = 1/2` picks triangle 1 -/
example : pickTriangleG true false (cumulativeAreas [(1 : ℚ), 2, 1]) 4 (1 / 2) = 1 := by
  norm_num [pickTriangleG, lookup, findIndex, bisect, cumulativeAreas, cumFrom]

/-- **witness of the float gap**: a table that ends below the total (as rounding produces) sends `u` close to 1
to index 3 = `num_triangles`, outside the table of 3 triangles -/
theorem lookup_out_of_range_witness :
    lookup true false ([1, 3, 399 / 100] : List ℚ) 4 (999 / 1000) = 3 ∧ (999 / 1000 : ℚ) < 1 := by
  norm_num [lookup, findIndex, bisect]

/-- **probability**: for `u` uniform on `[0,1)` (Lebesgue measure on ℝ) triangle `j` is chosen with probability
`area_j / total` -/
theorem pick_probability (as : List ℝ) (hl : ∀ a ∈ as, 0 ≤ a) (hn : 2 ≤ as.length) (total : ℝ)
    (ht : total = as.sum) (hpos : 0 < total) (j : Nat) (hj : j < as.length) :
    MeasureTheory.volume
        {u : ℝ | 0 ≤ u ∧ u < 1 ∧ pickTriangleG true false (cumulativeAreas as) total u = (j : Int)}
      = ENNReal.ofReal (as.getD j 0 / total) := by
  have hlo : 0 ≤ (as.take j).sum / total :=
    div_nonneg (List.sum_nonneg (fun x hx => hl x (List.mem_of_mem_take hx))) hpos.le
  have hhi : (as.take (j + 1)).sum / total ≤ 1 := by
    rw [div_le_one hpos, ht]
    have := take_sum_mono as hl (j + 1) as.length (by omega)
    rwa [List.take_length] at this
  have hset : {u : ℝ | 0 ≤ u ∧ u < 1 ∧ pickTriangleG true false (cumulativeAreas as) total u = (j : Int)}
      = Set.Ico ((as.take j).sum / total) ((as.take (j + 1)).sum / total) := by
    ext u
    simp only [Set.mem_ofPred_eq, Set.mem_Ico]
    constructor
    · rintro ⟨h0, _, hp⟩
      exact ((pick_triangle_measure as hl hn total ht hpos u h0 j hj).1).mp hp
    · rintro ⟨h1, h2⟩
      have h0 : 0 ≤ u := le_trans hlo h1
      exact ⟨h0, lt_of_lt_of_le h2 hhi, ((pick_triangle_measure as hl hn total ht hpos u h0 j hj).1).mpr ⟨h1, h2⟩⟩
  rw [hset, Real.volume_Ico, (pick_triangle_measure as hl hn total ht hpos 0 le_rfl j hj).2.1]

end Cherab.Props.C17
