import Cherab.Lemmas.LineShape
import Mathlib.Data.Rat.Floor
import Mathlib.Algebra.Order.Ring.Rat
import Mathlib.Analysis.SpecialFunctions.Sqrt

/-!
# C02 — line shapes are normalised: the spectral integral equals the supplied radiance

Property theorems only, about the model `Cherab/Model/LineShape.lean` (transcribed from gaussian.pyx, multiplet.pyx,
zeeman.pyx, stark.pyx, doppler.pyx, beam/mse.pyx, atomic/zeeman.pyx, integrators1d.pyx), over an arbitrary ordered
field.  Proofs live in `Cherab/Lemmas/LineShape.lean`; every theorem here is that lemma re-exported under its
property name.

External mathematics is a parameter with named hypotheses: `FloorSpec`/`CeilSpec` (C `floor`/`ceil` + `<int>` cast
inside the `int` range), `ErfSpec` (`erf` monotone, odd, ≤ 1), `SqrtSpec`, `0 < M_SQRT2`, `pow 0 n = 0`.

Clauses of the property sentence → theorems
* bin average of the profile, bin by bin ............ `gauss_bin_value`, `model_bins`, `lorentz_bin_value`
* Σ samples·Δ = R × fraction in the window .......... `gauss_bins_telescope`, `gauss_window_covers`,
  `gauss_integral_bounds`, `gauss_cutoff_loss`, `gauss_integral_fraction`, `gauss_skipped_fraction`,
  `gauss_whole_radiance`, `model_integral_bounds`
* linear / additive in R ............................ `add_line_additive`, `add_line_linear`
* π + σ = unpolarised, bin by bin ................... `…_pi_plus_sigma` (4 models), `…_pol_shares`
* components share the radiance in stated ratios .... `…_weights_sum`, `multiplet_ratios`, `zeemanNormalise_sum`,
  `mse_sigma_pi_split`, `triplet_weights`, `cosSqr_range`, `zeeman_weights_nonneg`
* no width ⇒ nothing added .......................... `zero_width_adds_nothing`, `lorentz_zero_width`,
  `models_zero_width`, `stark_zero_width`, `stark_lorentz_only`, `stark_gauss_only`

Partial (named so): `lorentz_bins_telescope_partial` — the Lorentzian telescopes *if the bin integrator is additive
over adjacent bins*; that the integrator approximates `∫ StarkFunction` and that `StarkFunction` integrates to 1
over ±50 FWHM (₂F₁ closed form) is not proved (Mathlib has no ₂F₁) and `GaussianQuadrature` is **not** additive —
this part of the property is checked on the implementation only (S), where it fails for under-resolved lines.
-/
namespace Cherab.Props.C02
set_option linter.unusedSectionVars false
set_option linter.unusedVariables false
open Cherab.LineShape Cherab.Lemmas.LineShape

variable {α : Type} [Field α] [LinearOrder α] [IsStrictOrderedRing α]

/-- **the bins `[start, end)` cover `[min,max] ∩ [λ − cut·w, λ + cut·w]` and lie inside `[min,max]`** -/
theorem gauss_window_covers (F : Fns α) (hf : FloorSpec F.floorI) (hc : CeilSpec F.ceilI) (cut wl w : α)
    (hcw : 0 ≤ cut * w) (s : Spec α) (hs : WF s) (st en : Int) (h : lineRange F cut wl w s = some (st, en)) :
    0 ≤ st ∧ st ≤ en ∧ en ≤ (s.bins : Int) ∧
      s.mn ≤ edge s st ∧ edge s st ≤ max s.mn (wl - cut * w) ∧
      min s.mx (wl + cut * w) ≤ edge s en ∧ edge s en ≤ s.mx := by
  apply Cherab.Lemmas.LineShape.lineRange_some <;> assumption

/-- **bin by bin: bin `i` receives `R·(Φ(edge i+1) − Φ(edge i))/Δ`** inside `[start, end)`, nothing outside -/
theorem gauss_bin_value (F : Fns α) (hf : FloorSpec F.floorI) (hc : CeilSpec F.ceilI) (cut R wl sigma : α)
    (hcut : 0 ≤ cut) (s : Spec α) (hs : WF s) (i : Nat) :
    (addGaussianLine F cut R wl sigma s).samples.getD i 0 = s.samples.getD i 0 + gaussBin F cut R wl sigma s i := by
  apply Cherab.Lemmas.LineShape.gauss_bin_value <;> assumption

/-- **telescoping: `Σ_bins added·Δ = R·½(erf t(end) − erf t(start))`** -/
theorem gauss_bins_telescope (F : Fns α) (hf : FloorSpec F.floorI) (hc : CeilSpec F.ceilI) (cut R wl sigma : α)
    (hcut : 0 ≤ cut) (s : Spec α) (hs : WF s) (st en : Int) (h : gaussActive F cut wl sigma s = some (st, en)) :
    integral (addGaussianLine F cut R wl sigma s) =
      integral s + R * 0.5 * (F.erf (tE F wl sigma s en) - F.erf (tE F wl sigma s st)) := by
  apply Cherab.Lemmas.LineShape.gauss_bins_telescope <;> assumption

/-- **the spectral integral added by one Gaussian call lies between `R × fraction of the profile in
`[min,max] ∩ cut-off interval`** and **`R × fraction in [min,max]`** -/
theorem gauss_integral_bounds (F : Fns α) (hf : FloorSpec F.floorI) (hc : CeilSpec F.ceilI) (he : ErfSpec F.erf)
    (h2 : 0 < F.sqrt2) (cut R wl sigma : α) (hcut : 0 ≤ cut) (hR : 0 ≤ R) (s : Spec α) (hs : WF s) (st en : Int)
    (h : gaussActive F cut wl sigma s = some (st, en)) :
    integral s + R * frac F wl sigma (max s.mn (wl - cut * sigma)) (min s.mx (wl + cut * sigma))
        ≤ integral (addGaussianLine F cut R wl sigma s) ∧
      integral (addGaussianLine F cut R wl sigma s) ≤ integral s + R * frac F wl sigma s.mn s.mx := by
  apply Cherab.Lemmas.LineShape.gauss_integral_bounds <;> assumption

/-- the cut-off at `cut·σ` loses at most `1 − erf(cut/√2)` of the profile -/
theorem gauss_cutoff_loss (F : Fns α) (he : ErfSpec F.erf) (h2 : 0 < F.sqrt2) (cut wl sigma a b : α)
    (hsig : 0 < sigma) :
    frac F wl sigma a b - (1 - F.erf (cut / F.sqrt2))
      ≤ frac F wl sigma (max a (wl - cut * sigma)) (min b (wl + cut * sigma)) := by
  apply Cherab.Lemmas.LineShape.gauss_cutoff_loss <;> assumption

/-- **`Σ samples·Δ` grows by `R × (fraction of the normalised profile inside the window)`, up to the cut-off loss** -/
theorem gauss_integral_fraction (F : Fns α) (hf : FloorSpec F.floorI) (hc : CeilSpec F.ceilI) (he : ErfSpec F.erf)
    (h2 : 0 < F.sqrt2) (cut R wl sigma : α) (hcut : 0 ≤ cut) (hR : 0 ≤ R) (s : Spec α) (hs : WF s) (st en : Int)
    (h : gaussActive F cut wl sigma s = some (st, en)) :
    integral s + R * (frac F wl sigma s.mn s.mx - (1 - F.erf (cut / F.sqrt2)))
        ≤ integral (addGaussianLine F cut R wl sigma s) ∧
      integral (addGaussianLine F cut R wl sigma s) ≤ integral s + R * frac F wl sigma s.mn s.mx := by
  apply Cherab.Lemmas.LineShape.gauss_integral_fraction <;> assumption

/-- when the call returns early although `σ > 0`, at most half the cut-off loss lay inside the window -/
theorem gauss_skipped_fraction (F : Fns α) (he : ErfSpec F.erf) (h2 : 0 < F.sqrt2) (cut wl sigma : α)
    (hsig : 0 < sigma) (s : Spec α) (h : gaussActive F cut wl sigma s = none) :
    frac F wl sigma s.mn s.mx ≤ 0.5 * (1 - F.erf (cut / F.sqrt2)) := by
  apply Cherab.Lemmas.LineShape.gauss_skipped_fraction <;> assumption

/-- a window that contains the whole cut-off interval receives the whole radiance (up to the loss) -/
theorem gauss_whole_radiance (F : Fns α) (hf : FloorSpec F.floorI) (hc : CeilSpec F.ceilI) (he : ErfSpec F.erf)
    (h2 : 0 < F.sqrt2) (cut R wl sigma : α) (hcut : 0 ≤ cut) (hR : 0 ≤ R) (hsig : 0 < sigma) (s : Spec α) (hs : WF s)
    (hlo : s.mn ≤ wl - cut * sigma) (hhi : wl + cut * sigma ≤ s.mx) :
    integral s + R * F.erf (cut / F.sqrt2) ≤ integral (addGaussianLine F cut R wl sigma s) ∧
      integral (addGaussianLine F cut R wl sigma s) ≤ integral s + R := by
  apply Cherab.Lemmas.LineShape.gauss_whole_radiance <;> assumption

theorem add_line_linear (F : Fns α) (cut c R wl sigma : α) (s : Spec α) (i : Nat) :
    gaussBin F cut (c * R) wl sigma s i = c * gaussBin F cut R wl sigma s i := by
  apply Cherab.Lemmas.LineShape.gaussBin_smul <;> assumption

/-- **adding `R₁` then `R₂` at the same (λ, σ) equals adding `R₁ + R₂`, bin by bin** -/
theorem add_line_additive (F : Fns α) (hf : FloorSpec F.floorI) (hc : CeilSpec F.ceilI) (cut R1 R2 wl sigma : α)
    (hcut : 0 ≤ cut) (s : Spec α) (hs : WF s) (i : Nat) :
    (addGaussianLine F cut R2 wl sigma (addGaussianLine F cut R1 wl sigma s)).samples.getD i 0 =
      (addGaussianLine F cut (R1 + R2) wl sigma s).samples.getD i 0 := by
  apply Cherab.Lemmas.LineShape.add_line_additive <;> assumption

/-- a line of no width adds nothing -/
theorem zero_width_adds_nothing (F : Fns α) (cut R wl sigma : α) (s : Spec α) (h : sigma ≤ 0) :
    addGaussianLine F cut R wl sigma s = s := by
  apply Cherab.Lemmas.LineShape.zero_width_adds_nothing <;> assumption

theorem lorentz_bin_value (F : Fns α) (hf : FloorSpec F.floorI) (hc : CeilSpec F.ceilI) (I : α → α → α → α → α)
    (cut R wl fwhm : α) (hcut : 0 ≤ cut) (s : Spec α) (hs : WF s) (i : Nat) :
    (addLorentzianLine F I cut R wl fwhm s).samples.getD i 0 = s.samples.getD i 0 + lorBin F I cut R wl fwhm s i := by
  apply Cherab.Lemmas.LineShape.lorentz_bin_value <;> assumption

/-- **Lorentzian: `Σ_bins added·Δ = R · I(edge start, edge end)`** when the bin integrator is additive -/
theorem lorentz_bins_telescope_partial (F : Fns α) (hf : FloorSpec F.floorI) (hc : CeilSpec F.ceilI) (I : α → α → α → α → α)
    (cut R wl fwhm : α) (hadd : ∀ a b c, I wl fwhm a b + I wl fwhm b c = I wl fwhm a c)
    (hcut : 0 ≤ cut) (s : Spec α) (hs : WF s) (st en : Int) (h : lorActive F cut wl fwhm s = some (st, en)) :
    integral (addLorentzianLine F I cut R wl fwhm s) = integral s + R * I wl fwhm (edge s st) (edge s en) := by
  apply Cherab.Lemmas.LineShape.lorentz_bins_telescope <;> assumption

theorem lorentz_zero_width (F : Fns α) (I : α → α → α → α → α) (cut R wl fwhm : α) (s : Spec α) (h : fwhm ≤ 0) :
    addLorentzianLine F I cut R wl fwhm s = s := by
  apply Cherab.Lemmas.LineShape.lorentz_zero_width <;> assumption

/-- **every model: each bin of the result = the bin before + Σ over the components of their bin averages** -/
theorem model_bins (F : Fns α) (hf : FloorSpec F.floorI) (hc : CeilSpec F.ceilI) (I : α → α → α → α → α)
    (cutG cutL : α) (hG : 0 ≤ cutG) (hL : 0 ≤ cutL) (cs : List (Comp α)) (s : Spec α) (hs : WF s) (i : Nat) :
    (addComps F I cutG cutL cs s).samples.getD i 0 = s.samples.getD i 0 + compsBin F I cutG cutL cs s i := by
  apply Cherab.Lemmas.LineShape.addComps_bin <;> assumption

/-- **any Gaussian model: `Σ samples·Δ` grows by `Σ_c R_c × (fraction of component c inside the window)`**,
i.e. the supplied radiance times the fraction of the (weighted) normalised profile inside the window, up to
the cut-off loss `1 − erf(cut/√2)` per unit radiance -/
theorem model_integral_bounds (F : Fns α) (hf : FloorSpec F.floorI) (hc : CeilSpec F.ceilI) (he : ErfSpec F.erf)
    (h2 : 0 < F.sqrt2) (I : α → α → α → α → α) (cutG cutL : α) (hG : 0 ≤ cutG) (cs : List (Comp α))
    (hall : ∀ c ∈ cs, c.lor = false ∧ 0 ≤ c.rad ∧ 0 < c.width) (s : Spec α) (hs : WF s) :
    integral s + (cs.map fun c => c.rad * (frac F c.wl c.width s.mn s.mx - (1 - F.erf (cutG / F.sqrt2)))).sum
        ≤ integral (addComps F I cutG cutL cs s) ∧
      integral (addComps F I cutG cutL cs s)
        ≤ integral s + (cs.map fun c => c.rad * frac F c.wl c.width s.mn s.mx).sum := by
  apply Cherab.Lemmas.LineShape.model_integral_bounds <;> assumption

theorem zeemanTriplet_pi_plus_sigma (F : Fns α) (hf : FloorSpec F.floorI) (hc : CeilSpec F.ceilI)
    (I : α → α → α → α → α) (cutG cutL : α) (hG : 0 ≤ cutG) (hL : 0 ≤ cutL) (K : Consts α) (R : α) (e : Env α) :
    PiPlusSigma F I cutG cutL (zeemanTripletComps F K Pol.no R e) (zeemanTripletComps F K Pol.pi R e)
      (zeemanTripletComps F K Pol.sigma R e) := by
  apply Cherab.Lemmas.LineShape.zeemanTriplet_pi_plus_sigma <;> assumption

theorem paramZeeman_pi_plus_sigma (F : Fns α) (hf : FloorSpec F.floorI) (hc : CeilSpec F.ceilI)
    (I : α → α → α → α → α) (cutG cutL : α) (hG : 0 ≤ cutG) (hL : 0 ≤ cutL) (K : Consts α) (al be ga R : α) (e : Env α) :
    PiPlusSigma F I cutG cutL (paramZeemanComps F K al be ga Pol.no R e) (paramZeemanComps F K al be ga Pol.pi R e)
      (paramZeemanComps F K al be ga Pol.sigma R e) := by
  apply Cherab.Lemmas.LineShape.paramZeeman_pi_plus_sigma <;> assumption

theorem zeemanMultiplet_pi_plus_sigma (F : Fns α) (hf : FloorSpec F.floorI) (hc : CeilSpec F.ceilI)
    (I : α → α → α → α → α) (cutG cutL : α) (hG : 0 ≤ cutG) (hL : 0 ≤ cutL) (K : Consts α)
    (rawPi rawSp rawSm : List (α × α)) (R : α) (e : Env α) :
    PiPlusSigma F I cutG cutL (zeemanMultipletComps F K rawPi rawSp rawSm Pol.no R e)
      (zeemanMultipletComps F K rawPi rawSp rawSm Pol.pi R e)
      (zeemanMultipletComps F K rawPi rawSp rawSm Pol.sigma R e) := by
  apply Cherab.Lemmas.LineShape.zeemanMultiplet_pi_plus_sigma <;> assumption

theorem stark_pi_plus_sigma (F : Fns α) (hf : FloorSpec F.floorI) (hc : CeilSpec F.ceilI)
    (I : α → α → α → α → α) (cutG cutL : α) (hG : 0 ≤ cutG) (hL : 0 ≤ cutL) (K : Consts α) (cij aij bij R : α)
    (e : Env α) :
    PiPlusSigma F I cutG cutL (starkComps F K cij aij bij Pol.no R e) (starkComps F K cij aij bij Pol.pi R e)
      (starkComps F K cij aij bij Pol.sigma R e) := by
  apply Cherab.Lemmas.LineShape.stark_pi_plus_sigma <;> assumption

theorem gaussianLine_weights_sum (F : Fns α) (K : Consts α) (R : α) (e : Env α) (hts : 0 < e.ts) :
    radSum (gaussianLineComps F K R e) = R := by
  apply Cherab.Lemmas.LineShape.gaussianLine_weights_sum <;> assumption

/-- the multiplet components carry `R × ratio` each … -/
theorem multiplet_ratios (F : Fns α) (K : Consts α) (mult : List (α × α)) (R : α) (e : Env α) (hts : 0 < e.ts) :
    (multipletComps F K mult R e).map (fun c => c.rad) = mult.map (fun m => R * m.2) := by
  apply Cherab.Lemmas.LineShape.multiplet_ratios <;> assumption

/-- … which add up to `R` when the ratios sum to one (enforced by the constructor) -/
theorem multiplet_weights_sum (F : Fns α) (K : Consts α) (mult : List (α × α)) (R : α) (e : Env α) (hts : 0 < e.ts)
    (hsum : (mult.map Prod.snd).sum = 1) : radSum (multipletComps F K mult R e) = R := by
  apply Cherab.Lemmas.LineShape.multiplet_weights_sum <;> assumption

/-- `0.5 sin² + 2 (0.25 sin² + 0.5 cos²) = 1` with `sin² = 1 − cos²` — for *any* value of `cos²` -/
theorem triplet_weights (c R : α) : 0.5 * (1.0 - c) * R + ((0.25 * (1.0 - c) + 0.5 * c) * R + (0.25 * (1.0 - c) + 0.5 * c) * R) = R := by
  apply Cherab.Lemmas.LineShape.triplet_weights <;> assumption

theorem zeemanTriplet_weights_sum (F : Fns α) (K : Consts α) (R : α) (e : Env α) (hts : 0 < e.ts) :
    radSum (zeemanTripletComps F K Pol.no R e) = R := by
  apply Cherab.Lemmas.LineShape.zeemanTriplet_weights_sum <;> assumption

/-- π share + σ share = the whole radiance (both for `|B| = 0`: ½ + ½, and `|B| ≠ 0`) -/
theorem zeemanTriplet_pol_shares (F : Fns α) (K : Consts α) (R : α) (e : Env α) (hts : 0 < e.ts) :
    radSum (zeemanTripletComps F K Pol.pi R e) + radSum (zeemanTripletComps F K Pol.sigma R e) = R := by
  apply Cherab.Lemmas.LineShape.zeemanTriplet_pol_shares <;> assumption

theorem paramZeeman_weights_sum (F : Fns α) (K : Consts α) (al be ga R : α) (e : Env α) (hts : 0 < e.ts) :
    radSum (paramZeemanComps F K al be ga Pol.no R e) = R := by
  apply Cherab.Lemmas.LineShape.paramZeeman_weights_sum <;> assumption

theorem paramZeeman_pol_shares (F : Fns α) (K : Consts α) (al be ga R : α) (e : Env α) (hts : 0 < e.ts) :
    radSum (paramZeemanComps F K al be ga Pol.pi R e) + radSum (paramZeemanComps F K al be ga Pol.sigma R e) = R := by
  apply Cherab.Lemmas.LineShape.paramZeeman_pol_shares <;> assumption

/-- **`ZeemanStructure.evaluate` renormalises: the ratios it returns add to 1 whenever their raw sum is positive** -/
theorem zeemanNormalise_sum (raw : List (α × α)) (h : 0 < (raw.map Prod.snd).sum) :
    ((zeemanNormalise raw).map Prod.snd).sum = 1 := by
  apply Cherab.Lemmas.LineShape.zeemanNormalise_sum <;> assumption

/-- wavelengths are left alone by the renormalisation -/
theorem zeemanNormalise_wavelengths (raw : List (α × α)) : (zeemanNormalise raw).map Prod.fst = raw.map Prod.fst := by
  apply Cherab.Lemmas.LineShape.zeemanNormalise_wavelengths <;> assumption

theorem zeemanMultiplet_weights_sum (F : Fns α) (K : Consts α) (rawPi rawSp rawSm : List (α × α)) (R : α) (e : Env α)
    (hts : 0 < e.ts) (hpi : 0 < (rawPi.map Prod.snd).sum) (hsp : 0 < (rawSp.map Prod.snd).sum)
    (hsm : 0 < (rawSm.map Prod.snd).sum) :
    radSum (zeemanMultipletComps F K rawPi rawSp rawSm Pol.no R e) = R := by
  apply Cherab.Lemmas.LineShape.zeemanMultiplet_weights_sum <;> assumption

theorem zeemanMultiplet_pol_shares (F : Fns α) (K : Consts α) (rawPi rawSp rawSm : List (α × α)) (R : α) (e : Env α)
    (hts : 0 < e.ts) (hpi : 0 < (rawPi.map Prod.snd).sum) (hsp : 0 < (rawSp.map Prod.snd).sum)
    (hsm : 0 < (rawSm.map Prod.snd).sum) :
    radSum (zeemanMultipletComps F K rawPi rawSp rawSm Pol.pi R e) +
      radSum (zeemanMultipletComps F K rawPi rawSp rawSm Pol.sigma R e) = R := by
  apply Cherab.Lemmas.LineShape.zeemanMultiplet_pol_shares <;> assumption

/-- Lorentzian and Gaussian weights of the pseudo-Voigt share the radiance, and with the Zeeman weights the
whole radiance is handed out in mode "no" -/
theorem stark_weights_sum (F : Fns α) (K : Consts α) (lw ff sigma R : α) (e : Env α) :
    radSum (starkTail F K (some (lw, ff, sigma)) Pol.no R e) = R := by
  apply Cherab.Lemmas.LineShape.stark_weights_sum <;> assumption

theorem stark_pol_shares (F : Fns α) (K : Consts α) (lw ff sigma R : α) (e : Env α) :
    radSum (starkTail F K (some (lw, ff, sigma)) Pol.pi R e) +
      radSum (starkTail F K (some (lw, ff, sigma)) Pol.sigma R e) = R := by
  apply Cherab.Lemmas.LineShape.stark_pol_shares <;> assumption

/-- no Doppler width (`T_s ≤ 0`) and no electron broadening (`n_e ≤ 0` or `T_e ≤ 0`): nothing is added -/
theorem stark_zero_width (F : Fns α) (K : Consts α) (cij aij bij : α) (pol : Pol) (R : α) (e : Env α)
    (hts : e.ts ≤ 0) (hel : e.ne ≤ 0 ∨ e.te ≤ 0) : starkComps F K cij aij bij pol R e = [] := by
  apply Cherab.Lemmas.LineShape.stark_zero_width <;> assumption

/-- only electron broadening: weight 1 on the Lorentzian of width `fwhm_L`, the Gaussian call has σ = 0 -/
theorem stark_lorentz_only (F : Fns α) (hpow : ∀ n : Nat, 0 < n → F.pow 0 (n : α) = 0) (fl : α) (hfl : 0 < fl) :
    starkWidths F fl 0 = some (1, fl, 0) := by
  apply Cherab.Lemmas.LineShape.stark_lorentz_only <;> assumption

/-- only Doppler broadening: weight 0 and width 0 for the Lorentzian, σ = `fwhm_G / (2√(2 ln 2))` -/
theorem stark_gauss_only (F : Fns α) (hpow : ∀ n : Nat, 0 < n → F.pow 0 (n : α) = 0) (fg : α) (hfg : 0 < fg) :
    starkWidths F 0 fg = some (0, 0, fg / sigma2fwhm F) := by
  apply Cherab.Lemmas.LineShape.stark_gauss_only <;> assumption

/-- σ₀ + 2σ₁ = 1 and 2(π₂ + π₃ + π₄) with the ½ of `intensity_pi` = 1; the σ/π split `d = 1/(1 + σ/π)` hands
out the whole radiance -/
theorem mse_weights_sum (F : Fns α) (K : Consts α) (R : α) (e : BeamEnv α) (hte : 0 < e.te) (hne : 0 < e.ne)
    (h1 : 1 + e.s2p ≠ 0) (h2 : e.s1s0 + 1 ≠ 0) (h3 : 1 + e.p2p3 + e.p4p3 ≠ 0) :
    radSum (mseComps F K R e) = R := by
  apply Cherab.Lemmas.LineShape.mse_weights_sum <;> assumption

/-- the σ group (3 lines) carries `σ/π · d · R`, the π group (6 lines) `d · R` -/
theorem mse_sigma_pi_split (F : Fns α) (K : Consts α) (R : α) (e : BeamEnv α) (hte : 0 < e.te) (hne : 0 < e.ne)
    (h2 : e.s1s0 + 1 ≠ 0) (h3 : 1 + e.p2p3 + e.p4p3 ≠ 0) :
    radSum ((mseComps F K R e).take 3) = e.s2p * (1 / (1 + e.s2p)) * R ∧
      radSum ((mseComps F K R e).drop 3) = 1 / (1 + e.s2p) * R := by
  apply Cherab.Lemmas.LineShape.mse_sigma_pi_split <;> assumption

theorem models_zero_width (F : Fns α) (K : Consts α) (pol : Pol) (R : α) (e : Env α) (hts : e.ts ≤ 0)
    (mult rawPi rawSp rawSm : List (α × α)) (al be ga : α) :
    gaussianLineComps F K R e = [] ∧ multipletComps F K mult R e = [] ∧ zeemanTripletComps F K pol R e = [] ∧
      paramZeemanComps F K al be ga pol R e = [] ∧ zeemanMultipletComps F K rawPi rawSp rawSm pol R e = [] := by
  apply Cherab.Lemmas.LineShape.models_zero_width <;> assumption

theorem cosSqr_range (F : Fns α) (hs : SqrtSpec F.sqrt) (e : Env α) (hd : dot e.dir e.dir ≠ 0) (hb : dot e.b e.b ≠ 0) :
    0 ≤ cosSqr F e ∧ cosSqr F e ≤ 1 := by
  apply Cherab.Lemmas.LineShape.cosSqr_range <;> assumption

/-- so every Zeeman component radiance is non-negative for `R ≥ 0` -/
theorem zeeman_weights_nonneg (c R : α) (h0 : 0 ≤ c) (h1 : c ≤ 1) (hR : 0 ≤ R) :
    0 ≤ 0.5 * (1.0 - c) * R ∧ 0 ≤ (0.25 * (1.0 - c) + 0.5 * c) * R := by
  apply Cherab.Lemmas.LineShape.zeeman_weights_nonneg <;> assumption

/-! ### the Lorentzian after the proposed fix (notes/fixes/C02-1.diff) and the witness against the shipped integrator -/

/-- **post-fix model `addLorentzianLineCdf`, full strength: `Σ added·Δ` = `R ×` the fraction of the truncated
normalised profile inside the window** (replaces `lorentz_bins_telescope_partial` once the fix lands) -/
theorem lorentz_cdf_exact (F : Fns α) (hf : FloorSpec F.floorI) (hc : CeilSpec F.ceilI) (G : α → α → α → α)
    (normC cut R wl fwhm : α) (hcut : 0 ≤ cut) (s : Spec α) (hs : WF s) (st en : Int)
    (h : lorActive F cut wl fwhm s = some (st, en)) :
    integral (addLorentzianLineCdf F G normC cut R wl fwhm s) =
      integral s + R * (1 / normC * (G wl (0.5 * fwhm) (min s.mx (wl + cut * fwhm)) -
        G wl (0.5 * fwhm) (max s.mn (wl - cut * fwhm)))) := by
  apply Cherab.Lemmas.LineShape.lorentz_cdf_exact <;> assumption

theorem lorentz_cdf_whole_radiance (F : Fns α) (hf : FloorSpec F.floorI) (hc : CeilSpec F.ceilI) (G : α → α → α → α)
    (normC cut R wl fwhm : α) (hcut : 0 ≤ cut) (hfw : 0 < fwhm) (hC : normC ≠ 0) (s : Spec α) (hs : WF s)
    (hlo : s.mn ≤ wl - cut * fwhm) (hhi : wl + cut * fwhm ≤ s.mx)
    (hnorm : G wl (0.5 * fwhm) (wl + cut * fwhm) - G wl (0.5 * fwhm) (wl - cut * fwhm) = normC) :
    integral (addLorentzianLineCdf F G normC cut R wl fwhm s) = integral s + R := by
  apply Cherab.Lemmas.LineShape.lorentz_cdf_whole_radiance <;> assumption

/-- negation witness for the as-is code: `GaussianQuadrature` (here its `max_order = 1` configuration on `x²`) is not
additive over adjacent intervals, so `lorentz_bins_telescope_partial` does not apply to the shipped integrator -/
theorem gaussQuad_not_additive_witness :
    gaussQuad (fun x : ℚ => x * x) (1 / 100000) [[(0, 2)]] 0 1 + gaussQuad (fun x : ℚ => x * x) (1 / 100000) [[(0, 2)]] 1 2
      ≠ gaussQuad (fun x : ℚ => x * x) (1 / 100000) [[(0, 2)]] 0 2 :=
  Cherab.Lemmas.LineShape.gaussQuad_not_additive_witness

/-! ### `GaussianQuadrature` setter histories: construct → set* → use = fresh(final) -/

/-- after any history of `min_order` / `max_order` / `relative_tolerance` setter calls, accepted or rejected, the
object (parameters *and* flat roots/weights cache) is the freshly constructed integrator with the final parameters -/
theorem gq_history_eq_fresh (table : Nat → List (α × α)) (g : GQ α) (hg : GQInv table g) (ops : List (GQOp α)) :
    gqRun table g ops =
      gqNew table (gqRun table g ops).minO (gqRun table g ops).maxO (gqRun table g ops).rtol :=
  Cherab.Lemmas.LineShape.gq_history_eq_fresh table g hg ops

/-- a setter that raises `ValueError` leaves the object untouched -/
theorem gqSet_rejects_atomically (table : Nat → List (α × α)) (g : GQ α) (op : GQOp α)
    (h : (gqSet table g op).2 = true) : (gqSet table g op).1 = g :=
  Cherab.Lemmas.LineShape.gqSet_rejects_atomically table g op h

/-- `evaluate` on the flat cache (offset `ibegin`) = order stepping over the orders `min … max` of the current
parameters, given that `roots_legendre(k)` returns `k` nodes -/
theorem gqEval_eq_gaussQuad (table : Nat → List (α × α)) (htab : ∀ k, (table k).length = k) (f : α → α) (g : GQ α)
    (hg : GQInv table g) (a b : α) :
    gqEval f g a b = gaussQuad f g.rtol (rulesFor table g.minO g.maxO) a b :=
  Cherab.Lemmas.LineShape.gqEval_eq_gaussQuad table htab f g hg a b

/-- integrands that every rule of the range integrates exactly are integrated exactly -/
theorem gaussQuad_exact (f : α → α) (rtol a b J : α) (rules : List (List (α × α))) (hne : rules ≠ [])
    (h : ∀ r ∈ rules, glRule f (0.5 * (a + b)) (0.5 * (b - a)) r = J) : gaussQuad f rtol rules a b = J :=
  Cherab.Lemmas.LineShape.gaussQuad_exact f rtol a b J rules hne h

/-! ### proof-deepening pass: end-to-end normalisation of each Gaussian model, zero width for every model -/

/-- **any component list** (any length): Gaussian components of non-negative radiance and positive width whose cut-off
intervals lie inside the window deliver `radSum·erf(cut/√2) ≤ Σ added·Δ ≤ radSum` -/
theorem model_whole_radiance (F : Fns α) (hf : FloorSpec F.floorI) (hc : CeilSpec F.ceilI) (he : ErfSpec F.erf)
    (h2 : 0 < F.sqrt2) (I : α → α → α → α → α) (cutG cutL : α) (hG : 0 ≤ cutG) (cs : List (Comp α)) (hgood : GoodComps cs)
    (s : Spec α) (hs : WF s) (hsp : Spans cutG cs s) :
    integral s + radSum cs * F.erf (cutG / F.sqrt2) ≤ integral (addComps F I cutG cutL cs s) ∧
      integral (addComps F I cutG cutL cs s) ≤ integral s + radSum cs :=
  Cherab.Lemmas.LineShape.model_whole_radiance F hf hc he h2 I cutG cutL hG cs hgood s hs hsp

/-- the Doppler width is positive (glue fact that used to be an assumption of `model_integral_bounds`) -/
theorem thermal_pos (F : Fns α) (hs : SqrtSpec F.sqrt) (K : Consts α) (hK : ConstsPos K) (wl t aw : α) (hwl : 0 < wl)
    (ht : 0 < t) (haw : 0 < aw) : 0 < thermalBroadening F K wl t aw :=
  Cherab.Lemmas.LineShape.thermal_pos F hs K hK wl t aw hwl ht haw

/-- **GaussianLine is normalised** -/
theorem gaussianLine_normalised (F : Fns α) (hf : FloorSpec F.floorI) (hc : CeilSpec F.ceilI) (he : ErfSpec F.erf)
    (h2 : 0 < F.sqrt2) (hsq : SqrtSpec F.sqrt) (K : Consts α) (hK : ConstsPos K) (I : α → α → α → α → α) (cutG cutL : α)
    (hG : 0 ≤ cutG) (R : α) (e : Env α) (hR : 0 ≤ R) (hwl : 0 < e.wl) (haw : 0 < e.aw) (hts : 0 < e.ts) (s : Spec α) (hs : WF s)
    (hsp : Spans cutG (gaussianLineComps F K R e) s) :
    integral s + R * F.erf (cutG / F.sqrt2) ≤ integral (addComps F I cutG cutL (gaussianLineComps F K R e) s) ∧
      integral (addComps F I cutG cutL (gaussianLineComps F K R e) s) ≤ integral s + R :=
  comps_normalised F hf hc he h2 I cutG cutL hG _ R (gaussianLine_good F hsq K hK R e hR hwl haw hts)
    (Cherab.Lemmas.LineShape.gaussianLine_weights_sum F K R e hts) s hs hsp

/-- **MultipletLineShape with a table of any length is normalised: ratios ≥ 0 summing to one ⇒ `Σ added·Δ = R`** (up to the
cut-off loss) -/
theorem multiplet_normalised (F : Fns α) (hf : FloorSpec F.floorI) (hc : CeilSpec F.ceilI) (he : ErfSpec F.erf)
    (h2 : 0 < F.sqrt2) (hsq : SqrtSpec F.sqrt) (K : Consts α) (hK : ConstsPos K) (I : α → α → α → α → α) (cutG cutL : α)
    (hG : 0 ≤ cutG) (mult : List (α × α)) (R : α) (e : Env α) (hR : 0 ≤ R) (hwl : 0 < e.wl) (haw : 0 < e.aw) (hts : 0 < e.ts)
    (hr : ∀ m ∈ mult, 0 ≤ m.2) (hsum : (mult.map Prod.snd).sum = 1) (s : Spec α) (hs : WF s)
    (hsp : Spans cutG (multipletComps F K mult R e) s) :
    integral s + R * F.erf (cutG / F.sqrt2) ≤ integral (addComps F I cutG cutL (multipletComps F K mult R e) s) ∧
      integral (addComps F I cutG cutL (multipletComps F K mult R e) s) ≤ integral s + R :=
  comps_normalised F hf hc he h2 I cutG cutL hG _ R (multiplet_good F hsq K hK mult R e hR hwl haw hts hr)
    (Cherab.Lemmas.LineShape.multiplet_weights_sum F K mult R e hts hsum) s hs hsp

/-- **ZeemanTriplet (unpolarised) is normalised for every field vector and viewing direction**, `|B| = 0` included -/
theorem zeemanTriplet_normalised (F : Fns α) (hf : FloorSpec F.floorI) (hc : CeilSpec F.ceilI) (he : ErfSpec F.erf)
    (h2 : 0 < F.sqrt2) (hsq : SqrtSpec F.sqrt) (K : Consts α) (hK : ConstsPos K) (I : α → α → α → α → α) (cutG cutL : α)
    (hG : 0 ≤ cutG) (R : α) (e : Env α) (hR : 0 ≤ R) (hwl : 0 < e.wl) (haw : 0 < e.aw) (hts : 0 < e.ts)
    (hd : dot e.dir e.dir ≠ 0) (s : Spec α) (hs : WF s) (hsp : Spans cutG (zeemanTripletComps F K Pol.no R e) s) :
    integral s + R * F.erf (cutG / F.sqrt2) ≤ integral (addComps F I cutG cutL (zeemanTripletComps F K Pol.no R e) s) ∧
      integral (addComps F I cutG cutL (zeemanTripletComps F K Pol.no R e) s) ≤ integral s + R :=
  comps_normalised F hf hc he h2 I cutG cutL hG _ R (zeemanTriplet_good F hsq K hK Pol.no R e hR hwl haw hts hd)
    (Cherab.Lemmas.LineShape.zeemanTriplet_weights_sum F K R e hts) s hs hsp

/-- **ZeemanMultiplet with π / σ⁺ / σ⁻ tables of any length is normalised** (ratios ≥ 0 with positive sums; the
renormalisation of `ZeemanStructure.evaluate` is part of the statement) -/
theorem zeemanMultiplet_normalised (F : Fns α) (hf : FloorSpec F.floorI) (hc : CeilSpec F.ceilI) (he : ErfSpec F.erf)
    (h2 : 0 < F.sqrt2) (hsq : SqrtSpec F.sqrt) (K : Consts α) (hK : ConstsPos K) (I : α → α → α → α → α) (cutG cutL : α)
    (hG : 0 ≤ cutG) (rawPi rawSp rawSm : List (α × α)) (R : α) (e : Env α) (hR : 0 ≤ R) (hwl : 0 < e.wl) (haw : 0 < e.aw)
    (hts : 0 < e.ts) (hd : dot e.dir e.dir ≠ 0) (hpi : ∀ m ∈ rawPi, 0 ≤ m.2) (hsp' : ∀ m ∈ rawSp, 0 ≤ m.2)
    (hsm : ∀ m ∈ rawSm, 0 ≤ m.2) (spi : 0 < (rawPi.map Prod.snd).sum) (ssp : 0 < (rawSp.map Prod.snd).sum)
    (ssm : 0 < (rawSm.map Prod.snd).sum) (s : Spec α) (hs : WF s)
    (hsp : Spans cutG (zeemanMultipletComps F K rawPi rawSp rawSm Pol.no R e) s) :
    integral s + R * F.erf (cutG / F.sqrt2)
        ≤ integral (addComps F I cutG cutL (zeemanMultipletComps F K rawPi rawSp rawSm Pol.no R e) s) ∧
      integral (addComps F I cutG cutL (zeemanMultipletComps F K rawPi rawSp rawSm Pol.no R e) s) ≤ integral s + R :=
  comps_normalised F hf hc he h2 I cutG cutL hG _ R
    (zeemanMultiplet_good F hsq K hK rawPi rawSp rawSm Pol.no R e hR hwl haw hts hd hpi hsp' hsm)
    (Cherab.Lemmas.LineShape.zeemanMultiplet_weights_sum F K rawPi rawSp rawSm R e hts spi ssp ssm) s hs hsp

/-- **BeamEmissionMultiplet is normalised** for non-negative intensity ratios -/
theorem mse_normalised (F : Fns α) (hf : FloorSpec F.floorI) (hc : CeilSpec F.ceilI) (he : ErfSpec F.erf)
    (h2 : 0 < F.sqrt2) (hsq : SqrtSpec F.sqrt) (K : Consts α) (hK : ConstsPos K) (I : α → α → α → α → α) (cutG cutL : α)
    (hG : 0 ≤ cutG) (R : α) (e : BeamEnv α) (hR : 0 ≤ R) (hwl : 0 < e.wl) (hm : 0 < e.mass) (hT : 0 < e.temp) (hte : 0 < e.te)
    (hne : 0 < e.ne) (r1 : 0 ≤ e.s2p) (r2 : 0 ≤ e.s1s0) (r3 : 0 ≤ e.p2p3) (r4 : 0 ≤ e.p4p3) (s : Spec α) (hs : WF s)
    (hsp : Spans cutG (mseComps F K R e) s) :
    integral s + R * F.erf (cutG / F.sqrt2) ≤ integral (addComps F I cutG cutL (mseComps F K R e) s) ∧
      integral (addComps F I cutG cutL (mseComps F K R e) s) ≤ integral s + R :=
  comps_normalised F hf hc he h2 I cutG cutL hG _ R (mse_good F hsq K hK R e hR hwl hm hT hte hne r1 r2 r3 r4)
    (Cherab.Lemmas.LineShape.mse_weights_sum F K R e hte hne (by positivity) (by positivity) (by positivity)) s hs hsp

/-- components of no width leave the spectrum alone, whatever their kind and radiance -/
theorem addComps_zero_width (F : Fns α) (I : α → α → α → α → α) (cutG cutL : α) (cs : List (Comp α))
    (h : ∀ c ∈ cs, c.width ≤ 0) (s : Spec α) : addComps F I cutG cutL cs s = s :=
  Cherab.Lemmas.LineShape.addComps_zero_width F I cutG cutL cs h s

/-- **zero width, every model, at the level of the returned spectrum**: `T_s ≤ 0` (and no electron broadening for the
Stark model) returns the spectrum unchanged -/
theorem every_model_zero_width (F : Fns α) (K : Consts α) (I : α → α → α → α → α) (cutG cutL : α) (pol : Pol) (R : α) (e : Env α)
    (hts : e.ts ≤ 0) (mult rawPi rawSp rawSm : List (α × α)) (al be ga cij aij bij : α) (hel : e.ne ≤ 0 ∨ e.te ≤ 0) (s : Spec α) :
    addComps F I cutG cutL (gaussianLineComps F K R e) s = s ∧ addComps F I cutG cutL (multipletComps F K mult R e) s = s ∧
      addComps F I cutG cutL (zeemanTripletComps F K pol R e) s = s ∧
      addComps F I cutG cutL (paramZeemanComps F K al be ga pol R e) s = s ∧
      addComps F I cutG cutL (zeemanMultipletComps F K rawPi rawSp rawSm pol R e) s = s ∧
      addComps F I cutG cutL (starkComps F K cij aij bij pol R e) s = s := by
  obtain ⟨a, b, c, d, f⟩ := Cherab.Lemmas.LineShape.models_zero_width F K pol R e hts mult rawPi rawSp rawSm al be ga
  rw [a, b, c, d, f, Cherab.Lemmas.LineShape.stark_zero_width F K cij aij bij pol R e hts hel]
  exact ⟨rfl, rfl, rfl, rfl, rfl, rfl⟩

theorem mse_no_emission (F : Fns α) (K : Consts α) (R : α) (e : BeamEnv α) (h : e.te ≤ 0 ∨ e.ne ≤ 0) :
    mseComps F K R e = [] :=
  Cherab.Lemmas.LineShape.mse_no_emission F K R e h

/-- a beam of zero temperature: nine components of zero width, spectrum unchanged -/
theorem mse_zero_beam_temperature (F : Fns α) (hs : SqrtSpec F.sqrt) (K : Consts α) (I : α → α → α → α → α) (cutG cutL R : α)
    (e : BeamEnv α) (hT : e.temp = 0) (s : Spec α) : addComps F I cutG cutL (mseComps F K R e) s = s :=
  Cherab.Lemmas.LineShape.mse_zero_beam_temperature F hs K I cutG cutL R e hT s

/-! ### non-vacuity: the hypotheses are satisfiable and the conclusions non-trivial (α = ℚ) -/

/-- a monotone, odd function bounded by 1 -/
def clampErf (x : ℚ) : ℚ := max (-1) (min 1 x)

def Fq : Fns ℚ :=
  { sqrt := id, pow := fun _ _ => 0, exp := id, log := id, erf := clampErf, floorI := Int.floor, ceilI := Int.ceil,
    sqrt2 := 3 / 2 }

def spq : Spec ℚ := { mn := 0, mx := 8, dl := 1, bins := 8, samples := [0, 0, 0, 0, 0, 0, 0, 0] }

example : FloorSpec Fq.floorI := fun x => ⟨Int.floor_le x, Int.lt_floor_add_one x⟩
example : CeilSpec Fq.ceilI := fun x =>
  ⟨by have := Int.ceil_lt_add_one x; show ((Int.ceil x : ℤ) : ℚ) - 1 < x; linarith, Int.le_ceil x⟩
example : ErfSpec Fq.erf :=
  ⟨fun a b h => max_le_max le_rfl (min_le_min le_rfl h),
   fun x => by
     simp only [Fq, clampErf]
     rcases le_total x 1 with h1 | h1 <;> rcases le_total x (-1) with h2 | h2 <;>
       simp [min_def, max_def] <;> split_ifs <;> linarith,
   fun x => max_le (by norm_num) (min_le_left _ _)⟩
example : WF spq := ⟨rfl, by norm_num [spq], by norm_num [spq]⟩
example : gaussActive Fq 10 4 (1 / 10) spq = some (3, 5) := by decide +kernel
/-- a line inside the window: two bins receive R/2 each, Σ·Δ = R -/
example : (addGaussianLine Fq 10 2 4 (1 / 10) spq).samples = [0, 0, 0, 1, 1, 0, 0, 0] := by decide +kernel
example : integral (addGaussianLine Fq 10 2 4 (1 / 10) spq) = integral spq + 2 := by decide +kernel
/-- a line straddling the lower window edge: half the radiance -/
example : integral (addGaussianLine Fq 10 2 0 (1 / 10) spq) = 1 := by decide +kernel
/-- outside / zero width: unchanged -/
example : (addGaussianLine Fq 10 2 20 (1 / 10) spq).samples = spq.samples := by decide +kernel
example : (addGaussianLine Fq 10 2 4 0 spq).samples = spq.samples := by decide +kernel
/-- Zeeman triplet, oblique B: π + σ = none on a concrete case, and the weights are 1/4, 3/8, 3/8 -/
def envq : Env ℚ := { wl := 4, aw := 1, ts := 1, vel := (0, 0, 0), dir := (1, 0, 0), b := (1, 1, 0), ne := 1, te := 1 }
def Kq : Consts ℚ := { amu := 1, echarge := 1, c := 1, hc := 1, muB := 1 / 8 }
example : (zeemanTripletComps Fq Kq Pol.no 8 envq).map (fun c => c.rad) ≠ [] := by decide +kernel
example : radSum (zeemanTripletComps Fq Kq Pol.no 8 envq) = 8 := by decide +kernel
example : (zeemanNormalise [((1 : ℚ), (2 : ℚ)), (2, 6)]).map Prod.snd = [1 / 4, 3 / 4] := by decide +kernel
def benvq : BeamEnv ℚ :=
  { wl := 4, te := 1, ne := 1, energy := 1, b := (0, 0, 1), beamDir := (1, 0, 0), obsDir := (0, 1, 0), mass := 1,
    temp := 1, s2p := 1 / 2, s1s0 := 1 / 3, p2p3 := 1 / 4, p4p3 := 1 / 5 }
example : radSum (mseComps Fq Kq 6 benvq) = 6 := by decide +kernel
/-- the Lorentzian hypothesis is satisfiable: the exact integral of a constant profile is additive -/
example : ∀ a b c : ℚ, (fun (_ _ a b : ℚ) => b - a) 0 0 a b + (fun (_ _ a b : ℚ) => b - a) 0 0 b c
    = (fun (_ _ a b : ℚ) => b - a) 0 0 a c := by intro a b c; ring

/-- post-fix Lorentzian with a (fake, linear) cumulative `G wl hw x = (x − wl)/hw` and `normC = 2·cut·2`: spanning window gets R -/
example : integral (addLorentzianLineCdf Fq (fun wl hw x => (x - wl) / hw) 8 2 3 4 (1 / 2) spq) = integral spq + 3 := by
  decide +kernel

/-- a setter history with accepted and rejected calls: raise min to 3, max := 2 rejected, rtol := 0 rejected, min := 2 -/
def tabq (k : Nat) : List (ℚ × ℚ) := (List.range k).map fun i => ((i : ℚ) / k - 1 / 2, 2 / k)
def histq : List (GQOp ℚ) := [.setMin 3, .setMax 2, .setRtol 0, .setMin 2, .setMax 5, .setMin 0]
example : GQInv tabq (gqNew tabq 1 4 (1 / 100)) := gqNew_inv tabq 1 4 (1 / 100) (by norm_num) (by norm_num) (by norm_num)
example : ((gqRun tabq (gqNew tabq 1 4 (1 / 100)) histq).minO, (gqRun tabq (gqNew tabq 1 4 (1 / 100)) histq).maxO) = (2, 5) := by
  decide +kernel
example : (gqSet tabq (gqNew tabq 3 4 (1 / 100)) (.setMax 2)).2 = true := by decide +kernel
example : ∀ k, (tabq k).length = k := fun k => by simp [tabq]
example : gqEval (fun x => x * x) (gqRun tabq (gqNew tabq 1 4 (1 / 100)) histq) 0 1
    = gqEval (fun x => x * x) (gqNew tabq 2 5 (1 / 100)) 0 1 := by decide +kernel

/-- deepening pass: `SqrtSpec` is satisfiable (over ℝ), `ConstsPos`, `GoodComps`, `Spans` on a concrete two-component list, and
the conclusion of `model_whole_radiance` is attained non-trivially (both components fully inside: Σ added·Δ = 2 + 1) -/
example : SqrtSpec Real.sqrt := fun t ht => ⟨Real.sqrt_nonneg t, Real.mul_self_sqrt ht⟩
example : ConstsPos Kq := ⟨by norm_num [Kq], by norm_num [Kq], by norm_num [Kq]⟩
def csq : List (Comp ℚ) := [gcomp 2 3 (1 / 10), gcomp 1 5 (1 / 10)]
example : GoodComps csq := by
  intro c hc
  simp only [csq, List.mem_cons, List.mem_singleton, List.not_mem_nil, or_false] at hc
  rcases hc with rfl | rfl <;> norm_num [gcomp]
example : Spans 10 csq spq := by
  intro c hc
  simp only [csq, List.mem_cons, List.mem_singleton, List.not_mem_nil, or_false] at hc
  rcases hc with rfl | rfl <;> norm_num [gcomp, spq]
example : integral (addComps Fq (fun _ _ _ _ => 0) 10 50 csq spq) = integral spq + radSum csq := by decide +kernel
example : radSum csq = 3 := by decide +kernel
example : addComps Fq (fun _ _ _ _ => 0) 10 50 [gcomp 2 3 0, lcomp 1 5 0] spq = spq := rfl
example : mseComps Fq Kq 6 { benvq with te := 0 } = [] := by decide +kernel

end Cherab.Props.C02
