import Cherab.Props.C15TableAux
open Cherab.Props.C15TableAux
#print axioms table_wf_partial
#print axioms table_broadcast_wf_partial
#print axioms table_lookup
#print axioms classes_declared
