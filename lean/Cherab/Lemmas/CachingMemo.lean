import Cherab.Model.Caching
import Mathlib.Tactic.Ring
import Mathlib.Tactic.Linarith
import Mathlib.Tactic.Push
import Mathlib.Algebra.Order.Field.Basic

/-!
Helper lemmas for C14, part 1: the lazily filled cache (generic over the dimension) and `find_index`.
-/
namespace Cherab.Caching
set_option linter.unusedSectionVars false

/-! ### association lists -/
section Assoc
variable {ν β : Type} [DecidableEq ν]

@[simp] theorem lookup_nil (u : ν) : lookup u ([] : List (ν × β)) = none := rfl

theorem lookup_cons (u k : ν) (v : β) (t : List (ν × β)) :
    lookup u ((k, v) :: t) = if k = u then some v else lookup u t := rfl

theorem lookup_cons_self (u : ν) (v : β) (t : List (ν × β)) : lookup u ((u, v) :: t) = some v := by
  simp [lookup_cons]

theorem lookup_cons_ne {u k : ν} (h : k ≠ u) (v : β) (t : List (ν × β)) :
    lookup u ((k, v) :: t) = lookup u t := by
  simp [lookup_cons, h]

end Assoc

/-! ### the memo machine -/
section Memo
variable {α P ν κ C : Type} [DecidableEq ν] [DecidableEq κ]
variable (S : Spec α P ν κ C) (E : Env α P)

/-- every stored sample is the normalised wrapped-function value at that node; the function returned there (did not
raise) and the value is not NaN -/
def DataInv (d : List (ν × α)) : Prop :=
  ∀ u v, lookup u d = some v → ∃ w, E.f (S.coord u) = some w ∧ E.isnan w = false ∧ v = E.norm w

/-- every stored coefficient block is the one built from the pure node values -/
def CoeffInv (cs : List (κ × C)) : Prop :=
  ∀ c co, lookup c cs = some co →
    (S.stencil c).all (fun u => (E.f (S.coord u)).isSome) = true ∧
    S.build c ((S.stencil c).map (nodeVal S E)) = some co

def Inv (st : St α ν κ C) : Prop := DataInv S E st.data ∧ CoeffInv S E st.coeffs

theorem inv_init : Inv S E (St.init : St α ν κ C) := by
  constructor <;> intro a b h <;> simp [St.init] at h

theorem readNode_present {d : List (ν × α)} (hd : DataInv S E d) {u : ν} {v : α}
    (h : lookup u d = some v) : readNode E d u = nodeVal S E u := by
  obtain ⟨w, h0, h1, h2⟩ := hd u v h
  simp [readNode, nodeVal, h, h0, h1, h2]

theorem readNode_nan {d : List (ν × α)} (hd : DataInv S E d) {u : ν} {w : α}
    (h0 : E.f (S.coord u) = some w) (h : E.isnan w = true) : readNode E d u = nodeVal S E u := by
  have : lookup u d = none := by
    cases hl : lookup u d with
    | none => rfl
    | some v =>
      obtain ⟨w', a, b, _⟩ := hd u v hl
      rw [h0] at a; cases a; rw [h] at b; cases b
  simp [readNode, nodeVal, this, h0, h]

/-- the sampling loop keeps the invariant, never disturbs an existing sample, runs to its end exactly when the wrapped
function returns at every node of the list, and then every node of the list reads as its pure value -/
theorem sample_spec (L : List ν) : ∀ (d : List (ν × α)), DataInv S E d →
    DataInv S E (sample S E L d).1 ∧
    (∀ u v, lookup u d = some v → lookup u (sample S E L d).1 = some v) ∧
    (sample S E L d).2.2 = L.all (fun u => (E.f (S.coord u)).isSome) ∧
    ((sample S E L d).2.2 = true → ∀ u ∈ L, readNode E (sample S E L d).1 u = nodeVal S E u) := by
  induction L with
  | nil => intro d hd; exact ⟨hd, fun _ _ h => h, rfl, fun _ _ h => by cases h⟩
  | cons u us ih =>
    intro d hd
    cases hl : lookup u d with
    | some v =>
      have hs : sample S E (u :: us) d = sample S E us d := by simp [sample, hl]
      rw [hs]
      obtain ⟨i1, i2, i3, i4⟩ := ih d hd
      obtain ⟨w, h0, _, _⟩ := hd u v hl
      refine ⟨i1, i2, ?_, ?_⟩
      · rw [i3]; simp [h0]
      · intro hok w' hw
        rcases List.mem_cons.mp hw with rfl | hw
        · exact readNode_present S E i1 (i2 _ _ hl)
        · exact i4 hok w' hw
    | none =>
      cases hf : E.f (S.coord u) with
      | none =>
        have hs : sample S E (u :: us) d = (d, [S.coord u], false) := by simp [sample, hl, hf]
        rw [hs]
        refine ⟨hd, fun _ _ h => h, ?_, ?_⟩
        · simp [hf]
        · intro h; cases h
      | some w =>
        by_cases hn : E.isnan w = true
        · have hs1 : (sample S E (u :: us) d).1 = (sample S E us d).1 := by simp [sample, hl, hf, hn]
          have hs2 : (sample S E (u :: us) d).2.2 = (sample S E us d).2.2 := by simp [sample, hl, hf, hn]
          rw [hs1, hs2]
          obtain ⟨i1, i2, i3, i4⟩ := ih d hd
          refine ⟨i1, i2, ?_, ?_⟩
          · rw [i3]; simp [hf]
          · intro hok w' hw
            rcases List.mem_cons.mp hw with rfl | hw
            · exact readNode_nan S E i1 hf hn
            · exact i4 hok w' hw
        · have hn' : E.isnan w = false := by simpa using hn
          have hs1 : (sample S E (u :: us) d).1 = (sample S E us ((u, E.norm w) :: d)).1 := by
            simp [sample, hl, hf, hn']
          have hs2 : (sample S E (u :: us) d).2.2 = (sample S E us ((u, E.norm w) :: d)).2.2 := by
            simp [sample, hl, hf, hn']
          rw [hs1, hs2]
          have hd' : DataInv S E ((u, E.norm w) :: d) := by
            intro w' v hw
            by_cases hwu : u = w'
            · subst hwu
              rw [lookup_cons_self] at hw
              cases hw
              exact ⟨w, hf, hn', rfl⟩
            · rw [lookup_cons_ne hwu] at hw
              exact hd w' v hw
          obtain ⟨i1, i2, i3, i4⟩ := ih _ hd'
          refine ⟨i1, ?_, ?_, ?_⟩
          · intro w' v hw
            apply i2
            by_cases hwu : u = w'
            · subst hwu; rw [hl] at hw; cases hw
            · rw [lookup_cons_ne hwu]; exact hw
          · rw [i3]; simp [hf]
          · intro hok w' hw
            rcases List.mem_cons.mp hw with rfl | hw
            · exact readNode_present S E i1 (i2 _ _ (lookup_cons_self _ _ _))
            · exact i4 hok w' hw

/-- one evaluation keeps the invariant and returns the history-free value -/
theorem evalStep_spec (nbe : Bool) (st : St α ν κ C) (hst : Inv S E st) (p : P) :
    Inv S E (evalStep S E nbe st p).1 ∧ (evalStep S E nbe st p).2.1 = evalPure S E nbe p := by
  unfold evalStep evalPure
  cases hloc : S.locate p with
  | none => cases nbe <;> simp [hst] <;> cases E.f p <;> simp [hst]
  | some c =>
    simp only []
    split
    · rename_i co hco
      obtain ⟨h1, h2⟩ := hst.2 c co hco
      exact ⟨hst, by simp [h1, h2]⟩
    · obtain ⟨i1, _, i3, i4⟩ := sample_spec S E (S.stencil c) st.data hst.1
      rw [i3]
      by_cases hall : (S.stencil c).all (fun u => (E.f (S.coord u)).isSome) = true
      · simp only [hall, if_true]
        have hv : (S.stencil c).map (readNode E (sample S E (S.stencil c) st.data).1) =
            (S.stencil c).map (nodeVal S E) := List.map_congr_left (i4 (by rw [i3]; exact hall))
        simp only [hv]
        cases hb : S.build c ((S.stencil c).map (nodeVal S E)) with
        | none => exact ⟨⟨i1, hst.2⟩, rfl⟩
        | some co =>
          refine ⟨⟨i1, ?_⟩, rfl⟩
          intro c' co' h
          by_cases hcc : c = c'
          · subst hcc
            simp only [lookup_cons_self] at h
            cases h; exact ⟨hall, hb⟩
          · simp only [lookup_cons_ne hcc] at h
            exact hst.2 c' co' h
      · have hall' : (S.stencil c).all (fun u => (E.f (S.coord u)).isSome) = false := by simpa using hall
        simp only [hall', Bool.false_eq_true, if_false]
        exact ⟨⟨i1, hst.2⟩, trivial⟩

theorem run_inv (nbe : Bool) (ps : List P) : ∀ st : St α ν κ C, Inv S E st → Inv S E (run S E nbe st ps) := by
  induction ps with
  | nil => intro st h; exact h
  | cons p ps ih =>
    intro st h
    simp only [run, List.foldl_cons]
    exact ih _ (evalStep_spec S E nbe st h p).1

/-! #### which nodes are sampled when -/

/-- a stored sample is never requested again; when the wrapped function returns everywhere, an unsampled node of a
duplicate-free stencil is requested exactly once, in stencil order -/
theorem sample_calls (L : List ν) (hnd : L.Nodup) (htot : ∀ q, (E.f q).isSome) : ∀ (d : List (ν × α)),
    (sample S E L d).2.1 = (L.filter fun u => (lookup u d).isNone).map S.coord := by
  induction L with
  | nil => intro d; rfl
  | cons u us ih =>
    intro d
    have hnd' := (List.nodup_cons.mp hnd)
    cases hl : lookup u d with
    | some v => simp [sample, hl, ih hnd'.2 d]
    | none =>
      have key : ∀ d' : List (ν × α), (∀ w, w ≠ u → lookup w d' = lookup w d) →
          (us.filter fun w => (lookup w d').isNone) = (us.filter fun w => (lookup w d).isNone) := by
        intro d' hd'
        apply List.filter_congr
        intro w hw
        have : w ≠ u := fun h => hnd'.1 (h ▸ hw)
        rw [hd' w this]
      obtain ⟨w, hf⟩ := Option.isSome_iff_exists.mp (htot (S.coord u))
      by_cases hn : E.isnan w = true
      · simp [sample, hl, hf, hn, ih hnd'.2 d]
      · have hn' : E.isnan w = false := by simpa using hn
        simp only [sample, hl, hf, hn', Bool.false_eq_true, if_false, ih hnd'.2, List.filter_cons,
          Option.isNone_none, if_true, List.map_cons]
        rw [key]
        intro w' hw
        exact lookup_cons_ne (Ne.symm hw) _ _

/-- when the wrapped function raises, the call at which it raised is the last one made -/
theorem sample_raise_last (L : List ν) : ∀ (d : List (ν × α)), (sample S E L d).2.2 = false →
    ∃ q, (sample S E L d).2.1.getLast? = some q ∧ E.f q = none := by
  induction L with
  | nil => intro d h; simp [sample] at h
  | cons u us ih =>
    intro d h
    cases hl : lookup u d with
    | some v =>
      have hs : sample S E (u :: us) d = sample S E us d := by simp [sample, hl]
      rw [hs] at h ⊢; exact ih d h
    | none =>
      cases hf : E.f (S.coord u) with
      | none => exact ⟨S.coord u, by simp [sample, hl, hf], hf⟩
      | some w =>
        simp only [sample, hl, hf] at h ⊢
        obtain ⟨q, h1, h2⟩ := ih _ h
        refine ⟨q, ?_, h2⟩
        rw [List.getLast?_cons, h1]; rfl

end Memo

/-! ### find_index -/
section Find
variable {α : Type} [Field α] [LinearOrder α] [IsStrictOrderedRing α]

/-- the bisection loop: with enough fuel it stops on a bracketing interval.  No ordering of `x` is needed for the
bracket itself (the invariant `x b ≤ v < x t` is local); `top − bottom` iterations suffice, which is the termination
argument of the `while` loop. -/
theorem bisect_spec (x : Nat → α) (v : α) : ∀ (fuel b t : Nat), b < t → t - b ≤ fuel + 1 → x b ≤ v → v < x t →
    b ≤ bisect x v fuel b t ∧ bisect x v fuel b t < t ∧
      x (bisect x v fuel b t) ≤ v ∧ v < x (bisect x v fuel b t + 1) := by
  intro fuel
  induction fuel with
  | zero =>
    intro b t hbt hf hb ht
    have : t = b + 1 := by omega
    subst this
    simp [bisect, hb, ht]
  | succ n ih =>
    intro b t hbt hf hb ht
    unfold bisect
    by_cases h1 : t - b = 1
    · have : t = b + 1 := by omega
      subst this
      simp [hb, ht]
    · simp only [h1, if_false]
      have hm1 : b < (t + b) / 2 := by omega
      have hm2 : (t + b) / 2 < t := by omega
      by_cases hv : v ≥ x ((t + b) / 2)
      · simp only [hv, if_true]
        obtain ⟨r1, r2, r3, r4⟩ := ih ((t + b) / 2) t hm2 (by omega) hv ht
        exact ⟨by omega, r2, r3, r4⟩
      · simp only [hv, if_false]
        obtain ⟨r1, r2, r3, r4⟩ := ih b ((t + b) / 2) hm1 (by omega) hb (not_le.mp hv)
        exact ⟨r1, by omega, r3, r4⟩

/-- the six early returns and the bisection of `find_index` with `padding = 0` -/
theorem findIndex_cases (x : Nat → α) (top : Nat) (v : α) :
    (v = x 0 ∧ findIndex x top v 0 = 0) ∨
    (v ≠ x 0 ∧ v = x top ∧ findIndex x top v 0 = (top : Int) - 1) ∨
    (v < x 0 ∧ findIndex x top v 0 = -2) ∨
    (x top < v ∧ x 0 < v ∧ findIndex x top v 0 = (top : Int) + 1) ∨
    (x 0 < v ∧ v < x top ∧ findIndex x top v 0 = (bisect x v top 0 top : Nat)) := by
  unfold findIndex
  by_cases h0 : v = x 0
  · left; simp [h0]
  · by_cases ht : v = x top
    · right; left
      refine ⟨h0, ht, ?_⟩
      have : ¬ x top = x 0 := fun h => h0 (ht.trans h)
      simp [ht, this]
    · simp only [beq_iff_eq, h0, ht, if_false, sub_zero, add_zero]
      by_cases hl : v < x 0
      · right; right; left; simp [hl]
      · have h0' : x 0 < v := lt_of_le_of_ne (not_lt.mp hl) (Ne.symm h0)
        by_cases hg : v > x top
        · right; right; right; left; simp [hl, hg, h0']
        · have ht' : v < x top := lt_of_le_of_ne (not_lt.mp hg) ht
          right; right; right; right
          simp [hl, hg, h0', ht']

/-- main statement: for `x 0 < v < x top` the returned index brackets `v` -/
theorem findIndex_bracket (x : Nat → α) (top : Nat) (v : α) (h0 : x 0 < v) (ht : v < x top) :
    ∃ i : Nat, findIndex x top v 0 = (i : Int) ∧ i < top ∧ x i ≤ v ∧ v < x (i + 1) := by
  have htop : 0 < top := by
    by_contra h
    have : top = 0 := by omega
    subst this
    exact absurd (lt_trans h0 ht) (lt_irrefl _)
  rcases findIndex_cases x top v with h | h | h | h | h
  · exact absurd h.1 (ne_of_gt h0)
  · exact absurd h.2.1 (ne_of_lt ht)
  · exact absurd (lt_trans h.1 h0) (lt_irrefl _)
  · exact absurd (lt_trans h.1 ht) (lt_irrefl _)
  · obtain ⟨_, r2, r3, r4⟩ := bisect_spec x v top 0 top htop (by omega) h0.le ht
    exact ⟨_, h.2.2, r2, r3, r4⟩

end Find
end Cherab.Caching
