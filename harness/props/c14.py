"""C14 — caching functions are history-independent and interpolate the cached function.

T  lean/Cherab/Props/C14.lean over lean/Cherab/Model/Caching.lean (generic lazily-filled cache + find_index + node grid
   + the 1-D/2-D/3-D constraint systems, denormalisation and polynomial evaluation transcribed from caching*.pyx)
K  Caching1D/2D/3D around *recording* Python functions, evaluated over >= 5 random orders of the same point multiset;
   the Lean driver (same definitions at Float, `solve` answered by numpy.linalg.solve on the system the model built)
   must reproduce: node grid + normalised nodes (bits), status of every call (value / ValueError / LinAlgError), the
   value, the exact sequence of calls received by the wrapped function, and the final cache state
   (data_view, calculated_view).  find_index: shim vs model.
S  model-free oracles on the implementation: identical value at a point after different histories, node
   interpolation, multilinear exactness, |error| <= sum_i H_i^2 max|d2f/dx_i^2|, outside policy, bounds invariance,
   find_index bracket; float-gap monitors (exception other than ValueError inside the area, precision loss).
"""
import json
import math
import os
import random
import subprocess

import numpy as np

from harness.vlib import lean
from harness.vlib.util import f2b, b2f, fs, close

EPS = 1e-7
AX = 'xyz'


# ----------------------------------------------------------------------------------------------------------------
# interactive driver (vlib's ctx.driver is batch-only; the protocol needs numpy.linalg.solve answers in between)
# ----------------------------------------------------------------------------------------------------------------
class Drv:
    def __init__(self):
        ok, out = lean.lake_build(['drv_c14'])
        if not ok:
            raise RuntimeError('driver does not build:\n' + out[-3000:])
        self.p = subprocess.Popen([os.path.join(lean.BIN, 'drv_c14')], stdin=subprocess.PIPE, stdout=subprocess.PIPE,
                                  text=True, bufsize=1)
        self.nid = 0
        self.lines = 0
        self.solve_cache = {}

    def ask(self, line):
        self.p.stdin.write(line + '\n')
        self.p.stdin.flush()
        r = self.p.stdout.readline()
        if not r:
            raise RuntimeError('driver died on: ' + line[:200])
        self.lines += 1
        return r.strip()

    def ask_many(self, lines):
        """pipelined: short requests whose replies are short (no deadlock on the pipe buffers)"""
        out = []
        for k in range(0, len(lines), 200):
            chunk = lines[k:k + 200]
            self.p.stdin.write('\n'.join(chunk) + '\n')
            self.p.stdin.flush()
            for _ in chunk:
                r = self.p.stdout.readline()
                if not r:
                    raise RuntimeError('driver died')
                out.append(r.strip())
            self.lines += len(chunk)
        return out

    def fresh(self):
        self.nid += 1
        return self.nid

    def close(self):
        try:
            self.p.stdin.close()
            self.p.wait(timeout=10)
        except Exception:  # noqa
            self.p.kill()

    def evaluate(self, oid, pt, op='ev'):
        """returns (status, value, calls, solved) with status in val/raise/error/missing.  op='pure': the model's
        history-free `evalPure` (no state read or written, no calls reported)"""
        r = self.ask('%s %d %s' % (op, oid, fs(pt)))
        solved = False
        if r.startswith('solve '):
            t = r.split()
            n = int(t[1])
            key = r
            sol = self.solve_cache.get(key)
            if sol is None:
                vals = np.array([b2f(x) for x in t[2:]])
                A = vals[:n * n].reshape(n, n)
                b = vals[n * n:]
                try:
                    sol = 'sol ' + fs(np.linalg.solve(A, b))
                except np.linalg.LinAlgError:
                    sol = 'sol fail'
                if len(self.solve_cache) < 4000:
                    self.solve_cache[key] = sol
            r = self.ask(sol)
            solved = True
        t = r.split()
        dim = len(pt)
        if t[0] == 'val':
            v = b2f(t[1])
            nc = int(t[2])
            co = [b2f(x) for x in t[3:]]
        elif t[0] in ('raise', 'error', 'fraise'):
            v = None
            nc = int(t[1])
            co = [b2f(x) for x in t[2:]]
        else:
            return t[0], r, [], solved
        return t[0], v, [tuple(co[i * dim:(i + 1) * dim]) for i in range(nc)], solved


# ----------------------------------------------------------------------------------------------------------------
# wrapped functions (pure, replayable from a description)
# ----------------------------------------------------------------------------------------------------------------
class Fn:
    """f(p) = sum_{abc in {0,1}} m_abc prod (p_i - c_i)^e  +  A prod_i sin(k_i (p_i - c_i) + phi_i) + sum_i B_i (p_i - c_i)^2
    optionally NaN inside a slab (K only)."""

    def __init__(self, desc):
        self.d = desc
        self.dim = desc['dim']
        self.c = desc['c']
        self.m = desc['m']
        self.A = desc.get('A', 0.0)
        self.k = desc.get('k', [0.0] * 3)
        self.phi = desc.get('phi', [0.0] * 3)
        self.B = desc.get('B', [0.0] * 3)
        self.nan = desc.get('nan')          # (axis, lo, hi) -> NaN there

    def __call__(self, *p):
        q = [float(p[i]) - self.c[i] if i < self.dim else 0.0 for i in range(3)]
        if not all(math.isfinite(v) for v in q):
            return float('nan')             # keep the function total (math.sin(inf) raises)
        if self.nan is not None:
            a, lo, hi = self.nan
            if lo <= float(p[a]) <= hi:
                return float('nan')
        x, y, z = q
        m = self.m
        v = m[0] + m[1] * x + m[2] * y + m[3] * z + m[4] * x * y + m[5] * x * z + m[6] * y * z + m[7] * x * y * z
        if self.A:
            s = self.A
            for i in range(self.dim):
                s *= math.sin(self.k[i] * q[i] + self.phi[i])
            v += s
        for i in range(self.dim):
            if self.B[i]:
                v += self.B[i] * q[i] * q[i]
        return v

    def multilinear(self):
        return self.A == 0 and not any(self.B[:self.dim]) and self.nan is None

    def m2(self, axis):
        """bound on |d2f/dx_axis^2| everywhere"""
        return abs(self.A) * self.k[axis] ** 2 + 2 * abs(self.B[axis])


def rnd_fn(rng, dim, area, kind):
    c = [0.5 * (area[2 * i] + area[2 * i + 1]) if rng.random() < 0.7 else 0.0 for i in range(dim)] + [0.0] * (3 - dim)
    L = [area[2 * i + 1] - area[2 * i] for i in range(dim)] + [1.0] * (3 - dim)
    m = [rng.uniform(-2, 2)] + [rng.uniform(-2, 2) / L[0], rng.uniform(-2, 2) / L[1], rng.uniform(-2, 2) / L[2]] + \
        [rng.uniform(-2, 2) / (L[0] * L[1]), rng.uniform(-2, 2) / (L[0] * L[2]), rng.uniform(-2, 2) / (L[1] * L[2]),
         rng.uniform(-2, 2) / (L[0] * L[1] * L[2])]
    if dim < 3:
        m[3] = m[5] = m[6] = m[7] = 0.0
    if dim < 2:
        m[2] = m[4] = 0.0
    d = dict(dim=dim, c=c, m=m, kind=kind)
    if kind == 'const':
        d['m'] = [m[0]] + [0.0] * 7
    if kind in ('smooth', 'nan'):
        d['A'] = rng.uniform(0.5, 2)
        d['k'] = [rng.uniform(0.5, 6) / L[i] for i in range(3)]
        d['phi'] = [rng.uniform(0, 6.28) for _ in range(3)]
        d['B'] = [rng.choice([0.0, rng.uniform(-1, 1) / L[i] ** 2]) for i in range(3)]
    if kind == 'nan':
        a = rng.randrange(dim)
        lo = area[2 * a] + rng.uniform(0.2, 0.6) * L[a]
        d['nan'] = (a, lo, lo + rng.uniform(0.05, 0.3) * L[a])
    return d


class Boom(Exception):
    """a custom exception type for raising wrapped functions"""


EXC = {'ZeroDivisionError': ZeroDivisionError, 'ValueError': ValueError, 'Boom': Boom, 'RuntimeError': RuntimeError}


class Rec:
    """recording wrapper: what the caching object asked the wrapped function, in order.  With `raising` =
    dict(axis, lo, hi, exc, k) the function raises `exc` when its `axis` coordinate lies in [lo, hi] — on the first k
    such calls (k = None: always), then it recovers.  A raised call is recorded with value 'R'."""

    def __init__(self, f, raising=None):
        self.f = f
        self.calls = []
        self.raising = raising
        self.nraised = 0
        self.last_exc = None

    def would_raise(self, a):
        r = self.raising
        return r is not None and r['lo'] <= float(a[r['axis']]) <= r['hi'] and (r['k'] is None or self.nraised < r['k'])

    def __call__(self, *a):
        if self.would_raise(a):
            self.nraised += 1
            self.calls.append((tuple(float(x) for x in a), 'R'))
            self.last_exc = EXC[self.raising['exc']]('wrapped function failed at %r' % (a,))
            raise self.last_exc
        v = self.f(*a)
        self.calls.append((tuple(float(x) for x in a), float(v)))
        return v


# ----------------------------------------------------------------------------------------------------------------
# scenarios
# ----------------------------------------------------------------------------------------------------------------
NMAX = {1: 60, 2: 14, 3: 4}


def rnd_axis(rng, dim):
    L = rng.choice([1.0, 0.1, 10.0, 3.7, 1e-3, 50.0, 2.0])
    off = L * rng.uniform(-1.5, 0.5) * rng.choice([0, 1, 1])
    n = rng.randint(1, NMAX[dim])
    res = L / n * rng.uniform(0.7, 1.0) if rng.random() < 0.9 else L * rng.uniform(1.0, 3.0)
    if rng.random() < 0.15:
        res = L / n            # exact divisor: int() of a quotient that may round either way
    return off, off + L, res


def build(sc, f):
    import cherab.core.math as cm
    cls = [cm.Caching1D, cm.Caching2D, cm.Caching3D][sc['dim'] - 1]
    res = sc['res'][0] if sc['dim'] == 1 else tuple(sc['res'])
    b = tuple(sc['bounds']) if sc['bounds'] is not None else None
    return cls(f, tuple(sc['area']), res, no_boundary_error=sc['nbe'], function_boundaries=b)


def spec_nodes(sc):
    """the node arrays the documented construction yields (never read from the object under test, so a constructor
    that builds a wrong or degenerate grid cannot derail the generators or relax an oracle)"""
    out = []
    for d in range(sc['dim']):
        lo, hi, r = sc['area'][2 * d], sc['area'][2 * d + 1], sc['res'][d]
        n = max(int((hi - lo) / r) + 1, 2)
        out.append(np.concatenate((np.array([lo - r]), np.linspace(lo - EPS, hi + EPS, n), np.array([hi + r]))))
    return out


def domains(c, dim):
    return [np.array(getattr(c, AX[d] + '_domain_view')) for d in range(dim)]


def rnd_scenario(rng, dim, kind=None):
    area, res = [], []
    for d in range(dim):
        lo, hi, r = rnd_axis(rng, dim)
        area += [lo, hi]
        res.append(r)
    kind = kind or rng.choice(['smooth', 'smooth', 'multilinear', 'multilinear', 'const', 'nan'])
    fn = rnd_fn(rng, dim, area, kind)
    bounds = rng.choice([None, None, (-3.0, 20.0), (0.0, 1e-3), (5.0, 5.0), (-1.0, 1.0)])
    sc = dict(dim=dim, area=area, res=res, nbe=rng.random() < 0.4, bounds=bounds, fn=fn)
    sc['points'] = rnd_points(rng, sc)
    return sc


def rnd_scenario_aniso(rng, dim, a=None):
    """one axis (each in turn) much finer than the others (ratio up to 1e3); the function is curved along the fine
    axis only (multilinear in the others), so the bound sum_i H_i^2 max|d2f/dx_i^2| is the fine axis' alone"""
    a = rng.randrange(dim) if a is None else a
    ratio = 10 ** rng.uniform(1.3, 3)
    area, res = [], []
    for d in range(dim):
        L = rng.choice([1.0, 0.1, 10.0, 3.7, 2.0])
        off = L * rng.uniform(-1.5, 0.5) * rng.choice([0, 1, 1])
        r = L / rng.randint(1, 3) * rng.uniform(0.7, 1.0)
        if d == a:
            r = max(r / ratio, L / 2000.0)
        area += [off, off + L]
        res.append(r)
    fn = rnd_fn(rng, dim, area, 'smooth')
    La = area[2 * a + 1] - area[2 * a]
    fn['k'] = [rng.uniform(2, 12) / La if d == a else 0.0 for d in range(3)]
    fn['phi'] = [rng.uniform(0, 6.28) if d == a else 1.5707963267948966 for d in range(3)]
    fn['B'] = [rng.uniform(-3, 3) / La ** 2 if d == a else 0.0 for d in range(3)]
    fn['kind'] = 'aniso'
    sc = dict(dim=dim, area=area, res=res, nbe=False, bounds=rng.choice([None, None, (-3.0, 20.0)]), fn=fn, fine_axis=a)
    sc['points'] = rnd_points(rng, sc, n_in={1: 6, 2: 4, 3: 2}[dim])
    return sc


DEGENERATE = ['res>extent', 'res=extent', 'res just below extent', 'res just above extent/2', 'extent tiny',
              'extent huge', 'one cell', 'two cells']


def rnd_scenario_degenerate(rng, dim, axis, mode):
    """degenerate caching areas / resolutions on one axis (the others ordinary): resolution larger than, equal to or
    just below the extent, one- and two-cell axes, tiny and huge extents"""
    area, res = [], []
    for d in range(dim):
        if d != axis:
            lo, hi, r = rnd_axis(rng, min(dim + 1, 3))
        else:
            L = rng.choice([1.0, 0.2, 3.0, 0.05])
            lo = L * rng.uniform(-1.0, 0.5) * rng.choice([0, 1])
            if mode == 'res>extent':
                # Caps: the outer nodes at min - res / max + res stretch the globally normalised coordinate, so the area lies
                # ~res/h cell widths from its origin; measured node error of HEAD relative to the data scale: 1-D 1e-11 at
                # ratio 30 (4e-10 at 300), 2-D 1e-12 at 10 (3e-10 at 100), 3-D 1e-10 at 10.  Larger ratios belong to the
                # float-fragile regime and are probed by the `outer-*` witnesses under their own signature.
                r = L * rng.choice({1: [1.0000001, 1.5, 2.5, 10.0, 30.0], 2: [1.0000001, 1.5, 2.5, 10.0],
                                    3: [1.0000001, 1.5, 2.5]}[dim])
            elif mode == 'res=extent':
                r = L
            elif mode == 'res just below extent':
                r = L * rng.choice([0.9999999, 0.99, 0.75, 0.51])
            elif mode == 'res just above extent/2':
                r = L * rng.choice([0.5, 0.5000001, 0.4999999])
            elif mode == 'extent tiny':
                L = rng.choice([1e-6, 3e-6, 1e-5])
                lo = 0.0
                r = L / rng.choice([0.7, 1.0, 2.0, 4.0])
            elif mode == 'extent huge':
                L = rng.choice([1e5, 1e6, 1e7])
                lo = -L * rng.choice([0.0, 0.5])
                r = L / rng.choice([0.5, 1.0, 3.0, 7.0])
            elif mode == 'one cell':
                r = L * rng.uniform(0.51, 0.99)
            else:
                r = L * rng.uniform(0.34, 0.49)
            hi = lo + L
        area += [lo, hi]
        res.append(r)
    kind = rng.choice(['smooth', 'multilinear', 'multilinear'])
    sc = dict(dim=dim, area=area, res=res, nbe=rng.random() < 0.5,
              bounds=rng.choice([None, None, (-3.0, 20.0), (5.0, 5.0)]), fn=rnd_fn(rng, dim, area, kind),
              degenerate=(axis, mode))
    sc['points'] = rnd_points(rng, sc, n_in={1: 6, 2: 5, 3: 2}[dim])
    # the corners and the centre of the area are always part of the multiset
    sc['points'] += [tuple(area[2 * d] for d in range(dim)), tuple(area[2 * d + 1] for d in range(dim)),
                     tuple(0.5 * (area[2 * d] + area[2 * d + 1]) for d in range(dim))]
    return sc


def eps_absorbed_probe(ctx):
    """deterministic (every tier, every seed): the upper bound of an axis with max = 1e12 (max + EPSILON == max in
    float64) is a point of the closed caching area; evaluating there must give a value.  Goes through the ordinary
    single-point oracle, so a rejection gets the narrow signature only under conditions (a) and (b) of
    `eps_absorbed_edge`; the lower magnitudes check that nothing is reported where epsilon is not absorbed."""
    lin = dict(c=[0.0, 0.0, 0.0], m=[1.0, 1e-12, 0.0, 0.0, 0.0, 0.0, 0.0, 0.0], kind='multilinear')
    for dim in (1, 2, 3):
        for mx in (1e8, 1e9, 1e12):
            area = [0.0, 1.0] * (dim - 1) + [0.0, mx]
            res = [0.4] * (dim - 1) + [mx / 3.0]
            m = [1.0] + [0.0] * 7
            m[dim] = 1.0 / mx                       # linear along the long axis
            sc = dict(dim=dim, area=area, res=res, nbe=False, bounds=None, points=[],
                      fn=dict(lin, dim=dim, m=m))
            p = tuple([0.5] * (dim - 1) + [mx])
            fn = Fn(sc['fn'])
            c = build(sc, fn)
            ctx.case(key=('eps-probe', dim, mx))
            fired = _single_point_oracle(ctx, dict(sc, points=[p]), c, fn, p)
            ctx.count('upper-edge-probe:%dD:max=%g:%s' % (dim, mx, 'rejected' if fired else 'value'))


def rnd_raising(rng, sc):
    """make the wrapped function raise at the nodes of one grid plane (first k raising calls, or always)"""
    dom = spec_nodes(sc)
    a = rng.randrange(sc['dim'])
    node = float(dom[a][rng.randint(0, len(dom[a]) - 1)])
    w = 1e-9 * max(1.0, abs(node)) if rng.random() < 0.7 else 0.3 * (sc['area'][2 * a + 1] - sc['area'][2 * a])
    return dict(axis=a, lo=node - w, hi=node + w, exc=rng.choice(sorted(EXC)), k=rng.choice([1, 1, 2, 3, 7, None]))


def rnd_points(rng, sc, n_in=None):
    """inside points, exact nodes, area corners, epsilon band, outside, repeated"""
    dim, area = sc['dim'], sc['area']
    dom = spec_nodes(sc)
    n_in = n_in or {1: 14, 2: 8, 3: 3}[dim]
    pts = []

    def coord(d, how):
        lo, hi = area[2 * d], area[2 * d + 1]
        x = dom[d]
        if how == 'in':
            return rng.uniform(lo, hi)
        if how == 'node':
            return float(x[rng.randint(1, len(x) - 3)])
        if how == 'edge':
            return rng.choice([lo, hi])
        if how == 'band':
            return rng.choice([lo - 0.5 * EPS, hi + 0.5 * EPS, float(x[1]), float(x[-2])])
        if how == 'out':
            return rng.choice([lo - rng.uniform(0.01, 2) * (hi - lo), hi + rng.uniform(0.01, 2) * (hi - lo),
                               float(x[0]), float(x[-1]), lo - 3 * EPS, hi + 3 * EPS])
        raise ValueError(how)

    for _ in range(n_in):
        pts.append(tuple(coord(d, 'in') for d in range(dim)))
    for _ in range(max(2, n_in // 3)):
        pts.append(tuple(coord(d, rng.choice(['node', 'node', 'in'])) for d in range(dim)))
    pts.append(tuple(coord(d, 'edge') for d in range(dim)))
    pts.append(tuple(coord(d, rng.choice(['band', 'in'])) for d in range(dim)))
    for _ in range(2):
        k = rng.randrange(dim)
        pts.append(tuple(coord(d, 'out' if d == k else rng.choice(['in', 'out'])) for d in range(dim)))
    if rng.random() < 0.3:
        pts.append(tuple(float('nan') if d == 0 else coord(d, 'in') for d in range(dim)))
    if rng.random() < 0.3:
        pts.append(tuple(rng.choice([math.inf, -math.inf]) if d == dim - 1 else coord(d, 'in') for d in range(dim)))
    pts += [pts[rng.randrange(len(pts))] for _ in range(2)]      # a multiset: repeated points
    return [tuple(float(v) for v in p) for p in pts]


def classify(sc, p):
    """'inside' the caching area, in the documented epsilon 'band', or 'outside' (NaN counts as outside)"""
    worst = 'inside'
    for d in range(sc['dim']):
        lo, hi, v = sc['area'][2 * d], sc['area'][2 * d + 1], p[d]
        if lo <= v <= hi:
            continue
        if lo - 1.5 * EPS <= v < lo or hi < v <= hi + 1.5 * EPS:
            worst = 'band' if worst == 'inside' else worst
        else:
            return 'outside'
    return worst


# ----------------------------------------------------------------------------------------------------------------
# running the implementation / the model over one history
# ----------------------------------------------------------------------------------------------------------------
def run_impl(sc, order):
    f = Fn(sc['fn'])
    rec = Rec(f, sc.get('raising'))
    c = build(sc, rec)
    out = []
    for idx in order:
        p = sc['points'][idx]
        n0 = len(rec.calls)
        rec.last_exc = None
        try:
            v = c(*p)
            st = 'val'
        except Exception as e:  # noqa
            v = None
            if rec.last_exc is not None and e is rec.last_exc:
                st = 'fraise'                    # the wrapped function's own exception came out unchanged
            elif isinstance(e, np.linalg.LinAlgError):      # NB a subclass of ValueError: test it first
                st = 'error'
            elif isinstance(e, ValueError):
                st = 'raise'
            else:
                st = 'Other:' + type(e).__name__
        out.append((st, v, rec.calls[n0:]))
    return c, out


def same_float(a, b):
    return f2b(a) == f2b(b) or (math.isnan(a) and math.isnan(b))


def scale_of(sc):
    """magnitude of the data the cache works with: |f| over the corners and centre of the caching area *and* over the
    corners of the box of outer nodes (min - resolution, max + resolution), where the function is sampled as well"""
    f = Fn(dict(sc['fn'], nan=None))
    dim = sc['dim']
    vals = []
    for e in range(2 ** dim):
        vals.append(abs(f(*[sc['area'][2 * d + ((e >> d) & 1)] for d in range(dim)])))
        vals.append(abs(f(*[sc['area'][2 * d + ((e >> d) & 1)] + (2 * ((e >> d) & 1) - 1) * sc['res'][d] for d in range(dim)])))
    vals.append(abs(f(*[0.5 * (sc['area'][2 * d] + sc['area'][2 * d + 1]) for d in range(dim)])))
    s = max(v for v in vals if math.isfinite(v)) + abs(sc['fn'].get('A', 0.0))
    if sc['bounds'] is not None:
        s = max(s, abs(sc['bounds'][0]), abs(sc['bounds'][1]))
    return max(s, 1e-300)


def k_history(ctx, drv, sc, order, c, impl_out, tag):
    """correspondence of one history; returns number of compared evaluations"""
    dim = sc['dim']
    fid = drv.fresh()
    oid = drv.fresh()
    b = sc['bounds']
    r = drv.ask('new%d %d %d %s %s %d %d %s' % (dim, oid, fid, fs(sc['area']), fs(sc['res']), sc['nbe'], b is not None,
                                              fs(b or (0.0, 0.0))))
    t = r.split()
    if t[0] != 'ok':
        ctx.broke('correspondence', 'C14 ctor ' + tag, dict(scenario=_short(sc), model=r, implementation='constructed'))
        return 0
    tops = [int(x) for x in t[1:1 + dim]]
    rest = [b2f(x) for x in t[1 + dim:]]
    k = 0
    for d in range(dim):
        n = tops[d] + 1
        dom = list(np.array(getattr(c, AX[d] + '_domain_view')))
        xn = list(np.array(getattr(c, AX[d] + '_view')))
        md, mx = rest[k:k + n], rest[k + n:k + 2 * n]
        k += 2 * n
        if getattr(c, 'top_index_' + AX[d]) != tops[d] or [f2b(v) for v in dom] != [f2b(v) for v in md] \
                or [f2b(v) for v in xn] != [f2b(v) for v in mx]:
            ctx.disagreements += 1
            ctx.broke('correspondence', 'C14 node grid ' + tag,
                      dict(scenario=_short(sc), axis=d, model_top=tops[d], impl_top=getattr(c, 'top_index_' + AX[d]),
                           model_nodes=md[:8], impl_nodes=dom[:8], model_xn=mx[:8], impl_xn=xn[:8]))
            return 0
    sc_scale = scale_of(sc)
    sent = {}
    ncmp = 0
    for idx, (st, v, calls) in zip(order, impl_out):
        p = sc['points'][idx]
        new = []
        for a, val in calls:
            key = tuple(f2b(x) for x in a)
            tok = 'R' if val == 'R' else f2b(val)
            if sent.get(key) != tok:
                sent[key] = tok
                new.append('fn %d %s %s' % (fid, fs(a), tok))
        if new:
            drv.ask_many(new)
        mst, mv, mcalls, solved = drv.evaluate(oid, p)
        ncmp += 1
        ctx.count('K:%dD:%s' % (dim, st))
        if solved:
            ctx.count('K:%dD:cell-solved' % dim)
        ok = mst == st
        why = '' if ok else 'status %s vs %s' % (mst, st)
        if ok and st == 'val':
            if same_float(mv, v):
                ctx.count('K:value-bit-exact')
            elif close(mv, v, 1e-9, 1e-12 * sc_scale):
                ctx.count('K:value-within-tolerance')
            else:
                ok, why = False, 'value %r vs %r' % (mv, v)
        if ok:
            ic = [tuple(f2b(x) for x in a) for a, _ in calls]
            mc = [tuple(f2b(x) for x in a) for a in mcalls]
            if ic != mc:
                ok, why = False, 'calls differ: model %d calls %r.. vs implementation %d calls %r..' % (
                    len(mcalls), mcalls[:3], len(calls), [a for a, _ in calls[:3]])
        if not ok:
            ctx.disagreements += 1
            ctx.count('disagreement:%dD' % dim)
            ctx.broke('correspondence', 'C14 %dD evaluate %s' % (dim, tag),
                      dict(scenario=_short(sc), order=list(order), point=p, why=why))
            return ncmp
    # final cache state
    t = drv.ask('dump %d' % oid).split()
    nd = int(t[0])
    data = {}
    pos = 1
    for _ in range(nd):
        data[tuple(int(x) for x in t[pos:pos + dim])] = b2f(t[pos + dim])
        pos += dim + 1
    ncf = int(t[pos])
    pos += 1
    cells = set()
    for _ in range(ncf):
        cells.add(tuple(int(x) for x in t[pos:pos + dim]))
        pos += dim
    dv = np.array(c.data_view)
    cv = np.array(c.calculated_view)
    idata = {tuple(int(i) for i in ix): float(dv[tuple(ix)]) for ix in np.argwhere(~np.isnan(dv))}
    icells = set(tuple(int(i) + 1 for i in ix) for ix in np.argwhere(cv != 0))
    ok = set(idata) == set(data) and all(same_float(idata[u], data[u]) or close(idata[u], data[u], 1e-12, 0.0) for u in data) \
        and icells == cells
    ctx.count('K:%dD:final-state' % dim)
    if not ok:
        ctx.disagreements += 1
        ctx.broke('correspondence', 'C14 %dD cache state %s' % (dim, tag),
                  dict(scenario=_short(sc), order=list(order), model_nodes=len(data), impl_nodes=len(idata),
                       model_cells=sorted(cells)[:10], impl_cells=sorted(icells)[:10]))
    # round 6: the history-free specification `evalPure` (what every history theorem is stated against) is itself
    # compared with the implementation: at every distinct point of this history the model's evalPure, which reads no
    # cache state, must give the status and value the implementation returned there (whatever had been evaluated before)
    if ok and sc.get('raising') is None:
        seen = set()
        for idx, (st, v, calls) in zip(order, impl_out):
            if idx in seen or len(seen) >= 8:
                continue
            seen.add(idx)
            p = sc['points'][idx]
            mst, mv, _, _ = drv.evaluate(oid, p, op='pure')
            ncmp += 1
            ctx.count('K:pure:%dD:%s' % (dim, st))
            good = mst == st and (st != 'val' or same_float(mv, v) or close(mv, v, 1e-9, 1e-12 * sc_scale))
            if good and st == 'val':
                ctx.count('K:pure:value-bit-exact' if same_float(mv, v) else 'K:pure:value-within-tolerance')
            if not good:
                ctx.disagreements += 1
                ctx.count('disagreement:pure:%dD' % dim)
                ctx.broke('correspondence', 'C14 %dD evalPure %s' % (dim, tag),
                          dict(scenario=_short(sc), order=list(order), point=p,
                               why='history-free model %s %r vs implementation %s %r' % (mst, mv, st, v)))
                break
    return ncmp + 1


def _short(sc):
    d = dict(sc)
    d['points'] = [list(p) for p in sc.get('points', [])][:60]
    return d


# ----------------------------------------------------------------------------------------------------------------
# S: direct oracles on the implementation
# ----------------------------------------------------------------------------------------------------------------
def far_from_origin(sc):
    """largest distance (in cell widths) between the origin of the un-normalised coordinates and the far end of the
    caching area, or the number of cells per axis if that is larger; the float monitors report it"""
    return max(_regime(sc)[1:])


FAR = {1: 1e4, 2: 300.0, 3: 100.0}         # cell widths from the origin (largest over the axes) beyond which digits are visibly lost
FINE = {1: 1e4, 2: 200.0 ** 2, 3: 50.0 ** 3}   # total number of cells
OUTER = {1: 300.0, 2: 100.0, 3: 30.0}          # resolution / extent on some axis (outer nodes stretch the normalised coordinate)


def _regime(sc):
    """only used to name value errors found by the streams that probe the float-fragile regimes on purpose"""
    off = 0.0
    ncell = 1.0
    for d in range(sc['dim']):
        lo, hi, r = sc['area'][2 * d], sc['area'][2 * d + 1], sc['res'][d]
        n = max(int((hi - lo) / r), 1)
        off = max(off, max(abs(lo), abs(hi)) / ((hi - lo) / n))
        ncell *= float(n)
    ratio = max(sc['res'][d] / (sc['area'][2 * d + 1] - sc['area'][2 * d]) for d in range(sc['dim']))
    name = 'far-from-origin' if off > FAR[sc['dim']] else ('fine-grid' if ncell > FINE[sc['dim']] else
                                                            ('resolution-exceeds-extent' if ratio > OUTER[sc['dim']] else 'regular'))
    return name, off, ncell


def value_sig(sc, generic):
    """signature of a value error.  Only the streams that deliberately probe the float-fragile regimes (witnesses,
    explore_fragile: sc['fragile']) name it after the regime; everywhere else the generic clause name is used, so that
    a known float finding can never mask a different defect found by the regular / anisotropic / raising streams."""
    reg = _regime(sc)[0]
    return generic if (reg == 'regular' or not sc.get('fragile')) else 'precision-loss-' + reg


def eps_absorbed_edge(sc, p):
    """the point sits exactly on the upper bound of an axis whose `max + EPSILON` equals `max` in float64 (|max| of a few
    1e9 and more): the constructor's epsilon extension vanishes there and the half-open last cell excludes `max`"""
    return any(p[d] == sc['area'][2 * d + 1] and sc['area'][2 * d + 1] + EPS == sc['area'][2 * d + 1]
               for d in range(sc['dim']))


def inside_rejected_sig(sc, p, name):
    """signature for a point of the caching area that was rejected with exception `name`"""
    if name == 'ValueError' and eps_absorbed_edge(sc, p):
        return fail_sig(sc, 'upper-edge-rejected-when-epsilon-absorbed')
    return fail_sig(sc, '%s-inside-area%s' % (name, '' if sc.get('fragile') else ':regular-grid'))


def fail_sig(sc, what):
    return 'C14:Caching%dD:%s' % (sc['dim'], what)


def s_history(ctx, sc, results):
    """results: list of (order, impl_out).  The value (or exception kind) at a point must not depend on the history."""
    seen = {}
    for order, out in results:
        for idx, (st, v, calls) in zip(order, out):
            p = sc['points'][idx]
            key = tuple(f2b(x) for x in p)
            cur = (st, None if v is None else (f2b(v) if not math.isnan(v) else 'nan'))
            if key in seen and seen[key][0] != cur:
                ctx.fail(fail_sig(sc, 'history-dependent-value'),
                         'value at %r is %r after history %r but %r after history %r' % (p, cur, list(order), seen[key][0], seen[key][1]),
                         dict(check='history', scenario=_short(sc), point=p, orders=[list(order), seen[key][1]]))
                return
            seen.setdefault(key, (cur, list(order)))


def s_raising(ctx, sc, results):
    """wrapped function that raises (and may recover): an evaluation during which it raised must let that very
    exception out; any other evaluation must give exactly what a fresh cache around the healthy function gives —
    never NaN or a stale block left behind by the failed attempt"""
    ref_obj = build(sc, Fn(sc['fn']))
    ref = {}

    def fresh(p):
        if p not in ref:
            try:
                ref[p] = ('val', ref_obj(*p))
            except np.linalg.LinAlgError:
                ref[p] = ('error', None)
            except ValueError:
                ref[p] = ('raise', None)
        return ref[p]

    for order, out in results:
        for pos, (idx, (st, v, calls)) in enumerate(zip(order, out)):
            p = sc['points'][idx]
            raised = any(val == 'R' for _, val in calls)
            ctx.count('S:raising:%s' % ('raised' if raised else 'clean'))
            if raised:
                ok, what = st == 'fraise', 'exception-swallowed'
                why = 'the wrapped function raised during this evaluation but evaluate() gave status %s value %r' % (st, v)
            else:
                rs, rv = fresh(p)
                ok = st == rs and (rv is None or (v is not None and same_float(v, rv)))
                what = 'stale-result-after-failure'
                why = 'the wrapped function did not raise during this evaluation; got status %s value %r, a fresh cache gives %s %r' % (st, v, rs, rv)
            if not ok:
                ctx.fail(fail_sig(sc, 'raising-function:' + what),
                         'point %r, step %d of history %r, raising=%r: %s' % (p, pos, list(order), sc['raising'], why),
                         dict(check='raising', scenario=_short(sc), point=p, order=list(order)))
                return
            if not raised and classify(sc, p) == 'inside' and st == 'val':
                ctx.count('S:raising:value-equals-fresh-cache')


def s_fresh(ctx, sc, results):
    """the very first evaluation on a fresh cache (histories of length 1): an inside point must already satisfy the
    interpolation clauses — node / multilinear exactness or the h^2 bound — whatever its coordinates (origin, exact
    zeros, repeated coordinates)"""
    fn = Fn(sc['fn'])
    if fn.nan is not None:
        return
    dim = sc['dim']
    H = [spec_spacing(sc, d) for d in range(dim)]
    lim = 1e-9 * scale_of(sc) + (0.0 if fn.multilinear() else sum(H[d] ** 2 * fn.m2(d) for d in range(dim)))
    for order, out in results:
        if len(order) != 1:
            continue
        st, v, calls = out[0]
        p = sc['points'][order[0]]
        if st != 'val' or classify(sc, p) != 'inside':
            continue
        ctx.case(key=('fresh', dim, tuple(f2b(x) for x in p)))
        if not abs(v - fn(*p)) <= lim:
            ctx.fail(fail_sig(sc, 'first-evaluation-wrong'),
                     'fresh cache, first evaluation at %r: %r, wrapped function %r (allowed deviation %.3e); area %r resolution %r'
                     % (p, v, fn(*p), lim, sc['area'], sc['res']),
                     dict(check='history', scenario=_short(sc), point=p, orders=[list(order), list(order)]))
            return
        ctx.count('S:first-evaluation-ok')


def fresh_stream(ctx, drv):
    """first evaluations on fresh caches at points with exact-zero / repeated coordinates: origin, -0.0, points on the
    axes, the diagonal, the same point twice in a row, a first call outside the area; areas that contain the origin,
    touch it with a corner, or exclude it; raise mode and pass-through mode"""
    rng = ctx.rng
    for dim in (1, 2, 3):
        geos = [[-1.0, 1.0], [0.0, 1.0], [0.5, 2.0]]
        if dim == 3 and ctx.tier == 'quick':
            geos = [geos[0], geos[2]]
        for g in geos:
            for nbe in (False, True):
                area = g * dim
                res = [rng.choice([0.5, 0.37, 0.25]) for _ in range(dim)]
                kind = rng.choice(['smooth', 'multilinear'])
                fn = rnd_fn(rng, dim, area, kind)
                fn['c'] = [0.31, -0.27, 0.43][:dim] + [0.0] * (3 - dim)     # f(0,..,0) is neither 0 nor special
                fn['m'][0] = rng.choice([-1, 1]) * rng.uniform(1.0, 2.0)
                t = rng.uniform(0.55, 0.95)
                cand = [tuple([0.0] * dim), tuple([-0.0] * dim), tuple([t] * dim), tuple([1.0] * dim),
                        tuple(rng.uniform(g[0], g[1]) for _ in range(dim)),                       # generic inside
                        tuple([g[1] + 1.5] * dim), tuple([g[0] - 1.5] + [0.0] * (dim - 1))]      # outside
                for a in range(dim):
                    cand.append(tuple(t if d == a else 0.0 for d in range(dim)))                  # on an axis
                pts = [tuple(float(x) for x in q) for q in dict.fromkeys(cand)]
                sc = dict(dim=dim, area=area, res=res, nbe=nbe, bounds=rng.choice([None, (-3.0, 20.0)]), fn=fn, points=pts)
                gen = 4                                                      # index of the generic inside point
                orders = [[i] for i in range(len(pts))] + [[i, i] for i in range(len(pts))] + \
                         [[gen, i] for i in range(len(pts)) if i != gen] + [[i, gen, i] for i in (0, 5)]
                if dim == 3:
                    orders = [o for k, o in enumerate(orders) if k % 2 == 0 or o in ([0], [1], [0, 0], [5], [gen, 0])]
                run_scenario(ctx, drv, sc, 0, orders=orders)


def two_instance_stream(ctx, n):
    """two caching objects (different functions, same or different geometry) used alternately: each must answer as if
    it were alone (no module-level / class-level state shared between instances)"""
    rng = ctx.rng
    for _ in range(n):
        dim = rng.choice([1, 2, 3])
        sa = rnd_scenario(rng, dim, kind=rng.choice(['smooth', 'multilinear']))
        sb = dict(sa, fn=rnd_fn(rng, dim, sa['area'], 'smooth'), nbe=not sa['nbe'])
        if rng.random() < 0.5:
            sb = dict(sb, res=[r * rng.uniform(0.5, 0.9) for r in sa['res']])
        pts = sa['points'][:8 if dim < 3 else 4]
        alone = {}
        for tag, sc in (('A', sa), ('B', sb)):
            c = build(sc, Fn(sc['fn']))
            for p in pts:
                alone[tag, p] = _status_value(c, p)
        ca, cb = build(sa, Fn(sa['fn'])), build(sb, Fn(sb['fn']))
        for p in pts:
            for tag, c, sc in (('A', ca, sa), ('B', cb, sb)):
                got = _status_value(c, p)
                ctx.case(key=('two-inst', dim, tag, f2b(p[0])))
                if got != alone[tag, p]:
                    ctx.fail(fail_sig(sc, 'instances-interfere'),
                             'two caching objects used alternately: object %s at %r gives %r, alone it gives %r' % (tag, p, got, alone[tag, p]),
                             dict(check='values', scenario=_short(sc), point=p))
                    return
        ctx.count('S:two-instances-independent')


def _status_value(c, p):
    try:
        v = c(*p)
        return ('val', 'nan' if math.isnan(v) else f2b(v))
    except np.linalg.LinAlgError:
        return ('error', None)
    except ValueError:
        return ('raise', None)
    except Exception as e:  # noqa
        return ('Other:' + type(e).__name__, None)


KINDS = ['ArgND', 'ConstantND', 'composed-affine', 'composed-product', 'float', 'int', 'python-callable']


def make_kind(kind, dim, k0, k1, ki):
    import raysect.core.math.function.float as ff
    names = 'xyz'[:dim]
    Arg = [ff.Arg1D, ff.Arg2D, ff.Arg3D][dim - 1]
    Const = [ff.Constant1D, ff.Constant2D, ff.Constant3D][dim - 1]
    arg = (lambda a: Arg()) if dim == 1 else (lambda a: Arg(a))
    if kind == 'float':
        return k0
    if kind == 'int':
        return ki
    if kind == 'ConstantND':
        return Const(k0)
    if kind == 'ArgND':
        return arg(names[-1])
    if kind == 'composed-affine':
        return arg(names[0]) * k1 + k0
    if kind == 'composed-product':
        return (arg(names[0]) + k0) * (arg(names[-1]) * k1 - 1.0) if dim > 1 else arg('x') * k1 - k0
    return lambda *a: k0 + k1 * a[0]


def kind_point_oracle(ctx, dim, kind, k0, k1, ki, area, res, nbe, bounds, points):
    """see function_kinds_stream; returns True if a failing input was reported"""
    F = make_kind(kind, dim, k0, k1, ki)
    pyf = (lambda *a: float(F)) if isinstance(F, (int, float)) else (lambda *a: F(*a))
    sc = dict(dim=dim, area=area, res=res, nbe=nbe, bounds=bounds, points=points,
              fn=dict(dim=dim, c=[0.0] * 3, m=[0.0] * 8, kind='kind:' + kind))
    rep = dict(check='kinds', kind=kind, dim=dim, k0=k0, k1=k1, ki=ki, area=area, res=res, nbe=nbe, bounds=bounds)
    try:
        c = build(sc, F)
        ref = build(sc, pyf)
    except Exception as e:  # noqa
        ctx.fail(fail_sig(sc, 'function-kind:%s:constructor-%s' % (kind, type(e).__name__)),
                 'wrapped function of kind %s rejected: %s' % (kind, str(e)[:150]), dict(rep, points=[list(q) for q in points]))
        return True
    scale = max(abs(pyf(*[area[2 * d + ((e >> d) & 1)] for d in range(dim)])) for e in range(2 ** dim)) + 1.0
    if bounds is not None:
        scale = max(scale, 20.0)
    for p in points:
        got, want = _status_value(c, p), _status_value(ref, p)
        cl = classify(sc, p)
        ctx.case(key=('kind', kind, dim, nbe, f2b(p[0])))
        why = None
        sig = ''
        if cl == 'outside' and not any(math.isnan(x) or math.isinf(x) for x in p):
            if not nbe and got[0] != 'raise':
                why = 'outside the area in raise mode: %r instead of ValueError' % (got,)
            elif nbe and got != ('val', f2b(pyf(*p))):
                why = 'outside the area in pass-through mode: %r, the function gives %r' % (got, pyf(*p))
            sig = 'outside-policy:' + ('pass-through' if nbe else 'raise')
        elif cl == 'inside':
            if got != want:
                why = 'inside: %r, the same function behind a Python lambda gives %r' % (got, want)
            elif got[0] == 'val' and not abs(b2f(got[1]) - pyf(*p)) <= 1e-9 * scale:
                why = 'inside: value %r, the function gives %r' % (b2f(got[1]), pyf(*p))
            sig = 'function-kind-changes-result'
        if why:
            ctx.fail(fail_sig(sc, sig + ':' + kind),
                     'wrapped function of kind %s (%s), area %r resolution %r no_boundary_error=%r bounds %r, point %r: %s'
                     % (kind, F if isinstance(F, (int, float)) else type(F).__name__, area, res, nbe, bounds, p, why),
                     dict(rep, points=[list(p)]))
            return True
    ctx.count('S:function-kind-ok:' + kind)
    return False


def function_kinds_stream(ctx, n):
    """every kind of object the constructors accept as the wrapped function — plain number, ConstantND, ArgND,
    composed raysect functions, a cherab function object, a Python callable — through all clauses.  Reference (no
    model, nothing read from the object under test): the same function hidden behind a Python lambda, and the
    function itself: inside equal bits to the lambda-wrapped cache and (for these functions, which are linear in each
    coordinate or constant) equal to the function; outside ValueError in raise mode, exactly f(p) in pass-through mode"""
    rng = ctx.rng
    for _ in range(n):
        dim = rng.choice([1, 2, 3])
        area, res = [], []
        for d in range(dim):
            lo, hi, r = rnd_axis(rng, 3)
            area += [lo, hi]
            res.append(r)
        k0, k1, ki = rng.uniform(-2, 2), rng.uniform(0.5, 2), rng.randint(-3, 7)
        kind = rng.choice(KINDS)
        F = make_kind(kind, dim, k0, k1, ki)
        for nbe in (False, True):
            bounds = rng.choice([None, (-3.0, 20.0), (5.0, 5.0)])
            sc = dict(dim=dim, area=area, res=res, nbe=nbe, bounds=bounds, fn=dict(dim=dim, c=[0.0] * 3, m=[0.0] * 8, kind='kind'))
            pts = rnd_points(rng, sc, n_in={1: 5, 2: 4, 3: 2}[dim])
            kind_point_oracle(ctx, dim, kind, k0, k1, ki, area, res, nbe, bounds, pts)


def s_cached(ctx, sc):
    """the class promises caching: a point inside the area evaluated a second time must not reach the wrapped function
    again, and must give the same value (also with no_boundary_error=True, which only concerns points outside)"""
    if sc.get('raising') is not None or Fn(sc['fn']).nan is not None:
        return
    rec = Rec(Fn(sc['fn']))
    try:
        c = build(sc, rec)
    except Exception as e:  # noqa
        ctx.fail(fail_sig(sc, 'constructor-rejects-valid-area'),
                 'area %r resolution %r: %s: %s' % (sc['area'], sc['res'], type(e).__name__, str(e)[:120]),
                 dict(check='cached', scenario=_short(sc), point=list(sc['points'][0]) if sc['points'] else []))
        return
    for p in sc['points']:
        if classify(sc, p) != 'inside':
            continue
        try:
            v1 = c(*p)
            n1 = len(rec.calls)
            v2 = c(*p)
        except Exception:  # noqa -- reported by s_outside / s_values with its own signature
            continue
        ctx.case(key=('cached', sc['dim'], f2b(p[0])))
        if len(rec.calls) != n1 or not same_float(v1, v2):
            ctx.fail(fail_sig(sc, 'upper-edge-rejected-when-epsilon-absorbed' if eps_absorbed_edge(sc, p)
                              else 'inside-point-not-cached'),
                     'point %r inside the caching area %r (resolution %r, no_boundary_error=%r): evaluated twice in a row, the '
                     'second evaluation called the wrapped function %d more times (values %r, %r)'
                     % (p, sc['area'], sc['res'], sc['nbe'], len(rec.calls) - n1, v1, v2),
                     dict(check='cached', scenario=_short(sc), point=p))
            return
        ctx.count('S:repeat-evaluation-served-from-cache')


def s_outside(ctx, sc, results):
    f = Fn(sc['fn'])
    for order, out in results:
        for idx, (st, v, calls) in zip(order, out):
            p = sc['points'][idx]
            cl = classify(sc, p)
            if cl == 'band':
                ctx.count('S:epsilon-band-skipped')
                continue
            if cl == 'outside':
                if sc['nbe']:
                    want = f(*p)
                    ok = st == 'val' and same_float(v, want) and [a for a, _ in calls] == [p] or \
                        (st == 'val' and any(math.isnan(x) for x in p) and len(calls) == 1)
                    what = 'pass-through'
                else:
                    ok = st == 'raise' and not calls
                    what = 'raise'
                if not ok:
                    ctx.fail(fail_sig(sc, 'outside-policy:' + what),
                             'outside point %r (no_boundary_error=%r): status %s value %r calls %r' % (p, sc['nbe'], st, v, calls[:3]),
                             dict(check='outside', scenario=_short(sc), point=p, order=list(order)))
                    return
            else:
                if st not in ('val',):
                    rho = far_from_origin(sc)
                    name = {'raise': 'ValueError', 'error': 'LinAlgError'}.get(st, st.replace('Other:', ''))
                    ctx.fail(inside_rejected_sig(sc, p, name),
                             'point %r inside the caching area %r (resolution %r) raised %s (grid: up to %.3g cells from the origin)'
                             % (p, sc['area'], sc['res'], name, rho),
                             dict(check='inside-raises', scenario=_short(sc), point=p, order=list(order)))
                    return


def spec_spacing(sc, d):
    """largest node spacing along axis d according to the documented construction (not read from the object: a
    misplaced node must not relax the bound): inner nodes linspace(min-eps, max+eps, max(int(L/res)+1, 2)), one outer
    node at distance `resolution` beyond each end"""
    lo, hi, r = sc['area'][2 * d], sc['area'][2 * d + 1], sc['res'][d]
    n = max(int((hi - lo) / r) + 1, 2)
    return max((hi - lo + 2 * EPS) / (n - 1), r)


def s_values(ctx, sc, c, n_extra, rng):
    """node interpolation, multilinear exactness, h^2 bound on a fresh object `c` (any history is as good as another
    once s_history holds); returns worst ratios for the histogram"""
    fn = Fn(sc['fn'])
    if fn.nan is not None:
        return
    dim = sc['dim']
    dom = spec_nodes(sc)
    scale = scale_of(sc)
    floor = 1e-9 * scale
    H = [spec_spacing(sc, d) for d in range(dim)]
    bound = sum(H[d] ** 2 * fn.m2(d) for d in range(dim))
    pts = []
    for _ in range(n_extra):
        pts.append(('node', tuple(float(dom[d][rng.randint(1, len(dom[d]) - 3)]) for d in range(dim))))
        pts.append(('in', tuple(rng.uniform(sc['area'][2 * d], sc['area'][2 * d + 1]) for d in range(dim))))
    # first and last layer of cells of every axis (where the outer nodes enter the finite differences)
    for k, a in enumerate(list(range(dim)) + ([sc['fine_axis']] * 12 if 'fine_axis' in sc else [])):
        for side in (0, 1):
            q = [rng.uniform(sc['area'][2 * d], sc['area'][2 * d + 1]) for d in range(dim)]
            lo, hi = sc['area'][2 * a], sc['area'][2 * a + 1]
            # k >= dim: extra points on the fine axis, placed where the end-slope basis function is largest
            w = min(H[a], hi - lo) * (rng.uniform(0.05, 0.95) if k < dim else rng.uniform(0.15, 0.6))
            q[a] = lo + w if side == 0 else hi - w
            pts.append(('layer', tuple(q)))
    for kind, p in pts:
        try:
            v = c(*p)
        except Exception as e:  # noqa
            name = type(e).__name__
            ctx.fail(inside_rejected_sig(sc, p, name),
                     'point %r inside the caching area %r (resolution %r) raised %s' % (p, sc['area'], sc['res'], name),
                     dict(check='inside-raises', scenario=_short(sc), point=p))
            return
        err = abs(v - fn(*p))
        ctx.case(key=('S', dim, kind, f2b(p[0]), sc['fn']['kind']))
        if kind == 'node':
            lim, what = floor, 'node-not-interpolated'
        elif fn.multilinear():
            lim, what = floor, 'multilinear-not-reproduced'
        else:
            lim, what = bound + floor, 'error-exceeds-h2-bound'
        if not err <= lim:
            what = value_sig(sc, what)
            ctx.fail(fail_sig(sc, what),
                     '%s point %r: |cached - f| = %.3e > %.3e (H^2 max|f"| = %.3e, float floor %.1e); area %r resolution %r'
                     % (kind, p, err, lim, bound if kind != 'node' else 0.0, floor, sc['area'], sc['res']),
                     dict(check='values', scenario=_short(sc), point=p, kind=kind, error=err, limit=lim))
            return
        ctx.count('S:%s-ok' % what)


def s_bounds(ctx, sc, rng):
    """function_boundaries only rescale internally: same values with and without"""
    fn = Fn(sc['fn'])
    if fn.nan is not None:
        return
    a = build(dict(sc, bounds=None), fn)
    b = build(dict(sc, bounds=(-7.0, 13.0) if sc['bounds'] is None else sc['bounds']), fn)
    scale = max(scale_of(sc), 13.0)
    for _ in range(4):
        p = tuple(rng.uniform(sc['area'][2 * d], sc['area'][2 * d + 1]) for d in range(sc['dim']))
        try:
            va, vb = a(*p), b(*p)
        except Exception:  # noqa -- reported by s_values
            return
        ctx.case(key=('S-bounds', sc['dim'], f2b(p[0])))
        if not abs(va - vb) <= 1e-9 * scale:
            ctx.fail(fail_sig(sc, 'bounds-change-result'),
                     'point %r: %r without function_boundaries, %r with %r' % (p, va, vb, sc['bounds']),
                     dict(check='bounds', scenario=_short(sc), point=p))
            return
        ctx.count('S:bounds-invariant-ok')


# ----------------------------------------------------------------------------------------------------------------
# find_index
# ----------------------------------------------------------------------------------------------------------------
def find_index_stream(ctx, drv, n):
    from harness.vlib import shim
    m = shim.ensure()
    rng = ctx.rng
    for it in range(n):
        k = rng.randint(1, 12)
        if rng.random() < 0.5:
            xs = sorted(set(float(rng.randint(-20, 20)) * 0.25 for _ in range(k)))     # dyadic: exact comparisons
        else:
            xs = sorted(set(rng.uniform(-5, 5) for _ in range(k)))
        x = np.array(xs, dtype=np.float64)
        top = len(xs) - 1
        pad = rng.choice([0.0, 0.0, 0.5, 1e-9, 3.0])
        r = rng.random()
        if r < 0.3:
            v = xs[rng.randrange(len(xs))]
        elif r < 0.6 and top >= 1:
            i = rng.randrange(top)
            v = 0.5 * (xs[i] + xs[i + 1])
        elif r < 0.8:
            v = rng.choice([xs[0] - pad, xs[0] - pad - 0.25, xs[0] - 0.5 * pad, xs[-1] + pad, xs[-1] + pad + 0.25, xs[-1] + 0.5 * pad])
        else:
            v = rng.uniform(xs[0] - 1, xs[-1] + 1)
        if top == 0 and math.isnan(v):
            continue
        got = int(m.find_index(x, v, pad))
        mod = drv.ask('fi %d %s %s %s' % (top, f2b(pad), f2b(v), fs(xs)))
        ctx.case(key=('fi', top, f2b(v), f2b(pad)))
        ctx.count('K:find_index')
        ctx.traces += 1
        if str(got) != mod:
            ctx.disagreements += 1
            ctx.broke('correspondence', 'C14 find_index', dict(x=xs, v=v, padding=pad, model=mod, implementation=got))
        # S: the documented contract, directly
        if xs[0] < v < xs[-1]:
            okb = 0 <= got < top and xs[got] <= v < xs[got + 1]
        elif v == xs[0]:
            okb = got == 0
        elif v == xs[-1]:
            okb = got == top - 1
        elif v < xs[0]:
            okb = got == (-1 if v >= xs[0] - pad else -2)
        else:
            okb = got == (top if v <= xs[-1] + pad else top + 1)
        if not okb:
            ctx.fail('C14:find_index:bracket', 'find_index(%r, %r, padding=%r) = %d' % (xs, v, pad, got),
                     dict(check='find_index', x=xs, v=v, padding=pad))


# ----------------------------------------------------------------------------------------------------------------
# float-gap witnesses (deterministic, independent of VERIF_SEED): regimes where the model at Float and the
# implementation agree with each other but not with the property
# ----------------------------------------------------------------------------------------------------------------
def witnesses():
    lin = lambda dim, c: dict(dim=dim, c=[c] * dim + [0.0] * (3 - dim), kind='multilinear',  # noqa
                              m=[0.3, 1.1, -0.7 if dim > 1 else 0.0, 0.9 if dim > 2 else 0.0, 0.5 if dim > 1 else 0.0,
                                 -0.4 if dim > 2 else 0.0, 0.8 if dim > 2 else 0.0, 1.3 if dim > 2 else 0.0])
    curved = lambda dim: dict(dim=dim, c=[0.5] * dim + [0.0] * (3 - dim), kind='smooth', m=[-1.25, 1.7, 0, 0, 0, 0, 0, 0],  # noqa
                              A=1.3, k=[3.7, 2.4, 2.6], phi=[0.05, 2.6, 0.43], B=[0.0, 0.0, 0.0])
    sin1 = dict(dim=1, c=[0.0, 0.0, 0.0], m=[0.0] * 8, kind='smooth', A=1.0, k=[1.0, 0, 0], phi=[0.0, 0, 0], B=[0.0, 0, 0])
    gauss = dict(dim=2, c=[6.0, 0.0, 0.0], m=[0.0] * 8, kind='smooth', A=1.0, k=[0.5, 0.5, 0], phi=[1.5707963267948966] * 3, B=[0.0, 0, 0])
    return [
        # far from the origin of the un-normalised coordinates
        dict(name='far-1D', sc=dict(dim=1, area=[1e5, 1e5 + 1], res=[1e-3], nbe=False, bounds=None, fn=sin1), cells=40),
        dict(name='far-2D', sc=dict(dim=2, area=[1e4, 1e4 + 1, 1e4, 1e4 + 1], res=[0.099, 0.099], nbe=False, bounds=None, fn=lin(2, 1e4)), cells=20),
        dict(name='far-3D', sc=dict(dim=3, area=[1e3, 1e3 + 1] * 3, res=[0.249] * 3, nbe=False, bounds=None, fn=lin(3, 1e3)), cells=6),
        # fine grids
        dict(name='fine-1D', sc=dict(dim=1, area=[0.0, 1.0], res=[1e-6], nbe=False, bounds=None, fn=sin1), cells=60),
        dict(name='fine-2D', sc=dict(dim=2, area=[4.0, 8.0, -4.0, 4.0], res=[0.01, 0.01], nbe=False, bounds=None, fn=gauss), cells=400),
        # resolution much larger than the extent on one axis: the outer nodes stretch the normalised coordinate
        dict(name='outer-1D', node=True, cells=4,
             sc=dict(dim=1, area=[0.0, 1.0], res=[1e5], nbe=False, bounds=None, fn=curved(1))),
        dict(name='outer-2D', node=True, cells=6,
             sc=dict(dim=2, area=[0.0, 1.0, 0.0, 1.0], res=[0.4, 1e5], nbe=False, bounds=None, fn=curved(2))),
        dict(name='outer-3D', node=True, cells=6,
             sc=dict(dim=3, area=[0.0, 1.0] * 3, res=[0.4, 0.4, 1e5], nbe=False, bounds=None, fn=curved(3))),
    ]


def s_witness(ctx, w):
    sc = w['sc']
    fn = Fn(sc['fn'])
    c = build(sc, fn)
    dim = sc['dim']
    dom = spec_nodes(sc)
    rng = random.Random('C14-witness-' + w['name'])
    sc = dict(sc, points=[], fragile=True)
    for _ in range(w['cells']):
        ix = [rng.randint(1, len(dom[d]) - 3) for d in range(dim)]
        if w.get('node'):
            p = tuple(float(dom[d][ix[d]]) for d in range(dim))          # a sampling node: must be reproduced exactly
        else:
            p = tuple(float(0.5 * (dom[d][ix[d]] + dom[d][ix[d] + 1])) for d in range(dim))
        sc['points'] = [p]
        ctx.case(key=('witness', w['name'], tuple(ix)))
        # the generic oracle, so that the signatures are the same ones a random scenario would produce
        if _single_point_oracle(ctx, dict(sc), c, fn, p, node=bool(w.get('node'))):
            ctx.count('witness-fired:' + w['name'])
            w['hit'] = p
            return True
    ctx.count('witness-silent:' + w['name'])
    return False


def explore_fragile(ctx, n):
    """seeded random search around the witnesses: large |offset| / cell width, fine grids (S only)"""
    rng = ctx.rng
    for _ in range(n):
        dim = rng.choice([1, 1, 2, 2, 3])
        area, res = [], []
        for d in range(dim):
            L = rng.choice([1.0, 0.5, 4.0, 10.0])
            mode = rng.random()
            if mode < 0.5:      # far from the origin
                off = rng.choice([-1, 1]) * L * 10 ** rng.uniform(1, {1: 6, 2: 4.5, 3: 3.5}[dim])
                ncell = rng.randint(3, {1: 400, 2: 40, 3: 8}[dim])
            else:               # fine grid
                off = L * rng.uniform(-1, 0)
                ncell = int(10 ** rng.uniform(1.5, {1: 6, 2: 2.9, 3: 1.6}[dim]))
            area += [off, off + L]
            res.append(L / ncell * 0.999)
        kind = rng.choice(['multilinear', 'smooth'])
        sc = dict(dim=dim, area=area, res=res, nbe=False, bounds=rng.choice([None, None, (-3.0, 20.0)]), points=[],
                  fragile=True)
        sc['fn'] = rnd_fn(rng, dim, area, kind)
        fn = Fn(sc['fn'])
        try:
            c = build(sc, fn)
        except MemoryError:
            continue
        dom = spec_nodes(sc)
        fired = False
        for _ in range(6):
            ix = [rng.randint(1, len(dom[d]) - 3) for d in range(dim)]
            p = tuple(float(dom[d][ix[d]] + rng.random() * (dom[d][ix[d] + 1] - dom[d][ix[d]])) for d in range(dim))
            if not all(sc['area'][2 * d] <= p[d] <= sc['area'][2 * d + 1] for d in range(dim)):
                continue
            ctx.case(key=('fragile', dim, f2b(p[0]), f2b(area[0])))
            if _single_point_oracle(ctx, dict(sc, points=[p]), c, fn, p):
                fired = True
                break
        ctx.count('fragile-search:%dD:%s' % (dim, 'fired' if fired else 'held'))


def _single_point_oracle(ctx, sc, c, fn, p, node=False):
    dim = sc['dim']
    scale = scale_of(sc)
    floor = 1e-9 * scale
    H = [spec_spacing(sc, d) for d in range(dim)]
    bound = sum(H[d] ** 2 * fn.m2(d) for d in range(dim))
    rho = far_from_origin(sc)
    try:
        v = c(*p)
    except Exception as e:  # noqa
        name = type(e).__name__
        ctx.fail(inside_rejected_sig(sc, p, name),
                 'point %r inside the caching area %r (resolution %r) raised %s (grid: up to %.3g cells from the origin)'
                 % (p, sc['area'], sc['res'], name, rho),
                 dict(check='inside-raises', scenario=_short(sc), point=p))
        return True
    err = abs(v - fn(*p))
    lim = floor + (0.0 if (fn.multilinear() or node) else bound)
    if not err <= lim:
        what = value_sig(sc, 'node-not-interpolated' if node else
                         ('multilinear-not-reproduced' if fn.multilinear() else 'error-exceeds-h2-bound'))
        ctx.fail(fail_sig(sc, what),
                 'point %r: |cached - f| = %.3e > %.3e (H^2 max|f"| = %.3e, float floor %.1e); area %r resolution %r '
                 '(up to %.3g cells from the origin)' % (p, err, lim, bound, floor, sc['area'], sc['res'], rho),
                 dict(check='values', scenario=_short(sc), point=p, kind='node' if node else 'in', error=err, limit=lim))
        return True
    return False


# ----------------------------------------------------------------------------------------------------------------
def run_scenario(ctx, drv, sc, nperm, do_k=True, orders=None):
    """safety net: whatever the code under test does (wrong shapes, degenerate grids, unexpected exception types), a
    harness exception while processing a scenario is a *result* about that scenario, never an infrastructure failure:
    it is recorded as a broken correspondence stream and the model-free point oracles are run on the scenario"""
    try:
        _run_scenario(ctx, drv, sc, nperm, do_k, orders)
    except Exception as e:  # noqa
        import traceback
        ctx.count('scenario-derailed-harness')
        ctx.broke('correspondence', 'C14 %dD scenario derailed the harness (%s)' % (sc['dim'], type(e).__name__),
                  dict(scenario=_short(sc), traceback=traceback.format_exc()[-1500:]))
        try:
            fn = Fn(sc['fn'])
            c = build(sc, fn)
            for p in sc.get('points', []):
                if classify(sc, p) == 'inside' and _single_point_oracle(ctx, dict(sc), c, fn, p):
                    break
            s_cached(ctx, sc)
        except Exception as e2:  # noqa
            ctx.fail(fail_sig(sc, 'unusable:' + type(e2).__name__),
                     'scenario cannot be evaluated at all: %s: %s' % (type(e2).__name__, str(e2)[:200]),
                     dict(check='values', scenario=_short(sc), point=list(sc['points'][0]) if sc.get('points') else []))


def _run_scenario(ctx, drv, sc, nperm, do_k=True, orders=None):
    """all histories of one scenario: implementation first (S), then the model against each (K)"""
    rng = ctx.rng
    n = len(sc['points'])
    explicit = orders is not None
    if not explicit:
        orders = [list(range(n))]
        while len(orders) < nperm:
            o = list(range(n))
            rng.shuffle(o)
            orders.append(o)
        if rng.random() < 0.5:
            orders.append(list(reversed(range(n))))
    results = []
    last = None
    for o in orders:
        c, out = run_impl(sc, o)
        results.append((o, out))
        last = c
        ctx.case(key=('hist', sc['dim'], sc['fn']['kind'], sc.get('raising') is not None, sc['nbe'], sc['bounds'] is not None, tuple(o[:6]), f2b(sc['area'][0])),
                 sample=dict(dim=sc['dim'], area=sc['area'], resolution=sc['res'], no_boundary_error=sc['nbe'],
                             function_boundaries=sc['bounds'], function=sc['fn']['kind'], order=o,
                             points=[list(p) for p in sc['points'][:5]]) if rng.random() < 0.02 else None)
        if do_k:
            ctx.traces += k_history(ctx, drv, sc, o, c, out, 'history')
    if sc.get('raising') is not None:
        s_raising(ctx, sc, results)
        ctx.count('scenario:%dD:raising' % sc['dim'])
        return
    s_history(ctx, sc, results)
    s_outside(ctx, sc, results)
    s_fresh(ctx, sc, results)
    s_cached(ctx, sc)
    if explicit:
        ctx.count('scenario:%dD:fresh-first-evaluation' % sc['dim'])
        return
    s_values(ctx, sc, last, {1: 6, 2: 4, 3: 1}[sc['dim']], rng)
    s_bounds(ctx, sc, rng)
    ctx.count('scenario:%dD:%s' % (sc['dim'], sc['fn']['kind']))


def ctor_stream(ctx, drv):
    """constructor guards: min >= max and resolution <= EPSILON raise ValueError in both"""
    import cherab.core.math as cm
    cases = [(1, [1.0, 1.0], [0.1]), (1, [2.0, 1.0], [0.1]), (1, [0.0, 1.0], [1e-7]), (1, [0.0, 1.0], [0.0]),
             (1, [0.0, 1.0], [-1.0]), (1, [0.0, 1.0], [1.0000001e-7]),
             (2, [0.0, 1.0, 1.0, 1.0], [0.1, 0.1]), (2, [0.0, 1.0, 0.0, 1.0], [0.1, 5e-8]),
             (3, [0.0, 1.0, 0.0, 1.0, 3.0, 2.0], [0.1, 0.1, 0.1]), (3, [0.0, 1.0, 0.0, 1.0, 0.0, 1.0], [0.1, 1e-8, 0.1])]
    for dim, area, res in cases:
        sc = dict(dim=dim, area=area, res=res, nbe=False, bounds=None)
        try:
            build(sc, lambda *a: 0.0)
            st = 'ok'
        except ValueError:
            st = 'ValueError'
        r = drv.ask('new%d %d %d %s %s 0 0 %s' % (dim, drv.fresh(), drv.fresh(), fs(area), fs(res), fs((0.0, 0.0)))).split()[0]
        ctx.case(key=('ctor', dim, tuple(area), tuple(res)))
        ctx.count('K:ctor:' + st)
        ctx.traces += 1
        if r != st:
            ctx.disagreements += 1
            ctx.broke('correspondence', 'C14 constructor guard', dict(dim=dim, area=area, res=res, model=r, implementation=st))


def run(ctx):
    ctx.rule = ('a case = one history (order of evaluation) of one scenario (dimension, caching area, resolution, '
                'no_boundary_error, function_boundaries, wrapped function, point multiset with inside / node / edge / '
                'epsilon-band / outside / NaN / inf / repeated points), or one directly checked point (S), or one '
                'find_index query; distinct by the scenario parameters + order prefix / point bits; non-trivial = the '
                'wrapped recording function was called or a cached polynomial was evaluated')
    ctx.trusted += ['numpy.linalg.solve is a parameter of the model (`Ext.solve`); the driver is fed numpy\'s answer to the '
                    'system the model built; in 2-D/3-D theorems assume it returns a solution of that system',
                    'C pow(double,int), Python int() truncation, numpy.linspace (reproduced bit-exactly by the model, compared on every run)',
                    'the wrapped function is pure (same arguments -> same value)']
    ctx.assumptions += ['theorems are over an ordered field: float rounding is not modelled; S runs float-gap monitors on the real outputs',
                        'the caching area is taken to include the documented EPSILON=1e-7 extension; points within 1.5e-7 outside the area are not judged by the outside-policy oracle (counted)',
                        'O(h^2) error bound is checked by S only (c = 1, H = largest node spacing per axis)']
    ctx.lean_check(['Cherab.Props.C14'], 'Cherab/Audit/C14.lean')
    ctx.lean_check(['Cherab.Props.C14Exist'], 'Cherab/Audit/C14Exist.lean')

    corpus_stream(ctx)
    eps_absorbed_probe(ctx)
    drv = Drv()
    try:
        ctor_stream(ctx, drv)
        find_index_stream(ctx, drv, ctx.n(300, 20000))
        nsc = {1: ctx.n(40, 2500), 2: ctx.n(14, 700), 3: ctx.n(2, 60)}
        for dim in (1, 2, 3):
            for _ in range(nsc[dim]):
                sc = rnd_scenario(ctx.rng, dim)
                run_scenario(ctx, drv, sc, 5)
        # fresh caches: first evaluations at special points; two instances; kinds of wrapped function
        fresh_stream(ctx, drv)
        two_instance_stream(ctx, ctx.n(10, 200))
        function_kinds_stream(ctx, ctx.n(40, 800))
        # degenerate areas / resolutions: every mode on every axis of every class
        reps = ctx.n(1, 12)
        for dim in (1, 2, 3):
            for axis in range(dim):
                for mode in DEGENERATE:
                    for _ in range(reps if dim < 3 else max(1, reps // 4)):
                        if dim == 3 and ctx.tier == 'quick' and ctx.rng.random() < 0.5:
                            continue
                        run_scenario(ctx, drv, rnd_scenario_degenerate(ctx.rng, dim, axis, mode), 3 if dim < 3 else 2)
                        ctx.count('degenerate:%dD:axis%d:%s' % (dim, axis, mode))
        # anisotropic resolutions (each axis in turn the fine one) and raising wrapped functions
        nan_ = {2: ctx.n(8, 300), 3: ctx.n(6, 90)}
        for dim in (2, 3):
            for it in range(nan_[dim]):
                run_scenario(ctx, drv, rnd_scenario_aniso(ctx.rng, dim, it % dim), 2 if dim == 3 else 3)
        nr = {1: ctx.n(16, 800), 2: ctx.n(8, 300), 3: ctx.n(2, 40)}
        for dim in (1, 2, 3):
            for _ in range(nr[dim]):
                sc = rnd_scenario(ctx.rng, dim, kind=ctx.rng.choice(['smooth', 'multilinear']))
                sc['raising'] = rnd_raising(ctx.rng, sc)
                run_scenario(ctx, drv, sc, 5)
        # float-gap witnesses: S on each; K on the cheap ones (the Float model must show the same behaviour)
        ws = witnesses()
        for w in ws:
            s_witness(ctx, w)
        for w in ws:
            if w['name'] in ('far-1D', 'far-2D', 'fine-2D'):
                sc = dict(w['sc'])
                rr = random.Random('C14-k-' + w['name'])
                sc['points'] = [tuple(float(rr.uniform(sc['area'][2 * d], sc['area'][2 * d + 1])) for d in range(sc['dim']))
                                for _ in range(5)]
                if w.get('hit') is not None:
                    sc['points'].append(tuple(w['hit']))      # the point at which the witness fired
                n = len(sc['points'])
                for o in (list(range(n)), list(reversed(range(n)))):
                    c, out = run_impl(sc, o)
                    ctx.traces += k_history(ctx, drv, sc, o, c, out, 'witness ' + w['name'])
        explore_fragile(ctx, ctx.n(30, 1500))
        ctx.extra['driver_lines'] = drv.lines
    finally:
        drv.close()


def _replay_one(ctx, rep):
    """re-execute one stored failing input against the real code with the oracle that produced it"""
    chk = rep.get('check')
    if chk == 'find_index':
        from harness.vlib import shim
        m = shim.ensure()
        x, v, pad = rep['x'], rep['v'], rep['padding']
        got = int(m.find_index(np.array(x, dtype=np.float64), v, pad))
        top = len(x) - 1
        if x[0] < v < x[-1]:
            okb = 0 <= got < top and x[got] <= v < x[got + 1]
        elif v == x[0]:
            okb = got == 0
        elif v == x[-1]:
            okb = got == top - 1
        elif v < x[0]:
            okb = got == (-1 if v >= x[0] - pad else -2)
        else:
            okb = got == (top if v <= x[-1] + pad else top + 1)
        if not okb:
            ctx.fail('C14:find_index:bracket', 'find_index(%r, %r, padding=%r) = %d' % (x, v, pad, got), rep)
    elif chk in ('values', 'inside-raises', 'bounds', 'outside', 'history', 'raising', 'cached'):
        sc = dict(rep['scenario'])
        sc['points'] = [tuple(p) for p in sc.get('points', [])]
        if sc['bounds'] is not None:
            sc['bounds'] = tuple(sc['bounds'])
        if sc['fn'].get('nan') is not None:
            sc['fn'] = dict(sc['fn'], nan=tuple(sc['fn']['nan']))
        fn = Fn(sc['fn'])
        p = tuple(rep.get('point') or ())
        if chk == 'history':
            results = []
            for o in rep['orders']:
                c, out = run_impl(sc, o)
                results.append((o, out))
            s_history(ctx, sc, results)
        elif chk == 'outside':
            c, out = run_impl(sc, rep['order'])
            s_outside(ctx, sc, [(rep['order'], out)])
        elif chk == 'raising':
            c, out = run_impl(sc, rep['order'])
            s_raising(ctx, sc, [(rep['order'], out)])
        elif chk == 'cached':
            s_cached(ctx, dict(sc, points=[p] if p else sc['points']))
        elif chk == 'bounds':
            s_bounds(ctx, sc, random.Random(0))
        else:
            c = build(sc, fn)
            _single_point_oracle(ctx, dict(sc, points=[p]), c, fn, p, node=rep.get('kind') == 'node')
    elif chk == 'kinds':
        b = rep['bounds']
        kind_point_oracle(ctx, rep['dim'], rep['kind'], rep['k0'], rep['k1'], rep['ki'], rep['area'], rep['res'], rep['nbe'],
                          tuple(b) if b is not None else None, [tuple(q) for q in rep['points']])
    else:
        return False
    ctx.case(key=('replay', chk, json.dumps(rep.get('point', rep.get('v')))))
    return True


def corpus_stream(ctx):
    d = os.path.join(os.path.dirname(os.path.dirname(os.path.dirname(os.path.abspath(__file__)))), 'corpus', 'C14')
    if not os.path.isdir(d):
        return
    for f in sorted(os.listdir(d)):
        if f.endswith('.json'):
            n0 = len(ctx.failing) + len(ctx.known_hits)
            _replay_one(ctx, json.load(open(os.path.join(d, f)))['replay'])
            ctx.count('corpus:' + ('fails' if len(ctx.failing) + len(ctx.known_hits) > n0 else 'no-new-failure'))


def replay(ctx, path):
    r = json.load(open(path))
    rep = r.get('replay') or {}
    print(json.dumps(rep, indent=1)[:3000])
    ctx.rule = 'replay of one stored failing input against the real implementation'
    if not _replay_one(ctx, rep):
        run(ctx)
    return ctx.finish()
