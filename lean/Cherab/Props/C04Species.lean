import Cherab.Props.C04
import Mathlib.Algebra.BigOperators.Group.List.Basic

/-!
C04, round 6 — the species loops of `_beam_stopping` (singleray.pyx:267-313) as folds over the composition list.

`_stopping_data` is built by iterating `plasma.composition` (a dict-backed container, so its order is the insertion
order of the user's `composition.add/set` calls).  The two loops (`density_sum += Z²·n`, `stopping_coeff += n·Z·S_i`)
are left folds in the model (`densitySum`, `beamStopping`).  Here: the result does not depend on the order in which
the species were listed, at every level of the pipeline (stopping coefficient, attenuation table, whole
`Beam.density`), and splitting one species entry into two entries with the same charge, temperature, velocity and rate
object (densities `n₁ + n₂`) changes nothing — the composite coefficient is a function of the *multiset* of species and
is additive in the density of a species at fixed equivalent electron density.
-/
namespace Cherab.Props.C04
set_option linter.unusedSectionVars false
set_option linter.unusedVariables false
open Cherab.BeamDensity Cherab.Lemmas.BeamDensity

variable {α : Type} [Field α] [LinearOrder α] [IsStrictOrderedRing α]

/-- first loop: `density_sum` is the same for every listing order of the composition -/
theorem densitySum_perm (ts ts' : List (Target α)) (h : ts.Perm ts') : densitySum ts = densitySum ts' := by
  unfold densitySum
  rw [foldl_add_eq_sum, foldl_add_eq_sum]
  exact congrArg _ (h.map _).sum_eq

/-- second loop: the composite stopping coefficient is the same for every listing order of the composition -/
theorem beamStopping_perm (sqrt : α → α) (cf : α) (bv : Vec α) (ts ts' : List (Target α)) (h : ts.Perm ts') :
    beamStopping sqrt cf bv ts = beamStopping sqrt cf bv ts' := by
  unfold beamStopping
  rw [densitySum_perm ts ts' h, foldl_add_eq_sum, foldl_add_eq_sum]
  exact congrArg _ (h.map _).sum_eq

/-- the attenuation table does not depend on the order of the species, even if the order differs from one axis
point to the next -/
theorem calcAttenuation_species_order_independent (sqrt exp : α → α) (echarge amu energy power mass : α) (dir : Vec α)
    (zs : List α) (targets targets' : List (List (Target α))) (h : List.Forall₂ List.Perm targets targets') :
    calcAttenuation sqrt exp echarge amu energy power mass dir zs targets =
      calcAttenuation sqrt exp echarge amu energy power mass dir zs targets' := by
  unfold calcAttenuation
  have : ∀ (f : List (Target α) → α), (∀ a b, a.Perm b → f a = f b) → targets.map f = targets'.map f := by
    intro f hf
    induction h with
    | nil => rfl
    | cons hab _ ih => simp [hf _ _ hab, ih]
  simp only [this _ (fun a b hab => beamStopping_perm sqrt _ _ a b hab)]

/-- `Beam.density` of a fresh beam does not depend on the order in which the plasma species were listed -/
theorem full_density_species_order_independent (sqrt exp : α → α) (pi echarge amu energy power mass : α) (dir : Vec α)
    (sigma tanx tany length : α) (n : Nat) (clamp : Bool) (clampSqr : α)
    (targets targets' : List (List (Target α))) (h : List.Forall₂ List.Perm targets targets') (x y z : α) :
    beamDensityFull sqrt exp pi echarge amu energy power mass dir sigma tanx tany length n clamp clampSqr targets x y z =
      beamDensityFull sqrt exp pi echarge amu energy power mass dir sigma tanx tany length n clamp clampSqr targets' x y z := by
  unfold beamDensityFull
  rw [calcAttenuation_species_order_independent sqrt exp echarge amu energy power mass dir _ targets targets' h]

/-- one species entry split into two entries with the same charge, temperature, velocity and rate (densities
`n₁`, `n₂` instead of `n₁ + n₂`): same `density_sum` -/
theorem densitySum_split (q : Nat) (n₁ n₂ t : α) (v : Vec α) (r : α → α → α → α) (ts : List (Target α)) :
    densitySum (⟨q, n₁, t, v, r⟩ :: ⟨q, n₂, t, v, r⟩ :: ts) = densitySum (⟨q, n₁ + n₂, t, v, r⟩ :: ts) := by
  unfold densitySum
  simp only [List.foldl_cons, foldl_add_eq_sum]
  ring

/-- … and the same composite stopping coefficient: `S` is additive in the density of a species -/
theorem beamStopping_split (sqrt : α → α) (cf : α) (bv : Vec α) (q : Nat) (n₁ n₂ t : α) (v : Vec α)
    (r : α → α → α → α) (ts : List (Target α)) :
    beamStopping sqrt cf bv (⟨q, n₁, t, v, r⟩ :: ⟨q, n₂, t, v, r⟩ :: ts) =
      beamStopping sqrt cf bv (⟨q, n₁ + n₂, t, v, r⟩ :: ts) := by
  unfold beamStopping
  rw [densitySum_split]
  simp only [List.foldl_cons, foldl_add_eq_sum, stoppingTerm, rateArgs]
  ring

section Examples

-- non-vacuity: a genuine reordering of two different species, and the value both orders give (70, as in Props/C04)
example : [(⟨1, 2, 0, (0, 0, 0), fun _ n _ => n⟩ : Target ℚ), ⟨2, 3, 0, (0, 0, 0), fun _ n _ => n⟩].Perm
    [⟨2, 3, 0, (0, 0, 0), fun _ n _ => n⟩, ⟨1, 2, 0, (0, 0, 0), fun _ n _ => n⟩] := List.Perm.swap _ _ _
example : beamStopping (fun x : ℚ => x) 1 (0, 0, 0)
    [⟨2, 3, 0, (0, 0, 0), fun _ n _ => n⟩, ⟨1, 2, 0, (0, 0, 0), fun _ n _ => n⟩] = 70 := by
  norm_num [beamStopping, densitySum, stoppingTerm, rateArgs, List.foldl]
-- a per-point reordering for a two-point axis
example : List.Forall₂ List.Perm
    [[(⟨1, 2, 0, (0, 0, 0), fun _ n _ => n⟩ : Target ℚ), ⟨2, 3, 0, (0, 0, 0), fun _ n _ => n⟩], []]
    [[⟨2, 3, 0, (0, 0, 0), fun _ n _ => n⟩, ⟨1, 2, 0, (0, 0, 0), fun _ n _ => n⟩], []] :=
  .cons (List.Perm.swap _ _ _) (.cons .nil .nil)
-- split: 2 = 1/2 + 3/2 of the charge-1 species gives the same 70
example : beamStopping (fun x : ℚ => x) 1 (0, 0, 0)
    [⟨1, 1 / 2, 0, (0, 0, 0), fun _ n _ => n⟩, ⟨1, 3 / 2, 0, (0, 0, 0), fun _ n _ => n⟩,
     ⟨2, 3, 0, (0, 0, 0), fun _ n _ => n⟩] = 70 := by
  norm_num [beamStopping, densitySum, stoppingTerm, rateArgs, List.foldl]

end Examples

end Cherab.Props.C04
