import Cherab.Model.Equilibrium
import Mathlib.Tactic.Ring
import Mathlib.Tactic.Linarith
import Mathlib.Tactic.NormNum
import Mathlib.Algebra.Order.Field.Basic
import Mathlib.Data.List.Rotate

/-!
# C12 — the LCFS polygon mask (round 6)

`PolygonMask2D.evaluate` (cherab/core/math/mask.pyx) and the winding-number test it falls back on, as transcribed in
`Cherab/Model/Equilibrium.lean` (`windingEdge`, `windingNumber`, `pointInsidePolygon`, `closePolygon`, `polygonMask`),
over an arbitrary ordered field.  The triangulated mesh value is a parameter.
-/
namespace Cherab.Props.C12
set_option linter.unusedSectionVars false
set_option linter.unusedVariables false
open Cherab.Equilibrium

variable {α : Type} [Field α] [LinearOrder α] [IsStrictOrderedRing α]

/-! ## the mask as a decision -/

/-- the mask is a 0/1 function -/
theorem polygonMask_zero_or_one (mesh : α) (vs : List (α × α)) (x y : α) :
    polygonMask mesh vs x y = 0 ∨ polygonMask mesh vs x y = 1 := by
  unfold polygonMask; split_ifs <;> simp

/-- it is 1 exactly where the mesh finds a triangle or the winding number of the closed boundary is non-zero -/
theorem polygonMask_eq_one_iff (mesh : α) (vs : List (α × α)) (x y : α) :
    polygonMask mesh vs x y = 1 ↔ (0 < mesh ∨ windingNumber (closePolygon vs) x y ≠ 0) := by
  unfold polygonMask pointInsidePolygon
  split_ifs with h1 h2
  · simp [h1]
  · simp only [bne_iff_ne] at h2; simp [h2]
  · simp only [bne_iff_ne, ne_eq, not_not] at h2; simp [h1, h2]

/-- the fallback never removes a point the mesh had found (the C12-1 fix is monotone) -/
theorem polygonMask_of_mesh (mesh : α) (vs : List (α × α)) (x y : α) (h : 0 < mesh) : polygonMask mesh vs x y = 1 :=
  (polygonMask_eq_one_iff mesh vs x y).mpr (Or.inl h)

/-- **The mask is decided by the winding number alone** as soon as the triangulation is *sound* (a triangle is only found at
points of non-zero winding number).  Completeness of the mesh — what finding C12-1 refuted on internal triangulation edges —
is no longer needed: whatever the mesh answers at such a point, the mask is 1. -/
theorem polygonMask_eq_winding (mesh : α) (vs : List (α × α)) (x y : α)
    (sound : 0 < mesh → windingNumber (closePolygon vs) x y ≠ 0) :
    polygonMask mesh vs x y = if windingNumber (closePolygon vs) x y ≠ 0 then 1 else 0 := by
  split_ifs with h
  · exact (polygonMask_eq_one_iff mesh vs x y).mpr (Or.inr h)
  · rcases polygonMask_zero_or_one mesh vs x y with h0 | h1
    · exact h0
    · rcases (polygonMask_eq_one_iff mesh vs x y).mp h1 with hm | hw
      · exact absurd (sound hm) h
      · exact absurd hw h

/-- `inside_lcfs` with the mask written out: 1 iff (mesh or winding) and psi_n ≤ 1 -/
theorem insideLcfs_polygonMask (mesh psin : α) (vs : List (α × α)) (x y : α) :
    insideLcfs (polygonMask mesh vs x y) psin = 1 ↔
      ((0 < mesh ∨ windingNumber (closePolygon vs) x y ≠ 0) ∧ psin ≤ 1) := by
  rw [← polygonMask_eq_one_iff]
  unfold insideLcfs
  rcases polygonMask_zero_or_one mesh vs x y with h | h <;> rw [h] <;> split_ifs with hc <;> simp_all

/-! ## the winding number is a sum over edges: independent of the starting vertex -/

/-- a path may be cut at any vertex -/
theorem windingNumber_split (l : List (α × α)) (m : α × α) (r : List (α × α)) (px py : α) :
    windingNumber (l ++ m :: r) px py = windingNumber (l ++ [m]) px py + windingNumber (m :: r) px py := by
  induction l with
  | nil => simp [windingNumber]
  | cons a t ih =>
    cases t with
    | nil => simp [windingNumber]
    | cons b t' =>
      have e1 : (a :: b :: t') ++ m :: r = a :: b :: (t' ++ m :: r) := rfl
      have e2 : (a :: b :: t') ++ [m] = a :: b :: (t' ++ [m]) := rfl
      rw [e1, e2]
      simp only [windingNumber]
      have := ih
      simp only [List.cons_append] at this
      rw [this]; ring

/-- starting the boundary one vertex later does not change the winding number -/
theorem windingNumber_rotate_one (vs : List (α × α)) (px py : α) :
    windingNumber (closePolygon (vs.rotate 1)) px py = windingNumber (closePolygon vs) px py := by
  cases vs with
  | nil => rfl
  | cons a t =>
    cases t with
    | nil => simp
    | cons b t' =>
      have e1 : closePolygon ((a :: b :: t').rotate 1) = (b :: t') ++ a :: [b] := by
        simp [closePolygon, List.rotate_cons_succ]
      have e2 : closePolygon (a :: b :: t') = a :: ((b :: t') ++ [a]) := by
        simp [closePolygon]
      rw [e1, e2, windingNumber_split]
      have e3 : a :: ((b :: t') ++ [a]) = a :: b :: (t' ++ [a]) := rfl
      rw [e3]
      simp only [windingNumber, List.cons_append]
      ring

/-- **Representation independence**: the winding number, hence the mask, does not depend on which vertex the caller lists
first. -/
theorem windingNumber_rotate (vs : List (α × α)) (k : ℕ) (px py : α) :
    windingNumber (closePolygon (vs.rotate k)) px py = windingNumber (closePolygon vs) px py := by
  induction k with
  | zero => simp
  | succ k ih => rw [← List.rotate_rotate, windingNumber_rotate_one, ih]

theorem polygonMask_rotate (mesh : α) (vs : List (α × α)) (k : ℕ) (x y : α) :
    polygonMask mesh (vs.rotate k) x y = polygonMask mesh vs x y := by
  unfold polygonMask pointInsidePolygon; rw [windingNumber_rotate]

/-! ## orientation -/

/-- `side` of the reversed edge is the negative: the edge contributes with the opposite sign -/
theorem windingEdge_swap (a b : α × α) (px py : α) : windingEdge b a px py = - windingEdge a b px py := by
  have hs : (a.1 - b.1) * (py - b.2) - (px - b.1) * (a.2 - b.2)
      = -((b.1 - a.1) * (py - a.2) - (px - a.1) * (b.2 - a.2)) := by ring
  unfold windingEdge
  rw [hs]
  generalize (b.1 - a.1) * (py - a.2) - (px - a.1) * (b.2 - a.2) = s
  have n1 : (-s > 0) ↔ s < 0 := neg_pos
  have n2 : (-s < 0) ↔ 0 < s := neg_lt_zero
  simp only [n1, n2, gt_iff_lt]
  rcases le_or_gt a.2 py with h1 | h1 <;> rcases le_or_gt b.2 py with h2 | h2
  · simp [h1, h2, not_lt.mpr h1, not_lt.mpr h2]
  · simp only [h1, not_le.mpr h2, h2, if_true, if_false]; split_ifs <;> simp
  · simp only [not_le.mpr h1, h1, h2, if_true, if_false]; split_ifs <;> simp
  · simp [not_le.mpr h1, not_le.mpr h2]

/-- traversing a path backwards negates its winding number -/
theorem windingNumber_reverse (l : List (α × α)) (px py : α) :
    windingNumber l.reverse px py = - windingNumber l px py := by
  induction l with
  | nil => rfl
  | cons a t ih =>
    cases t with
    | nil => rfl
    | cons b t' =>
      have e : (a :: b :: t').reverse = t'.reverse ++ b :: [a] := by simp
      rw [e, windingNumber_split]
      have e2 : t'.reverse ++ [b] = (b :: t').reverse := by simp
      rw [e2, ih]
      simp only [windingNumber]
      rw [windingEdge_swap a b]; ring

/-- **Orientation independence**: a clockwise and an anticlockwise listing of the same boundary give the same mask. -/
theorem pointInsidePolygon_reverse (vs : List (α × α)) (px py : α) :
    pointInsidePolygon (closePolygon vs.reverse) px py = pointInsidePolygon (closePolygon vs) px py := by
  unfold pointInsidePolygon
  cases vs with
  | nil => rfl
  | cons a t =>
    have e : closePolygon (a :: t) = a :: (t ++ [a]) := by simp [closePolygon]
    have hrot : (a :: t).reverse = (a :: t.reverse).rotate 1 := by
      simp [List.rotate_cons_succ]
    have e' : closePolygon (a :: t.reverse) = (closePolygon (a :: t)).reverse := by
      simp [closePolygon]
    rw [hrot, windingNumber_rotate_one, e', windingNumber_reverse]
    rw [Bool.eq_iff_iff]; simp only [bne_iff_ne, ne_eq, neg_eq_zero]

/-! ## geometric meaning on a rectangle (half-open convention of the code) -/

/-- for the axis-aligned rectangle `[a, b] × [c, d]` listed anticlockwise the winding-number test is
`a ≤ x < b ∧ c ≤ y < d`: left and bottom edges belong to the polygon, right and top edges do not. -/
theorem pointInsidePolygon_rectangle (a b c d px py : α) (hab : a < b) (hcd : c < d) :
    pointInsidePolygon (closePolygon [(a, c), (b, c), (b, d), (a, d)]) px py = true ↔
      (a ≤ px ∧ px < b ∧ c ≤ py ∧ py < d) := by
  have hdc : 0 < d - c := sub_pos.mpr hcd
  have k1 : (b - b) * (py - c) - (px - b) * (d - c) > 0 ↔ px < b := by
    constructor
    · intro h; by_contra hn; rw [not_lt] at hn
      have : 0 ≤ (px - b) * (d - c) := mul_nonneg (sub_nonneg.mpr hn) hdc.le
      linarith
    · intro h
      have : (px - b) * (d - c) < 0 := mul_neg_of_neg_of_pos (sub_neg.mpr h) hdc
      linarith
  have k2 : (a - a) * (py - d) - (px - a) * (c - d) < 0 ↔ px < a := by
    have e : (a - a) * (py - d) - (px - a) * (c - d) = (px - a) * (d - c) := by ring
    rw [e]
    constructor
    · intro h; by_contra hn; rw [not_lt] at hn
      have : 0 ≤ (px - a) * (d - c) := mul_nonneg (sub_nonneg.mpr hn) hdc.le
      linarith
    · intro h; exact mul_neg_of_neg_of_pos (sub_neg.mpr h) hdc
  have e1 : windingEdge (a, c) (b, c) px py = 0 := by
    simp only [windingEdge]
    rcases le_or_gt c py with h | h
    · simp [h, not_lt.mpr h]
    · simp [not_le.mpr h]
  have e3 : windingEdge (b, d) (a, d) px py = 0 := by
    simp only [windingEdge]
    rcases le_or_gt d py with h | h
    · simp [h, not_lt.mpr h]
    · simp [not_le.mpr h]
  have e2 : windingEdge (b, c) (b, d) px py = if c ≤ py ∧ py < d ∧ px < b then 1 else 0 := by
    simp only [windingEdge, k1]
    rcases le_or_gt c py with h1 | h1
    · simp only [h1, if_true, true_and, gt_iff_lt]; split_ifs <;> simp_all
    · have h2 : ¬ d ≤ py := not_le.mpr (lt_trans h1 hcd)
      simp [not_le.mpr h1, h2]
  have e4 : windingEdge (a, d) (a, c) px py = if c ≤ py ∧ py < d ∧ px < a then -1 else 0 := by
    simp only [windingEdge, k2]
    rcases le_or_gt d py with h2 | h2
    · have h3 : ¬ py < c := not_lt.mpr (le_trans hcd.le h2)
      have h4 : ¬ py < d := not_lt.mpr h2
      simp [h2, h3, h4]
    · simp only [not_le.mpr h2, if_false]; split_ifs <;> simp_all
  have hw : windingNumber (closePolygon [(a, c), (b, c), (b, d), (a, d)]) px py
      = (if c ≤ py ∧ py < d ∧ px < b then 1 else 0) + (if c ≤ py ∧ py < d ∧ px < a then -1 else 0) := by
    have ec : closePolygon [(a, c), (b, c), (b, d), (a, d)] = [(a, c), (b, c), (b, d), (a, d), (a, c)] := rfl
    rw [ec]
    simp only [windingNumber, e1, e2, e3, e4]; ring
  unfold pointInsidePolygon
  rw [hw]
  simp only [bne_iff_ne, ne_eq]
  by_cases hy1 : c ≤ py <;> by_cases hy2 : py < d <;> by_cases hx1 : px < a <;> by_cases hx2 : px < b <;>
    simp [hy1, hy2, hx1, hx2] <;> linarith

/-- non-vacuity / the documented example of mask.pyx: `(0.5, 0.5)` inside, `(-0.5, 0.5)` outside the unit square -/
example : pointInsidePolygon (closePolygon [((0 : ℚ), (0 : ℚ)), (1, 0), (1, 1), (0, 1)]) (1 / 2) (1 / 2) = true :=
  (pointInsidePolygon_rectangle 0 1 0 1 _ _ (by norm_num) (by norm_num)).mpr (by norm_num)
example : ¬ pointInsidePolygon (closePolygon [((0 : ℚ), (0 : ℚ)), (1, 0), (1, 1), (0, 1)]) (-1 / 2) (1 / 2) = true := by
  rw [pointInsidePolygon_rectangle 0 1 0 1 _ _ (by norm_num) (by norm_num)]; norm_num

/-- non-vacuity of `polygonMask_eq_winding`: a crack point (mesh misses, winding number non-zero) of the unit square is inside -/
example : polygonMask (0 : ℚ) [(0, 0), (1, 0), (1, 1), (0, 1)] (1 / 2) (1 / 2) = 1 := by
  rw [polygonMask_eq_winding _ _ _ _ (fun h => absurd h (lt_irrefl _))]
  have h := (pointInsidePolygon_rectangle (0 : ℚ) 1 0 1 (1 / 2) (1 / 2) (by norm_num) (by norm_num)).mpr (by norm_num)
  unfold pointInsidePolygon at h
  simp only [bne_iff_ne, ne_eq] at h
  rw [if_pos h]

end Cherab.Props.C12
