import Cherab.Props.C08
open Cherab.Props.C08
#print axioms readvalues_chunks
#print axioms adf2x_roundtrip
#print axioms adf12_roundtrip
#print axioms adf12_absent_block_rejected
#print axioms adf11_roundtrip_partial
#print axioms probe_nonneg
#print axioms probe_after_fix
#print axioms adf11_unresolved_misdetected
#print axioms wrong_element_rejected
#print axioms element_check_iff
#print axioms adf11_absent_block
#print axioms axis_order
#print axioms axis_order15
#print axioms axis_order2x
#print axioms charge_offset
#print axioms charge_convention
#print axioms adf11_installed_partial
#print axioms dictOfList_nodup
#print axioms scrape_render
#print axioms extract_finds_block
#print axioms block_to_transition
#print axioms adf15_roundtrip
#print axioms absent_block_rejected
#print axioms lex_literals_pinned
#print axioms charge_list_pinned
#print axioms norm_pinned
