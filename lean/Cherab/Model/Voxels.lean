import Cherab.Gen.Voxels
/-
C17 — voxel cross-section area, centroid, volume, grid volume, emissivity sampling
(cherab/tools/inversions/voxels.pyx: AxisymmetricVoxel.__init__ (winding normalisation),
cross_sectional_area, cross_section_centroid, volume, emissivity_from_function;
VoxelCollection.total_volume).  Mathlib-free; polymorphic over notation so that the same definitions run
at `Float` in the driver and are reasoned about over an ordered field.

Transcribed from the code as it is: accumulation order, the `abs`, the `/ 2`, `/(6*area)` with Cython's
ZeroDivisionError, `volume`'s `except ZeroDivisionError: return 0`, the cumulative-area table and the
triangle lookup `find_index(cumulative_areas, total_area * uniform()) + 1` (raysect's bisection
`find_index`, transcribed as well), raysect's `point_triangle`.  External: `sqrt`, `π`, `triangulate2d`
(its output — index triples — is an input of the model), the uniform stream.
-/
namespace Cherab.Voxels

/-- closed polygon edges in code order: `(v0,v1), (v1,v2), …, (v_{n-1},v0)` (loop, then the closing term) -/
def edges {β : Type} : List β → List (β × β)
  | [] => []
  | v :: vs => (v :: vs).zip (vs ++ [v])

section
variable {α : Type} [Add α] [Sub α] [Mul α] [Div α] [Neg α] [Zero α] [One α] [OfScientific α] [NatCast α]
  [LT α] [LE α] [DecidableLT α] [DecidableLE α] [BEq α]

/-- `acc = 0; for each edge: acc += g(v_i, v_{i+1})` — the accumulation pattern of every loop in the file -/
def accum {β : Type} (g : β → β → α) (l : List β) : α :=
  (edges l).foldl (fun acc e => acc + g e.1 e.2) 0

/-- `x[i] * y[i + 1] - x[i + 1] * y[i]` -/
def cross (p q : α × α) : α := p.1 * q.2 - q.1 * p.2

/-- twice the signed area (shoelace sum) -/
def shoelace2 (l : List (α × α)) : α := accum cross l

/-- C `fabs` on the sign test (−0.0 stays −0.0, which compares equal to 0.0) -/
def absv (x : α) : α := if x < 0 then -x else x

/-- `cross_sectional_area`: `abs(area) / 2` -/
def area (l : List (α × α)) : α := absv (shoelace2 l) / 2.0

def cxTerm (p q : α × α) : α := (p.1 + q.1) * cross p q
def cyTerm (p q : α × α) : α := (p.2 + q.2) * cross p q

/-- `cross_section_centroid` (P. Bourke's formula); `none` = ZeroDivisionError raised by `cx /= (6 * area)` -/
def centroid (l : List (α × α)) : Option (α × α) :=
  let a := shoelace2 l / 2.0
  let d := 6.0 * a
  if d == 0 then none else some (accum cxTerm l / d, accum cyTerm l / d)

/-- `volume`: `2 * PI * centroid.x * area`, 0 when the centroid raises ZeroDivisionError (Pappus) -/
def volume (pi : α) (l : List (α × α)) : α :=
  match centroid l with
  | none => 0
  | some c => 2.0 * pi * c.1 * area l

/-- `VoxelCollection.total_volume`: `total = 0; for voxel: total += voxel.volume` -/
def totalVolume (vols : List α) : α := vols.foldl (· + ·) 0

/-- raysect `winding2d`: `Σ (y_i + y_{i+1}) (x_{i+1} − x_i) > 0` ⇔ clockwise -/
def windTerm (p q : α × α) : α := (p.2 + q.2) * (q.1 - p.1)
def windingSum (l : List (α × α)) : α := accum windTerm l
def clockwise (l : List (α × α)) : Bool := decide (windingSum l > 0)

/-- `__init__`: "Check the polygon is clockwise, if not => reverse it." -/
def normalise (l : List (α × α)) : List (α × α) := if clockwise l then l else l.reverse

/-- `__init__` argument checks, then the stored vertex list -/
def mkVoxel (l : List (α × α)) : Except String (List (α × α)) :=
  if l.length < 3 then .error "TypeError"
  else if l.any (fun v => decide (v.1 < 0)) then .error "ValueError"
  else .ok (normalise l)

/-- the per-vertex checks of `__init__`'s loop on raw rows, in loop order: row i is tested `len(vertex) != 2` → TypeError, then
`vertex[0] < 0` → ValueError, before row i+1 is looked at (the first offending row decides the exception) -/
def rowLadder : List (List α) → Except String (List (α × α))
  | [] => .ok []
  | r :: rs =>
    match r with
    | [x, y] =>
      if x < 0 then .error "ValueError"
      else
        match rowLadder rs with
        | .error e => .error e
        | .ok l => .ok ((x, y) :: l)
    | _ => .error "TypeError"

/-- `__init__` on raw rows (lists of coordinates of any length): `num_vertices >= 3`, the per-row ladder, the winding
normalisation -/
def mkVoxelRows (rows : List (List α)) : Except String (List (α × α)) :=
  if rows.length < 3 then .error "TypeError"
  else
    match rowLadder rows with
    | .error e => .error e
    | .ok l => .ok (normalise l)

/-! ### emissivity_from_function -/

/-- `0.5 * abs(x1*y2 + x2*y3 + x3*y1 - x2*y1 - x3*y2 - x1*y3)` -/
def triArea (a b c : α × α) : α :=
  0.5 * absv (a.1 * b.2 + b.1 * c.2 + c.1 * a.2 - b.1 * a.2 - c.1 * b.2 - a.1 * c.2)

def vtx (verts : List (α × α)) (i : Nat) : α × α := verts.getD i (0, 0)

def triAreas (verts : List (α × α)) (tris : List (Nat × Nat × Nat)) : List α :=
  tris.map fun t => triArea (vtx verts t.1) (vtx verts t.2.1) (vtx verts t.2.2)

/-- running sums: `cum[0] = a0; cum[j] = cum[j-1] + a_j` -/
def cumFrom (acc : α) : List α → List α
  | [] => []
  | a :: as => (acc + a) :: cumFrom (acc + a) as

def cumulativeAreas : List α → List α
  | [] => []
  | a :: as => a :: cumFrom a as

/-- raysect `find_index`'s bisection loop: `while (top - bottom) != 1: …` -/
def bisect (x : List α) (v : α) : Nat → Nat → Nat → Nat
  | 0, b, _ => b
  | fuel + 1, b, t =>
    if t - b = 1 then b
    else
      let m := (t + b) / 2
      if v ≥ x.getD m 0 then bisect x v fuel m t else bisect x v fuel b m

/-- raysect.core.math.cython.utility.find_index -/
def findIndex (x : List α) (v : α) : Int :=
  if v < x.getD 0 0 then -1
  else
    let top := x.length - 1
    if v ≥ x.getD top 0 then (top : Int)
    else (bisect x v x.length 0 top : Nat)

/-- the lookup statement of the `num_triangles > 1` branch.  As found in the code:
`tri_index = find_index(cumulative_areas, total_area * uniform()) + 1` (`scaleTotal = true`, `clamped = false`);
the two switches are read from the source by `harness/translators/voxels.py` (`Cherab/Gen/Voxels.lean`). -/
def lookup (scaleTotal clamped : Bool) (cum : List α) (total u : α) : Int :=
  let scale := if scaleTotal then total else cum.getD (cum.length - 1) 0
  let i := findIndex cum (scale * u) + 1
  if clamped then (if i ≥ (cum.length : Int) then (cum.length : Int) - 1 else i) else i

def pickTriangleG (scaleTotal clamped : Bool) (cum : List α) (total u : α) : Int :=
  if cum.length > 1 then lookup scaleTotal clamped cum total u else 0

/-- the lookup as the current source has it -/
def pickTriangle (cum : List α) (total u : α) : Int :=
  pickTriangleG Cherab.Gen.Voxels.pickScaleIsTotal Cherab.Gen.Voxels.pickClamped cum total u

/-- raysect `point_triangle` restricted to the (x, z) components -/
def samplePoint (sqrt : α → α) (v1 v2 v3 : α × α) (u1 u2 : α) : α × α :=
  let temp := sqrt u1
  let alpha := 1 - temp
  let beta := u2 * temp
  let gamma := 1 - alpha - beta
  (alpha * v1.1 + beta * v2.1 + gamma * v3.1, alpha * v1.2 + beta * v2.2 + gamma * v3.2)

/-- second half of one pass: bounds of the looked-up index (the code does not check them: boundscheck off, so
`error "IndexOutOfRange"` stands for a read outside `_triangles`), then `point_triangle` -/
def finishDraw (sqrt : α → α) (verts : List (α × α)) (tris : List (Nat × Nat × Nat)) (ti : Int)
    (u1 u2 : α) (r : List α) : Except String ((Nat × (α × α)) × List α) :=
  if ti < 0 ∨ ti ≥ (tris.length : Int) then .error "IndexOutOfRange"
  else
    match tris[ti.toNat]? with
    | some t => .ok ((ti.toNat, samplePoint sqrt (vtx verts t.1) (vtx verts t.2.1) (vtx verts t.2.2) u1 u2), r)
    | none => .error "IndexOutOfRange"

/-- one pass of the sampling loop: consumes 3 uniforms (2 when there is a single triangle) -/
def drawOne (sqrt : α → α) (verts : List (α × α)) (tris : List (Nat × Nat × Nat)) (cum : List α)
    (total : α) (us : List α) : Except String ((Nat × (α × α)) × List α) :=
  if tris.length > 1 then
    match us with
    | u :: u1 :: u2 :: r =>
      finishDraw sqrt verts tris
        (lookup Cherab.Gen.Voxels.pickScaleIsTotal Cherab.Gen.Voxels.pickClamped cum total u) u1 u2 r
    | _ => .error "StreamExhausted"
  else
    match us with
    | u1 :: u2 :: r => finishDraw sqrt verts tris 0 u1 u2 r
    | _ => .error "StreamExhausted"

/-- the sampling loop; returns the samples drawn before the first error (if any) and that error -/
def drawN (sqrt : α → α) (verts : List (α × α)) (tris : List (Nat × Nat × Nat)) (cum : List α)
    (total : α) : Nat → List α → List (Nat × (α × α)) × Option String
  | 0, _ => ([], none)
  | n + 1, us =>
    match drawOne sqrt verts tris cum total us with
    | .error e => ([], some e)
    | .ok (s, us') =>
      let r := drawN sqrt verts tris cum total n us'
      (s :: r.1, r.2)

/-- `emissivity = 0; for …: emissivity += f(x, 0, z)`; `emissivity /= grid_samples` -/
def meanOf (f : α → α → α) (ss : List (Nat × (α × α))) (n : Nat) : α :=
  (ss.foldl (fun acc s => acc + f s.2.1 s.2.2) 0) / (n : α)

/-- `emissivity_from_function(f, grid_samples)` on the stored (normalised) vertices, raysect's triangles and
the uniform stream; returns the samples too so that the correspondence can compare them one by one -/
def emissivity (sqrt : α → α) (f : α → α → α) (verts : List (α × α)) (tris : List (Nat × Nat × Nat))
    (n : Nat) (us : List α) : Except String (α × List (Nat × (α × α))) :=
  let cum := cumulativeAreas (triAreas verts tris)
  match drawN sqrt verts tris cum (area verts) n us with
  | (_, some e) => .error e
  | (ss, none) => if n = 0 then .error "ZeroDivisionError" else .ok (meanOf f ss n, ss)

/-- uniforms consumed by one `emissivity_from_function(f, n)` call -/
def consumed (tris : List (Nat × Nat × Nat)) (n : Nat) : Nat := n * (if tris.length > 1 then 3 else 2)

/-- `VoxelCollection.emissivities_from_function`: `for i in range(count): out[i] = voxel_i.emissivity_from_function(f, n)`;
all voxels draw from the one global uniform stream, in collection order; the first exception aborts the call -/
def emissivities (sqrt : α → α) (f : α → α → α) :
    List (List (α × α) × List (Nat × Nat × Nat)) → Nat → List α → Except String (List α)
  | [], _, _ => .ok []
  | vt :: vs, n, us =>
    match emissivity sqrt f vt.1 vt.2 n us with
    | .error e => .error e
    | .ok er =>
      match emissivities sqrt f vs n (us.drop (consumed vt.2 n)) with
      | .error e => .error e
      | .ok r => .ok (er.1 :: r)

/-! ### VoxelCollection / ToroidalVoxelGrid as a state machine

State = the voxels' volumes (`_voxels`, fixed at construction) and which voxels are currently parented to the grid.
`total_volume` iterates `_voxels` — all voxels — whatever their parent. -/

inductive GridOp where
  | activeAll                 -- set_active('all')
  | active (i : Nat)          -- set_active(i): IndexError when out of range (state unchanged)
  | unparentAll               -- unparent_all_voxels()
  | parentAll                 -- parent_all_voxels()
  | setParent (i : Nat) (b : Bool)   -- grid[i].parent = grid / None
  deriving Repr

structure Grid (α : Type) where
  vols : List α
  parented : List Bool

def Grid.mk' (vols : List α) (active : Option Nat) : Grid α :=
  match active with
  | none => ⟨vols, vols.map fun _ => true⟩
  | some i => ⟨vols, (List.range vols.length).map fun j => j == i⟩

def Grid.step (g : Grid α) : GridOp → Grid α
  | .activeAll => ⟨g.vols, g.parented.map fun _ => true⟩
  | .active i => if i < g.vols.length then ⟨g.vols, (List.range g.parented.length).map fun j => j == i⟩ else g
  | .unparentAll => ⟨g.vols, g.parented.map fun _ => false⟩
  | .parentAll => ⟨g.vols, g.parented.map fun _ => true⟩
  | .setParent i b => ⟨g.vols, g.parented.set i b⟩

def Grid.run (g : Grid α) (ops : List GridOp) : Grid α := ops.foldl Grid.step g

/-- `VoxelCollection.total_volume` -/
def Grid.total (g : Grid α) : α := totalVolume g.vols

/-- totals observed after every operation of a history -/
def Grid.trace (g : Grid α) : List GridOp → List α
  | [] => []
  | op :: ops => (g.step op).total :: (g.step op).trace ops

end
end Cherab.Voxels
