"""C16 — spectroscopic instruments: settings follow parameters, calibration conserves the spectrum.

T  lean/Cherab/Props/C16.lean       generic: invalidation protocol (no_stale => settings equal those of a fresh instrument),
                                    interpreter invariant (never_attr_error), arithmetic over an ordered field
   lean/Cherab/Props/C16Table.lean  wf_* / covered_* / *_settings_follow on the tables generated from the source
   lean/Cherab/Props/C16Init.lean   init_total_* on the generated tables
   lean/Cherab/Props/C16Alias.lean  no_alias_* (no attribute keeps a caller-owned container, except the documented ones)
   lean/Cherab/Props/C16Machines.lean  value-level machines of Spectrometer / Polychromator: history = fresh instrument, rejected
                                    assignment changes nothing, constructor = fresh state, stored arrays always accepted layouts
K  translator   harness/translators/instrument_edges.py -> lean/Cherab/Gen/InstrumentEdges.lean (every run)
   shape stream the generated tables are *interpreted* by the Lean model (native driver) along random and exhaustive
                histories of setter / getter / method calls on the real classes: exception kind, which attributes are
                unset / None / assigned after every call, which attributes the call (re)wrote
   deps stream  the `deps` table derived in Lean vs. perturbation of every parameter of a real instrument
   value stream min/max wavelength, bin count, pixel centres, Czerny-Turner edges and resolution, polychromator
                settings, trapezoid corners, pipeline names, calibrate (model fed with raysect's integrate values)
S  direct oracles on the implementation (no model): history vs. fresh instance in the final configuration (every
   observable), fresh instance answers every public getter (init), range covers pixels/filters, bin width bound,
   calibrate value x width = independent integral of the piecewise-linear spectrum, failed setters change nothing.
"""
import importlib
import inspect
import json
import math
import os

import numpy as np

from harness.translators import instrument_edges as ie
from harness.vlib.util import f2b, b2f, fs, close, exc_kind, hexs, VERIF

MODS = ['cherab.tools.spectroscopy.instrument', 'cherab.tools.spectroscopy.spectrometer',
        'cherab.tools.spectroscopy.polychromator']


# ------------------------------------------------------------------------------------------------ real classes
def find_class(name):
    for m in MODS:
        mod = importlib.import_module(m)
        if hasattr(mod, name):
            return getattr(mod, name)
    raise KeyError(name)


def make_filter(spec):
    from cherab.tools.spectroscopy import TrapezoidalFilter, PolychromatorFilter
    if spec[0] == 'trap':
        _, c, w, ft, nm = spec
        return TrapezoidalFilter(c, w, ft, nm)
    _, wl, smp, nm = spec
    return PolychromatorFilter(wl, smp, name=nm)


class Values:
    """turns JSON-able value specs into the objects handed to the real setters (filters are cached so that the
    history instance and the fresh instance share the same filter objects, as a user would)"""

    def __init__(self):
        self.filters = {}

    def make(self, prop, spec, wrap=0):
        if prop == 'filters':
            out = []
            for s in spec:
                k = json.dumps(s)
                if k not in self.filters:
                    self.filters[k] = make_filter(s)
                out.append(self.filters[k])
            return out if wrap % 2 == 0 else tuple(out)
        if prop == 'wavelength_to_pixel':
            if wrap % 3 == 0:
                return [list(a) for a in spec]
            if wrap % 3 == 1:
                return tuple(np.array(a, dtype=float) for a in spec)
            return tuple(tuple(a) for a in spec)
        if prop == 'accommodated_spectra':
            return tuple((a, b) for a, b in spec)
        return spec


PRIMARY_SETTERS = ['wavelength_to_pixel', 'min_bins_per_pixel', 'name', 'diffraction_order', 'grating', 'focal_length',
                   'pixel_spacing', 'diffraction_angle', 'accommodated_spectra', 'filters', 'min_bins_per_window']

NAMES = ['', 'a', 'MySpectrometer', 'H-alpha', 'poly 1', 'x: y', 'ünï']


def gen_edges(rng):
    n = rng.randint(1, 10)
    start = rng.choice([rng.uniform(200, 900), float(rng.randint(300, 800)), rng.randint(2400, 6400) / 8.0])
    style = rng.random()
    e = [start]
    for _ in range(n):
        if style < 0.3:
            w = rng.randint(1, 40) / 8.0               # dyadic: double arithmetic is exact
        elif style < 0.6:
            w = rng.uniform(0.01, 5.0)
        else:
            w = 10 ** rng.uniform(-3, 1)
        e.append(e[-1] + w)
    return e


def gen_w2p(rng):
    k = rng.choice([1, 1, 2, 2, 3, 4])
    arrs = [gen_edges(rng) for _ in range(k)]
    if k > 1 and rng.random() < 0.3:                     # nested / overlapping layouts (survey + hi-res)
        a = arrs[0]
        lo, hi = a[0], a[-1]
        m = rng.randint(1, 6)
        inner = sorted(rng.uniform(lo, hi) for _ in range(m + 1))
        if all(y - x > 1e-6 for x, y in zip(inner, inner[1:])):
            arrs[1] = inner
    return arrs


def gen_filter(rng):
    if rng.random() < 0.7:
        c = rng.choice([rng.uniform(350, 900), float(rng.randint(400, 800)), rng.randint(3200, 6400) / 8.0])
        w = rng.choice([3.0, rng.uniform(0.5, 12), rng.randint(1, 64) / 8.0])
        ft = rng.choice([None, None, w * rng.uniform(0.1, 1.0), w])
        return ['trap', c, w, ft, rng.choice(NAMES)]
    n = rng.randint(2, 6)
    wl = sorted(rng.uniform(350, 900) for _ in range(n))
    if any(b - a < 1e-3 for a, b in zip(wl, wl[1:])):
        wl = [400.0 + 2 * i for i in range(n)]
    smp = [rng.choice([0.0, 0.5, 1.0, rng.random()]) for _ in range(n)]
    order = list(range(n))
    rng.shuffle(order)                                   # the constructor sorts
    return ['poly', [wl[i] for i in order], [smp[i] for i in order], rng.choice(NAMES)]


CT_KEYS = ('diffraction_order', 'grating', 'focal_length', 'pixel_spacing', 'diffraction_angle', 'accommodated_spectra')


def ref_ct_edges(p):
    """independent reference (plain Python floats, nothing read from the instrument): the pixel edges of a Czerny-Turner
    spectrometer with constructor parameters `p`; None when the geometry is not on a legal branch (resolution not a
    positive finite number somewhere on the detector)"""
    try:
        m = int(p['diffraction_order'])
        g, fl, dx = float(p['grating']), float(p['focal_length']), float(p['pixel_spacing'])
        ang = math.radians(float(p['diffraction_angle']))
        c, t = math.cos(ang), math.tan(ang)
        out = []
        for w0, n in p['accommodated_spectra']:
            e = [float(w0)]
            for _ in range(int(n)):
                q = 0.5 * m * g * e[-1]
                rad = c * c - q * q
                if rad < 0:
                    return None
                res = dx * (math.sqrt(rad) - q * t) / (m * fl * g)
                if not (res > 0 and math.isfinite(res)):
                    return None
                e.append(e[-1] + res)
            if not all(b > a for a, b in zip(e, e[1:])):
                return None
            out.append(e)
        return out
    except Exception:  # noqa
        return None


def ct_ok(p):
    if not all(k in p for k in CT_KEYS):
        return True
    e = ref_ct_edges(p)
    if e is None:
        return False
    # stay clear of the branch point (sqrt argument -> 0) where one ulp decides
    m, g = int(p['diffraction_order']), float(p['grating'])
    c = math.cos(math.radians(float(p['diffraction_angle'])))
    return all(0.5 * m * g * a[-1] < 0.9 * abs(c) for a in e)


def coincidences(prop, cur):
    """values that coincide numerically with a stored / internal representation of the current value of `prop`
    (the same value again, radians <-> degrees, nm <-> m, reciprocal)"""
    old = cur.get(prop)
    if old is None:
        return []
    if prop == 'diffraction_angle':
        return [old, float(np.deg2rad(old)), float(np.rad2deg(old)), math.radians(old), 180.0 - old if old < 180 else old]
    if prop in ('grating', 'focal_length', 'pixel_spacing'):
        return [old, 1.0 / old, old * 1e-9, old * 1e9, float(np.float64(old)), old * (1 + 2 ** -52)]
    if prop in ('diffraction_order', 'min_bins_per_pixel', 'min_bins_per_window'):
        return [old, float(old), int(old) + 0.5, np.int64(old)]
    if prop == 'name':
        return [old, str(old)]
    if prop in ('accommodated_spectra', 'wavelength_to_pixel', 'filters'):
        return [json.loads(json.dumps(old))]          # an equal but distinct object
    return [old]


def gen_value(rng, prop, old=None, cur=None, coincide=0.0):
    """a fresh valid value for `prop`; with `cur` (the current constructor parameters) the Czerny-Turner geometry stays on
    a legal branch (checked with the independent reference); with probability `coincide` a value that coincides
    numerically with a stored representation of the current one"""
    if cur is not None and coincide and rng.random() < coincide:
        cands = [v for v in coincidences(prop, cur) if ct_ok(dict(cur, **{prop: v}))
                 and not (prop in ('diffraction_order', 'min_bins_per_pixel', 'min_bins_per_window') and int(v) < 1)]
        if cands:
            v = rng.choice(cands)
            return v.item() if isinstance(v, np.generic) and prop not in ('diffraction_order',) else v
    for _ in range(400):
        v = _gen_value(rng, prop, old)
        if cur is None or prop not in CT_KEYS or ct_ok(dict(cur, **{prop: v})):
            return v
    return old if old is not None else v          # no other legal value in the pool: assign the same value again


def _gen_value(rng, prop, old=None):
    for _ in range(50):
        if prop == 'wavelength_to_pixel':
            v = gen_w2p(rng)
        elif prop in ('min_bins_per_pixel', 'min_bins_per_window'):
            v = rng.choice([1, 2, 3, 5, 10, rng.randint(1, 40)])
        elif prop == 'name':
            v = rng.choice(NAMES)
        elif prop == 'diffraction_order':
            v = rng.randint(1, 3)
        elif prop == 'grating':
            v = rng.choice([rng.uniform(2e-4, 5e-4), 10 ** rng.uniform(-4.7, -3.3), 2e-3])
        elif prop == 'focal_length':
            v = rng.uniform(5e8, 2e9)
        elif prop == 'pixel_spacing':
            v = rng.choice([rng.uniform(1e4, 3e4), rng.uniform(1e4, 3e4), 5e3, rng.uniform(3e3, 8e3)])
        elif prop == 'diffraction_angle':
            # the whole legal range: acute, near-normal, obtuse (tan < 0: pixel width grows with wavelength), beyond 180
            v = rng.choice([10.0, rng.uniform(5, 30), rng.uniform(30, 88), rng.uniform(92, 150), rng.uniform(150, 178),
                            100.0, rng.uniform(182, 268)])
        elif prop == 'accommodated_spectra':
            v = [[rng.choice([rng.uniform(300, 700), float(rng.randint(300, 700))]), rng.randint(1, 16)]
                 for _ in range(rng.randint(1, 3))]
        elif prop == 'filters':
            v = [gen_filter(rng) for _ in range(rng.randint(1, 4))]
        else:
            raise KeyError(prop)
        if v != old:
            return v
    raise RuntimeError('no fresh value for ' + prop)


BAD = {
    'wavelength_to_pixel': [[[400.0]], [[400.0, 399.0]], [[400.0, 400.0, 401.0]], [[400.0, 401.0], [5.0]], [[[1.0, 2.0], [3.0, 4.0]]]],
    'min_bins_per_pixel': [0, -3, 'abc'], 'min_bins_per_window': [0, -1, 'x'],
    'diffraction_order': [0, -1], 'grating': [0.0, -1e-3], 'focal_length': [0.0, -1.0], 'pixel_spacing': [0.0, -5.0],
    'diffraction_angle': [0.0, -10.0], 'accommodated_spectra': [[[-600.0, 5]], [[600.0, 0]], [[600.0, 4], [0.0, 3]]],
    'filters': 'BADFILTERS',
}


# ------------------------------------------------------------------------------------------------ observation
def canon(v):
    if isinstance(v, np.ndarray):
        return tuple(canon(x) for x in v.tolist())
    if isinstance(v, (list, tuple)):
        return tuple(canon(x) for x in v)
    if isinstance(v, dict):
        return tuple(sorted((k, canon(x)) for k, x in v.items()))
    if isinstance(v, (bool, int, str)) or v is None:
        return v
    if isinstance(v, (float, np.floating)):
        return float(v)
    if isinstance(v, (np.integer,)):
        return int(v)
    if isinstance(v, type):
        return 'class:' + v.__name__
    return 'obj:%s:%d' % (type(v).__name__, id(v))


def same(a, b):
    if isinstance(a, tuple) and isinstance(b, tuple):
        return len(a) == len(b) and all(same(x, y) for x, y in zip(a, b))
    if isinstance(a, float) and isinstance(b, float):
        return a == b or (math.isnan(a) and math.isnan(b))
    return type(a) == type(b) and a == b


def test_spectrum(lo, hi):
    from raysect.optical import Spectrum
    sp = Spectrum(lo - 1.0, hi + 1.0, 37)
    sp.samples[:] = [1.0 + 0.5 * math.sin(0.7 * i) + 0.01 * i for i in range(37)]
    return sp


def call_public(inst, name):
    """calls a public getter / method by its public name; returns (status, canonical value)"""
    try:
        attr = inspect.getattr_static(type(inst), name)
        if isinstance(attr, property):
            return 'ok', canon(getattr(inst, name))
        if name == 'create_pipelines':
            ps = inst.create_pipelines()
            return 'ok', tuple((type(p).__name__, p.name, id(getattr(p, 'filter', None)) if hasattr(p, 'filter') else None) for p in ps)
        if name == 'calibrate':
            lo, hi = inst.min_wavelength, inst.max_wavelength
            return 'ok', canon(inst.calibrate(test_spectrum(lo, hi)))
        if name == 'resolution':
            return 'ok', canon(inst.resolution(500.0))
        sig = inspect.signature(getattr(inst, name))
        if all(p.default is not inspect.Parameter.empty for p in sig.parameters.values()):
            return 'ok', canon(getattr(inst, name)())
        return 'skipped', None
    except Exception as e:  # noqa
        return exc_kind(e) + ':' + str(e)[:120], None


def shape_of(tab, d):
    return ''.join('U' if a not in d else ('N' if d[a] is None else 'V') for a in tab['attrs'])


SCALAR = (int, float, str, bool, np.integer, np.floating)


# ------------------------------------------------------------------------------------------------ instrument under test
class Rig:
    """one real instrument + the bookkeeping for the three K streams and the S oracles"""

    def __init__(self, ctx, tab, stream, vals):
        self.ctx, self.tab, self.stream, self.vals = ctx, tab, stream, vals
        self.cname = tab['name']
        self.cls = find_class(self.cname)
        self.setters = dict(tab['setters'])          # public name -> method id
        self.getters = dict(tab['getters'])
        self.params = {}                             # last successfully set spec of every constructor argument
        self.ctor_args = [a for a in inspect.signature(self.cls.__init__).parameters if a != 'self']
        self.log = []                                # JSON-able history
        self.inst = None
        self.wrap = 0

    def qual(self, mid):
        return self.tab['methods'][mid]

    # -- construction
    def construct(self, params):
        self.params = dict(params)
        self.log = [['new', dict(params)]]
        kwargs = {k: self.vals.make(k, v, self.wrap) for k, v in params.items()}
        try:
            self.inst = self.cls(**kwargs)
            status = 'ok'
        except Exception as e:  # noqa
            status = exc_kind(e) + ':' + str(e)[:120]
            self.inst = None
        self.stream.add('new ' + self.cname, self._shape_checker(status, {}, None, 'new'), 'shape:' + self.cname)
        return status

    def fresh(self):
        kwargs = {k: self.vals.make(k, v, self.wrap + 1) for k, v in self.params.items()}
        return self.cls(**kwargs)

    def _shape_checker(self, status, before, mid, what):
        tab = self.tab
        after = dict(self.inst.__dict__) if self.inst is not None else {}
        extra = sorted(set(after) - set(tab['attrs']))
        real_shape = shape_of(tab, after)
        changed, must = set(), set()
        for a in tab['attrs']:
            if (a in before) != (a in after):
                changed.add(a)
            elif a in after and before[a] is not after[a]:
                changed.add(a)
            elif a in after and after[a] is not None and not isinstance(after[a], SCALAR):
                must.add(a)      # a container that was *not* replaced: the model must not claim it was rewritten
        hist = list(self.log)

        def check(out):
            toks = out.split()
            if not toks:
                return 'empty model output'
            mstatus = toks[0]
            rstat = status.split(':')[0]
            if mstatus == 'ok':
                if rstat != 'ok':
                    return 'model: call returns; implementation raised %s' % status
            elif mstatus.startswith('AttributeError:'):
                if rstat != 'AttributeError' or mstatus.split(':')[1] not in status:
                    return 'model: %s; implementation: %s' % (mstatus, status)
            else:
                return 'model could not interpret the call: %s (implementation: %s)' % (out, status)
            if extra:
                return 'instance has attributes the translator did not see: %s' % extra
            if len(toks) < 3 or toks[1] != real_shape:
                return 'attribute shapes differ: model %s implementation %s (%s)' % (toks[1:2], real_shape, ','.join(tab['attrs']))
            w = set() if toks[2] == 'w=-' else set(toks[2][2:].split(','))
            if not changed <= w:
                return 'implementation changed %s, model wrote only %s' % (sorted(changed - w), sorted(w))
            ghost = (w & must)
            if ghost:
                return 'model claims %s were rewritten, the implementation kept the same objects' % sorted(ghost)
            if 'c=0' in toks[3:]:
                return 'protocol table clears(%s) differs from what the interpreter wrote in this state: %s' % (what, toks[2])
            return None
        check.history = hist
        check.what = what
        return check

    # -- operations
    def do_set(self, prop, spec):
        before = dict(self.inst.__dict__)
        self.wrap += 1
        val = self.vals.make(prop, spec, self.wrap)
        self.log.append(['set', prop, spec])
        try:
            setattr(self.inst, prop, val)
            status = 'ok'
            self.params[prop] = spec
        except Exception as e:  # noqa
            status = exc_kind(e) + ':' + str(e)[:120]
        self.stream.add('call ' + self.qual(self.setters[prop]), self._shape_checker(status, before, self.setters[prop], 'set ' + prop),
                        'shape:' + self.cname)
        self.ctx.count('op:set')
        return status

    def do_bad(self, prop, val):
        """invalid value: must raise and leave the instance untouched (the model is not consulted)"""
        before = dict(self.inst.__dict__)
        try:
            setattr(self.inst, prop, val)
            status = 'ok'
        except Exception as e:  # noqa
            status = exc_kind(e)
        after = self.inst.__dict__
        untouched = set(before) == set(after) and all(before[k] is after[k] for k in before)
        self.ctx.count('op:bad-value')
        if status == 'ok':
            self.params[prop] = '<invalid accepted>'
            return 'accepted', untouched
        return status, untouched

    def do_get(self, name):
        before = dict(self.inst.__dict__)
        self.log.append(['get', name])
        status, val = call_public(self.inst, name)
        if status == 'skipped':
            self.log.pop()
            self.ctx.count('public-method-skipped:' + name)
            return status, val
        self.stream.add('call ' + self.qual(self.getters[name]), self._shape_checker(status, before, self.getters[name], 'get ' + name),
                        'shape:' + self.cname)
        self.ctx.count('op:get')
        return status, val

    def observe_all(self, inst=None, through_rig=False):
        out = {}
        for name in self.getters:
            if through_rig:
                out[name] = self.do_get(name)
            else:
                out[name] = call_public(inst if inst is not None else self.inst, name)
        return out


class Stream:
    def __init__(self):
        self.lines, self.checks, self.names = [], [], []

    def add(self, line, check, name):
        self.lines.append(line)
        self.checks.append(check)
        self.names.append(name)


# ------------------------------------------------------------------------------------------------ value stream
def value_lines(ctx, rig, stream):
    """model numbers for the current parameters of rig.inst vs. what the instance reports"""
    inst = rig.inst
    desc = dict(cls=rig.cname, params=rig.params)
    if hasattr(inst, 'wavelength_to_pixel') and hasattr(inst, 'min_bins_per_pixel'):
        w2p = [list(map(float, a)) for a in inst.wavelength_to_pixel]
        st = [call_public(inst, n) for n in ('min_wavelength', 'max_wavelength', 'spectral_bins')]
        line = 'spec %d %d %s' % (inst.min_bins_per_pixel, len(w2p), ' '.join('%d %s' % (len(a), fs(a)) for a in w2p))

        def chk(out, st=st, desc=desc):
            if all(s == 'ok' for s, _ in st):
                t = out.split()
                if len(t) != 4:
                    return 'model %s, implementation %r' % (out, st)
                mn, mx, bins = b2f(t[0]), b2f(t[1]), int(t[3])
                if mn != st[0][1] or mx != st[1][1] or bins != st[2][1]:
                    return 'model (min,max,bins)=%r implementation %r' % ((mn, mx, bins), [v for _, v in st])
                return None
            if out != 'ValueError' or not all(s.startswith('ValueError') for s, _ in st):
                return 'model %s, implementation %r' % (out, st)
            return None
        chk.history, chk.what = desc, 'spectral settings'
        stream.add(line, chk, 'value:spectral-settings')
        ctx.case(key=('spec', line))
        for a, c in zip(w2p, inst.wavelengths):
            c = [float(x) for x in c]

            def chk2(out, c=c):
                m = [b2f(t) for t in out.split()]
                return None if m == c else 'pixel centres: model %r implementation %r' % (m, c)
            chk2.history, chk2.what = desc, 'wavelengths'
            stream.add('centres %d %s' % (len(a), fs(a)), chk2, 'value:wavelengths')
    if hasattr(inst, 'accommodated_spectra') and hasattr(inst, 'resolution'):
        ang = inst._diffraction_angle
        cosA, tanA = float(np.cos(ang)), float(np.tan(ang))
        consts = [cosA, tanA, float(inst.grating), float(inst.diffraction_order), float(inst.pixel_spacing), float(inst.focal_length)]
        for (w0, n), arr in zip(inst.accommodated_spectra, inst.wavelength_to_pixel):
            arr = [float(x) for x in arr]

            def chk3(out, arr=arr):
                m = [b2f(t) for t in out.split()]
                ok = len(m) == len(arr) and m[0] == arr[0] and all(close(x, y, 1e-12) for x, y in zip(m, arr))
                return None if ok else 'Czerny-Turner edges: model %r implementation %r' % (m[:4], arr[:4])
            chk3.history, chk3.what = desc, 'ct edges'
            stream.add('ctedges %d %s %s' % (int(n), f2b(w0), fs(consts)), chk3, 'value:ct-edges')
            ctx.case(key=('ct', f2b(w0), int(n), fs(consts)))
        wl = ctx.rng.uniform(300, 700)
        r = float(inst.resolution(wl))

        def chk4(out, r=r):
            return None if close(b2f(out), r, 1e-12) else 'resolution: model %r implementation %r' % (b2f(out), r)
        chk4.history, chk4.what = desc, 'resolution(%r)' % wl
        stream.add('ctres %s %s' % (fs(consts), f2b(wl)), chk4, 'value:ct-resolution')
    if hasattr(inst, 'filters') and hasattr(inst, 'min_bins_per_window'):
        fl = list(inst.filters)
        st = [call_public(inst, n) for n in ('min_wavelength', 'max_wavelength', 'spectral_bins')]
        trip = [x for f in fl for x in (f.min_wavelength, f.max_wavelength, f.window)]
        if fl and all(s == 'ok' for s, _ in st):
            def chk5(out, st=st):
                t = out.split()
                mn, mx, bins = b2f(t[0]), b2f(t[1]), int(t[3])
                if mn != st[0][1] or mx != st[1][1] or bins != st[2][1]:
                    return 'model (min,max,bins)=%r implementation %r' % ((mn, mx, bins), [v for _, v in st])
                return None
            chk5.history, chk5.what = desc, 'polychromator settings'
            stream.add('poly %d %d %s' % (inst.min_bins_per_window, len(fl), fs(trip)), chk5, 'value:poly-settings')
            ctx.case(key=('poly', inst.min_bins_per_window, fs(trip)))
        kw = call_public(inst, 'pipeline_kwargs')
        if kw[0] == 'ok':
            names = [dict(d)['name'] for d in kw[1]]

            def chk6(out, names=names):
                m = [bytes.fromhex(t).decode() if t != '-' else '' for t in out.split()]
                return None if m == names else 'pipeline names: model %r implementation %r' % (m, names)
            chk6.history, chk6.what = desc, 'pipeline names'
            stream.add('polynames %s %s' % (hexs(inst.name), ' '.join(hexs(f.name) for f in fl)), chk6, 'value:pipeline-names')
    elif hasattr(inst, 'wavelength_to_pixel'):
        kw = call_public(inst, 'pipeline_kwargs')
        if kw[0] == 'ok':
            names = [dict(d)['name'] for d in kw[1]]

            def chk7(out, names=names):
                m = [bytes.fromhex(t).decode() if t != '-' else '' for t in out.split()]
                return None if m == names else 'pipeline names: model %r implementation %r' % (m, names)
            chk7.history, chk7.what = desc, 'pipeline names'
            stream.add('specnames %s' % hexs(inst.name), chk7, 'value:pipeline-names')


def filter_lines(ctx, stream, spec, f):
    got = [float(f.min_wavelength), float(f.max_wavelength), float(f.window)]
    if spec[0] == 'trap':
        line = 'trap %s %s' % (f2b(spec[1]), f2b(spec[2]))
    else:
        line = 'filtertab %d %s' % (len(spec[1]), fs(spec[1]))       # as tabulated (unsorted): the model sorts

    def chk(out, got=got):
        m = [b2f(t) for t in out.split()]
        return None if m == got else 'filter bounds: model %r implementation %r' % (m, got)
    chk.history, chk.what = dict(filter=spec), 'filter bounds'
    stream.add(line, chk, 'value:filter')
    ctx.case(key=('filter', line))


# ------------------------------------------------------------------------------------------------ S oracles
def pl_integral(centres, samples, a, b):
    """independent oracle: exact integral over [a,b] of the piecewise-linear interpolant through (centres, samples),
    constant beyond the end points (what raysect documents for Spectrum.integrate), via its antiderivative"""
    def F(x):
        if x <= centres[0]:
            return samples[0] * (x - centres[0])
        tot = 0.0
        for i in range(len(centres) - 1):
            x0, x1, y0, y1 = centres[i], centres[i + 1], samples[i], samples[i + 1]
            if x >= x1:
                tot += 0.5 * (y0 + y1) * (x1 - x0)
            else:
                y = y0 + (y1 - y0) * (x - x0) / (x1 - x0)
                return tot + 0.5 * (y0 + y) * (x - x0)
        return tot + samples[-1] * (x - centres[-1])
    return F(b) - F(a)


def filter_geometry(spec):
    if spec[0] == 'trap':
        return spec[1] - 0.5 * spec[2], spec[1] + 0.5 * spec[2]
    return min(spec[1]), max(spec[1])


def monitor_settings(ctx, rig):
    """range covers pixels / filters; bin width bound -- evaluated on the implementation's own outputs"""
    inst = rig.inst
    replay = dict(kind='history', cls=rig.cname, history=list(rig.log))
    st = [call_public(inst, n) for n in ('min_wavelength', 'max_wavelength', 'spectral_bins')]
    if not all(s == 'ok' for s, _ in st):
        return
    mn, mx, bins = (v for _, v in st)
    if hasattr(inst, 'wavelength_to_pixel'):
        # the pixel layout the oracle uses is computed from the parameters the harness assigned, never read back from the
        # instrument: the explicit arrays for a Spectrometer, the independent recurrence for a Czerny-Turner one
        if 'wavelength_to_pixel' in rig.params:
            spec_arrays = rig.params['wavelength_to_pixel']
        else:
            spec_arrays = ref_ct_edges(rig.params)
            if spec_arrays is None:
                ctx.count('illegal-ct-geometry-skipped')
                return
            got = [[float(x) for x in a] for a in inst.wavelength_to_pixel]
            if not (len(got) == len(spec_arrays) and all(len(a) == len(b) and all(close(x, y, 1e-9) for x, y in zip(a, b)) for a, b in zip(got, spec_arrays))):
                ctx.count('ct-edges-differ-from-reference')
                if ctx.hist.get('ct-edges-differ-from-reference') == 1:
                    ctx.broke('correspondence', 'Czerny-Turner pixel edges vs. independent Python recurrence',
                              dict(params=rig.params, implementation=str(got)[:300], reference=str(spec_arrays)[:300]))
            ctx.count('ct-geometry:' + ('obtuse' if 90 < rig.params['diffraction_angle'] % 360 < 270 else 'acute'))
        arrs = [np.asarray(a, dtype=float) for a in spec_arrays]
        if any(np.any(np.diff(a) <= 0) or not np.all(np.isfinite(a)) for a in arrs):
            ctx.count('nonmonotone-layout-skipped')
            return
        for a in arrs:
            if a.min() < mn or a.max() > mx:
                ctx.fail('C16:%s:range-does-not-cover-pixels' % rig.cname,
                         'spectral range (%r, %r) does not contain pixel edges %r..%r' % (mn, mx, a.min(), a.max()), replay)
        narrow = min(float(np.diff(a).min()) for a in arrs) / int(rig.params['min_bins_per_pixel'])
        if bins <= 0 or (mx - mn) / bins > narrow * (1 + 1e-12):
            ctx.fail('C16:%s:bin-wider-than-narrowest-pixel' % rig.cname,
                     'bins=%r: bin width %r exceeds narrowest pixel / min_bins_per_pixel = %r' % (bins, (mx - mn) / max(bins, 1), narrow), replay)
        elif (mx - mn) / bins > narrow:
            ctx.count('float-gap:bin-width-within-1e-12')
    if hasattr(inst, 'filters') and len(inst.filters):
        geo = [filter_geometry(sp) for sp in rig.params['filters']]      # from the specs, not from the objects
        for lo, hi in geo:
            if lo < mn or hi > mx:
                ctx.fail('C16:%s:range-does-not-cover-filters' % rig.cname,
                         'range (%r, %r) does not contain filter (%r, %r)' % (mn, mx, lo, hi), replay)
        narrow = min(hi - lo for lo, hi in geo) / int(rig.params['min_bins_per_window'])
        if bins <= 0 or (mx - mn) / bins > narrow * (1 + 1e-12):
            ctx.fail('C16:%s:bin-wider-than-window-over-min-bins' % rig.cname,
                     'bins=%r: bin width %r exceeds narrowest window / min_bins_per_window = %r' % (bins, (mx - mn) / max(bins, 1), narrow), replay)
        elif (mx - mn) / bins > narrow:
            ctx.count('float-gap:bin-width-within-1e-12')
        ps = call_public(inst, 'create_pipelines')
        if ps[0] == 'ok':
            want = tuple(('RadiancePipeline0D', inst.name + ': ' + f.name, id(f)) for f in inst.filters)
            if ps[1] != want:
                ctx.fail('C16:%s:pipelines-do-not-match-filters' % rig.cname, 'create_pipelines() gave %r, filters are %r' % (ps[1], want), replay)


def compare_with_fresh(ctx, rig, where):
    """S: every observable of the history instance equals that of an instance built from the final parameters"""
    try:
        fresh = rig.fresh()
    except Exception as e:  # noqa
        ctx.fail('C16:%s:final-parameters-rejected-by-constructor' % rig.cname,
                 'constructor raised %s for parameters accepted by the setters' % exc_kind(e), dict(kind='history', cls=rig.cname, history=list(rig.log)))
        return True
    a = rig.observe_all()
    b = rig.observe_all(fresh)
    bad = [n for n in a if not (a[n][0].split(':')[0] == b[n][0].split(':')[0] and (a[n][1] is None) == (b[n][1] is None)
                                and (a[n][1] is None or same(a[n][1], b[n][1])))]
    if not bad:
        return True
    hist = shrink_history(rig, bad[0])
    setters = [op[1] for op in hist if op[0] == 'set']
    ctx.fail('C16:%s:stale:%s:after:%s' % (rig.cname, bad[0], '+'.join(setters) or 'construction'),
             '%s differs from a fresh %s with the final parameters after %s: history %r, fresh %r'
             % (bad[0], rig.cname, where, str(a[bad[0]])[:200], str(b[bad[0]])[:200]),
             dict(kind='history', cls=rig.cname, history=hist, observable=bad[0]))
    return False


def run_history(vals, tab, history, collect=None):
    """re-executes a logged history on a new real instance (no model); returns (instance, final params)"""
    cls = find_class(tab['name'])
    params = dict(history[0][1])
    inst = cls(**{k: vals.make(k, v) for k, v in params.items()})
    for op in history[1:]:
        if op[0] == 'set':
            try:
                setattr(inst, op[1], vals.make(op[1], op[2]))
                params[op[1]] = op[2]
            except Exception:  # noqa
                pass
        elif op[0] == 'get':
            r = call_public(inst, op[1])
            if collect is not None:
                collect.append((op[1], r))
    return inst, params


def history_fails(vals, tab, history, observable):
    try:
        inst, params = run_history(vals, tab, history)
        fresh = find_class(tab['name'])(**{k: vals.make(k, v, 1) for k, v in params.items()})
    except Exception:  # noqa
        return False
    a, b = call_public(inst, observable), call_public(fresh, observable)
    return not (a[0].split(':')[0] == b[0].split(':')[0] and (a[1] is None) == (b[1] is None) and (a[1] is None or same(a[1], b[1])))


def shrink_history(rig, observable):
    hist = list(rig.log)
    if not history_fails(rig.vals, rig.tab, hist, observable):
        return hist
    i = len(hist) - 1
    while i >= 1:
        cand = hist[:i] + hist[i + 1:]
        if history_fails(rig.vals, rig.tab, cand, observable):
            hist = cand
        i -= 1
    return hist


def init_monitor(ctx, vals, tab, params):
    """S: a freshly constructed instance answers every public getter / method (no AttributeError)"""
    cls = find_class(tab['name'])
    for name, _ in tab['getters']:
        inst = cls(**{k: vals.make(k, v) for k, v in params.items()})
        st, _v = call_public(inst, name)
        ctx.case(key=('init', tab['name'], name))
        if st.startswith('AttributeError'):
            attr = st.split("'")[-2] if st.count("'") >= 2 else '?'
            ctx.fail('C16:%s:uninitialised:%s' % (tab['name'], attr),
                     '%s(...).%s raises %s right after construction' % (tab['name'], name, st),
                     dict(kind='init', cls=tab['name'], params=params, getter=name, attribute=attr))
        elif st not in ('ok', 'skipped'):
            ctx.fail('C16:%s:fresh-getter-raises:%s' % (tab['name'], name), '%s on a fresh instance: %s' % (name, st),
                     dict(kind='init', cls=tab['name'], params=params, getter=name))


def calibrate_cases(ctx, stream, n):
    from raysect.optical import Spectrum
    from cherab.tools.spectroscopy import Spectrometer
    rng = ctx.rng
    for it in range(n):
        w2p = gen_w2p(rng)
        lo = min(a[0] for a in w2p)
        hi = max(a[-1] for a in w2p)
        style = rng.random() * 0.6 if it % 2 == 0 else 0.6 + rng.random() * 0.4
        rel, ct_params = 1e-9, None
        if style >= 0.6:
            # slowly varying layouts (round 5): nearly uniform / chirped below numpy's default atol of 1e-8 nm per pixel,
            # exactly uniform, and the high-resolution Czerny-Turner geometry; the source has structure on the pixel scale
            npix = rng.randint(3, 300)
            start = rng.uniform(300, 800)
            if style < 0.75:
                w = 10 ** rng.uniform(-3, -1)
                cq = rng.choice([-1, 1]) * 10 ** rng.uniform(-10, -8.4)
                while abs(cq) * 2 * npix >= 0.5 * w:
                    cq /= 10
                w2p = [[start + w * i + cq * i * i for i in range(npix + 1)]]
                kind = 'chirped'
            elif style < 0.85:
                w2p = [[float(x) for x in np.linspace(start, start + rng.uniform(0.05, 20), npix + 1)]]
                kind = 'uniform'
            else:
                for _ in range(200):
                    ct_params = dict(diffraction_order=rng.randint(1, 2), grating=rng.choice([2e-3, rng.uniform(5e-4, 2e-3)]),
                                     focal_length=1e9, pixel_spacing=rng.choice([5e3, rng.uniform(2e3, 2e4)]),
                                     diffraction_angle=rng.choice([10.0, rng.uniform(5, 40), rng.uniform(100, 170)]),
                                     accommodated_spectra=[[rng.uniform(300, 700), npix]], min_bins_per_pixel=1, name='')
                    if ct_ok(ct_params):
                        break
                w2p = ref_ct_edges(ct_params) or [[start + 0.002 * i for i in range(npix + 1)]]
                kind = 'czerny-turner'
                if it % 4 == 1:
                    rel = 1e-6          # edges of the real instrument differ from the reference by rounding
                else:
                    ct_params = None
            lo, hi = w2p[0][0], w2p[0][-1]
            smin, smax = lo - rng.choice([0.0, (hi - lo) * 0.1]), hi + rng.choice([0.0, (hi - lo) * 0.1])
            if ct_params is not None:
                smin, smax = lo - (hi - lo) * 0.05, hi + (hi - lo) * 0.05
            bins = max(2, int(npix * rng.uniform(0.7, 3.0)))
        elif style < 0.15:       # source bins aligned with dyadic pixel edges
            w2p = [list(np.cumsum([float(math.floor(a[0]))] + [rng.randint(1, 8) / 4.0 for _ in a[1:]])) for a in w2p]
            w2p = [[float(x) for x in a] for a in w2p]
            lo, hi = min(a[0] for a in w2p), max(a[-1] for a in w2p)
            smin, smax = math.floor(lo) - rng.randint(0, 2), math.ceil(hi) + rng.randint(0, 2)
            bins = int((smax - smin) * rng.choice([1, 2, 4, 8]))
        elif style < 0.3:      # source coarser than the pixels
            smin, smax = lo - rng.uniform(0, 5), hi + rng.uniform(0, 5)
            bins = rng.randint(1, 4)
        else:
            smin, smax = lo - rng.choice([0.0, rng.uniform(0, 3)]), hi + rng.choice([0.0, rng.uniform(0, 3)])
            bins = rng.randint(1, 400)
        bins = max(bins, 1)
        sp = Spectrum(smin, smax, bins)
        if style >= 0.6:
            sp.samples[:] = [1.0 + 10.0 * rng.random() for _ in range(bins)]
        else:
            sp.samples[:] = [rng.choice([0.0, 1.0, rng.uniform(0, 10), 10 ** rng.uniform(-3, 3)]) for _ in range(bins)]
        cls_name = 'Spectrometer'
        if ct_params is not None:
            from cherab.tools.spectroscopy import CzernyTurnerSpectrometer
            inst = CzernyTurnerSpectrometer(**{k: (tuple(tuple(a) for a in v) if k == 'accommodated_spectra' else v) for k, v in ct_params.items()})
            cls_name = 'CzernyTurnerSpectrometer'
        else:
            inst = Spectrometer(w2p, rng.randint(1, 5))
        desc = dict(kind='calibrate', w2p=w2p, ct_params=ct_params, rel=rel,
                    spectrum=dict(min=smin, max=smax, bins=bins, samples=[float(x) for x in sp.samples]))
        try:
            out = inst.calibrate(sp)
        except Exception as e:  # noqa
            ctx.fail('C16:%s:calibrate-raises-on-covering-spectrum' % cls_name, 'calibrate raised %s although the spectrum covers the instrument' % exc_kind(e), desc)
            continue
        centres = [float(x) for x in sp.wavelengths]
        samples = [float(x) for x in sp.samples]
        scale = max(abs(s) for s in samples) if samples else 1.0
        ctx.count('calibrate:' + ((kind + ('-instance' if ct_params else '')) if style >= 0.6 else 'aligned' if style < 0.15 else 'coarse-source' if style < 0.3 else 'random'))
        for arr, vals_ in zip(w2p, out):
            ints = [float(sp.integrate(arr[i], arr[i + 1])) for i in range(len(arr) - 1)]
            got = [float(v) for v in vals_]

            def chk(o, got=got):
                m = [b2f(t) for t in o.split()]
                return None if m == got else 'calibrate: model %r implementation %r' % (m[:4], got[:4])
            chk.history, chk.what = desc, 'calibrate'
            if ct_params is None:
                stream.add('calib %d %s %s' % (len(arr), fs(arr), fs(ints)), chk, 'value:calibrate')
            ctx.case(key=('calib', fs(arr), bins, f2b(smin)))
            # S: value x width = independent integral of the piecewise-linear spectrum, per pixel and in total
            tot = 0.0
            for i in range(len(arr) - 1):
                width = arr[i + 1] - arr[i]
                ref = pl_integral(centres, samples, arr[i], arr[i + 1])
                tot += got[i] * width
                if len(got) != len(arr) - 1:
                    break
                if not close(got[i] * width, ref, rel, rel * scale * width + 1e-12 * scale * (smax - smin)):
                    ctx.fail('C16:%s:calibrate:pixel-integral-not-conserved' % cls_name,
                             'pixel [%r,%r]: value*width = %r, spectrum integral = %r' % (arr[i], arr[i + 1], got[i] * width, ref),
                             dict(desc, pixel=i))
            ref = pl_integral(centres, samples, arr[0], arr[-1])
            if len(got) != len(arr) - 1:
                ctx.fail('C16:%s:calibrate:wrong-number-of-pixels' % cls_name, '%d values for %d pixels' % (len(got), len(arr) - 1), desc)
            elif not close(tot, ref, rel, rel * scale * (arr[-1] - arr[0]) + 1e-12 * scale * (smax - smin)):
                ctx.fail('C16:%s:calibrate:total-not-conserved' % cls_name, 'sum value*width = %r, integral over the array = %r' % (tot, ref), desc)
            # additivity of raysect's integrate (hypothesis of calibrate_total)
            if len(arr) > 2:
                whole = float(sp.integrate(arr[0], arr[-1]))
                if not close(sum(ints), whole, 1e-9, 1e-12 * scale * (smax - smin)):
                    ctx.broke('correspondence', 'hypothesis Additive(integrate)', dict(desc, parts=sum(ints), whole=whole))
        # guard: a spectrum narrower than the instrument is rejected
        if it % 5 == 0:
            cut = rng.choice(['lo', 'hi'])
            smin2, smax2 = (lo + 1e-3, hi + 1.0) if cut == 'lo' else (lo - 1.0, hi - 1e-3)
            sp2 = Spectrum(smin2, smax2, 5)
            try:
                inst.calibrate(sp2)
                st = 'ok'
            except Exception as e:  # noqa
                st = exc_kind(e)

            def chkg(o, st=st):
                return None if o == st else 'calibrate guard: model %s implementation %s' % (o, st)
            chkg.history, chkg.what = dict(desc, narrower=(smin2, smax2)), 'calibrate guard'
            stream.add('calguard %s' % fs([smin2, smax2, inst.min_wavelength, inst.max_wavelength]), chkg, 'value:calibrate-guard')
            if st != 'ValueError':
                ctx.fail('C16:Spectrometer:calibrate:narrow-spectrum-accepted', 'spectrum (%r,%r) narrower than (%r,%r): %s' % (smin2, smax2, lo, hi, st), desc)
        if it % 7 == 0:
            try:
                inst.calibrate([1.0, 2.0])
                ctx.fail('C16:Spectrometer:calibrate:non-spectrum-accepted', 'calibrate accepted a list', {})
            except TypeError:
                pass


def valid_cases(ctx, stream, n):
    """`validEdges` (hypothesis ValidW2P of the theorems) is exactly what the wavelength_to_pixel setter accepts"""
    from cherab.tools.spectroscopy import Spectrometer
    rng = ctx.rng
    for it in range(n):
        a = gen_edges(rng)
        k = rng.random()
        if k < 0.15:
            a = a[:1]
        elif k < 0.3 and len(a) > 2:
            i = rng.randrange(1, len(a))
            a[i] = a[i - 1]                       # equal neighbours
        elif k < 0.45 and len(a) > 2:
            i = rng.randrange(1, len(a))
            a[i - 1], a[i] = a[i], a[i - 1]       # one inversion
        elif k < 0.5:
            a = list(reversed(a))
        elif k < 0.55:
            a = []
        try:
            Spectrometer((a,), 1)
            st = '1'
        except ValueError:
            st = '0'
        except Exception as e:  # noqa
            st = exc_kind(e)

        def chk(out, st=st, a=a):
            return None if out == st else 'validEdges: model %s, setter %s for %r' % (out, st, a)
        chk.history, chk.what = dict(edges=a), 'validEdges'
        stream.add('valid %d %s' % (len(a), fs(a)), chk, 'value:valid-edges')
        ctx.count('valid-edges:' + st)
        ctx.case(key=('valid', fs(a)))
    # empty tuple of arrays: accepted by the setter, every derived setting raises ValueError (model: none)
    inst = Spectrometer(([1.0, 2.0],), 1)
    inst.wavelength_to_pixel = ()

    class _R:
        pass
    r = _R()
    r.inst, r.cname, r.params = inst, 'Spectrometer', dict(wavelength_to_pixel=[], min_bins_per_pixel=1)
    value_lines(ctx, r, stream)


# ------------------------------------------------------------------------------------------------ value-level machine (Part C)
def machine_histories(ctx, stream, n):
    """K for `ctStep` (Model/Instruments.lean Part C): the same history on a real CzernyTurnerSpectrometer and on the
    value-level machine; cos/tan of the stored angle are handed to the model as numpy computed them.  Kinds of result
    (done / ValueError / number / arrays / names) must agree exactly, numbers to 1e-9 (numpy's `**2` is not `x*x`),
    the bin count exactly when the pixel edges agree bit for bit and within 1 otherwise (counted)."""
    from raysect.optical import Spectrum
    from cherab.tools.spectroscopy import CzernyTurnerSpectrometer
    rng = ctx.rng
    setters = ['diffraction_order', 'grating', 'focal_length', 'pixel_spacing', 'diffraction_angle', 'accommodated_spectra',
               'min_bins_per_pixel', 'name']
    opname = dict(diffraction_order='setOrder', grating='setGrating', focal_length='setFocal', pixel_spacing='setSpacing',
                  min_bins_per_pixel='setMbpp')
    for it in range(n):
        for _ in range(2000):
            ps = {k: _gen_value(rng, k) for k in setters}
            if ct_ok(ps):
                break
        inst = CzernyTurnerSpectrometer(ps['diffraction_order'], ps['grating'], ps['focal_length'], ps['pixel_spacing'],
                                        ps['diffraction_angle'], tuple(tuple(a) for a in ps['accommodated_spectra']),
                                        ps['min_bins_per_pixel'], ps['name'])
        ang = float(inst._diffraction_angle)
        hist = [['new', dict(ps)]]
        acc = ps['accommodated_spectra']
        line = 'ctm new %d %s %d %s %d %s' % (ps['diffraction_order'], fs([ps['grating'], ps['focal_length'], ps['pixel_spacing'], ang,
                                                                          float(np.cos(ang)), float(np.tan(ang))]),
                                              ps['min_bins_per_pixel'], hexs(ps['name']), len(acc),
                                              ' '.join('%s %d' % (f2b(a), b) for a, b in acc))
        stream.add(line, _mchk('done', None, hist, True), 'machine')
        exact = [True]
        for _ in range(rng.randint(2, 10)):
            k = rng.random()
            if k < 0.45:
                prop = rng.choice(setters)
                bad = rng.random() < 0.2 and prop in BAD
                val = rng.choice(BAD[prop]) if bad else gen_value(rng, prop, ps[prop], ps, coincide=0.25)
                if bad and isinstance(val, str):
                    continue
                try:
                    setattr(inst, prop, tuple(tuple(a) for a in val) if prop == 'accommodated_spectra' else val)
                    real = 'done'
                    ps[prop] = val
                except ValueError:
                    real = 'ValueError'
                except Exception:  # noqa
                    continue
                hist.append(['set', prop, val])
                if prop == 'diffraction_angle':
                    a = float(np.deg2rad(val))
                    line = 'ctm setAngle %s' % fs([a, float(np.cos(a)), float(np.tan(a))])
                elif prop == 'accommodated_spectra':
                    line = 'ctm setAcc %d %s' % (len(val), ' '.join('%s %d' % (f2b(a), max(int(b), 0)) for a, b in val))
                    if any(int(b) < 0 for _, b in val):
                        continue
                elif prop == 'name':
                    line = 'ctm setName %s' % hexs(val)
                elif prop in ('diffraction_order', 'min_bins_per_pixel'):
                    line = 'ctm %s %d' % (opname[prop], max(int(val), 0))
                else:
                    line = 'ctm %s %s' % (opname[prop], f2b(val))
                stream.add(line, _mchk(real, None, list(hist), True), 'machine')
                ctx.count('machine:set' + (':rejected' if real != 'done' else ''))
            elif k < 0.9:
                g = rng.choice(['getMin', 'getMax', 'getBins', 'getW2p', 'getWavelengths', 'getKwargs'])
                hist.append(['get', g])
                if g == 'getMin':
                    real, v = 'num', float(inst.min_wavelength)
                elif g == 'getMax':
                    real, v = 'num', float(inst.max_wavelength)
                elif g == 'getBins':
                    real, v = 'int', int(inst.spectral_bins)
                elif g == 'getW2p':
                    real, v = 'arrays', [[float(x) for x in a] for a in inst.wavelength_to_pixel]
                elif g == 'getWavelengths':
                    real, v = 'arrays', [[float(x) for x in a] for a in inst.wavelengths]
                else:
                    real, v = 'names', [d['name'] for d in inst.pipeline_kwargs]
                stream.add('ctm ' + g, _mchk(real, v, list(hist), exact), 'machine')
                ctx.count('machine:get')
            else:
                lo, hi = float(inst.min_wavelength), float(inst.max_wavelength)
                narrow = rng.random() < 0.3
                smin, smax = (lo + 0.01, hi + 1.0) if narrow else (lo - 1.0, hi + 1.0)
                sp = Spectrum(smin, smax, 7)
                sp.samples[:] = 2.5
                hist.append(['calibrate', 2.5, smin, smax])
                try:
                    real, v = 'arrays', [[float(x) for x in a] for a in inst.calibrate(sp)]
                except ValueError:
                    real, v = 'ValueError', None
                stream.add('ctm calib %s' % fs([2.5, smin, smax]), _mchk(real, v, list(hist), exact), 'machine')
                ctx.count('machine:calibrate')
        ctx.case(key=('machine', json.dumps(hist, default=str)[:300]))


def _mchk(real, val, hist, exact):
    def chk(out):
        t = out.split()
        if not t or t[0] != real:
            return 'machine: model %s, implementation %s' % (out[:80], real)
        if real == 'num':
            return None if close(b2f(t[1]), val, 1e-9) else 'machine: model %r implementation %r' % (b2f(t[1]), val)
        if real == 'int':
            d = abs(int(t[1]) - val)
            if d == 0:
                return None
            if d <= 1:
                return None if _note_inexact() else None
            return 'machine: bins model %s implementation %s' % (t[1], val)
        if real == 'names':
            m = [bytes.fromhex(x).decode() if x != '-' else '' for x in t[1:]]
            return None if m == val else 'machine: names model %r implementation %r' % (m, val)
        if real == 'arrays':
            flat, i, arrs = t[1:], 0, []
            while i < len(flat):
                k = int(flat[i])
                arrs.append([b2f(x) for x in flat[i + 1:i + 1 + k]])
                i += 1 + k
            ok = len(arrs) == len(val) and all(len(a) == len(b) and all(close(x, y, 1e-9) for x, y in zip(a, b)) for a, b in zip(arrs, val))
            return None if ok else 'machine: arrays model %r implementation %r' % (arrs[:1], val[:1])
        return None
    chk.history, chk.what = hist, 'value-level machine'
    return chk


INEXACT = [0]


def _note_inexact():
    INEXACT[0] += 1
    return True


# ------------------------------------------------------------------------------------------------ value-level machines (round 6)
def _arr_line(arrs):
    return '%d %s' % (len(arrs), ' '.join('%d %s' % (len(a), fs([float(x) for x in a])) for a in arrs))


def _m2chk(real, val, hist, what, rel=0.0):
    """result kind exact; numbers bit for bit (rel == 0) or to `rel` (calibrate: raysect's integrate against dens*(b-a))"""
    def eq(x, y):
        return (f2b(x) == f2b(y) or x == y) if rel == 0.0 else close(x, y, rel)

    def chk(out):
        t = out.split()
        if not t or t[0] != real:
            return '%s: model %s, implementation %s' % (what, out[:80], real)
        if real == 'num':
            return None if eq(b2f(t[1]), val) else '%s: model %r implementation %r' % (what, b2f(t[1]), val)
        if real == 'int':
            return None if int(t[1]) == val else '%s: int model %s implementation %s' % (what, t[1], val)
        if real in ('str', 'names'):
            m = [bytes.fromhex(x).decode() if x != '-' else '' for x in t[1:]]
            want = [val] if real == 'str' else val
            return None if m == want else '%s: names model %r implementation %r' % (what, m, want)
        if real == 'arrays':
            flat, i, arrs = t[1:], 0, []
            while i < len(flat):
                k = int(flat[i])
                arrs.append([b2f(x) for x in flat[i + 1:i + 1 + k]])
                i += 1 + k
            ok = len(arrs) == len(val) and all(len(a) == len(b) and all(eq(x, y) for x, y in zip(a, b)) for a, b in zip(arrs, val))
            return None if ok else '%s: arrays model %r implementation %r' % (what, arrs[:1], val[:1])
        if real in ('filters', 'kwargs'):
            w = 4 if real == 'filters' else 5
            flat = t[1:]
            if len(flat) != w * len(val):
                return '%s: %s model has %d entries, implementation %d' % (what, real, len(flat) // w, len(val))
            for i, v in enumerate(val):
                g = flat[w * i:w * i + w]
                strs = [bytes.fromhex(x).decode() if x != '-' else '' for x in g[:w - 3]]
                nums = [b2f(x) for x in g[w - 3:]]
                if strs != list(v[:w - 3]) or not all(eq(a, b) for a, b in zip(nums, v[w - 3:])):
                    return '%s: %s entry %d model %r %r implementation %r' % (what, real, i, strs, nums, v)
            return None
        return None
    chk.history, chk.what = hist, what
    return chk


def spectrometer_machine(ctx, stream, n):
    """K for `spInit` / `spStep` (Model/InstrumentMachines.lean): the same construction and history — accepted and rejected
    assignments, every getter, calibrate — on a real `Spectrometer` and on the value-level machine.  Everything is compared
    bit for bit except `calibrate` (1e-9: raysect's integrate against density x width)."""
    from raysect.optical import Spectrum
    from cherab.tools.spectroscopy import Spectrometer
    rng = ctx.rng
    bad_w2p = [b for b in BAD['wavelength_to_pixel'] if all(not isinstance(x, list) for a in b for x in a)]
    W = 'value-level machine: Spectrometer'
    for it in range(n):
        both = rng.random() < 0.06
        w2p = rng.choice(bad_w2p) if both or rng.random() < 0.1 else gen_w2p(rng)
        mbpp = rng.choice([0, -3, -1]) if both or rng.random() < 0.1 else _gen_value(rng, 'min_bins_per_pixel')
        name = rng.choice(NAMES)
        hist = [['new', w2p, mbpp, name]]
        try:
            inst = Spectrometer([list(a) for a in w2p], mbpp, name)
            real = 'done'
        except ValueError:
            inst, real = None, 'ValueError'
        stream.add('spm new %d %s %s' % (mbpp, hexs(name), _arr_line(w2p)), _m2chk(real, None, list(hist), W), 'machine-spectrometer')
        ctx.count('machine-spectrometer:new' + (':rejected' if inst is None else ''))
        if inst is None:
            ctx.case(key=('spm', json.dumps(hist)[:300]))
            continue
        forced = ['getBins', 'getKwargs'] if rng.random() < 0.5 else []
        for _ in range(rng.randint(2, 12)):
            k = rng.random()
            if k < 0.45 and not forced:
                prop = rng.choice(['wavelength_to_pixel', 'min_bins_per_pixel', 'name'])
                forced = [rng.choice({'min_bins_per_pixel': ['getBins'], 'name': ['getKwargs']}.get(
                    prop, ['getBins', 'getMin', 'getMax', 'getWavelengths', 'getW2p']))]
                if prop == 'wavelength_to_pixel':
                    val = rng.choice(bad_w2p) if rng.random() < 0.25 else gen_w2p(rng)
                    line = 'spm setW2p ' + _arr_line(val)
                    arg = tuple(np.array(a, dtype=float) for a in val) if rng.random() < 0.5 else [list(a) for a in val]
                elif prop == 'min_bins_per_pixel':
                    val = rng.choice([0, -3, -1, -0.5, 0.9]) if rng.random() < 0.25 else rng.choice([_gen_value(rng, prop), rng.randint(1, 9) + 0.7])
                    line = 'spm setMbpp %d' % int(val)               # the model receives int(value), as the setter computes it
                    arg = val
                else:
                    val = arg = rng.choice(NAMES)
                    line = 'spm setName ' + hexs(val)
                try:
                    setattr(inst, prop, arg)
                    real = 'done'
                except ValueError:
                    real = 'ValueError'
                hist.append(['set', prop, val])
                stream.add(line, _m2chk(real, None, list(hist), W), 'machine-spectrometer')
                ctx.count('machine-spectrometer:set' + (':rejected' if real != 'done' else ''))
            elif k < 0.9 or forced:
                g = forced.pop(0) if forced else rng.choice(['getMin', 'getMax', 'getBins', 'getW2p', 'getWavelengths', 'getMbpp', 'getName',
                                                             'getClasses', 'getKwargs'])
                hist.append(['get', g])
                if g == 'getMin':
                    real, v = 'num', float(inst.min_wavelength)
                elif g == 'getMax':
                    real, v = 'num', float(inst.max_wavelength)
                elif g == 'getBins':
                    real, v = 'int', int(inst.spectral_bins)
                elif g == 'getW2p':
                    real, v = 'arrays', [[float(x) for x in a] for a in inst.wavelength_to_pixel]
                elif g == 'getWavelengths':
                    real, v = 'arrays', [[float(x) for x in a] for a in inst.wavelengths]
                elif g == 'getMbpp':
                    real, v = 'int', int(inst.min_bins_per_pixel)
                elif g == 'getName':
                    real, v = 'str', inst.name
                elif g == 'getClasses':
                    real, v = 'int', len(inst.pipeline_classes)
                else:
                    real, v = 'names', [d['name'] for d in inst.pipeline_kwargs]
                stream.add('spm ' + g, _m2chk(real, v, list(hist), W), 'machine-spectrometer')
                ctx.count('machine-spectrometer:get')
            else:
                lo, hi = float(inst.min_wavelength), float(inst.max_wavelength)
                smin, smax = (lo + 0.01, hi + 1.0) if rng.random() < 0.3 else (lo - 1.0, hi + 1.0)
                sp = Spectrum(smin, smax, 7)
                sp.samples[:] = 2.5
                hist.append(['calibrate', 2.5, smin, smax])
                try:
                    real, v = 'arrays', [[float(x) for x in a] for a in inst.calibrate(sp)]
                except ValueError:
                    real, v = 'ValueError', None
                stream.add('spm calib %s' % fs([2.5, smin, smax]), _m2chk(real, v, list(hist), W, rel=1e-9), 'machine-spectrometer')
                ctx.count('machine-spectrometer:calibrate')
        ctx.case(key=('spm', json.dumps(hist, default=str)[:300]))


NOT_A_FILTER = ['x', 3.0, None, (656.1, 3.0)]


def polychromator_machine(ctx, stream, n):
    """K for `polyInit` / `polyStep`: construction (ValueError before TypeError), accepted and rejected assignments,
    every getter, `create_pipelines()` on a real `Polychromator` and on the value-level machine.  A filter travels as
    (name, min_wavelength, max_wavelength, window) read from the real filter object; an object that is not a
    `PolychromatorFilter` as flag 0.  Bit-for-bit comparison; filters are also compared by identity on the real side."""
    from cherab.tools.spectroscopy import Polychromator
    rng = ctx.rng
    W = 'value-level machine: Polychromator'

    def geom(f):
        return (float(f.min_wavelength), float(f.max_wavelength), float(f.window))

    def gen_filters(bad):
        fl = [make_filter(gen_filter(rng)) for _ in range(rng.randint(1, 4))]
        if bad:
            fl.insert(rng.randint(0, len(fl)), rng.choice(NOT_A_FILTER))
        if len(fl) > 1 and rng.random() < 0.2:
            fl.append(fl[0])                                      # the same filter object twice
        return fl

    def fline(fl):
        from cherab.tools.spectroscopy import PolychromatorFilter
        return '%d %s' % (len(fl), ' '.join('1 %s %s' % (hexs(f.name), fs(list(geom(f)))) if isinstance(f, PolychromatorFilter)
                                            else '0 - %s' % fs([0.0, 0.0, 0.0]) for f in fl))

    def desc(fl):
        return [(f.name,) + geom(f) if hasattr(f, 'window') else repr(f) for f in fl]

    for it in range(n):
        both = rng.random() < 0.06                               # both arguments invalid: the order of validation decides
        fl = gen_filters(both or rng.random() < 0.1)
        mbpw = rng.choice([0, -1, -7]) if both or rng.random() < 0.1 else _gen_value(rng, 'min_bins_per_window')
        name = rng.choice(NAMES)
        hist = [['new', desc(fl), mbpw, name]]
        try:
            inst = Polychromator(fl, mbpw, name)
            real = 'done'
        except ValueError:
            inst, real = None, 'ValueError'
        except TypeError:
            inst, real = None, 'TypeError'
        stream.add('plm new %d %s %s' % (mbpw, hexs(name), fline(fl)), _m2chk(real, None, list(hist), W), 'machine-polychromator')
        ctx.count('machine-polychromator:new' + (':' + real if inst is None else ''))
        if inst is None:
            ctx.case(key=('plm', json.dumps(hist, default=str)[:300]))
            continue
        cur = fl
        # half of the histories start with every cache filled, and every assignment is followed by a read of a cache
        forced = ['createPipelines', 'getBins'] if rng.random() < 0.5 else []
        for _ in range(rng.randint(2, 12)):
            k = rng.random()
            if k < 0.45 and not forced:
                prop = rng.choice(['filters', 'min_bins_per_window', 'name'])
                forced = [rng.choice({'min_bins_per_window': ['getBins'], 'name': ['getKwargs', 'createPipelines']}.get(
                    prop, ['getKwargs', 'createPipelines', 'getClasses', 'getBins', 'getMin', 'getMax']))]
                if prop == 'filters':
                    arg = gen_filters(rng.random() < 0.25)
                    val = desc(arg)
                    line = 'plm setFilters ' + fline(arg)
                elif prop == 'min_bins_per_window':
                    val = arg = rng.choice([0, -1, -0.5, 0.9]) if rng.random() < 0.25 else rng.choice([_gen_value(rng, prop), rng.randint(1, 9) + 0.7])
                    line = 'plm setMbpw %d' % int(val)
                else:
                    val = arg = rng.choice(NAMES)
                    line = 'plm setName ' + hexs(val)
                try:
                    setattr(inst, prop, arg)
                    real = 'done'
                    if prop == 'filters':
                        cur = arg
                except ValueError:
                    real = 'ValueError'
                except TypeError:
                    real = 'TypeError'
                hist.append(['set', prop, val])
                stream.add(line, _m2chk(real, None, list(hist), W), 'machine-polychromator')
                ctx.count('machine-polychromator:set' + (':' + real if real != 'done' else ''))
            else:
                g = forced.pop(0) if forced else rng.choice(['getMin', 'getMax', 'getBins', 'getFilters', 'getMbpw', 'getName', 'getClasses',
                                                             'getKwargs', 'createPipelines'])
                hist.append(['get', g])
                ident = True
                if g == 'getMin':
                    real, v = 'num', float(inst.min_wavelength)
                elif g == 'getMax':
                    real, v = 'num', float(inst.max_wavelength)
                elif g == 'getBins':
                    real, v = 'int', int(inst.spectral_bins)
                elif g == 'getFilters':
                    got = list(inst.filters)
                    real, v = 'filters', [(f.name,) + geom(f) for f in got]
                    ident = len(got) == len(cur) and all(a is b for a, b in zip(got, cur))
                elif g == 'getMbpw':
                    real, v = 'int', int(inst.min_bins_per_window)
                elif g == 'getName':
                    real, v = 'str', inst.name
                elif g == 'getClasses':
                    real, v = 'int', len(inst.pipeline_classes)
                elif g == 'getKwargs':
                    kw = inst.pipeline_kwargs
                    real, v = 'kwargs', [(d['name'], d['filter'].name) + geom(d['filter']) for d in kw]
                    ident = len(kw) == len(cur) and all(d['filter'] is b for d, b in zip(kw, cur))
                else:
                    pl = inst.create_pipelines()
                    real, v = 'kwargs', [(q.name, q.filter.name) + geom(q.filter) for q in pl]
                    ident = len(pl) == len(cur) and all(q.filter is b for q, b in zip(pl, cur))
                if not ident:
                    ctx.broke('correspondence', 'C16 stream machine-polychromator', dict(why='filter objects returned are not the assigned ones, in order', history=list(hist)))
                stream.add('plm ' + g, _m2chk(real, v, list(hist), W), 'machine-polychromator')
                ctx.count('machine-polychromator:get')
        ctx.case(key=('plm', json.dumps(hist, default=str)[:300]))


# ------------------------------------------------------------------------------------------------ aliasing histories
CONTAINER_PARAMS = ('wavelength_to_pixel', 'accommodated_spectra', 'filters')
OBSERVED_ALIASING = {}       # class -> set of attributes seen to keep a reference to the caller's object (K vs. table)


class Caller:
    """an object owned by the caller, handed to a setter / constructor, later changed in place"""

    def __init__(self, label, obj, arrays, mutate, spec):
        self.label, self.obj, self.arrays, self.mutate, self.spec = label, obj, arrays, mutate, spec
        self.flags = [a.flags.writeable for a in arrays]
        self.snap = self.freeze()

    def freeze(self):
        def fz(x):
            if isinstance(x, np.ndarray):
                return ('nd', x.dtype.str, tuple(x.ravel().tolist()), x.shape)
            if isinstance(x, (list, tuple)):
                return (type(x).__name__,) + tuple(fz(y) for y in x)
            return x if isinstance(x, (int, float, str, type(None))) else id(x)
        return fz(self.obj), tuple(fz(a) for a in self.arrays)

    def untouched(self):
        return self.freeze() == self.snap and [a.flags.writeable for a in self.arrays] == self.flags


def caller_variants(rng, prop, spec, vals):
    """the ways a user can hand over the value `spec` of a container-valued parameter and change it afterwards"""
    out = []
    if prop == 'wavelength_to_pixel':
        arrs = [np.array(a, dtype=float) for a in spec]

        def mut_arrays(c):
            for a in c.arrays:
                a[0] -= 0.125
                a[-1] += 0.5
        out.append(Caller('tuple-of-float64-arrays', tuple(arrs), arrs, mut_arrays, spec))
        arrs2 = [np.array(a, dtype=float) for a in spec]
        outer = list(arrs2)

        def mut_outer(c):
            mut_arrays(c)
            c.obj.append(np.array([100.0, 101.0, 103.0]))
        out.append(Caller('list-of-float64-arrays', outer, arrs2, mut_outer, spec))
        buf = np.concatenate([np.array([0.0])] + [np.array(a, dtype=float) for a in spec] + [np.array([1e4])])
        views, k = [], 1
        for a in spec:
            views.append(buf[k:k + len(a)])
            k += len(a)

        def mut_buf(c):
            k = 1
            for a in c.spec:
                c.arrays[0][k] -= 0.125
                c.arrays[0][k + len(a) - 1] += 0.5
                k += len(a)
        out.append(Caller('slices-of-a-shared-buffer', tuple(views), [buf], mut_buf, spec))
        ll = [list(a) for a in spec]

        def mut_ll(c):
            c.obj[0][0] -= 0.125
            c.obj[-1][-1] += 0.5
            c.obj.append([100.0, 101.0])
        out.append(Caller('list-of-lists', ll, [], mut_ll, spec))
        n = len(spec[0])
        spec2 = [list(spec[0]), [x + 1000.0 for x in spec[0]]]
        a2 = np.array(spec2, dtype=float)

        def mut_2d(c):
            c.arrays[0][:, 0] -= 0.125
            c.arrays[0][:, -1] += 0.5
        out.append(Caller('2d-float64-array', a2, [a2], mut_2d, spec2))
        speci = [[float(400 + 3 * i) for i in range(n)], [float(900 + 2 * i) for i in range(n + 1)]]
        ai = [np.array(a, dtype=np.int64) for a in speci]

        def mut_int(c):
            for a in c.arrays:
                a[0] -= 1
                a[-1] += 1
        out.append(Caller('tuple-of-int64-arrays', tuple(ai), ai, mut_int, speci))
    elif prop == 'accommodated_spectra':
        def mut_acc(c):
            c.obj[0] = type(c.obj[0])([c.obj[0][0] + 10.0, c.obj[0][1] + 1])
            c.obj.append(type(c.obj[0])([450.0, 2]))
        out.append(Caller('list-of-tuples', [tuple(a) for a in spec], [], mut_acc, spec))

        def mut_inner(c):
            c.obj[0][0] += 10.0
            c.obj[-1][1] += 1
        out.append(Caller('list-of-lists', [list(a) for a in spec], [], mut_inner, spec))
        a2 = np.array(spec, dtype=float)

        def mut_a2(c):
            c.arrays[0][0, 0] += 10.0
            c.arrays[0][-1, 1] += 1
        out.append(Caller('2d-float64-array', a2, [a2], mut_a2, spec))
    elif prop == 'filters':
        fl = vals.make('filters', spec, 0)

        def mut_fl(c):
            c.obj.append(make_filter(['trap', 987.0, 4.0, None, 'late']))
            if len(c.obj) > 2:
                del c.obj[0]
        out.append(Caller('list', list(fl), [], mut_fl, spec))
    return out


def _arrays_in(v):
    if isinstance(v, np.ndarray):
        yield v
    elif isinstance(v, (list, tuple)):
        for x in v:
            yield from _arrays_in(x)


def alias_case(ctx, vals, tab, params, prop, label, via, other=None):
    """S: hand a caller-owned container to `prop` (constructor or setter), fill the caches, change the container in place,
    read everything; where the tree copies (every parameter except the documented ones) nothing may change"""
    cname = tab['name']
    cls = find_class(cname)
    callers = [c for c in caller_variants(ctx.rng, prop, params[prop], vals) if c.label == label]
    if not callers:
        return
    c = callers[0]
    orig = dict(params)
    orig[prop] = c.spec
    replay = dict(kind='alias', cls=cname, prop=prop, variant=label, via=via, params=params, other=other)
    doc_params = {a.lstrip('_') for a in tab.get('documented_aliasing', [])}
    try:
        if via == 'ctor':
            inst = cls(**{k: (c.obj if k == prop else vals.make(k, v)) for k, v in params.items()})
        else:
            inst = cls(**{k: vals.make(k, v) for k, v in params.items()})
            setattr(inst, prop, c.obj)
    except Exception as e:  # noqa
        ctx.count('alias:variant-rejected:%s:%s' % (prop, label))
        return
    ctx.case(key=('alias', cname, prop, label, via, other[0] if other else None))
    ctx.count('alias-history:%s:%s' % (cname, prop))
    if not c.untouched():
        ctx.fail('C16:%s:assignment-modifies-caller-object:%s' % (cname, prop),
                 'assigning a %s to %s changed the caller\'s object (values or writeable flag)' % (label, prop), replay)
    kept = set()
    mine = list(c.arrays) + list(_arrays_in(c.obj))
    for a, v in inst.__dict__.items():
        if v is c.obj or any(np.shares_memory(x, y) for x in _arrays_in(v) for y in mine):
            kept.add(a)
    OBSERVED_ALIASING.setdefault(cname, set()).update(kept)
    before = {n: call_public(inst, n) for n, _ in tab['getters']}
    try:
        c.mutate(c)
        mutated = 'ok'
    except ValueError as e:
        mutated = 'ValueError:' + str(e)[:80]
    if mutated != 'ok' and prop not in doc_params:
        ctx.fail('C16:%s:assignment-modifies-caller-object:%s' % (cname, prop),
                 'after assigning a %s to %s the caller can no longer write to its own array: %s' % (label, prop, mutated), replay)
    fresh = cls(**{k: vals.make(k, v, 1) for k, v in orig.items()})
    if other is not None:                     # a later, unrelated setter call forces the caches to be recomputed
        o = vals.make(other[0], other[1])
        setattr(inst, other[0], o)
        setattr(fresh, other[0], o)
    after = {n: call_public(inst, n) for n, _ in tab['getters']}
    ref = {n: call_public(fresh, n) for n, _ in tab['getters']}
    bad = [n for n in after if not (after[n][0].split(':')[0] == ref[n][0].split(':')[0] and (after[n][1] is None) == (ref[n][1] is None)
                                    and (after[n][1] is None or same(after[n][1], ref[n][1])))]
    if prop in doc_params:
        obs = ctx.extra.setdefault('aliasing_documented', {}).setdefault('%s.%s' % (cname, prop), {})
        ent = obs.setdefault(label, dict(attributes_kept_by_reference=[], observables_following_the_callers_object=[]))
        ent['attributes_kept_by_reference'] = sorted(set(ent['attributes_kept_by_reference']) | kept)
        ent['observables_following_the_callers_object'] = sorted(set(ent['observables_following_the_callers_object']) | set(bad))
        return
    ctx.extra.setdefault('aliasing_probe', {}).setdefault('%s.%s' % (cname, prop), {})[label + '/' + via] = \
        'copied' if not kept and not bad else 'ALIASED attrs=%s observables=%s' % (sorted(kept), bad)
    if kept or bad:
        ctx.fail('C16:%s:aliases-caller-object:%s' % (cname, prop),
                 '%s handed over as %s (%s): %s; after the caller changed its own object in place %s differ from an instrument built '
                 'from the original values (e.g. %s: %r vs %r)'
                 % (prop, label, via, ('attributes %s share the caller\'s memory' % sorted(kept)) if kept else 'no shared memory found',
                    bad or 'no observables', bad[0] if bad else '-', str(after[bad[0]])[:120] if bad else '', str(ref[bad[0]])[:120] if bad else ''),
                 replay)


def alias_histories(ctx, vals, tab, n):
    rng = ctx.rng
    rig = Rig(ctx, tab, Stream(), vals)
    props = [p for p in rig.ctor_args if p in CONTAINER_PARAMS]
    for it in range(n):
        params = base_params(rng, rig)
        for prop in props:
            labels = [c.label for c in caller_variants(rng, prop, params[prop], vals)]
            for label in labels:
                for via in ('ctor', 'setter'):
                    if via == 'setter' and prop not in dict(tab['setters']):
                        continue
                    others = [p for p, _ in tab['setters'] if p != prop and p not in CONTAINER_PARAMS]
                    other = None
                    if others and rng.random() < 0.5:
                        op = rng.choice(others)
                        other = [op, gen_value(rng, op, params.get(op), params)]
                    alias_case(ctx, vals, tab, params, prop, label, via, other)


# ------------------------------------------------------------------------------------------------ deps stream
def deps_check(ctx, stream, vals, tab, base):
    """`deps` derived in Lean from the table  vs.  perturbing each parameter of a real instrument"""
    cname = tab['name']
    cls = find_class(cname)
    ret_attr = {}
    for name, mid in tab['getters']:
        reads = [s[1] for s in tab['bodies'][mid] if s[0] == 'read']
        body = tab['bodies'][mid]
        if reads and body and body[-1][0] == 'ret' and len(body) >= 2 and body[-2][0] == 'read' and isinstance(inspect.getattr_static(cls, name), property):
            ret_attr[name] = tab['attrs'][body[-2][1]]
    observed = {a: set() for a in ret_attr.values()}
    for prop, mid in tab['setters']:
        for rep in range(3):
            p2 = dict(base)
            p2[prop] = gen_value(ctx.rng, prop, base[prop], base)
            i0 = cls(**{k: vals.make(k, v) for k, v in base.items()})
            i1 = cls(**{k: vals.make(k, v) for k, v in p2.items()})
            for name, attr in ret_attr.items():
                a, b = call_public(i0, name), call_public(i1, name)
                if a[0] == 'ok' and b[0] == 'ok' and not same(a[1], b[1]):
                    observed[attr].add(tab['methods'][mid])
            ctx.case(key=('perturb', cname, prop, rep))

    def chk(out, observed=observed):
        try:
            deps = dict((kv.split(':')[0], set() if kv.split(':')[1] == '-' else set(kv.split(':')[1].split(',')))
                        for kv in out.split(' deps ')[1].split(';'))
        except Exception:  # noqa
            return 'unparsable proto line: ' + out[:200]
        for attr, obs in observed.items():
            if not obs <= deps.get(attr, set()):
                return 'attribute %s changes with %s but deps(%s) = %s' % (attr, sorted(obs - deps.get(attr, set())), attr, sorted(deps.get(attr, set())))
        over = sum(len(deps.get(a, set()) - o) for a, o in observed.items())
        ctx.count('deps-overapproximation-pairs:' + cname, over)
        ctx.count('deps-confirmed-pairs:' + cname, sum(len(o) for o in observed.values()))
        return None
    chk.history, chk.what = dict(cls=cname, base=base), 'deps'
    stream.add('proto ' + cname, chk, 'deps:' + cname)


# ------------------------------------------------------------------------------------------------ drivers of histories
def base_params(rng, rig):
    for _ in range(2000):
        ps = {}
        for a in rig.ctor_args:
            ps[a] = _gen_value(rng, a)
        if ct_ok(ps):
            return ps
    return ps


def exercise(ctx, rig, ops, vstream, sample=False):
    """runs one history: ops = list of ('set', prop) | ('get', name) | ('obs',) | ('bad', prop)"""
    rng = ctx.rng
    st = rig.construct(base_params(rng, rig))
    if rig.inst is None:
        ctx.fail('C16:%s:constructor-rejects-valid-parameters' % rig.cname, 'constructor raised %s' % st, dict(kind='history', cls=rig.cname, history=list(rig.log)))
        return
    filled = False
    nontrivial = False
    for op in ops:
        if op[0] == 'set':
            st = rig.do_set(op[1], gen_value(rng, op[1], rig.params.get(op[1]), rig.params, coincide=0.2))
            if st != 'ok':
                ctx.fail('C16:%s:setter-rejects-valid-value:%s' % (rig.cname, op[1]), 'setter raised %s' % st, dict(kind='history', cls=rig.cname, history=list(rig.log)))
            nontrivial = nontrivial or filled
        elif op[0] == 'coin':
            cands = [v for v in coincidences(op[1], rig.params) if ct_ok(dict(rig.params, **{op[1]: v}))
                     and not (op[1] in ('diffraction_order', 'min_bins_per_pixel', 'min_bins_per_window') and int(v) < 1)]
            if not cands:
                continue
            v = cands[op[2] % len(cands)]
            v = v.item() if isinstance(v, np.generic) else v
            st = rig.do_set(op[1], v)
            ctx.count('op:set-coinciding-value')
            if st != 'ok':
                ctx.fail('C16:%s:setter-rejects-valid-value:%s' % (rig.cname, op[1]), 'setter raised %s for %r' % (st, v), dict(kind='history', cls=rig.cname, history=list(rig.log)))
            nontrivial = nontrivial or filled
        elif op[0] == 'get':
            rig.do_get(op[1])
            filled = True
        elif op[0] == 'obs':
            rig.observe_all(through_rig=True)
            filled = True
        elif op[0] == 'bad':
            bads = BAD.get(op[1])
            if bads == 'BADFILTERS':
                bads = [[1.0], ['x', 'y']]
            if not bads:
                continue
            val = rng.choice(bads)
            st, untouched = rig.do_bad(op[1], val)
            if st == 'accepted' or not untouched:
                ctx.fail('C16:%s:invalid-value:%s:%s' % (rig.cname, op[1], 'accepted' if st == 'accepted' else 'partial-update'),
                         'assigning %r to %s: %s, instance %s' % (val, op[1], st, 'untouched' if untouched else 'modified'),
                         dict(kind='history', cls=rig.cname, history=list(rig.log), bad=[op[1], val]))
                return
    ok = compare_with_fresh(ctx, rig, 'the history')
    monitor_settings(ctx, rig)
    value_lines(ctx, rig, vstream)
    names = tuple((o[0], o[1] if len(o) > 1 else '') for o in ops)
    ctx.case(key=(rig.cname, names) if nontrivial else None,
             sample=dict(cls=rig.cname, history=rig.log[:12]) if sample else None)
    return ok


def run(ctx):
    ctx.rule = ('histories = construction with random valid parameters followed by setter calls (fresh random valid values), '
                'public getter / method calls and invalid assignments on the real Spectrometer, CzernyTurnerSpectrometer and '
                'Polychromator(+Trapezoidal/PolychromatorFilter): every ordered pair and triple of setters with all observables read '
                'in between (exhaustive), plus random histories; pixel layouts: 1-4 arrays, dyadic / random / log-scaled widths, '
                'nested and overlapping; calibrate: aligned, coarser and random source binning.  A history is non-trivial when a '
                'setter is called after some cache was filled; distinct by (class, sequence of operation names); value cases distinct by input bits; '
                'aliasing histories: every array/list-valued parameter handed over as tuple/list of float64 arrays, slices of one shared buffer, '
                '2-D array, int arrays, list of lists/tuples (constructor and setter), caches filled, the caller\'s object changed in place, '
                'optionally another setter called, everything read and compared with an instrument built from the original values')
    ctx.trusted += ['translator harness/translators/instrument_edges.py (syntactic; validated by the shape and deps streams)',
                    'raysect Spectrum.integrate is a parameter of calibrate (hypothesis Additive checked numerically each run); '
                    'numpy ceil/diff/min, cos/tan/sqrt are parameters (ceil := Int.ceil in the theorems)',
                    'link between the interpreter and the protocol tables: clearsOf/depsOf are computed by the interpreter/closure in '
                    'Lean from the generated table (side condition setterGuardsStable in wf_*), compared with the running code by K']
    ctx.assumptions += ['in-place mutation of an object previously handed to a setter is covered for every parameter the tree copies (wavelength_to_pixel: '
                        'obligation no_alias_* + aliasing histories); Polychromator.filters and CzernyTurnerSpectrometer.accommodated_spectra keep the '
                        'caller\'s list by reference in the tree as first read: recorded as an observation (coverage.aliasing_documented), not a failure',
                        'Czerny-Turner parameters stay on the branch resolution > 0 (p < cos^2(angle)); layouts that are not finite and increasing are skipped and counted',
                        'theorems are over an ordered field; float gap narrowed by evaluating range/bin-width conclusions on the implementation outputs (1e-12 band counted)']
    # 1. translator
    gen = ie.generate()
    tabs = {t['name']: t for t in gen['tables']}
    ctx.extra['translator'] = dict(classes=gen['classes'], abstract=gen['abstract'], regenerated=gen['changed'],
                                   known_uninit={t['name']: t['known'] for t in gen['tables'] if t['known']})
    # 2. T
    ok1 = ctx.lean_check(['Cherab.Props.C16'], 'Cherab/Audit/C16.lean')
    ok2 = ctx.lean_check(['Cherab.Props.C16Table'], 'Cherab/Audit/C16Table.lean')
    ok3 = ctx.lean_check(['Cherab.Props.C16Init'], 'Cherab/Audit/C16Init.lean')
    ok4 = ctx.lean_check(['Cherab.Props.C16Alias'], 'Cherab/Audit/C16Alias.lean')
    ok5 = ctx.lean_check(['Cherab.Props.C16Machines'], 'Cherab/Audit/C16Machines.lean')
    ctx.checker_cmd = ('cd %s/lean && lake build Cherab.Props.C16 Cherab.Props.C16Table Cherab.Props.C16Init Cherab.Props.C16Alias Cherab.Props.C16Machines && '
                       'for f in C16 C16Table C16Init C16Alias C16Machines; do lake env lean Cherab/Audit/$f.lean; done' % VERIF)
    # 3. K + S on the implementation
    rng = ctx.rng
    vals = Values()
    stream = Stream()
    OBSERVED_ALIASING.clear()
    for cname, tab in tabs.items():
        stream.add('gaps ' + cname, _gaps_checker(ctx, cname), 'gaps')
        unknown = [p for p, _ in tab['setters'] if p not in PRIMARY_SETTERS]
        if unknown:
            ctx.broke('correspondence', 'setters without a value generator', dict(cls=cname, setters=unknown))
            tab['setters'] = [(p, m) for p, m in tab['setters'] if p in PRIMARY_SETTERS]
    _run_corpus(ctx, vals, tabs)
    for cname, tab in tabs.items():
        rig = Rig(ctx, tab, stream, vals)
        base = base_params(rng, rig)
        init_monitor(ctx, vals, tab, base)
        alias_histories(ctx, vals, tab, ctx.n(4, 40))
        deps_check(ctx, stream, vals, tab, base)
        setters = [p for p, _ in tab['setters']]
        # exhaustive: all ordered pairs / triples of setters, everything observed in between
        seqs = [(a, b) for a in setters for b in setters]
        if ctx.tier == 'thorough' or len(setters) <= 4:
            seqs += [(a, b, c) for a in setters for b in setters for c in setters]
        else:
            seqs += [tuple(rng.choice(setters) for _ in range(3)) for _ in range(ctx.n(60))]
        for seq in seqs:
            ops = [('obs',)]
            for p in seq:
                ops += [('set', p), ('obs',)]
            exercise(ctx, Rig(ctx, tab, stream, vals), ops, stream)
            ctx.count('exhaustive-history:' + cname)
        # single-observable witnesses [get g, set p, get g]
        for g, _ in tab['getters']:
            for p in setters:
                exercise(ctx, Rig(ctx, tab, stream, vals), [('get', g), ('set', p), ('get', g)], stream)
        # directed: a new value that coincides numerically with a stored representation of the old one
        for p in setters:
            for idx in range(6):
                exercise(ctx, Rig(ctx, tab, stream, vals), [('obs',), ('coin', p, idx), ('obs',)], stream)
                ctx.count('coincidence-history:' + cname)
        # random histories with invalid assignments sprinkled in
        for it in range(ctx.n(40, 2000)):
            ops = []
            for _ in range(rng.randint(1, 12)):
                k = rng.random()
                if k < 0.45:
                    ops.append(('set', rng.choice(setters)))
                elif k < 0.85:
                    ops.append(('get', rng.choice([g for g, _ in tab['getters']])))
                elif k < 0.92:
                    ops.append(('obs',))
                else:
                    ops.append(('bad', rng.choice(setters)))
            exercise(ctx, Rig(ctx, tab, stream, vals), ops, stream, sample=it < 2)
            ctx.count('random-history:' + cname)
    ctx.extra['exhaustive_parts'] = 'all ordered pairs of setters per class with every observable read in between; all ordered triples for classes with <= 4 setters (every class at thorough tier)'
    for _ in range(ctx.n(60, 2000)):
        spec = gen_filter(rng)
        filter_lines(ctx, stream, spec, make_filter(spec))
    calibrate_cases(ctx, stream, ctx.n(150, 6000))
    valid_cases(ctx, stream, ctx.n(150, 5000))
    INEXACT[0] = 0
    machine_histories(ctx, stream, ctx.n(60, 1500))
    spectrometer_machine(ctx, stream, ctx.n(60, 1500))
    polychromator_machine(ctx, stream, ctx.n(60, 1500))

    # 4. run the model on everything that was recorded
    outs = ctx.driver(stream.lines)
    ctx.traces = len(outs)
    seen = set()
    for line, chk, name, out in zip(stream.lines, stream.checks, stream.names, outs):
        why = chk(out)
        if why:
            ctx.disagreements += 1
            ctx.count('disagreement:' + name)
            if name not in seen:
                seen.add(name)
                ctx.broke('correspondence', 'C16 stream ' + name, dict(line=line[:400], model=out[:400], why=why,
                                                                       what=getattr(chk, 'what', ''), history=getattr(chk, 'history', None)))
    ctx.count('machine:bins-off-by-one-within-float-gap', INEXACT[0])
    # a broken table obligation whose concrete counterpart S has reported as an *open known finding* is explained
    if ctx.known_hits and not ctx.failing:
        for b in ctx.broken:
            if b['kind'] == 'theorem' and 'C16Init' in str(b['name']) + str(b.get('detail', '')):
                b['explained_by_known'] = True


def _gaps_checker(ctx, cname):
    def chk(out):
        ctx.extra.setdefault('table_status', {})[cname] = out
        pred = [t[len('aliased='):] for t in out.split() if t.startswith('aliased=')]
        pred = set() if not pred or pred[0] == '-' else set(pred[0].split(','))
        seen = OBSERVED_ALIASING.get(cname, set())
        if not seen <= pred:
            return 'attributes %s keep a reference to the caller\'s object; the table predicts only %s' % (sorted(seen - pred), sorted(pred))
        return None
    chk.what = 'aliased attributes'
    chk.history = dict(cls=cname)
    return chk


def _run_corpus(ctx, vals, tabs):
    d = os.path.join(VERIF, 'corpus', 'C16')
    if not os.path.isdir(d):
        return
    for f in sorted(os.listdir(d)):
        if f.endswith('.json'):
            r = json.load(open(os.path.join(d, f)))
            _replay_one(ctx, vals, tabs, r.get('replay', r))
            ctx.count('corpus')


def _replay_one(ctx, vals, tabs, r):
    kind = r.get('kind')
    tab = tabs.get(r.get('cls'))
    if kind == 'init' and tab:
        init_monitor(ctx, vals, dict(tab, getters=[(g, m) for g, m in tab['getters'] if g == r['getter']]), r['params'])
    elif kind == 'alias' and tab:
        alias_case(ctx, vals, tab, r['params'], r['prop'], r['variant'], r['via'], r.get('other'))
    elif kind == 'history' and tab:
        hist = r['history']
        obs = r.get('observable')
        names = [obs] if obs else [g for g, _ in tab['getters']]
        for n in names:
            if history_fails(vals, tab, hist, n):
                setters = [op[1] for op in hist if op[0] == 'set']
                ctx.fail('C16:%s:stale:%s:after:%s' % (tab['name'], n, '+'.join(setters) or 'construction'),
                         'replayed history leaves %s different from a fresh instance' % n, r)
        ctx.case(key=('replay', json.dumps(hist, default=str)[:200]))
    elif kind == 'calibrate':
        from raysect.optical import Spectrum
        from cherab.tools.spectroscopy import Spectrometer
        s = r['spectrum']
        sp = Spectrum(s['min'], s['max'], s['bins'])
        sp.samples[:] = s['samples']
        out = Spectrometer(r['w2p']).calibrate(sp)
        c = [float(x) for x in sp.wavelengths]
        for arr, v in zip(r['w2p'], out):
            for i in range(len(arr) - 1):
                ref = pl_integral(c, s['samples'], arr[i], arr[i + 1])
                if not close(float(v[i]) * (arr[i + 1] - arr[i]), ref, 1e-9, 1e-9 * max(map(abs, s['samples'])) * (s['max'] - s['min'])):
                    ctx.fail('C16:Spectrometer:calibrate:pixel-integral-not-conserved', 'replayed calibrate case', r)


def replay(ctx, path):
    r = json.load(open(path))
    print(json.dumps(r, indent=1, default=str)[:3000])
    gen = ie.generate()
    tabs = {t['name']: t for t in gen['tables']}
    rr = r.get('replay') or {}
    if rr:
        _replay_one(ctx, Values(), tabs, rr)
        print('replayed on the current tree: %s' % ('still fails: ' + ', '.join(f['signature'] for f in ctx.failing) if ctx.failing or ctx.known_hits else 'no longer fails'))
    for b in r.get('broken', []):
        print('broken obligation recorded in the replay:', b.get('kind'), b.get('name'))
    run(ctx)          # the full check as well, so that the evidence file of a replay run is complete
    return ctx.finish()
