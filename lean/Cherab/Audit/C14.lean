import Cherab.Props.C14
open Cherab.Props.C14
#print axioms memo_transparent
#print axioms history_independent
#print axioms cache_holds_function_values
#print axioms calls_exact
#print axioms outside_policy
#print axioms find_index_spec
