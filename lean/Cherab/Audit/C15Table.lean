import Cherab.Props.C15Table
open Cherab.Props.C15Table
#print axioms table_wf
#print axioms table_broadcast_wf
#print axioms table_special_wf
#print axioms classes_accept_slices
#print axioms generated_rejected_unchanged
#print axioms generated_scene_inv
