import Cherab.Props.C11
open Cherab.Props.C11
#print axioms stack_norm
#print axioms stack_norm_default
#print axioms objective_default
#print axioms identity_matVec
#print axioms scale_invariant
#print axioms scale_invariant_min
#print axioms scale_invariant_norm
#print axioms normal_eq_sufficient
#print axioms kkt_sufficient
#print axioms vmax_pos_iff
#print axioms nnls_norm_degenerate
#print axioms normaliser_pos
#print axioms nnls_wrapper_correct
#print axioms nnls_wrapper_current
#print axioms lstsq_wrapper_correct
#print axioms sart_formula
#print axioms sart_formula_doc
#print axioms sweep_nonneg_full
#print axioms sart_fixed_point
#print axioms sart_fixed_point_run
#print axioms sart_stops
#print axioms sart_returns
#print axioms sart_zero_measurement
#print axioms sart_nonneg
#print axioms sart_nonneg_of_guess
