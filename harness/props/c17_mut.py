"""Mutation smoke test for C17 (not part of the check).  /repo is never edited: each mutant is an edited *copy* of
voxels.pyx compiled out of tree as module `voxels_mut` (cimports resolve against /repo's .pxd files) and the property
module is run against it through VERIF_C17_MUTANT / VERIF_C17_SRC.

usage:  /venv/bin/python -m harness.props.c17_mut [name ...]        (from /verif)
"""
import json
import os
import shutil
import subprocess
import sys

VERIF = os.path.dirname(os.path.dirname(os.path.dirname(os.path.abspath(__file__))))
SRC = '/repo/cherab/tools/inversions/voxels.pyx'
WORK = '/tmp/c17_mut'

MUTANTS = {
    # name: (old, new, what a maintainer could plausibly write; all pass cherab/tools/tests/test_voxels.py?)
    'revert-fix-clamp': ("tri_index = min(find_index(cumulative_areas, total_area * uniform()) + 1, num_triangles - 1)",
                         "tri_index = find_index(cumulative_areas, total_area * uniform()) + 1"),
    'lookup-off-by-one': ("tri_index = min(find_index(cumulative_areas, total_area * uniform()) + 1, num_triangles - 1)",
                          "tri_index = max(find_index(cumulative_areas, total_area * uniform()), 0)"),
    'clamp-too-low': ("tri_index = min(find_index(cumulative_areas, total_area * uniform()) + 1, num_triangles - 1)",
                      "tri_index = min(find_index(cumulative_areas, total_area * uniform()) + 1, num_triangles - 2)"),
    'shoelace-closing-term': ("            area += x[num_vertices - 1] * y[0] - x[0] * y[num_vertices - 1]\n        return abs(area) / 2",
                              "        return abs(area) / 2"),
    'centroid-sign': ("cy += (y[i] + y[i + 1]) * (x[i] * y[i + 1] - x[i + 1] * y[i])", "cy += (y[i] + y[i + 1]) * (x[i] * y[i + 1] + x[i + 1] * y[i])"),
    'centroid-unsigned-area': ("        area /= 2\n        cx /= (6 * area)", "        area = abs(area) / 2\n        cx /= (6 * area)"),
    'volume-pi': ("return 2 * PI * self.cross_section_centroid.x * self.cross_sectional_area", "return PI * self.cross_section_centroid.x * self.cross_sectional_area"),
    'volume-centroid-y': ("return 2 * PI * self.cross_section_centroid.x * self.cross_sectional_area", "return 2 * PI * self.cross_section_centroid.y * self.cross_sectional_area"),
    'total-volume-skips-first': ("        for voxel in self._voxels:\n            total_volume += voxel.volume", "        for voxel in self._voxels[1:]:\n            total_volume += voxel.volume"),
    'triangle-area-no-half': ("triangle_area = 0.5 * abs(x1 * y2", "triangle_area = abs(x1 * y2"),
    'cumulative-not-cumulative': ("cumulative_areas[triangle_j] = (cumulative_areas[triangle_j - 1] + triangle_area)", "cumulative_areas[triangle_j] = triangle_area"),
    'mean-off-by-one': ("        emissivity /= grid_samples", "        emissivity /= (grid_samples + 1)"),
    'no-winding-normalisation': ("        if not winding2d(self._vertices):\n            self._vertices[:] = self._vertices[::-1]", "        pass"),
    # the three seeded changes that escaped the first version of the check
    'seeded-ndarray-fast-path': ("        self._vertices = np.empty((num_vertices, 2))\n        for i, vertex in enumerate(vertices):",
                                 "        fast = isinstance(vertices, np.ndarray) and vertices.ndim == 2 and vertices.shape[1] == 2\n"
                                 "        if fast:\n            self._vertices = np.ascontiguousarray(vertices, dtype=np.float64)\n"
                                 "        else:\n            self._vertices = np.empty((num_vertices, 2))\n"
                                 "        for i, vertex in enumerate(() if fast else vertices):"),
    'seeded-total-volume-children': ("        for voxel in self._voxels:\n            total_volume += voxel.volume", "        for voxel in self.children:\n            total_volume += voxel.volume"),
    'seeded-rectangle-fast-path': ("            sample_point = point_triangle(v1_p, v2_p, v3_p)\n",
                                   "            sample_point = point_triangle(v1_p, v2_p, v3_p)\n"
                                   "            if self._has_rectangular_cross_section():\n"
                                   "                sample_point = new_point3d(minimum(self._vertices[:, 0]) + peak_to_peak(self._vertices[:, 0]) * uniform(), 0.0,\n"
                                   "                                           minimum(self._vertices[:, 1]) + peak_to_peak(self._vertices[:, 1]) * uniform())\n"),
    # proposed cherab-side guard notes/fixes/C17-2.diff (not a mutant: must leave the check green apart from the listed finding)
    'guard-triangulation': ('        self._triangles = triangulate2d(self._vertices.base)\n',
                            "        self._triangles = triangulate2d(self._vertices.base)\n\n        # raysect's ear clipping can return inverted (hence overlapping) triangles when\n        # rounding hides a vertex lying on the edge of a candidate ear. The vertices are\n        # clockwise here, so every triangle must be clockwise (or degenerate) as well.\n        # Refuse the polygon rather than sample emissivities outside the cross section.\n        signed_areas = []\n        for v1_i, v2_i, v3_i in np.asarray(self._triangles):\n            signed_areas.append(\n                (self._vertices[v2_i, 0] - self._vertices[v1_i, 0]) * (self._vertices[v3_i, 1] - self._vertices[v1_i, 1])\n                - (self._vertices[v3_i, 0] - self._vertices[v1_i, 0]) * (self._vertices[v2_i, 1] - self._vertices[v1_i, 1])\n            )\n        if max(signed_areas) > 1e-9 * sum(abs(a) for a in signed_areas):\n            raise RuntimeError('The triangulation of the voxel polygon is inconsistent (inverted triangles). '\n                               'Try listing the polygon starting from a different vertex.')\n"),
    'refactor-harmless': ("        return abs(area) / 2", "        return 0.5 * abs(area)"),
}

SETUP = '''
from setuptools import setup, Extension
from Cython.Build import cythonize
import numpy
setup(ext_modules=cythonize([Extension("voxels_mut", ["voxels_mut.pyx"], include_dirs=["/repo", numpy.get_include()],
      define_macros=[("NPY_NO_DEPRECATED_API", "NPY_1_7_API_VERSION")])], include_path=["/repo"],
      compiler_directives={"language_level": 3}, force=True))
'''

RUN = '''
import sys, json
sys.path.insert(0, %r)
from harness.vlib import core
from harness.props import c17
ctx = core.Ctx('C17', 'quick', %d)
c17.run(ctx)
print('RESULT ' + json.dumps(dict(failing=[f['signature'] for f in ctx.failing], broken=sorted(set(b['kind'] + ':' + b['name'] for b in ctx.broken)),
      discharged=sum(1 for o in ctx.obligations if o[1]), obligations=len(ctx.obligations))))
'''


def build(name):
    old, new = MUTANTS[name]
    d = os.path.join(WORK, name)
    shutil.rmtree(d, ignore_errors=True)
    os.makedirs(d)
    text = open(SRC).read()
    assert text.count(old) == 1, (name, text.count(old))
    open(os.path.join(d, 'voxels_mut.pyx'), 'w').write(text.replace(old, new))
    open(os.path.join(d, 'setup.py'), 'w').write(SETUP)
    r = subprocess.run(['/venv/bin/python', 'setup.py', 'build_ext', '--inplace', '-q'], cwd=d, stdout=subprocess.PIPE, stderr=subprocess.STDOUT, text=True)
    if r.returncode != 0:
        raise RuntimeError(r.stdout[-2000:])
    return d


def run(name, seed=0):
    d = build(name)
    env = dict(os.environ, VERIF_C17_MUTANT=d, VERIF_C17_SRC=os.path.join(d, 'voxels_mut.pyx'),
               PYTHONPATH=VERIF + ':' + os.path.join(VERIF, 'harness', 'shim'), PYTHONHASHSEED='0')
    r = subprocess.run(['/venv/bin/python', '-c', RUN % (VERIF, seed)], cwd=VERIF, env=env, stdout=subprocess.PIPE, stderr=subprocess.STDOUT, text=True)
    res = [l for l in r.stdout.splitlines() if l.startswith('RESULT ')]
    if not res:
        return dict(error=r.stdout[-1500:], returncode=r.returncode)
    return json.loads(res[-1][7:])


if __name__ == '__main__':
    names = sys.argv[1:] or list(MUTANTS)
    try:
        for n in names:
            print(n, json.dumps(run(n)), flush=True)
    finally:
        # restore the generated Lean table for the real source
        env = dict(os.environ)
        env.pop('VERIF_C17_SRC', None)
        sys.path.insert(0, VERIF)
        from harness.translators import voxels as tr
        from harness.vlib import lean as vlean
        vlean.write_if_changed(os.path.join(VERIF, 'lean', 'Cherab', 'Gen', 'Voxels.lean'), tr.render(tr.scan()))
