import Cherab.Model.Registry
import Mathlib.Data.List.Basic
import Mathlib.Data.List.Nodup
import Mathlib.Data.List.Pairwise
import Mathlib.Data.List.Induction
import Mathlib.Tactic.Linarith
import Mathlib.Tactic.Ring
import Mathlib.Tactic.FieldSimp
import Mathlib.Algebra.Order.Field.Basic
import Mathlib.Algebra.Order.Ring.Rat
import Mathlib.Algebra.Order.Ring.Abs

/-!
Helper lemmas for C19 (all general: any table, any objects, any field lists).
* soundness of the Boolean checks the kernel evaluates (`nodupB`, `pairwiseB`, `beq`s, `weightNear`);
* the dictionary semantics of `buildIndex`: a lookup returns the *last* object (in `dir()` order) owning the key,
  hence round-trip ⇔ collision-freeness, for every table;
* `==` implies equal `hash` arguments whenever the hash fields are among the equality fields; `!=` is the negation
  of `==` whenever the two field lists have the same members; reflexivity;
* the string code is injective on NUL-free byte strings.
-/
namespace Cherab.Registry

/-! ### Boolean equality tests -/

theorem nbeq {a b : Nat} : a.beq b = true ↔ a = b := ⟨Nat.eq_of_beq_eq_true, fun h => h ▸ Nat.beq_refl a⟩

theorem El.beq_iff {a b : El} : a.beq b = true ↔ a = b := by
  cases a; cases b
  simp [El.beq, Bool.and_eq_true]
  tauto

theorem Iso.beq_iff {a b : Iso} : a.beq b = true ↔ a = b := by
  cases a; cases b
  simp [Iso.beq, El.beq_iff, Bool.and_eq_true]
  tauto

theorem optElIs_iff {o : Option El} {e : El} : optElIs o e = true ↔ o = some e := by
  cases o <;> simp [optElIs, El.beq_iff]

theorem optIsoIs_iff {o : Option Iso} {i : Iso} : optIsoIs o i = true ↔ o = some i := by
  cases o <;> simp [optIsoIs, Iso.beq_iff]

theorem memEl_iff {e : El} {l : List El} : memEl e l = true ↔ e ∈ l := by
  simp [memEl, List.any_eq_true, El.beq_iff]

theorem nodupB_sound : ∀ {l : List Nat}, nodupB l = true → l.Nodup
  | [], _ => List.nodup_nil
  | x :: xs, h => by
    simp only [nodupB, Bool.and_eq_true, Bool.not_eq_true', List.any_eq_false] at h
    refine List.nodup_cons.mpr ⟨fun hx => ?_, nodupB_sound h.2⟩
    exact (h.1 x hx) (nbeq.mpr rfl)

theorem pairwiseB_sound {α : Type} {r : α → α → Bool} :
    ∀ {l : List α}, pairwiseB r l = true → l.Pairwise (fun a b => r a b = true ∧ r b a = true)
  | [], _ => List.Pairwise.nil
  | x :: xs, h => by
    simp only [pairwiseB, Bool.and_eq_true, List.all_eq_true] at h
    exact List.Pairwise.cons (fun y hy => h.1 y hy) (pairwiseB_sound h.2)

/-! ### dictionary semantics of the index builders (every table, every key function) -/

section index
variable {α : Type}

theorem get?_cons (k' : Nat) (v : α) (t : Index α) (k : Nat) :
    Index.get? ((k', v) :: t) k = if k' = k then some v else Index.get? t k := by
  by_cases h : k' = k
  · simp [Index.get?, h]
  · have : k'.beq k = false := by
      cases hb : k'.beq k
      · rfl
      · exact absurd (nbeq.mp hb) h
    simp [Index.get?, h, this]

theorem get?_addKeys_aux (o : α) (ks : List Nat) (idx : Index α) (k : Nat) :
    Index.get? (ks.foldl (fun i k' => Index.set i k' o) idx) k = if k ∈ ks then some o else Index.get? idx k := by
  induction ks generalizing idx with
  | nil => simp
  | cons k' ks ih =>
    rw [List.foldl_cons, ih, Index.set, get?_cons]
    by_cases h1 : k ∈ ks
    · simp [h1]
    · by_cases h2 : k' = k
      · simp [h2]
      · have : ¬ k = k' := fun h => h2 h.symm
        simp [h1, h2, this]

/-- one pass of the builder's loop body: the object takes over exactly its own keys -/
theorem get?_addKeys (keys : α → List Nat) (idx : Index α) (o : α) (k : Nat) :
    Index.get? (addKeys keys idx o) k = if k ∈ keys o then some o else Index.get? idx k :=
  get?_addKeys_aux o (keys o) idx k

theorem get?_foldl (keys : α → List Nat) (objs : List α) (idx : Index α) (k : Nat) :
    Index.get? (objs.foldl (addKeys keys) idx) k =
      ((objs.reverse.find? fun o => decide (k ∈ keys o)).orElse fun _ => Index.get? idx k) := by
  induction objs generalizing idx with
  | nil => simp
  | cons o os ih =>
    rw [List.foldl_cons, ih, get?_addKeys, List.reverse_cons, List.find?_append]
    cases h : List.find? (fun o => decide (k ∈ keys o)) os.reverse with
    | some v => simp
    | none =>
      by_cases hk : k ∈ keys o <;> simp [hk]

/-- **last writer wins**: reading key `k` from the built index returns the last object in `dir()` order that owns `k` -/
theorem get?_buildIndex (keys : α → List Nat) (objs : List α) (k : Nat) :
    Index.get? (buildIndex keys objs) k = objs.reverse.find? fun o => decide (k ∈ keys o) := by
  unfold buildIndex
  rw [get?_foldl]
  cases h : List.find? (fun o => decide (k ∈ keys o)) objs.reverse <;> simp [Index.get?]

/-- collision-free tables: no key is owned by two different objects -/
def CollisionFree (keys : α → List Nat) (objs : List α) : Prop :=
  ∀ a ∈ objs, ∀ b ∈ objs, ∀ k, k ∈ keys a → k ∈ keys b → a = b

/-- every object is found under each of its keys -/
def RoundTrip (keys : α → List Nat) (objs : List α) : Prop :=
  ∀ a ∈ objs, ∀ k ∈ keys a, Index.get? (buildIndex keys objs) k = some a

/-- for every table and key function: all round trips succeed **iff** the keys are collision-free -/
theorem roundTrip_iff_collisionFree (keys : α → List Nat) (objs : List α) :
    RoundTrip keys objs ↔ CollisionFree keys objs := by
  constructor
  · intro h a ha b hb k hka hkb
    have h1 := h a ha k hka
    have h2 := h b hb k hkb
    rw [h1] at h2
    exact Option.some.inj h2
  · intro h a ha k hk
    rw [get?_buildIndex]
    have hex : ∃ o, o ∈ objs.reverse ∧ decide (k ∈ keys o) = true := ⟨a, List.mem_reverse.mpr ha, by simpa using hk⟩
    cases hf : List.find? (fun o => decide (k ∈ keys o)) objs.reverse with
    | none =>
      obtain ⟨o, ho, hko⟩ := hex
      exact absurd hko (by simpa using (List.find?_eq_none.mp hf) o ho)
    | some b =>
      have hb : b ∈ objs := List.mem_reverse.mp (List.mem_of_find?_eq_some hf)
      have hkb : k ∈ keys b := by simpa using List.find?_some hf
      rw [h a ha b hb k hk hkb]

/-- an object outside the table, or a key nobody owns, is never returned -/
theorem get?_buildIndex_sound (keys : α → List Nat) (objs : List α) (k : Nat) (o : α)
    (h : Index.get? (buildIndex keys objs) k = some o) : o ∈ objs ∧ k ∈ keys o := by
  rw [get?_buildIndex] at h
  exact ⟨List.mem_reverse.mp (List.mem_of_find?_eq_some h), by simpa using List.find?_some h⟩

end index

/-! ### lookups depend on the spelling only through its lower-case form -/

theorem lookupElement_str (eidx : Index El) (s : Nat) : lookupElement eidx (.str s) = eidx.get? (lower s) := rfl

theorem lookupElement_int (eidx : Index El) (n : Int) : lookupElement eidx (.int n) = eidx.get? (lower (strInt n)) := rfl

theorem lookupElement_case (eidx : Index El) {s t : Nat} (h : lower s = lower t) :
    lookupElement eidx (.str s) = lookupElement eidx (.str t) := by
  rw [lookupElement_str, lookupElement_str, h]

theorem lookupIsotope_str (eidx : Index El) (iidx : Index Iso) (s : Nat) :
    lookupIsotope eidx iidx (.str s) none = iidx.get? (lower s) := rfl

theorem lookupIsotope_case (eidx : Index El) (iidx : Index Iso) {s t : Nat} (h : lower s = lower t) :
    lookupIsotope eidx iidx (.str s) none = lookupIsotope eidx iidx (.str t) none := by
  rw [lookupIsotope_str, lookupIsotope_str, h]

/-- with a mass number the isotope lookup depends on `v` only through `lookup_element(v)` -/
theorem lookupIsotope_number (eidx : Index El) (iidx : Index Iso) (q : Query) (hq : ∀ j, q ≠ .isot j)
    (n : Int) (hn : n ≠ 0) :
    lookupIsotope eidx iidx q (some n) =
      (lookupElement eidx q).bind fun e => iidx.get? (lower (cat e.sym (strInt n))) := by
  cases q with
  | isot j => exact absurd rfl (hq j)
  | elem e => simp [lookupIsotope, hn, lookupElement]
  | str s =>
    simp only [lookupIsotope, hn, if_false]
    cases lookupElement eidx (.str s) <;> rfl
  | int m =>
    simp only [lookupIsotope, hn, if_false]
    cases lookupElement eidx (.int m) <;> rfl

/-! ### equality, inequality, hashing -/

theorem efEq_refl (f : EField) (a : El) : efEq f a a = true := by
  cases f <;> simp [efEq]

theorem nbeq_comm (a b : Nat) : a.beq b = b.beq a := by
  rw [Bool.eq_iff_iff, nbeq, nbeq, eq_comm]

theorem efEq_symm (f : EField) (a b : El) : efEq f a b = efEq f b a := by
  cases f
  · simp only [efEq]; rw [nbeq_comm]
  · simp only [efEq]; rw [nbeq_comm]
  · simp only [efEq]; rw [nbeq_comm]
  · simp only [efEq]; rw [nbeq_comm a.wNum, nbeq_comm a.wDen]

theorem efEq_val {f : EField} {a b : El} (h : efEq f a b = true) : efVal f a = efVal f b := by
  cases f <;> simp_all [efEq, efVal]

theorem elEq_refl (c : CmpCfg) (a : El) : elEq c a a = true := by
  simp [elEq, List.all_eq_true, efEq_refl]

theorem elEq_symm (c : CmpCfg) (a b : El) : elEq c a b = elEq c b a := by
  unfold elEq
  congr 1
  funext f
  exact efEq_symm f a b

theorem elNe_refl (c : CmpCfg) (a : El) : elNe c a a = false := by
  simp [elNe, efEq_refl]

/-- `Element`: equal objects hash equally, provided the hash fields are among the compared fields -/
theorem elEq_hash {c : CmpCfg} (hsub : ∀ f ∈ c.elHash, f ∈ c.elEq) {a b : El} (h : elEq c a b = true) :
    elHash c a = elHash c b := by
  simp only [elEq, List.all_eq_true] at h
  exact List.map_congr_left fun f hf => efEq_val (h f (hsub f hf))

/-- `x != y` is `not (x == y)` when op 2 and op 3 mention the same fields -/
theorem elNe_eq_not {c : CmpCfg} (hsame : ∀ f, f ∈ c.elNe ↔ f ∈ c.elEq) (a b : El) :
    elNe c a b = !elEq c a b := by
  rw [Bool.eq_iff_iff]
  simp only [elNe, elEq, List.any_eq_true, Bool.not_eq_eq_eq_not, Bool.not_true,
    List.all_eq_false]
  constructor
  · rintro ⟨f, hf, h⟩; exact ⟨f, (hsame f).mp hf, by simpa using h⟩
  · rintro ⟨f, hf, h⟩; exact ⟨f, (hsame f).mpr hf, by simpa using h⟩

theorem ifEq_refl (c : CmpCfg) (f : IField) (a : Iso) : ifEq c f a a = true := by
  cases f <;> simp [ifEq, efEq_refl, elEq_refl]

theorem isoEq_refl (c : CmpCfg) (a : Iso) : isoEq c a a = true := by
  simp [isoEq, List.all_eq_true, ifEq_refl]

theorem ifEq_val {c : CmpCfg} (hsub : ∀ f ∈ c.elHash, f ∈ c.elEq) {f : IField} {a b : Iso}
    (h : ifEq c f a b = true) : ifVal c f a = ifVal c f b := by
  cases f with
  | inh g => exact efEq_val h
  | massNumber => simp_all [ifEq, ifVal]
  | element => simp only [ifVal]; rw [elEq_hash hsub h]

/-- `Isotope`: equal objects hash equally -/
theorem isoEq_hash {c : CmpCfg} (hsubE : ∀ f ∈ c.elHash, f ∈ c.elEq) (hsubI : ∀ f ∈ c.isoHash, f ∈ c.isoEq)
    {a b : Iso} (h : isoEq c a b = true) : isoHash c a = isoHash c b := by
  simp only [isoEq, List.all_eq_true] at h
  exact List.map_congr_left fun f hf => ifEq_val hsubE (h f (hsubI f hf))

theorem ifNe_eq_not {c : CmpCfg} (hE : ∀ f, f ∈ c.elNe ↔ f ∈ c.elEq) (f : IField) (a b : Iso) :
    ifNe c f a b = !ifEq c f a b := by
  cases f <;> simp [ifNe, ifEq, elNe_eq_not hE]

theorem isoNe_eq_not {c : CmpCfg} (hE : ∀ f, f ∈ c.elNe ↔ f ∈ c.elEq) (hI : ∀ f, f ∈ c.isoNe ↔ f ∈ c.isoEq)
    (a b : Iso) : isoNe c a b = !isoEq c a b := by
  rw [Bool.eq_iff_iff]
  simp only [isoNe, isoEq, List.any_eq_true, Bool.not_eq_true', List.all_eq_false, ifNe_eq_not hE]
  constructor
  · rintro ⟨f, hf, h⟩; exact ⟨f, (hI f).mp hf, by simpa using h⟩
  · rintro ⟨f, hf, h⟩; exact ⟨f, (hI f).mpr hf, by simpa using h⟩

/-- two species objects of the same exact type -/
def SameKind : Sp → Sp → Prop
  | .el _, .el _ => True
  | .iso _, .iso _ => True
  | _, _ => False

theorem pyEq_refl (c : CmpCfg) (s : Sp) : pyEq c s s = true := by
  cases s <;> simp [pyEq, elEq_refl, isoEq_refl]

theorem pyEq_symm_el (c : CmpCfg) (a : El) (b : Iso) : pyEq c (.el a) (.iso b) = pyEq c (.iso b) (.el a) := rfl

/-- species of the same exact type: `==` implies equal `hash` arguments -/
theorem pyEq_hash_sameKind {c : CmpCfg} (hsubE : ∀ f ∈ c.elHash, f ∈ c.elEq) (hsubI : ∀ f ∈ c.isoHash, f ∈ c.isoEq)
    {a b : Sp} (hk : SameKind a b) (h : pyEq c a b = true) : spHash c a = spHash c b := by
  cases a <;> cases b <;> simp only [SameKind] at hk
  · exact elEq_hash hsubE h
  · exact isoEq_hash hsubE hsubI h

/-- … so `==` implies equal hash arguments for **all** species, no side condition -/
theorem pyEq_hash_strict {c : CmpCfg} (hs : c.strictKind = true) (hsubE : ∀ f ∈ c.elHash, f ∈ c.elEq)
    (hsubI : ∀ f ∈ c.isoHash, f ∈ c.isoEq) {a b : Sp} (h : pyEq c a b = true) : spHash c a = spHash c b := by
  cases a <;> cases b
  · exact elEq_hash hsubE h
  · simp [pyEq, hs] at h
  · simp [pyEq, hs] at h
  · exact isoEq_hash hsubE hsubI h

theorem pyNe_eq_not {c : CmpCfg} (hE : ∀ f, f ∈ c.elNe ↔ f ∈ c.elEq) (hI : ∀ f, f ∈ c.isoNe ↔ f ∈ c.isoEq)
    (a b : Sp) : pyNe c a b = !pyEq c a b := by
  cases a <;> cases b <;> simp only [pyNe, pyEq, elNe_eq_not hE, isoNe_eq_not hE hI] <;> split <;> simp



/-! ### equality is value-based: `==` holds exactly when all fields coincide (every constructible object) -/

theorem elEq_iff_eq {c : CmpCfg} (h : ∀ f : EField, f ∈ c.elEq) (a b : El) : elEq c a b = true ↔ a = b := by
  constructor
  · intro he
    simp only [elEq, List.all_eq_true] at he
    have h1 := he .name (h _)
    have h2 := he .symbol (h _)
    have h3 := he .atomicNumber (h _)
    have h4 := he .atomicWeight (h _)
    simp only [efEq, Bool.and_eq_true] at h1 h2 h3 h4
    cases a; cases b
    simp only [El.mk.injEq]
    exact ⟨nbeq.mp h1, nbeq.mp h2, nbeq.mp h3, nbeq.mp h4.1, nbeq.mp h4.2⟩
  · rintro rfl
    exact elEq_refl c a

theorem isoEq_iff_eq {c : CmpCfg} (hE : ∀ f : EField, f ∈ c.elEq) (hI : ∀ f : IField, f ∈ c.isoEq) (a b : Iso) :
    isoEq c a b = true ↔ a = b := by
  constructor
  · intro he
    simp only [isoEq, List.all_eq_true] at he
    have hb : elEq c a.base b.base = true := by
      simp only [elEq, List.all_eq_true]
      intro f _
      exact he (.inh f) (hI _)
    have hm := he .massNumber (hI _)
    have hp := he .element (hI _)
    simp only [ifEq] at hm hp
    cases a; cases b
    simp only [Iso.mk.injEq]
    exact ⟨(elEq_iff_eq hE _ _).mp hb, nbeq.mp hm, (elEq_iff_eq hE _ _).mp hp⟩
  · rintro rfl
    exact isoEq_refl c a

/-- mixed comparison: decided on the inherited `Element` part alone -/
theorem pyEq_mixed_iff {c : CmpCfg} (hs : c.strictKind = false) (hE : ∀ f : EField, f ∈ c.elEq) (e : El) (i : Iso) :
    (pyEq c (.el e) (.iso i) = true ↔ e = i.base) ∧ (pyEq c (.iso i) (.el e) = true ↔ e = i.base) := by
  simp only [pyEq, hs, Bool.false_eq_true, if_false]
  exact ⟨elEq_iff_eq hE e i.base, elEq_iff_eq hE e i.base⟩

/-- with the `strictKind` guard a mixed comparison is never `==` … -/
theorem pyEq_mixed_strict {c : CmpCfg} (hs : c.strictKind = true) (e : El) (i : Iso) :
    pyEq c (.el e) (.iso i) = false ∧ pyEq c (.iso i) (.el e) = false := by
  simp [pyEq, hs]

theorem pyEq_sameKind_iff {c : CmpCfg} (hE : ∀ f : EField, f ∈ c.elEq) (hI : ∀ f : IField, f ∈ c.isoEq)
    {a b : Sp} (hk : SameKind a b) : pyEq c a b = true ↔ a = b := by
  cases a <;> cases b <;> simp only [SameKind] at hk
  · simp only [pyEq, Sp.el.injEq]; exact elEq_iff_eq hE _ _
  · simp only [pyEq, Sp.iso.injEq]; exact isoEq_iff_eq hE hI _ _

/-- the hash tuples of an `Element` and an `Isotope` have different lengths, hence differ -/
theorem spHash_mixed_ne {c : CmpCfg} (hlen : c.elHash.length ≠ c.isoHash.length) (e : El) (i : Iso) :
    spHash c (.el e) ≠ spHash c (.iso i) := by
  intro h
  have := congrArg List.length h
  simp only [spHash, elHash, isoHash, List.length_map] at this
  exact hlen this

/-! ### certificates -/

theorem idxOk_sound {F : Nat → Option Nat} :
    ∀ {l : List Nat} {p : Nat}, idxOk F p l = true → ∀ (i : Nat) (h : i < l.length), F l[i] = some (p + i)
  | [], _, _, i, h => absurd h (Nat.not_lt_zero i)
  | k :: ks, p, hok, i, h => by
    simp only [idxOk, Bool.and_eq_true] at hok
    cases i with
    | zero =>
      cases hF : F k with
      | none => simp [hF] at hok
      | some v =>
        have : v.beq p = true := by simpa [hF] using hok.1
        simp [hF, nbeq.mp this]
    | succ j =>
      have := idxOk_sound hok.2 j (by simpa using h)
      simpa [Nat.add_assoc, Nat.add_comm 1 j] using this

/-- if some function sends the `i`-th entry to `p + i`, the entries are pairwise different -/
theorem nodup_of_idxOk {F : Nat → Option Nat} {l : List Nat} {p : Nat} (h : idxOk F p l = true) : l.Nodup := by
  rw [List.nodup_iff_injective_get]
  intro i j hij
  have hi := idxOk_sound h i.1 i.2
  have hj := idxOk_sound h j.1 j.2
  simp only [List.get_eq_getElem] at hij
  rw [hij, hj] at hi
  have : p + j.1 = p + i.1 := Option.some.inj hi
  exact Fin.ext (by omega)

theorem subseqB_sound {α : Type} {eq : α → α → Bool} (heq : ∀ a b, eq a b = true → a = b) :
    ∀ {a b : List α}, subseqB eq a b = true → ∀ x ∈ a, x ∈ b
  | [], _, _, x, hx => by simp at hx
  | _ :: _, [], h, _, _ => by simp [subseqB] at h
  | x :: xs, y :: ys, h, z, hz => by
    simp only [subseqB] at h
    by_cases hxy : eq x y = true
    · rw [if_pos hxy] at h
      have hx := heq x y hxy
      rcases List.mem_cons.mp hz with rfl | hz'
      · simp [hx]
      · exact List.mem_cons_of_mem _ (subseqB_sound heq h z hz')
    · rw [if_neg hxy] at h
      exact List.mem_cons_of_mem _ (subseqB_sound heq h z hz)

/-- any oracle that maps every key of every object to that object certifies collision-freeness -/
theorem collisionFree_of_oracle {α : Type} {keys : α → List Nat} {objs : List α} (f : Nat → Option α)
    (h : ∀ o ∈ objs, ∀ k ∈ keys o, f k = some o) : CollisionFree keys objs := by
  intro a ha b hb k hka hkb
  have h1 := h a ha k hka
  rw [h b hb k hkb] at h1
  exact (Option.some.inj h1).symm

/-- species whose names differ compare unequal, as soon as `name` is among the compared fields of both classes -/
theorem pyEq_false_of_name_ne {c : CmpCfg} (hE : EField.name ∈ c.elEq) (hI : IField.inh .name ∈ c.isoEq)
    {a b : Sp} (h : a.base.name ≠ b.base.name) : pyEq c a b = false := by
  have hn : ∀ x y : El, x.name ≠ y.name → elEq c x y = false := by
    intro x y hxy
    simp only [elEq, List.all_eq_false]
    refine ⟨.name, hE, ?_⟩
    simp [efEq, hxy]
  cases a <;> cases b <;> simp only [pyEq, Sp.base] at *
  · exact hn _ _ h
  · split
    · rfl
    · exact hn _ _ h
  · split
    · rfl
    · exact hn _ _ (fun e => h e.symm)
  · simp only [isoEq, List.all_eq_false]
    refine ⟨.inh .name, hI, ?_⟩
    simp [ifEq, efEq, h]


/-! ### `lower` distributes over concatenation (byte-wise map) -/

theorem lowerByte_zero : lowerByte 0 = 0 := by decide

theorem lowerAux_zero (f : Nat) : lowerAux f 0 = 0 := by
  induction f with
  | zero => rfl
  | succ f ih => simp [lowerAux, ih, lowerByte_zero]

theorem lowerAux_fuel (f g n : Nat) (h : n < 256 ^ f) : lowerAux (f + g) n = lowerAux f n := by
  induction f generalizing n with
  | zero =>
    have : n = 0 := by simpa using h
    subst this
    simp [lowerAux_zero]
  | succ f ih =>
    have hd : n / 256 < 256 ^ f := by
      rw [Nat.div_lt_iff_lt_mul (by norm_num)]
      rw [pow_succ] at h
      exact h
    rw [show f + 1 + g = (f + g) + 1 by omega]
    simp only [lowerAux]
    rw [ih _ hd]

/-- any sufficient fuel gives the same result -/
theorem lowerAux_fuel' (f1 f2 n : Nat) (h1 : n < 256 ^ f1) (h2 : n < 256 ^ f2) : lowerAux f1 n = lowerAux f2 n := by
  rcases Nat.le_total f1 f2 with h | h
  · obtain ⟨g, rfl⟩ := Nat.exists_eq_add_of_le h
    exact (lowerAux_fuel f1 g n h1).symm
  · obtain ⟨g, rfl⟩ := Nat.exists_eq_add_of_le h
    exact lowerAux_fuel f2 g n h2

theorem lowerAux_split (m f a b : Nat) (hb : b < 256 ^ m) :
    lowerAux (m + f) (a * 256 ^ m + b) = lowerAux f a * 256 ^ m + lowerAux m b := by
  induction m generalizing b with
  | zero =>
    have : b = 0 := by simpa using hb
    subst this
    simp [lowerAux]
  | succ m ih =>
    have hd : b / 256 < 256 ^ m := by
      rw [Nat.div_lt_iff_lt_mul (by norm_num)]
      rw [pow_succ] at hb
      exact hb
    have e1 : (a * 256 ^ (m + 1) + b) / 256 = a * 256 ^ m + b / 256 := by
      rw [pow_succ, ← Nat.mul_assoc, Nat.add_comm, Nat.add_mul_div_right _ _ (by norm_num : 0 < 256), Nat.add_comm]
    have e2 : (a * 256 ^ (m + 1) + b) % 256 = b % 256 := by
      rw [pow_succ, ← Nat.mul_assoc, Nat.add_comm, Nat.add_mul_mod_self_right]
    rw [show m + 1 + f = (m + f) + 1 by omega]
    simp only [lowerAux]
    rw [e1, e2, ih _ hd]
    ring

theorem lt_pow_bytes (n : Nat) : n < 256 ^ bytes n := by
  unfold bytes
  by_cases h : n = 0
  · subst h; simp
  · have hb : n.beq 0 = false := by
      cases hh : n.beq 0
      · rfl
      · exact absurd (nbeq.mp hh) h
    simp only [hb]
    have h1 : n < 2 ^ (n.log2 + 1) := Nat.lt_log2_self
    have h2 : (256 : Nat) ^ (n.log2 / 8 + 1) = 2 ^ (8 * (n.log2 / 8 + 1)) := by
      rw [show (256 : Nat) = 2 ^ 8 by norm_num, ← pow_mul]
    have h3 : n.log2 + 1 ≤ 8 * (n.log2 / 8 + 1) := by omega
    calc n < 2 ^ (n.log2 + 1) := h1
      _ ≤ 2 ^ (8 * (n.log2 / 8 + 1)) := Nat.pow_le_pow_right (by norm_num) h3
      _ = 256 ^ (n.log2 / 8 + 1) := h2.symm

/-- `(a + b).lower() = a.lower() + b` for a suffix `b` that lower-casing leaves alone (e.g. decimal digits) -/
theorem lower_cat_of (a b : Nat) (hb : lower b = b) : lower (cat a b) = cat (lower a) b := by
  have hbb := lt_pow_bytes b
  have hab : a * 256 ^ bytes b + b < 256 ^ (bytes b + bytes a) := by
    have ha := lt_pow_bytes a
    rw [pow_add]
    calc a * 256 ^ bytes b + b < a * 256 ^ bytes b + 256 ^ bytes b := by omega
      _ = (a + 1) * 256 ^ bytes b := by ring
      _ ≤ 256 ^ bytes a * 256 ^ bytes b := Nat.mul_le_mul_right _ ha
      _ = 256 ^ bytes b * 256 ^ bytes a := Nat.mul_comm _ _
  unfold lower at hb
  show lowerAux (bytes (cat a b)) (cat a b) = cat (lowerAux (bytes a) a) b
  unfold cat
  rw [lowerAux_fuel' _ (bytes b + bytes a) _ (lt_pow_bytes _) hab, lowerAux_split _ _ _ _ hbb, hb]

theorem cat_div (a b : Nat) : cat a b / 256 ^ bytes b = a := by
  unfold cat
  have hb := lt_pow_bytes b
  have hp : 0 < 256 ^ bytes b := Nat.pos_of_ne_zero (by positivity)
  rw [Nat.add_comm, Nat.add_mul_div_right _ _ hp, Nat.div_eq_of_lt hb, Nat.zero_add]

theorem cat_mod (a b : Nat) : cat a b % 256 ^ bytes b = b := by
  unfold cat
  rw [Nat.add_comm, Nat.add_mul_mod_self_right, Nat.mod_eq_of_lt (lt_pow_bytes b)]

/-! ### weights -/

/-- the integer test `weightNear` is `|w − A| ≤ 1/10` for the rational `w = wNum / wDen` -/
theorem weightNear_sound {wNum wDen a : Nat} (hd : 0 < wDen) (h : weightNear wNum wDen a = true) :
    |(wNum : ℚ) / wDen - a| ≤ 1 / 10 := by
  simp only [weightNear, Bool.and_eq_true, Nat.ble_eq] at h
  obtain ⟨h1, h2⟩ := h
  have hd' : (0 : ℚ) < wDen := by exact_mod_cast hd
  have e1 : (wNum : ℚ) ≤ a * wDen + wDen / 10 := by
    have : 10 * wNum ≤ 10 * (a * wDen) + wDen := by omega
    have : (10 : ℚ) * wNum ≤ 10 * (a * wDen) + wDen := by exact_mod_cast this
    linarith
  have e2 : (a : ℚ) * wDen ≤ wNum + wDen / 10 := by
    have : 10 * (a * wDen) ≤ 10 * wNum + wDen := by omega
    have : (10 : ℚ) * (a * wDen) ≤ 10 * wNum + wDen := by exact_mod_cast this
    linarith
  rw [abs_le]
  constructor
  · rw [le_sub_iff_add_le, ← sub_eq_neg_add, le_div_iff₀ hd']
    linarith
  · rw [sub_le_iff_le_add, div_le_iff₀ hd']
    linarith

/-! ### the string code is injective on NUL-free byte strings -/

/-- big-endian value of a byte list (what `enc` computes on the UTF-8 bytes) -/
def encBytes (bs : List Nat) : Nat := bs.foldl (fun a b => a * 256 + b) 0

theorem enc_eq_encBytes (s : String) : enc s = encBytes (s.toUTF8.data.toList.map UInt8.toNat) := by
  simp [enc, encBytes, List.foldl_map]

theorem encBytes_append_singleton (bs : List Nat) (b : Nat) : encBytes (bs ++ [b]) = encBytes bs * 256 + b := by
  simp [encBytes, List.foldl_append]

/-- NUL-free byte strings with equal codes are equal -/
theorem encBytes_injective : ∀ (xs ys : List Nat), (∀ b ∈ xs, 0 < b ∧ b < 256) → (∀ b ∈ ys, 0 < b ∧ b < 256) →
    encBytes xs = encBytes ys → xs = ys := by
  intro xs
  induction xs using List.reverseRecOn with
  | nil =>
    intro ys _ hy h
    induction ys using List.reverseRecOn with
    | nil => rfl
    | append_singleton ys y _ =>
      rw [encBytes_append_singleton] at h
      have := (hy y (by simp)).1
      simp [encBytes] at h
      omega
  | append_singleton xs x ih =>
    intro ys hx hy h
    induction ys using List.reverseRecOn with
    | nil =>
      rw [encBytes_append_singleton] at h
      have := (hx x (by simp)).1
      simp [encBytes] at h
      omega
    | append_singleton ys y _ =>
      rw [encBytes_append_singleton, encBytes_append_singleton] at h
      have hx' := hx x (by simp)
      have hy' := hy y (by simp)
      have hxy : x = y := by omega
      have hrest : encBytes xs = encBytes ys := by omega
      rw [ih ys (fun b hb => hx b (by simp [hb])) (fun b hb => hy b (by simp [hb])) hrest, hxy]

end Cherab.Registry
