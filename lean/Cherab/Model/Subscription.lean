/-
Subscription bookkeeping of a property setter that installs an object and registers a callback with that object's
notifier (Beam.attenuator, Beam/BeamModel/BeamAttenuator/PlasmaModel `.plasma` / `.beam`, Laser.laser_profile,
Laser.plasma).  One callback, any number of provider objects (identified by `Nat`).

State: what the attribute holds (`cur`) and the list of providers whose notifier currently lists the callback (`subs`).
`Notifier.add` is idempotent and `Notifier.remove` removes the entry (Model/Notifier.lean), hence `addN` / `erase`.
A setter body is a list of events in source order (generated: Gen/SetterEvents.lean).
-/
namespace Cherab.Subscription

inductive Tgt | attr | value | old
  deriving DecidableEq, Repr

inductive Ev
  | remove (t : Tgt)
  | add (t : Tgt)
  | assign
  deriving DecidableEq, Repr

structure St where
  cur : Option Nat
  subs : List Nat
  deriving DecidableEq, Repr

def addN (l : List Nat) (p : Nat) : List Nat := if l.contains p then l else l ++ [p]

/-- the provider an event talks to: the attribute's present content, the object being installed, or what the attribute
held when the setter was entered (a local alias `previous = self._x`) -/
def target (s : St) (p : Nat) (old : Option Nat) : Tgt → Option Nat
  | .attr => s.cur
  | .value => some p
  | .old => old

/-- one statement of the setter body, installing `p` (`if self._x:` guards make a `none` target a no-op) -/
def ev (p : Nat) (old : Option Nat) (s : St) : Ev → St
  | .remove t => match target s p old t with
      | some q => { s with subs := s.subs.erase q }
      | none => s
  | .add t => match target s p old t with
      | some q => { s with subs := addN s.subs q }
      | none => s
  | .assign => { s with cur := some p }

/-- a whole setter call -/
def setter (evs : List Ev) (s : St) (p : Nat) : St := evs.foldl (ev p s.cur) s

/-- a history of assignments -/
def run (evs : List Ev) (s : St) (ps : List Nat) : St := ps.foldl (setter evs) s

def init : St := { cur := none, subs := [] }

/-- the callback is registered with exactly the installed object, once -/
def SubInv (s : St) : Prop := s.subs = s.cur.toList

instance (s : St) : Decidable (SubInv s) := by unfold SubInv; infer_instance

/-- the three source orders that are correct -/
def canonical (evs : List Ev) : Bool :=
  evs == [.remove .attr, .assign, .add .attr] || evs == [.remove .attr, .assign, .add .value] ||
  evs == [.remove .attr, .add .value, .assign] ||
  evs == [.remove .old, .assign, .add .attr] || evs == [.remove .old, .assign, .add .value] ||
  evs == [.remove .old, .add .value, .assign]

end Cherab.Subscription
