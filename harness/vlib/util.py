"""Small shared helpers: float bit transport, tolerant comparison, exception canonicalisation."""
import math
import struct

import os as _os
VERIF = _os.path.dirname(_os.path.dirname(_os.path.dirname(_os.path.abspath(__file__))))
REPO = '/repo'
LEAN = _os.path.join(VERIF, 'lean')


def f2b(x):
    """float -> decimal string of its IEEE-754 bit pattern"""
    return str(struct.unpack('<Q', struct.pack('<d', float(x)))[0])


def b2f(s):
    return struct.unpack('<d', struct.pack('<Q', int(s)))[0]


def fs(xs):
    return ' '.join(f2b(x) for x in xs)


def hexs(s):
    return s.encode().hex() or '-'


def close(a, b, rel=1e-9, floor=0.0):
    """tolerance rule of DESIGN §3"""
    if isinstance(a, (list, tuple)) or isinstance(b, (list, tuple)):
        return len(a) == len(b) and all(close(x, y, rel, floor) for x, y in zip(a, b))
    a = float(a); b = float(b)
    if math.isnan(a) or math.isnan(b):
        return math.isnan(a) and math.isnan(b)
    if math.isinf(a) or math.isinf(b):
        return a == b
    return abs(a - b) <= rel * max(abs(a), abs(b)) + floor


_EXC = ('ValueError', 'TypeError', 'RuntimeError', 'KeyError', 'IndexError', 'AttributeError',
        'ZeroDivisionError', 'NotImplementedError', 'FileNotFoundError', 'OverflowError')


def exc_kind(e):
    n = type(e).__name__
    for k in _EXC:
        if n == k:
            return k
    for k in _EXC:
        if any(c.__name__ == k for c in type(e).__mro__):
            return k
    return 'Other:' + n


def call(f, *a, **k):
    """run f; return ('ok', value) or (exception-kind, message)"""
    try:
        return 'ok', f(*a, **k)
    except Exception as e:  # noqa
        return exc_kind(e), str(e)[:200]
