import Cherab.Model.Caching
import Cherab.Lemmas.CachingMemo

/-!
# C14 — caching functions are history-independent and interpolate the cached function
-/
namespace Cherab.Props.C14
set_option linter.unusedSectionVars false
open Cherab.Caching

/-! ## history independence (all three classes: the machine is generic in the `Spec`) -/
section Memo
variable {α P ν κ C : Type} [DecidableEq ν] [DecidableEq κ]

/-- **memo_transparent.**  For any wrapped function `E.f` (pure), any history `ps` of evaluations — inside or outside
the caching area, in any order — and any point `p`, the value returned for `p` in the state reached after `ps` is
`evalPure p`, which does not mention the state.  Holds for every `Spec`, hence for Caching1D/2D/3D. -/
theorem memo_transparent (S : Spec α P ν κ C) (E : Env α P) (nbe : Bool) (ps : List P) (p : P) :
    (evalStep S E nbe (run S E nbe St.init ps) p).2.1 = evalPure S E nbe p :=
  (evalStep_spec S E nbe _ (run_inv S E nbe ps _ (inv_init S E)) p).2

/-- two different histories give the same value at `p` -/
theorem history_independent (S : Spec α P ν κ C) (E : Env α P) (nbe : Bool) (ps qs : List P) (p : P) :
    (evalStep S E nbe (run S E nbe St.init ps) p).2.1 = (evalStep S E nbe (run S E nbe St.init qs) p).2.1 := by
  rw [memo_transparent, memo_transparent]

/-- the cache only ever holds values of the wrapped function (normalised) at the nodes, and coefficient blocks built
from exactly those values -/
theorem cache_holds_function_values (S : Spec α P ν κ C) (E : Env α P) (nbe : Bool) (ps : List P) :
    (∀ u v, lookup u (run S E nbe St.init ps).data = some v →
        E.isnan (E.f (S.coord u)) = false ∧ v = E.norm (E.f (S.coord u))) ∧
    (∀ c co, lookup c (run S E nbe St.init ps).coeffs = some co →
        S.build c ((S.stencil c).map (nodeVal S E)) = some co) :=
  run_inv S E nbe ps _ (inv_init S E)

/-- which calls the wrapped function receives: none for a calculated cell; otherwise exactly the not-yet-sampled nodes
of the cell's stencil, in stencil order; outside: the point itself (pass-through) or nothing (raise) -/
theorem calls_exact (S : Spec α P ν κ C) (E : Env α P) (nbe : Bool) (st : St α ν κ C) (p : P)
    (hnd : ∀ c, (S.stencil c).Nodup) :
    (evalStep S E nbe st p).2.2 =
      match S.locate p with
      | none => if nbe then [p] else []
      | some c =>
        match lookup c st.coeffs with
        | some _ => []
        | none => ((S.stencil c).filter fun u => (lookup u st.data).isNone).map S.coord := by
  unfold evalStep
  cases hloc : S.locate p with
  | none => cases nbe <;> rfl
  | some c =>
    simp only []
    cases hco : lookup c st.coeffs with
    | some co => rfl
    | none =>
      simp only []
      split <;> exact sample_calls S E _ (hnd c) _

/-- **outside_policy.**  Where `locate` finds no cell the result is `ValueError`, or with `no_boundary_error` the
wrapped function's own value; the cache is not touched. -/
theorem outside_policy (S : Spec α P ν κ C) (E : Env α P) (nbe : Bool) (st : St α ν κ C) (p : P)
    (h : S.locate p = none) :
    evalStep S E nbe st p = (st, if nbe then .val (E.f p) else .raise, if nbe then [p] else []) := by
  unfold evalStep
  rw [h]
  cases nbe <;> rfl

end Memo

/-! ## find_index -/
section Find
variable {α : Type} [Field α] [LinearOrder α] [IsStrictOrderedRing α]

/-- **find_index_spec.**  `x 0 < v < x top` ⇒ the index returned brackets `v`.  (Termination: the model's loop carries
fuel `top`; `bisect_spec` shows the fuel is never exhausted before `top − bottom = 1`.) -/
theorem find_index_spec (x : Nat → α) (top : Nat) (v : α) (h0 : x 0 < v) (ht : v < x top) :
    ∃ i : Nat, findIndex x top v 0 = (i : Int) ∧ i < top ∧ x i ≤ v ∧ v < x (i + 1) :=
  findIndex_bracket x top v h0 ht

end Find
end Cherab.Props.C14
