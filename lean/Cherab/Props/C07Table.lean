import Cherab.Model.Rates
import Cherab.Gen.OpenAdasPolicy
import Cherab.Props.C07

/-!
# C07 — obligations over the tables generated from the current source (`Cherab/Gen/OpenAdasPolicy.lean`)

Everything here is `decide` over the complete generated tables; the general theorems about the interpretation of an
arbitrary accessor descriptor are in `Props/C07.lean`.

Full strength since the five fixes of round C07 are in /repo (1187109, 2bcf964, 1ec8bb9, 57a68d0, de3325a): no excuse
lists.  Reverting any of them regenerates a table on which `policy_uniform`, `guards_complete`,
`class_table_as_modelled` or `axis_logs_libm` no longer builds, and the search re-finds the old failing inputs
(`corpus/C07`).  The witnesses that the defects were real on the old tree are archived in
`notes/archive/C07AsIs.lean.txt`.
-/
namespace Cherab.Props.C07Table
open Cherab.Rates Cherab.Rates.Policy Cherab.Gen.OpenAdasPolicy

/-- the table lists exactly the thirteen rate accessors of `AtomicData` that `OpenADAS` implements -/
theorem policy_complete : accessors.map (·.name) =
    ["ionisation_rate", "recombination_rate", "thermal_cx_rate", "beam_cx_pec", "beam_stopping_rate",
     "beam_population_rate", "beam_emission_pec", "impact_excitation_pec", "recombination_pec", "thermal_cx_pec",
     "line_radiated_power_rate", "continuum_radiated_power_rate", "cx_radiated_power_rate"] := by decide

/-- every accessor body was understood by the translator -/
theorem policy_recognised : ∀ a ∈ accessors, a.recognised = true ∧ a.handlerStd = true := by decide

/-- every accessor catches exactly `RuntimeError`, builds its Null object with an accepted argument list, reads the
element's rates, converts with the requested species' wavelength, and forwards `permit_extrapolation` -/
theorem policy_uniform : ∀ a ∈ accessors, Uniform nullSigs a = true := by decide

/-- `OpenADAS.wavelength` has the documented shape -/
theorem wavelength_uniform : WlUniform wavelengthPolicy = true := by decide

/-- every Null class used by an accessor is a class whose `evaluate` is `return 0.0` -/
theorem null_classes_zero :
    ∀ a ∈ accessors, (rateClasses.find? (·.name == a.nullClass)).map (·.isNull) = some true := by decide

/-- the hand-written models of `Model/Rates.lean` hard-code, for each rate class, exactly what the `.pyx` says today:
shape-determining `evaluate` parameters, guarded parameters, photon conversion, extrapolation kinds -/
theorem class_table_as_modelled :
    ∀ m ∈ modelled, ∃ c ∈ rateClasses, c.name = m.name ∧ c.evalParams = m.evalParams
      ∧ c.guarded = m.guarded
      ∧ c.extrap.map (·.2) = m.extrap.map (·.2) ∧ (c.photon != []) = m.photon
      ∧ c.chain = m.chain ∧ c.chainOk = true := by decide

/-- every multiplicative factor of every `evaluate` chain is followed by `if rate <= 0: return 0.0` (with
`cxChainF_nonneg`: BeamCXPEC is non-negative between knots too; without the last clamp
`cxChainF_negative_without_final_clamp` applies) -/
theorem clamps_complete :
    ∀ c ∈ rateClasses, c.chainOk = true ∧ (c.chain.all fun t => t.2.2) = true := by decide

/-- **no floor / clip / helper between the stored table and the interpolator**: in every constructor the tabulated values
reach the interpolators through `np.log10` applied directly to the stored array (after `PhotonToJ.to` for the photon
classes, `st / sref` for the beam classes), and `__init__` calls nothing outside the known set (third component empty).
This is what `grid2` / `grid3` / `beam` / `beamCX` transcribe as `E.logc (conv cf wl y)` on *every* entry, so the
knot-reproduction theorems (`grid2_at_knot`, `grid3_at_knot`, `beam_at_knot`, `beamCX_at_knot`: the stored value, for
every positive magnitude) speak about the current source.  A `np.maximum(rate, 1e-50)` in a helper or inline changes
this table. -/
theorem table_logs_plain : tableLogs = [
    ("IonisationRate", ["data['rate']"], []),
    ("RecombinationRate", ["data['rate']"], []),
    ("ThermalCXRate", ["data['rate']"], []),
    ("ImpactExcitationPEC", ["PhotonToJ.to(rate,wavelength)"], []),
    ("RecombinationPEC", ["PhotonToJ.to(rate,wavelength)"], []),
    ("ThermalCXPEC", ["PhotonToJ.to(rate,wavelength)"], []),
    ("BeamStoppingRate", ["data['sen']", "data['st']/data['sref']"], []),
    ("BeamPopulationRate", ["data['sen']", "data['st']/data['sref']"], []),
    ("BeamEmissionPEC", ["PhotonToJ.to(data['sen'],wavelength)", "data['st']/data['sref']"], []),
    ("BeamCXPEC", ["PhotonToJ.to(data['qeb'],wavelength)"], []),
    ("LineRadiationPower", ["data['rate']"], []),
    ("ContinuumPower", ["data['rate']"], []),
    ("CXRadiationPower", ["data['rate']"], [])] := by decide

/-- … and it lists exactly the modelled classes, with `PhotonToJ.to` in the first logarithm iff the class is a photon class -/
theorem table_logs_cover_modelled :
    (∀ t ∈ tableLogs, t.1 ∈ modelled.map (·.name)) ∧ tableLogs.length = modelled.length
    ∧ ∀ m ∈ modelled, ∃ t ∈ tableLogs, t.1 = m.name ∧ decide (t.2.1.head? ∈ [some "PhotonToJ.to(rate,wavelength)", some "PhotonToJ.to(data['sen'],wavelength)",
            some "PhotonToJ.to(data['qeb'],wavelength)"]) = m.photon := by
  decide

/-- every rate class returned by an accessor is modelled -/
theorem rate_classes_modelled : ∀ a ∈ accessors, a.rateClass ∈ modelled.map (·.name) := by decide

/-- the photon classes are built with the wavelength obtained by the accessor, the others without one -/
theorem wavelength_iff_photon :
    ∀ a ∈ accessors, ∀ m ∈ modelled, m.name = a.rateClass →
      (a.wl.isSome = m.photon ∧ (a.rateArgs.contains (Src.other "wavelength")) = m.photon) := by decide

/-- positional arguments of each rate constructor call line up with the `__init__` parameters named
`wavelength` / `data` in the `.pyx` -/
def argsLineUp (a : Accessor) (c : RateClassSrc) : Bool :=
  let ps := c.initParams.filter (· != "extrapolate")
  ps.length == a.rateArgs.length &&
  (List.zip ps a.rateArgs).all fun (p, s) =>
    if p == "wavelength" then s == Src.other "wavelength"
    else if p == "data" then (s == Src.other "data" || s == Src.other "rate_data")
    else s != Src.other "wavelength" && s != Src.other "data"

theorem rate_ctor_args : ∀ a ∈ accessors, ∃ c ∈ rateClasses, c.name = a.rateClass ∧ argsLineUp a c = true := by
  decide

/-- every density / temperature / energy parameter of every `evaluate` is in the leading `<= 0 → return 0` guard -/
theorem guards_complete :
    ∀ c ∈ rateClasses, c.isNull = true ∨ (c.evalParams.all fun p => !isDTE p || c.guarded.contains p) = true := by
  decide

/-- the log-space knots are computed with the same libm `log10` that `evaluate` applies to its arguments (no
constructor hands `np.log10(axis)` to an interpolator): the hypothesis `LogAgree` of `grid2_at_knot_raw` holds of the
code, the end knots are reachable -/
theorem axis_logs_libm : ∀ c ∈ rateClasses, c.isNull = true ∨ c.axisLogNumpy = false := by decide

/-- the vocabulary of `evaluate` parameter names is the one `isDTE` knows (a renamed parameter is noticed) -/
theorem eval_params_known : ∀ c ∈ rateClasses, ∀ p ∈ c.evalParams, p ∈ dteNames ++ otherNames := by decide

/-- **isotope → element**, all thirteen accessors (no deviant): every species argument reaches the repository as its
element and none as requested -/
theorem isotope_policy_table :
    ∀ a ∈ accessors, (a.getArgs.all fun x => match x with
        | Src.raw p => !a.species.contains p
        | _ => true) = true ∧ (a.species.all fun p => a.getArgs.contains (Src.elem p)) = true := by decide

/-- **wavelength of the requested species**, every photon accessor -/
theorem wavelength_policy_table :
    ∀ a ∈ accessors, (match a.wl with
      | none => true
      | some c => match c.species with
        | Src.raw p => a.species.contains p
        | _ => false) = true := by decide

/-- the repository read receives the accessor's parameters in their declared order (a swapped donor / receiver or
beam / target would read another file) -/
theorem get_args_in_param_order :
    ∀ a ∈ accessors, (a.getArgs.map fun x => match x with
      | Src.raw p => p
      | Src.elem p => p
      | Src.other o => o) = a.params := by decide

/-- ion stage whose wavelength is looked up (as the code has it; the statement does not fix it, the correspondence
stores the wavelengths at these stages): the emitting ion of a CX line is the receiver one stage down, the beam atom
is neutral -/
theorem wavelength_charge_table :
    (accessors.filterMap fun a => a.wl.map fun c => (a.name, c.charge)) =
      [("beam_cx_pec", "receiver_charge - 1"), ("beam_emission_pec", "0"), ("impact_excitation_pec", "charge"),
       ("recombination_pec", "charge"), ("thermal_cx_pec", "receiver_charge - 1")] := by decide

/-- **missing-data clause on today's table**: every accessor raises `RuntimeError` on missing data, or returns its
Null rate when nulls were requested — `policy_uniform` fed into `missing_policy` -/
theorem missing_policy_table (a : Accessor) (ha : a ∈ accessors) (c : Call)
    (hmiss : c.stored.contains (keyOf a c) = false) :
    run nullSigs wavelengthPolicy a c =
      if c.nullRequested then Result.null a.nullInList else Result.raises "RuntimeError" :=
  Cherab.Props.C07.missing_policy nullSigs wavelengthPolicy a c (policy_uniform a ha) hmiss

/-- **wavelength clause on today's table**: every photon accessor converts with the requested species' own wavelength
when stored, the element's only for an isotope with the fall-back flag, and otherwise raises -/
theorem wavelength_requested_table (a : Accessor) (ha : a ∈ accessors) (wc : WlCall) (hwl : a.wl = some wc) (c : Call)
    (p : String) (sp : Sp) (hsp : wc.species = Src.raw p) (hf : findSp c p = some sp)
    (hpres : c.stored.contains (keyOf a c) = true) :
    run nullSigs wavelengthPolicy a c =
      if c.wlStored.contains sp.sym then Result.rate (keyOf a c) (some sp.sym) a.rateInList
      else if sp.isIsotope && c.wlFallback && c.wlStored.contains sp.elemSym then
        Result.rate (keyOf a c) (some sp.elemSym) a.rateInList
      else Result.raises "RuntimeError" :=
  Cherab.Props.C07.uniform_wavelength_requested nullSigs wavelengthPolicy a c wc p sp (policy_uniform a ha)
    wavelength_uniform hwl hsp hf hpres

/-- formerly deviant: `thermal_cx_pec` with an isotope receiver now converts with the isotope's own wavelength -/
example :
    run nullSigs wavelengthPolicy acc_thermal_cx_pec
      ⟨[⟨"donor_element", "H", "H", false⟩, ⟨"receiver_element", "C13", "C", true⟩], [["H", "C"]], ["C13", "C"], false,
        false⟩ = Result.rate ["H", "C"] (some "C13") false := by
  decide

/-- non-vacuity: a concrete call of a uniform accessor with an isotope, data stored for the element, both
wavelengths stored: the isotope's wavelength converts the element's rates -/
example :
    run nullSigs wavelengthPolicy acc_impact_excitation_pec
      ⟨[⟨"ion", "D", "H", true⟩], [["H"], ["D"]], ["D", "H"], false, false⟩ = Result.rate ["H"] (some "D") false := by
  decide

/-! ### proof-deepening pass: lifting lemmas from the generated table -/

/-- number of leading density / temperature / energy parameters per shape (as `Tab.dteCount`) -/
def dteCountOf : Shape → Nat
  | Shape.grid2 => 2
  | Shape.grid3 => 3
  | Shape.beam => 3
  | Shape.beamCX => 3

/-- positions ↔ names: in every *generated* class the density / temperature / energy parameters of `evaluate` are
exactly its first `dteCountOf shape` parameters, and exactly those are in the leading guard.  With
`Cherab.Props.C07.zero_guard_wins` (positions `< dteCount`): in every class of the current source a non-positive value of
any parameter named density / temperature / energy gives 0 whatever the other arguments are. -/
theorem guard_positions_table :
    ∀ m ∈ modelled, ∃ c ∈ rateClasses, c.name = m.name ∧ c.guarded = c.evalParams.take (dteCountOf m.shape)
      ∧ ((c.evalParams.take (dteCountOf m.shape)).all isDTE) = true
      ∧ ((c.evalParams.drop (dteCountOf m.shape)).all fun p => !isDTE p) = true := by decide

/-- the provider at HEAD as a function of the request (one species against a fixed wavelength store) -/
def wlRequest (wls : List String) (fb : Bool) (sp : Sp) : Option (Option String) :=
  wavelengthLookup wavelengthPolicy ⟨[sp], [], wls, false, fb⟩ (Src.raw sp.param)

/-- a provider that memoises `wavelength` under the full species is indistinguishable from the stateless one on every
history of requests -/
theorem wavelength_memo_by_species_transparent (wls : List String) (fb : Bool) (hist : List Sp) :
    Memo.answers (fun sp : Sp => sp) (wlRequest wls fb) [] hist = hist.map (wlRequest wls fb) :=
  Cherab.Props.C07.memo_transparent _ _ (fun _ _ h => by rw [h]) [] (fun e he => absurd he (by simp)) hist

/-- … one that memoises under the element only (the seeded `(atomic_number, charge, transition)` key) is not: carbon,
then carbon-13, both wavelengths stored — the isotope gets the element's wavelength -/
theorem wavelength_memo_by_element_unsound :
    Memo.answers (fun sp : Sp => sp.elemSym) (wlRequest ["C", "C13"] false) []
        [⟨"ion", "C", "C", false⟩, ⟨"ion", "C13", "C", true⟩] = [some (some "C"), some (some "C")]
      ∧ wlRequest ["C", "C13"] false ⟨"ion", "C13", "C", true⟩ = some (some "C13") := by decide

end Cherab.Props.C07Table
