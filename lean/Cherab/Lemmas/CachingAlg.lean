import Cherab.Lemmas.CachingGrid
import Mathlib.Tactic.LinearCombination
import Mathlib.Tactic.IntervalCases

/-!
Helper lemmas for C14, part 3: algebra of the Hermite constraint systems.
* the 1-D system is nonsingular whenever the two knots differ (`hom1`), with the explicit Hermite solution;
* the 2-D and 3-D systems are tensor products of 1-D systems, hence nonsingular too (`hom2`, `hom3`);
* `dot` is linear, so value normalisation commutes with solving.
-/
namespace Cherab.Caching
set_option linter.unusedSectionVars false
set_option linter.unusedSimpArgs false

variable {α : Type} [Field α] [LinearOrder α] [IsStrictOrderedRing α]

/-! ### `dot` is linear -/

theorem dotFrom_lin (row : List α) : ∀ (k0 : Nat) (c c' : Nat → α) (s t : α),
    dotFrom k0 row (fun n => s * c n + t * c' n) = s * dotFrom k0 row c + t * dotFrom k0 row c' := by
  induction row with
  | nil => intro k0 c c' s t; simp [dotFrom]
  | cons r rs ih => intro k0 c c' s t; simp only [dotFrom, ih]; ring

theorem dot_lin (row : List α) (c c' : Nat → α) (s t : α) :
    dot row (fun n => s * c n + t * c' n) = s * dot row c + t * dot row c' := dotFrom_lin row 0 c c' s t

theorem dotFrom_congr (row : List α) : ∀ (k0 : Nat) (c c' : Nat → α),
    (∀ k, k0 ≤ k → k < k0 + row.length → c k = c' k) → dotFrom k0 row c = dotFrom k0 row c' := by
  induction row with
  | nil => intro k0 c c' _; rfl
  | cons r rs ih =>
    intro k0 c c' h
    simp only [dotFrom]
    rw [h k0 le_rfl (by simp), ih (k0 + 1) c c' (fun k h1 h2 => h k (by omega) (by simp at h2 ⊢; omega))]

/-! ### the 1-D rows in `comps` form -/

/-- row `r` (0: value at x0, 1: derivative at x0, 2: value at x1, 3: derivative at x1) -/
def R (x0 x1 : α) (r k : Nat) : α := comps (if r / 2 = 0 then x0 else x1) (r % 2 == 1) k

/-- a cubic whose value and derivative vanish at two distinct points is zero -/
theorem hom1 (x0 x1 : α) (hne : x0 ≠ x1) (g : Nat → α)
    (h : ∀ r, r < 4 → sum4 (fun k => R x0 x1 r k * g k) = 0) : ∀ k, k < 4 → g k = 0 := by
  have e0 := h 0 (by norm_num)
  have e1 := h 1 (by norm_num)
  have e2 := h 2 (by norm_num)
  have e3 := h 3 (by norm_num)
  simp [R, comps, sum4] at e0 e1 e2 e3
  have hh : x1 - x0 ≠ 0 := sub_ne_zero.mpr (Ne.symm hne)
  have g3 : g 3 = 0 := by
    have : (x1 - x0) ^ 3 * g 3 = 0 := by
      linear_combination (x1 - x0) * e1 + (x1 - x0) * e3 - 2 * e2 + 2 * e0
    rcases mul_eq_zero.mp this with h3 | h3
    · exact absurd (pow_eq_zero_iff (by norm_num) |>.mp h3) hh
    · exact h3
  have g2 : g 2 = 0 := by
    have : 2 * (x1 - x0) * g 2 = 0 := by
      rw [g3] at e1 e3
      linear_combination e3 - e1
    rcases mul_eq_zero.mp this with h2 | h2
    · exact absurd h2 (mul_ne_zero (by norm_num) hh)
    · exact h2
  have g1 : g 1 = 0 := by rw [g2, g3] at e1; linear_combination e1
  have g0 : g 0 = 0 := by rw [g1, g2, g3] at e0; linear_combination e0
  intro k hk
  interval_cases k <;> assumption


/-- tensor product of two nonsingular 1-D systems is nonsingular -/
theorem hom2 (x0 x1 y0 y1 : α) (hx : x0 ≠ x1) (hy : y0 ≠ y1) (e : Nat → α)
    (h : ∀ r s, r < 4 → s < 4 →
      sum4 (fun a => sum4 (fun b => R x0 x1 r a * R y0 y1 s b * e (4 * a + b))) = 0) :
    ∀ k, k < 16 → e k = 0 := by
  have step1 : ∀ s, s < 4 → ∀ a, a < 4 → sum4 (fun b => R y0 y1 s b * e (4 * a + b)) = 0 := by
    intro s hs
    apply hom1 x0 x1 hx (fun a => sum4 (fun b => R y0 y1 s b * e (4 * a + b)))
    intro r hr
    have := h r s hr hs
    simp only [sum4] at this ⊢
    linear_combination this
  have step2 : ∀ a, a < 4 → ∀ b, b < 4 → e (4 * a + b) = 0 := by
    intro a ha
    exact hom1 y0 y1 hy (fun b => e (4 * a + b)) (fun s hs => step1 s hs a ha)
  intro k hk
  have := step2 (k / 4) (by omega) (k % 4) (by omega)
  rwa [Nat.div_add_mod] at this

theorem hom3 (x0 x1 y0 y1 z0 z1 : α) (hx : x0 ≠ x1) (hy : y0 ≠ y1) (hz : z0 ≠ z1) (e : Nat → α)
    (h : ∀ r s t, r < 4 → s < 4 → t < 4 →
      sum4 (fun a => sum4 (fun b => sum4 (fun c =>
        R x0 x1 r a * R y0 y1 s b * R z0 z1 t c * e (16 * a + 4 * b + c)))) = 0) :
    ∀ k, k < 64 → e k = 0 := by
  have step1 : ∀ s t, s < 4 → t < 4 → ∀ a, a < 4 →
      sum4 (fun b => sum4 (fun c => R y0 y1 s b * R z0 z1 t c * e (16 * a + 4 * b + c))) = 0 := by
    intro s t hs ht
    apply hom1 x0 x1 hx (fun a => sum4 (fun b => sum4 (fun c => R y0 y1 s b * R z0 z1 t c * e (16 * a + 4 * b + c))))
    intro r hr
    have := h r s t hr hs ht
    simp only [sum4] at this ⊢
    linear_combination this
  have step2 : ∀ a, a < 4 → ∀ k, k < 16 → e (16 * a + k) = 0 := by
    intro a ha
    apply hom2 y0 y1 z0 z1 hy hz (fun k => e (16 * a + k))
    intro s t hs ht
    have := step1 s t hs ht a ha
    simp only [sum4, Nat.add_assoc] at this ⊢
    exact this
  intro k hk
  have := step2 (k / 16) (by omega) (k % 16) (by omega)
  rwa [Nat.div_add_mod] at this


/-! ### the model's rows are these tensor rows -/

theorem row1_dot (ax : Axis α) (i : Nat) (d c : Nat → α) (l : Nat) (hl : l < 4) :
    dot (row1 ax i d l).1 c = sum4 (fun k => R (ax.xn i) (ax.xn (i + 1)) l k * c k) := by
  interval_cases l <;> simp [row1, dot, dotFrom, sum4, R, comps] <;> ring

/-- 1-D row index pair of 2-D row `l` (knot-major, kinds value, ∂x, ∂y, ∂xy) -/
def rs2 (l : Nat) : Nat × Nat :=
  (2 * (l / 4 / 2) + (if l % 4 = 1 ∨ l % 4 = 3 then 1 else 0), 2 * (l / 4 % 2) + (if l % 4 ≥ 2 then 1 else 0))

theorem row2_dot (ax ay : Axis α) (cell : Nat × Nat) (D : Nat → Nat → α) (c : Nat → α) (l : Nat) (hl : l < 16) :
    dot (row2 ax ay cell D l).1 c =
      sum4 (fun a => sum4 (fun b => R (ax.xn cell.1) (ax.xn (cell.1 + 1)) (rs2 l).1 a *
        R (ay.xn cell.2) (ay.xn (cell.2 + 1)) (rs2 l).2 b * c (4 * a + b))) := by
  interval_cases l <;> simp [row2, dot, dotFrom, sum4, R, comps, rs2] <;> ring

theorem dot_constraints3d (x y z : α) (xd yd zd : Bool) (c : Nat → α) :
    dot (constraints3d x y z xd yd zd) c =
      sum4 (fun a => sum4 (fun b => sum4 (fun k =>
        comps x xd a * comps y yd b * comps z zd k * c (16 * a + 4 * b + k)))) := by
  simp only [constraints3d, List.range_succ, List.range_zero, List.nil_append, List.flatMap_cons, List.flatMap_nil,
    List.map_cons, List.map_nil, List.cons_append, List.append_nil, List.flatMap_append, List.map_append, dot, dotFrom,
    sum4]
  ring

/-- 1-D row index triple of 3-D row `l` (kinds value, ∂x, ∂y, ∂z, ∂xy, ∂xz, ∂yz, ∂xyz) -/
def rst3 (l : Nat) : Nat × Nat × Nat :=
  let kind := l % 8
  let knot := l / 8
  (2 * (knot / 4) + (if kind = 1 ∨ kind = 4 ∨ kind = 5 ∨ kind = 7 then 1 else 0),
   2 * (knot / 2 % 2) + (if kind = 2 ∨ kind = 4 ∨ kind = 6 ∨ kind = 7 then 1 else 0),
   2 * (knot % 2) + (if kind = 3 ∨ kind = 5 ∨ kind = 6 ∨ kind = 7 then 1 else 0))

theorem row3_dot (ax ay az : Axis α) (cell : Nat × Nat × Nat) (D : Nat → Nat → Nat → α) (c : Nat → α) (l : Nat)
    (hl : l < 64) :
    dot (row3 ax ay az cell D l).1 c =
      sum4 (fun a => sum4 (fun b => sum4 (fun k =>
        R (ax.xn cell.1) (ax.xn (cell.1 + 1)) (rst3 l).1 a *
        R (ay.xn cell.2.1) (ay.xn (cell.2.1 + 1)) (rst3 l).2.1 b *
        R (az.xn cell.2.2) (az.xn (cell.2.2 + 1)) (rst3 l).2.2 k * c (16 * a + 4 * b + k)))) := by
  interval_cases l <;> simp [row3, dot_constraints3d, R, rst3]

/-! ### solutions of the constraint systems; uniqueness -/

/-- `c` satisfies every equation of the linear system `A c = b` (what a correct `solve` returns) -/
def Solves (A : List (List α)) (b : List α) (c : Nat → α) : Prop :=
  ∀ l, l < A.length → dot (A.getD l []) c = b.getD l 0

def IsSol1 (ax : Axis α) (i : Nat) (d c : Nat → α) : Prop :=
  ∀ l, l < 4 → dot (row1 ax i d l).1 c = (row1 ax i d l).2
def IsSol2 (ax ay : Axis α) (cell : Nat × Nat) (D : Nat → Nat → α) (c : Nat → α) : Prop :=
  ∀ l, l < 16 → dot (row2 ax ay cell D l).1 c = (row2 ax ay cell D l).2
def IsSol3 (ax ay az : Axis α) (cell : Nat × Nat × Nat) (D : Nat → Nat → Nat → α) (c : Nat → α) : Prop :=
  ∀ l, l < 64 → dot (row3 ax ay az cell D l).1 c = (row3 ax ay az cell D l).2

theorem getD_range_map {β : Type} (f : Nat → β) (n l : Nat) (hl : l < n) (dflt : β) :
    ((List.range n).map f).getD l dflt = f l := by
  simp [List.getD, hl]

theorem getD_range_map' {β γ : Type} (f : Nat → β) (g : β → γ) (n l : Nat) (hl : l < n) (dflt : γ) :
    (Option.map (g ∘ f) (List.range n)[l]?).getD dflt = g (f l) := by
  simp [hl]

theorem solves_system1 (ax : Axis α) (i : Nat) (d c : Nat → α) :
    Solves (system1 ax i d).1 (system1 ax i d).2 c ↔ IsSol1 ax i d c := by
  unfold Solves IsSol1 system1
  simp only [List.map_map, List.length_map, List.length_range]
  constructor <;> intro h l hl <;> have := h l hl <;>
    simpa [getD_range_map' _ _ 4 l hl] using this

theorem solves_system2 (ax ay : Axis α) (cell : Nat × Nat) (D : Nat → Nat → α) (c : Nat → α) :
    Solves (system2 ax ay cell D).1 (system2 ax ay cell D).2 c ↔ IsSol2 ax ay cell D c := by
  unfold Solves IsSol2 system2
  simp only [List.map_map, List.length_map, List.length_range]
  constructor <;> intro h l hl <;> have := h l hl <;>
    simpa [getD_range_map' _ _ 16 l hl] using this

theorem solves_system3 (ax ay az : Axis α) (cell : Nat × Nat × Nat) (D : Nat → Nat → Nat → α) (c : Nat → α) :
    Solves (system3 ax ay az cell D).1 (system3 ax ay az cell D).2 c ↔ IsSol3 ax ay az cell D c := by
  unfold Solves IsSol3 system3
  simp only [List.map_map, List.length_map, List.length_range]
  constructor <;> intro h l hl <;> have := h l hl <;>
    simpa [getD_range_map' _ _ 64 l hl] using this

theorem unique1 (ax : Axis α) (i : Nat) (d c c' : Nat → α) (hne : ax.xn i ≠ ax.xn (i + 1))
    (h : IsSol1 ax i d c) (h' : IsSol1 ax i d c') : ∀ k, k < 4 → c k = c' k := by
  have key := hom1 (ax.xn i) (ax.xn (i + 1)) hne (fun n => 1 * c n + (-1) * c' n) (by
    intro r hr
    rw [← row1_dot ax i d _ r hr, dot_lin, h r hr, h' r hr]; ring)
  intro k hk
  have := key k hk
  linear_combination this

theorem unique2 (ax ay : Axis α) (cell : Nat × Nat) (D : Nat → Nat → α) (c c' : Nat → α)
    (hx : ax.xn cell.1 ≠ ax.xn (cell.1 + 1)) (hy : ay.xn cell.2 ≠ ay.xn (cell.2 + 1))
    (h : IsSol2 ax ay cell D c) (h' : IsSol2 ax ay cell D c') : ∀ k, k < 16 → c k = c' k := by
  have key := hom2 _ _ _ _ hx hy (fun n => 1 * c n + (-1) * c' n) (by
    intro r s hr hs
    have hl : 4 * (2 * (r / 2) + s / 2) + (r % 2 + 2 * (s % 2)) < 16 := by omega
    have e := row2_dot ax ay cell D (fun n => 1 * c n + (-1) * c' n) _ hl
    have hrs : rs2 (4 * (2 * (r / 2) + s / 2) + (r % 2 + 2 * (s % 2))) = (r, s) := by
      interval_cases r <;> interval_cases s <;> rfl
    rw [hrs] at e
    rw [← e, dot_lin, h _ hl, h' _ hl]; ring)
  intro k hk
  have := key k hk
  linear_combination this

/-- the row of the 64-row system that carries the 1-D rows `(r, s, t)` -/
def l3 (r s t : Nat) : Nat :=
  8 * (4 * (r / 2) + 2 * (s / 2) + t / 2) +
    (if r % 2 = 0 then (if s % 2 = 0 then (if t % 2 = 0 then 0 else 3) else (if t % 2 = 0 then 2 else 6))
     else (if s % 2 = 0 then (if t % 2 = 0 then 1 else 5) else (if t % 2 = 0 then 4 else 7)))

theorem unique3 (ax ay az : Axis α) (cell : Nat × Nat × Nat) (D : Nat → Nat → Nat → α) (c c' : Nat → α)
    (hx : ax.xn cell.1 ≠ ax.xn (cell.1 + 1)) (hy : ay.xn cell.2.1 ≠ ay.xn (cell.2.1 + 1))
    (hz : az.xn cell.2.2 ≠ az.xn (cell.2.2 + 1))
    (h : IsSol3 ax ay az cell D c) (h' : IsSol3 ax ay az cell D c') : ∀ k, k < 64 → c k = c' k := by
  have key := hom3 _ _ _ _ _ _ hx hy hz (fun n => 1 * c n + (-1) * c' n) (by
    intro r s t hr hs ht
    have hl : l3 r s t < 64 := by
      interval_cases r <;> interval_cases s <;> interval_cases t <;> decide
    have e := row3_dot ax ay az cell D (fun n => 1 * c n + (-1) * c' n) _ hl
    have hrs : rst3 (l3 r s t) = (r, s, t) := by
      interval_cases r <;> interval_cases s <;> interval_cases t <;> rfl
    rw [hrs] at e
    rw [← e, dot_lin, h _ hl, h' _ hl]; ring)
  intro k hk
  have := key k hk
  linear_combination this

end Cherab.Caching
