import Cherab.Model.IonBalance
import Cherab.Gen.IonBalance
import Cherab.Lemmas.IonBalance
import Mathlib.Tactic.Ring
import Mathlib.Tactic.Linarith
import Mathlib.Tactic.FieldSimp
import Mathlib.Tactic.Positivity
import Mathlib.Tactic.NormNum
import Mathlib.Tactic.LinearCombination
import Mathlib.Algebra.Order.Field.Basic
import Mathlib.Algebra.Order.Ring.Rat

/-!
# C09 — ionisation balance solves the steady-state equations, conserves particles / charge

Property theorems only.  All statements are for every atomic number `Z ≥ 1`, every positive rate table, every
`n_e > 0`, `n_D ≥ 0`, over an arbitrary ordered field.  `lsq_linear` is a parameter of the model; `SolverSpec` is its
contract ("returns a zero-residual point inside the bounds whenever one exists").
-/
namespace Cherab.Props.C09
set_option linter.unusedSectionVars false
open Cherab.IonBalance Cherab.Lemmas.IonBalance

variable {α : Type} [Field α] [LinearOrder α] [IsStrictOrderedRing α]

/-- "arbitrary positive rate tables, n_e > 0, donor densities ≥ 0" -/
structure PosRates (Z : ℕ) (S A : ℕ → α) (tcx : Option (ℕ → α)) (ne nD : α) : Prop where
  ne_pos : 0 < ne
  nD_nonneg : 0 ≤ nD
  ion_pos : ∀ z, z < Z → 0 < S z
  rec_pos : ∀ z, 1 ≤ z → z ≤ Z → 0 < A z
  cx_nonneg : ∀ c, tcx = some c → ∀ z, 1 ≤ z → z ≤ Z → 0 ≤ c z

/-- contract of the bounded least-squares solver: if the system has an exact solution inside the bounds, the
minimiser returned has zero residual and respects the bounds -/
def SolverSpec (solve : Solver α) : Prop :=
  ∀ (M : ℕ → ℕ → α) (b : ℕ → α) (rows cols : ℕ) (lo hi : α),
    (∃ x : ℕ → α, (∀ j, j < cols → lo ≤ x j ∧ x j ≤ hi) ∧ ∀ i, i < rows → rowDot cols M x i = b i) →
    (∀ j, j < cols → lo ≤ solve M b rows cols lo hi j ∧ solve M b rows cols lo hi j ≤ hi) ∧
      ∀ i, i < rows → rowDot cols M (solve M b rows cols lo hi) i = b i

/-- the thermal-CX table the *property* asks for: the donor's rates iff a donor is given -/
def specTcx (donor : Bool) (C : ℕ → α) : Option (ℕ → α) := if donor then some C else none

section closed
variable {Z : ℕ} {S A : ℕ → α} {tcx : Option (ℕ → α)} {ne nD : α}

theorem cxTerm_nonneg (h : PosRates Z S A tcx ne nD) (z : ℕ) (h1 : 1 ≤ z) (h2 : z ≤ Z) :
    0 ≤ cxTerm tcx ne nD z := by
  unfold cxTerm
  cases htcx : tcx with
  | none => simp
  | some c =>
    simp only
    exact mul_nonneg (div_nonneg h.nD_nonneg h.ne_pos.le) (h.cx_nonneg c htcx z h1 h2)

theorem recTot_pos (h : PosRates Z S A tcx ne nD) (z : ℕ) (h1 : 1 ≤ z) (h2 : z ≤ Z) :
    0 < recTot A tcx ne nD z := by
  unfold recTot
  have := cxTerm_nonneg h z h1 h2
  have := h.rec_pos z h1 h2
  linarith

theorem unnorm_pos (h : PosRates Z S A tcx ne nD) (z : ℕ) (hz : z ≤ Z) : 0 < unnorm S A tcx ne nD z := by
  induction z with
  | zero => simp [unnorm]
  | succ z ih =>
    simp only [unnorm]
    exact mul_pos (ih (by omega)) (div_pos (h.ion_pos z (by omega)) (recTot_pos h (z + 1) (by omega) hz))

theorem total_pos (h : PosRates Z S A tcx ne nD) : 0 < sumTo (unnorm S A tcx ne nD) (Z + 1) := by
  have h0 := le_sumTo (unnorm S A tcx ne nD) (Z + 1) 0 (by omega) (fun j hj => (unnorm_pos h j (by omega)).le)
  have : unnorm S A tcx ne nD 0 = 1 := rfl
  linarith

theorem closedFrac_pos (h : PosRates Z S A tcx ne nD) (z : ℕ) (hz : z ≤ Z) : 0 < closedFrac Z S A tcx ne nD z :=
  div_pos (unnorm_pos h z hz) (total_pos h)

theorem closedFrac_le_one (h : PosRates Z S A tcx ne nD) (z : ℕ) (hz : z ≤ Z) : closedFrac Z S A tcx ne nD z ≤ 1 := by
  unfold closedFrac
  rw [div_le_one (total_pos h)]
  exact le_sumTo _ (Z + 1) z (by omega) (fun j hj => (unnorm_pos h j (by omega)).le)

theorem closedFrac_sum (h : PosRates Z S A tcx ne nD) : sumTo (closedFrac Z S A tcx ne nD) (Z + 1) = 1 := by
  unfold closedFrac
  rw [sumTo_div]
  exact div_self (total_pos h).ne'

/-- detailed balance of the closed form -/
theorem closedFrac_balance (h : PosRates Z S A tcx ne nD) (z : ℕ) (hz : z < Z) :
    closedFrac Z S A tcx ne nD z * S z = closedFrac Z S A tcx ne nD (z + 1) * recTot A tcx ne nD (z + 1) := by
  unfold closedFrac
  simp only [unnorm]
  have hR := (recTot_pos h (z + 1) (by omega) hz).ne'
  have hT := (total_pos h).ne'
  field_simp

/-- **closed_form_solves**: the closed form is an exact solution of the `(Z+2) × (Z+1)` system built by the code -/
theorem closed_form_solves (hZ : 1 ≤ Z) (h : PosRates Z S A tcx ne nD) (i : ℕ) (hi : i < Z + 2) :
    rowDot (Z + 1) (matEntry Z S A tcx ne nD) (closedAbundance Z S A tcx ne nD) i = rhsEntry Z ne i := by
  obtain ⟨m, rfl⟩ : ∃ m, Z = m + 1 := ⟨Z - 1, by omega⟩
  have bal : ∀ z, z < m + 1 → S z * closedAbundance (m + 1) S A tcx ne nD z
      = recTot A tcx ne nD (z + 1) * closedAbundance (m + 1) S A tcx ne nD (z + 1) := by
    intro z hz
    have := closedFrac_balance h z hz
    unfold closedAbundance
    linear_combination ne * this
  by_cases h0 : i = 0
  · subst h0
    rw [rowDot_first, bal 0 (by omega)]
    simp [rhsEntry]
  by_cases hl : i = m + 1
  · subst hl
    rw [rowDot_last, bal m (by omega)]
    simp [rhsEntry]
  by_cases hn : i = m + 1 + 1
  · subst hn
    rw [rowDot_norm]
    unfold closedAbundance
    rw [sumTo_mul_left, closedFrac_sum h]
    simp [rhsEntry]
  · obtain ⟨k, rfl⟩ : ∃ k, i = k + 1 := ⟨i - 1, by omega⟩
    have hk : k + 1 < m + 1 := by omega
    rw [rowDot_interior (m + 1) k hk, bal k (by omega)]
    have := bal (k + 1) hk
    have e : rhsEntry (m + 1) ne (k + 1) = 0 := by simp [rhsEntry]; omega
    rw [e]
    linear_combination (-ne) * this

/-- **solution_unique**: with positive rates the system has no other solution (so a zero-residual least-squares
minimiser is the closed form) -/
theorem solution_unique (hZ : 1 ≤ Z) (h : PosRates Z S A tcx ne nD) (x : ℕ → α)
    (hx : ∀ i, i < Z + 2 → rowDot (Z + 1) (matEntry Z S A tcx ne nD) x i = rhsEntry Z ne i)
    (z : ℕ) (hz : z ≤ Z) : x z = closedAbundance Z S A tcx ne nD z := by
  obtain ⟨m, rfl⟩ : ∃ m, Z = m + 1 := ⟨Z - 1, by omega⟩
  have hne := h.ne_pos.ne'
  -- all fluxes vanish
  have flux : ∀ k, k < m + 1 → S k * x k = recTot A tcx ne nD (k + 1) * x (k + 1) := by
    intro k
    induction k with
    | zero =>
      intro _
      have := hx 0 (by omega)
      rw [rowDot_first] at this
      have e : rhsEntry (m + 1) ne 0 = 0 := by simp [rhsEntry]
      rw [e] at this
      have := (mul_eq_zero.mp this).resolve_left hne
      linarith
    | succ k ih =>
      intro hk
      have h1 := ih (by omega)
      have := hx (k + 1) (by omega)
      rw [rowDot_interior (m + 1) k hk] at this
      have e : rhsEntry (m + 1) ne (k + 1) = 0 := by simp [rhsEntry]; omega
      rw [e] at this
      have := (mul_eq_zero.mp this).resolve_left hne
      linarith
  -- hence x is a multiple of the un-normalised closed form
  have mult : ∀ k, k ≤ m + 1 → x k = x 0 * unnorm S A tcx ne nD k := by
    intro k
    induction k with
    | zero => intro _; simp [unnorm]
    | succ k ih =>
      intro hk
      have hR := (recTot_pos h (k + 1) (by omega) hk).ne'
      have f := flux k (by omega)
      simp only [unnorm]
      rw [ih (by omega)] at f
      field_simp
      linear_combination -f
  -- normalisation row fixes the multiple
  have nrm := hx (m + 1 + 1) (by omega)
  rw [rowDot_norm] at nrm
  have e : rhsEntry (m + 1) ne (m + 1 + 1) = ne := by simp [rhsEntry]
  rw [e, sumTo_congr x (fun j => x 0 * unnorm S A tcx ne nD j) (m + 1 + 1) (fun j hj => mult j (by omega)),
    sumTo_mul_left] at nrm
  have hT := (total_pos h).ne'
  have hx0 : x 0 = ne / sumTo (unnorm S A tcx ne nD) (m + 1 + 1) := by
    rw [eq_div_iff hT]; exact nrm
  rw [mult z hz, hx0]
  unfold closedAbundance closedFrac
  ring

/-- **lsq_returns_closed_form**: any solver meeting `SolverSpec` makes `_fractional_abundance_point` return the
closed form -/
theorem lsq_returns_closed_form (solve : Solver α) (hs : SolverSpec solve) (hZ : 1 ≤ Z)
    (h : PosRates Z S A tcx ne nD) (z : ℕ) (hz : z ≤ Z) :
    fracPoint solve Z S A tcx ne nD z = closedFrac Z S A tcx ne nD z := by
  have hne := h.ne_pos.ne'
  obtain ⟨_, hsol⟩ := hs (matEntry Z S A tcx ne nD) (rhsEntry Z ne) (Z + 2) (Z + 1) 0 ne
    ⟨closedAbundance Z S A tcx ne nD, fun j hj => by
        unfold closedAbundance
        have p := (closedFrac_pos h j (by omega)).le
        have q := closedFrac_le_one h j (by omega)
        exact ⟨mul_nonneg h.ne_pos.le p, by nlinarith [h.ne_pos]⟩,
      fun i hi => closed_form_solves hZ h i hi⟩
  unfold fracPoint
  rw [solution_unique hZ h _ hsol z hz]
  unfold closedAbundance
  field_simp


theorem mat_lower (j : ℕ) (hj : j < Z) : matEntry Z S A tcx ne nD (j + 1) j = S j * ne := by
  have h1 : ¬ (j = Z) := by omega
  by_cases h2 : j + 1 = Z
  · subst h2; simp [matEntry, balEntry]
  · simp [matEntry, balEntry, h1, h2]

theorem mat_upper (j : ℕ) (hj : j < Z) : matEntry Z S A tcx ne nD j (j + 1) = recTot A tcx ne nD (j + 1) * ne := by
  have h1 : ¬ (j = Z) := by omega
  have h3 : ¬ (j = Z + 1) := by omega
  have h4 : ¬ (j + 1 + 1 = j) := by omega
  by_cases h2 : j = 0
  · subst h2; simp [matEntry, balEntry, recTot]
  · simp [matEntry, balEntry, recTot, h1, h2, h3, h4]

/-- **bdSolve_eq_closed**: the solver plugged in by the native driver (it reads only the matrix and the rhs the model
built) returns the closed form on every balance matrix — the driver executes `fracPoint bdSolve` -/
theorem bdSolve_eq_closed (h : PosRates Z S A tcx ne nD) (lo hi : α) (z : ℕ) (hz : z ≤ Z) :
    bdSolve (matEntry Z S A tcx ne nD) (rhsEntry Z ne) (Z + 2) (Z + 1) lo hi z = closedAbundance Z S A tcx ne nD z := by
  have hne := h.ne_pos.ne'
  have hu : ∀ k, k ≤ Z → bdUnnorm (matEntry Z S A tcx ne nD) k = unnorm S A tcx ne nD k := by
    intro k
    induction k with
    | zero => intro _; rfl
    | succ k ih =>
      intro hk
      simp only [bdUnnorm, unnorm]
      rw [ih (by omega), mat_lower k (by omega), mat_upper k (by omega), mul_div_mul_right _ _ hne]
  unfold bdSolve closedAbundance closedFrac
  rw [hu z hz, sumTo_congr _ _ (Z + 1) (fun j hj => hu j (by omega))]
  simp [rhsEntry]

end closed

/-! ### selection of the thermal-CX coefficients -/

theorem selectTcx_none (k donor : Bool) (C : ℕ → α) : selectTcx k donor none C = specTcx donor C := by
  cases k <;> cases donor <;> rfl

theorem selectTcx_outer_keeps (donor : Bool) (C : ℕ → α) :
    selectTcx true donor (outerTcx donor C) C = specTcx donor C := by
  cases donor <;> rfl

theorem selectTcx_outer_drops (donor : Bool) (C : ℕ → α) :
    selectTcx false donor (outerTcx donor C) C = none := by
  cases donor <;> rfl

theorem selectTcx_no_donor (k : Bool) (sup : Option (ℕ → α)) (C : ℕ → α) : selectTcx k false sup C = none := by
  cases k <;> rfl

theorem PosRates.drop {Z : ℕ} {S A : ℕ → α} {tcx : Option (ℕ → α)} {ne nD : α} (h : PosRates Z S A tcx ne nD) :
    PosRates Z S A none ne nD :=
  ⟨h.ne_pos, h.nD_nonneg, h.ion_pos, h.rec_pos, fun _ hc => by cases hc⟩

section entries
variable {Z : ℕ} {S A C : ℕ → α} {ne nD : α} {donor : Bool}

/-- `fractional_abundance` returns the closed form for the donor's rates, whatever the flags -/
theorem fractional_entry_closed (fl : Flags) (solve : Solver α) (hs : SolverSpec solve) (hZ : 1 ≤ Z)
    (h : PosRates Z S A (specTcx donor C) ne nD) (z : ℕ) (hz : z ≤ Z) :
    entryFractional fl solve Z S A C donor ne nD z = closedFrac Z S A (specTcx donor C) ne nD z := by
  unfold entryFractional
  rw [selectTcx_none]
  exact lsq_returns_closed_form solve hs hZ h z hz

/-- **fractions_in_unit_interval** -/
theorem fractions_in_unit_interval (fl : Flags) (solve : Solver α) (hs : SolverSpec solve) (hZ : 1 ≤ Z)
    (h : PosRates Z S A (specTcx donor C) ne nD) (z : ℕ) (hz : z ≤ Z) :
    0 ≤ entryFractional fl solve Z S A C donor ne nD z ∧ entryFractional fl solve Z S A C donor ne nD z ≤ 1 := by
  rw [fractional_entry_closed fl solve hs hZ h z hz]
  exact ⟨(closedFrac_pos h z hz).le, closedFrac_le_one h z hz⟩

/-- **fractions_sum_one** -/
theorem fractions_sum_one (fl : Flags) (solve : Solver α) (hs : SolverSpec solve) (hZ : 1 ≤ Z)
    (h : PosRates Z S A (specTcx donor C) ne nD) :
    sumTo (entryFractional fl solve Z S A C donor ne nD) (Z + 1) = 1 := by
  rw [sumTo_congr _ _ (Z + 1) (fun j hj => fractional_entry_closed fl solve hs hZ h j (by omega))]
  exact closedFrac_sum h

/-- **neighbour_balance**: `n_z S_z = n_{z+1} (α_{z+1} + (n_D/n_e) C_{z+1})` between every neighbouring pair; without a
donor the CX term is absent -/
theorem neighbour_balance (fl : Flags) (solve : Solver α) (hs : SolverSpec solve) (hZ : 1 ≤ Z)
    (h : PosRates Z S A (specTcx donor C) ne nD) (z : ℕ) (hz : z < Z) :
    entryFractional fl solve Z S A C donor ne nD z * S z
      = entryFractional fl solve Z S A C donor ne nD (z + 1)
          * (A (z + 1) + if donor then nD / ne * C (z + 1) else 0) := by
  rw [fractional_entry_closed fl solve hs hZ h z (by omega), fractional_entry_closed fl solve hs hZ h (z + 1) (by omega),
    closedFrac_balance h z hz]
  cases donor <;> rfl

/-- a donor of zero density is the same as no donor -/
theorem zero_donor_density_eq_no_donor (z : ℕ) :
    closedFrac Z S A (some C) ne 0 z = closedFrac Z S A none ne 0 z := by
  have hr : ∀ i, recTot A (some C) ne 0 i = recTot A none ne 0 i := by
    intro i; simp [recTot, cxTerm]
  have hu : ∀ k, unnorm S A (some C) ne 0 k = unnorm S A none ne 0 k := by
    intro k
    induction k with
    | zero => rfl
    | succ k ih => simp only [unnorm, ih, hr]
  unfold closedFrac
  rw [hu z, sumTo_congr _ _ (Z + 1) (fun j _ => hu j)]

/-- **element_density_scales**: charge-state densities are the element density times the fractions of the *same*
`(n_e, T_e, n_D)` — provided the point helper keeps the supplied CX rates, or no donor is given — and they add up to
the element density -/
theorem element_density_scales (fl : Flags) (hfl : fl.fd = true ∨ donor = false) (solve : Solver α)
    (hs : SolverSpec solve) (hZ : 1 ≤ Z) (h : PosRates Z S A (specTcx donor C) ne nD) (dens : α) :
    (∀ z, z ≤ Z → entryFromDensity fl solve Z S A C donor ne nD dens z
        = dens * closedFrac Z S A (specTcx donor C) ne nD z) ∧
      sumTo (entryFromDensity fl solve Z S A C donor ne nD dens) (Z + 1) = dens := by
  have sel : selectTcx fl.fd donor (outerTcx donor C) C = specTcx donor C := by
    rcases hfl with hk | hd
    · rw [hk]; exact selectTcx_outer_keeps donor C
    · subst hd; rw [selectTcx_no_donor]; rfl
  have pt : ∀ z, z ≤ Z → entryFromDensity fl solve Z S A C donor ne nD dens z
      = dens * closedFrac Z S A (specTcx donor C) ne nD z := by
    intro z hz
    unfold entryFromDensity
    rw [sel, lsq_returns_closed_form solve hs hZ h z hz]; ring
  refine ⟨pt, ?_⟩
  rw [sumTo_congr _ _ (Z + 1) (fun j hj => pt j (by omega)), sumTo_mul_left, closedFrac_sum h, mul_one]

/-- the code as written (`else: coef_tcx = None`): with a donor, `from_elementdensity` returns the element density
times the **no-donor** fractions (DESIGN §6 #8) -/
theorem from_density_drops_donor (fl : Flags) (hfl : fl.fd = false) (solve : Solver α)
    (hs : SolverSpec solve) (hZ : 1 ≤ Z) (h : PosRates Z S A (specTcx donor C) ne nD) (dens : α) (z : ℕ) (hz : z ≤ Z) :
    entryFromDensity fl solve Z S A C donor ne nD dens z = dens * closedFrac Z S A none ne nD z := by
  unfold entryFromDensity
  rw [hfl, selectTcx_outer_drops, lsq_returns_closed_form solve hs hZ h.drop z hz]; ring

/-! ### neutrality matching -/

/-- electrons carried by one species: `Σ index · value` -/
def elecFrom : ℕ → List α → α
  | _, [] => 0
  | i, v :: vs => (i : α) * v + elecFrom (i + 1) vs

/-- electrons carried by all the given species -/
def others : List (List α) → α
  | [] => 0
  | sp :: rest => elecFrom 0 sp + others rest

theorem subOne_eq (acc : α) (i : ℕ) (sp : List α) : subOne acc i sp = acc - elecFrom i sp := by
  induction sp generalizing acc i with
  | nil => simp [subOne, elecFrom]
  | cons v vs ih => simp only [subOne, elecFrom, ih]; ring

theorem subAll_eq (acc : α) (species : List (List α)) : subAll acc species = acc - others species := by
  unfold subAll
  induction species generalizing acc with
  | nil => simp [others]
  | cons sp rest ih => rw [List.foldl_cons, ih, subOne_eq, others]; ring

theorem matchPoint_neutral (f : ℕ → α) (hZ : 1 ≤ Z) (hf : ∀ z, z ≤ Z → 0 < f z) (species : List (List α)) :
    (∀ z, z ≤ Z → 0 ≤ matchPoint f Z species ne z) ∧
      (others species ≤ ne →
        sumTo (fun z => (z : α) * matchPoint f Z species ne z) (Z + 1) + others species = ne) ∧
      (ne < others species → ∀ z, z ≤ Z → matchPoint f Z species ne z = 0) := by
  have hzm : 0 < zMean f Z := by
    unfold zMean
    have := le_sumTo (fun i => (i : α) * f i) (Z + 1) 1 (by omega)
      (fun j hj => mul_nonneg (Nat.cast_nonneg j) (hf j (by omega)).le)
    have h1 := hf 1 hZ
    simp only [Nat.cast_one, one_mul] at this
    linarith
  refine ⟨?_, ?_, ?_⟩
  · intro z hz
    unfold matchPoint
    simp only
    apply mul_nonneg (hf z hz).le
    apply div_nonneg _ hzm.le
    split_ifs with hneg
    · exact le_refl _
    · exact not_lt.mp hneg
  · intro hle
    have hnn : ¬ (subAll ne species < 0) := by rw [subAll_eq]; linarith
    unfold matchPoint
    simp only [hnn, if_false]
    rw [sumTo_congr _ (fun z => ((z : α) * f z) * (subAll ne species / zMean f Z)) (Z + 1) (fun j _ => by ring),
      sumTo_mul_right]
    change zMean f Z * _ + _ = _
    rw [mul_div_cancel₀ _ hzm.ne', subAll_eq]; ring
  · intro hgt z _
    have hneg : subAll ne species < 0 := by rw [subAll_eq]; linarith
    unfold matchPoint
    simp [hneg]

theorem selectTcx_outer_cases (k donor : Bool) (C : ℕ → α) :
    selectTcx k donor (outerTcx donor C) C = specTcx donor C ∨ selectTcx k donor (outerTcx donor C) C = none := by
  cases k
  · right; exact selectTcx_outer_drops donor C
  · left; exact selectTcx_outer_keeps donor C

/-- **neutrality_matches**: non-negative densities; their charge plus the given species' charge equals `n_e` whenever
the given species do not already exceed it (otherwise the code clamps to zero density).  Holds for the code as
written and for the patched selection alike. -/
theorem neutrality_matches (fl : Flags) (solve : Solver α) (hs : SolverSpec solve) (hZ : 1 ≤ Z)
    (h : PosRates Z S A (specTcx donor C) ne nD) (species : List (List α)) :
    (∀ z, z ≤ Z → 0 ≤ entryMatch fl solve Z S A C donor ne nD species z) ∧
      (others species ≤ ne →
        sumTo (fun z => (z : α) * entryMatch fl solve Z S A C donor ne nD species z) (Z + 1) + others species = ne) ∧
      (ne < others species → ∀ z, z ≤ Z → entryMatch fl solve Z S A C donor ne nD species z = 0) := by
  unfold entryMatch
  apply matchPoint_neutral _ hZ
  intro z hz
  rcases selectTcx_outer_cases fl.mn donor C with e | e <;> rw [e]
  · rw [lsq_returns_closed_form solve hs hZ h z hz]; exact closedFrac_pos h z hz
  · rw [lsq_returns_closed_form solve hs hZ h.drop z hz]; exact closedFrac_pos h.drop z hz

/-! ### agreement of the entry points -/

/-- what "all entry points agree" means at one profile index -/
def AgreeAt (fl : Flags) (solve : Solver α) (Z : ℕ) (S A C : ℕ → α) (donor : Bool) (ne nD dens : α)
    (species : List (List α)) : Prop :=
  ∀ z, z ≤ Z →
    entryFromDensity fl solve Z S A C donor ne nD dens z = entryFractional fl solve Z S A C donor ne nD z * dens ∧
    entryMatch fl solve Z S A C donor ne nD species z
      = matchPoint (entryFractional fl solve Z S A C donor ne nD) Z species ne z

/-- **entry_points_agree** (patched selection, or no donor): the three entry points use the same fractions -/
theorem entry_points_agree (fl : Flags) (hfl : (fl.fd = true ∧ fl.mn = true) ∨ donor = false) (solve : Solver α)
    (dens : α) (species : List (List α)) : AgreeAt fl solve Z S A C donor ne nD dens species := by
  intro z _
  unfold entryFromDensity entryMatch entryFractional
  rcases hfl with ⟨h1, h2⟩ | hd
  · rw [h1, h2, selectTcx_outer_keeps, selectTcx_none]; exact ⟨rfl, rfl⟩
  · subst hd; refine ⟨?_, ?_⟩ <;> simp only [selectTcx_no_donor]

end entries

/-! ### the code as written: a supplied `coef_tcx` is discarded — concrete rational witness -/

section witness

def wS : ℕ → ℚ := fun _ => 1

theorem wPos (t : Option (ℕ → ℚ)) (ht : t = none ∨ t = some wS) : PosRates 1 wS wS t 1 1 := by
  refine ⟨by norm_num, by norm_num, fun _ _ => by norm_num [wS], fun _ _ _ => by norm_num [wS], ?_⟩
  intro c hc z _ _
  rcases ht with h | h
  · rw [h] at hc; cases hc
  · rw [h] at hc; cases hc; norm_num [wS]

theorem w_none (z : ℕ) (hz : z ≤ 1) : closedFrac 1 wS wS none 1 1 z = 1 / 2 := by
  rcases Nat.le_one_iff_eq_zero_or_eq_one.mp hz with rfl | rfl <;>
    norm_num [closedFrac, unnorm, sumTo, recTot, cxTerm, wS]

theorem w_some0 : closedFrac 1 wS wS (some wS) 1 1 0 = 2 / 3 := by
  norm_num [closedFrac, unnorm, sumTo, recTot, cxTerm, wS]

theorem w_some1 : closedFrac 1 wS wS (some wS) 1 1 1 = 1 / 3 := by
  norm_num [closedFrac, unnorm, sumTo, recTot, cxTerm, wS]

/-- **entry_points_disagree_as_written**: hydrogen-like element, all rates 1, `n_e = n_D = 1`, element density 1, no
other species.  `fractional_abundance` gives `(2/3, 1/3)`; a helper that discards the supplied rates gives `(1/2, 1/2)`
(from-density) resp. density `1 ≠ 2` for the neutral stage (neutrality matching). -/
theorem entry_points_disagree_as_written (fl : Flags) (hfl : fl.fd = false ∨ fl.mn = false) (solve : Solver ℚ)
    (hs : SolverSpec solve) : ¬ AgreeAt fl solve 1 wS wS wS true 1 1 1 [] := by
  intro hag
  have hfrac : ∀ z, z ≤ 1 → entryFractional fl solve 1 wS wS wS true 1 1 z = closedFrac 1 wS wS (some wS) 1 1 z :=
    fun z hz => fractional_entry_closed fl solve hs (le_refl 1) (wPos _ (Or.inr rfl)) z hz
  rcases hfl with hk | hk
  · have h0 := (hag 0 (by norm_num)).1
    rw [hfrac 0 (by norm_num), w_some0] at h0
    unfold entryFromDensity at h0
    rw [hk, selectTcx_outer_drops, lsq_returns_closed_form solve hs (le_refl 1) (wPos none (Or.inl rfl)) 0 (by norm_num),
      w_none 0 (by norm_num)] at h0
    norm_num at h0
  · have h0 := (hag 0 (by norm_num)).2
    unfold entryMatch at h0
    rw [hk, selectTcx_outer_drops] at h0
    unfold matchPoint zMean at h0
    simp only [sumTo, subAll, List.foldl_nil] at h0
    rw [hfrac 0 (by norm_num), hfrac 1 (by norm_num), w_some0, w_some1,
      lsq_returns_closed_form solve hs (le_refl 1) (wPos none (Or.inl rfl)) 0 (by norm_num),
      lsq_returns_closed_form solve hs (le_refl 1) (wPos none (Or.inl rfl)) 1 (by norm_num),
      w_none 0 (by norm_num), w_none 1 (by norm_num)] at h0
    norm_num at h0

end witness

/-- what the property asks of the entry points, for every ordered field, element, rate table and input -/
def AgreeEverywhere (fl : Flags) : Prop :=
  ∀ (β : Type) [Field β] [LinearOrder β] [IsStrictOrderedRing β] (solve : Solver β) (Z : ℕ) (S A C : ℕ → β)
    (donor : Bool) (ne nD dens : β) (species : List (List β)), AgreeAt fl solve Z S A C donor ne nD dens species

/-- a positive-rate rational input on which the entry points differ for every admissible solver -/
def DisagreeSomewhere (fl : Flags) : Prop :=
  ∃ (Z : ℕ) (S A C : ℕ → ℚ) (ne nD dens : ℚ) (species : List (List ℚ)),
    1 ≤ Z ∧ PosRates Z S A (some C) ne nD ∧
      ∀ solve : Solver ℚ, SolverSpec solve → ¬ AgreeAt fl solve Z S A C true ne nD dens species

/-- the switch: the patched selection agrees everywhere, the selection as written fails on the witness -/
theorem entry_points_agree_switch (fl : Flags) :
    if fl.fd && fl.mn then AgreeEverywhere fl else DisagreeSomewhere fl := by
  by_cases h : (fl.fd && fl.mn) = true
  · rw [if_pos h]
    have h' : fl.fd = true ∧ fl.mn = true := by simpa using h
    intro β _ _ _ solve Z S A C donor ne nD dens species
    exact entry_points_agree fl (Or.inl h') solve dens species
  · rw [if_neg h]
    have h' : fl.fd = false ∨ fl.mn = false := by
      cases hfd : fl.fd <;> cases hmn : fl.mn <;> simp_all
    exact ⟨1, wS, wS, wS, 1, 1, 1, [], le_refl 1, wPos _ (Or.inr rfl),
      fun solve hs => entry_points_disagree_as_written fl h' solve hs⟩

/-- **entry_points_agree_current_tree**: the statement that holds for the selection flags *generated from /repo's
current source* — agreement everywhere once the helpers keep the supplied rates, the refutation while they do not -/
theorem entry_points_agree_current_tree :
    if Cherab.Gen.IonBalance.flags.fd && Cherab.Gen.IonBalance.flags.mn
    then AgreeEverywhere Cherab.Gen.IonBalance.flags else DisagreeSomewhere Cherab.Gen.IonBalance.flags :=
  entry_points_agree_switch _

/-! ### input representations -/

/-- a scalar is the one-element array -/
theorem representation_scalar (fv : FreeVar α) (v : α) : toArray fv (.scalar v) = toArray fv (.arr1 [v]) := rfl

/-- a `Function1D` with its free variable is the array of its samples -/
theorem representation_fn1 (f : α → α) (xs : List α) :
    toArray (.one xs) (.fn1 f) = toArray (.one xs) (.arr1 (xs.map f)) := by
  simp [toArray]

/-- a `Function2D` with a pair of coordinate arrays is the 2-D array of its samples (C order, x outer) -/
theorem representation_fn2 (f : α → α → α) (xs ys : List α) (hx : xs ≠ []) :
    toArray (.two xs ys) (.fn2 f) = toArray (.two xs ys) (.arr2 (xs.map fun x => ys.map fun y => f x y)) := by
  cases xs with
  | nil => exact absurd rfl hx
  | cons x xs => simp [toArray]

/-- an absent donor density is an array of zeros shaped like the major profile -/
theorem assignDonor_none_zero (fv : FreeVar α) (major : Profile α) (a : Arr α) (h : toArray fv major = some a) :
    assignDonor fv major none = some ⟨a.shape, a.data.map fun _ => 0⟩ := by
  simp [assignDonor, h]

/-- **profile_pointwise**: the array-level entry point is the point-level one at every index (so two representations
that normalise to the same arrays give the same results, and every point-level theorem transfers) -/
theorem profile_pointwise (fl : Flags) (solve : Solver α) (Z : ℕ) (S A C : α → α → ℕ → α) (donor : Bool)
    (ne te nD : List α) (k : ℕ) (n t d : α) (hn : ne[k]? = some n) (ht : te[k]? = some t) (hd : nD[k]? = some d) :
    (profileFractional fl solve Z S A C donor ne te nD)[k]?
      = some (entryFractional fl solve Z (S n t) (A n t) (C n t) donor n d) := by
  have h1 : (te.zip nD)[k]? = some (t, d) := List.getElem?_zip_eq_some.mpr ⟨ht, hd⟩
  have h2 : (ne.zip (te.zip nD))[k]? = some (n, t, d) := List.getElem?_zip_eq_some.mpr ⟨hn, h1⟩
  simp [profileFractional, List.getElem?_map, h2]

theorem profile_pointwise_density (fl : Flags) (solve : Solver α) (Z : ℕ) (S A C : α → α → ℕ → α) (donor : Bool)
    (dens ne te nD : List α) (k : ℕ) (e n t d : α) (he : dens[k]? = some e) (hn : ne[k]? = some n)
    (ht : te[k]? = some t) (hd : nD[k]? = some d) :
    (profileFromDensity fl solve Z S A C donor dens ne te nD)[k]?
      = some (entryFromDensity fl solve Z (S n t) (A n t) (C n t) donor n d e) := by
  have h1 : (te.zip nD)[k]? = some (t, d) := List.getElem?_zip_eq_some.mpr ⟨ht, hd⟩
  have h2 : (ne.zip (te.zip nD))[k]? = some (n, t, d) := List.getElem?_zip_eq_some.mpr ⟨hn, h1⟩
  have h3 : (dens.zip (ne.zip (te.zip nD)))[k]? = some (e, n, t, d) := List.getElem?_zip_eq_some.mpr ⟨he, h2⟩
  simp [profileFromDensity, List.getElem?_map, h3]

/-! ## Proof-deepening pass -/

/-! ### (A) `lsq_linear` by its definition: a least-squares minimiser over the box, instead of the ad-hoc `SolverSpec` -/

/-- `y` minimises the residual sum of squares over the box `lo ≤ x_j ≤ hi` — what `scipy.optimize.lsq_linear` is specified
to return -/
def IsBoxLeastSquares (M : ℕ → ℕ → α) (b : ℕ → α) (rows cols : ℕ) (lo hi : α) (y : ℕ → α) : Prop :=
  (∀ j, j < cols → lo ≤ y j ∧ y j ≤ hi) ∧
    ∀ x : ℕ → α, (∀ j, j < cols → lo ≤ x j ∧ x j ≤ hi) → sumSq rows cols M b y ≤ sumSq rows cols M b x

/-- **least_squares_zero_residual**: if the box contains an exact solution, every least-squares minimiser over the box is
an exact solution (this is `SolverSpec`, derived rather than assumed) -/
theorem least_squares_zero_residual (M : ℕ → ℕ → α) (b : ℕ → α) (rows cols : ℕ) (lo hi : α) (y : ℕ → α)
    (hy : IsBoxLeastSquares M b rows cols lo hi y)
    (hex : ∃ x : ℕ → α, (∀ j, j < cols → lo ≤ x j ∧ x j ≤ hi) ∧ ∀ i, i < rows → rowDot cols M x i = b i) :
    ∀ i, i < rows → rowDot cols M y i = b i := by
  obtain ⟨x, hbox, hsol⟩ := hex
  have hx0 : sumSq rows cols M b x = 0 := by
    unfold sumSq
    rw [sumTo_congr _ (fun _ => (0 : α)) rows (fun i hi => by rw [hsol i hi]; ring)]
    exact sumTo_zero rows
  have hle := hy.2 x hbox
  have hnn : 0 ≤ sumSq rows cols M b y := sumTo_nonneg _ rows (fun i _ => mul_self_nonneg _)
  have h0 : sumSq rows cols M b y = 0 := le_antisymm (hx0 ▸ hle) hnn
  intro i hi
  have := sumTo_eq_zero_of_nonneg _ rows (fun i _ => mul_self_nonneg _) h0 i hi
  have := mul_self_eq_zero.mp this
  linarith

/-- a solver that returns a box least-squares minimiser for every problem meets `SolverSpec` -/
theorem least_squares_meets_SolverSpec (solve : Solver α)
    (h : ∀ M b rows cols lo hi, IsBoxLeastSquares M b rows cols lo hi (solve M b rows cols lo hi)) : SolverSpec solve := by
  intro M b rows cols lo hi hex
  exact ⟨(h M b rows cols lo hi).1, least_squares_zero_residual M b rows cols lo hi _ (h M b rows cols lo hi) hex⟩

section deepen
variable {Z : ℕ} {S A : ℕ → α} {tcx : Option (ℕ → α)} {ne nD : α}

/-- the closed form is a least-squares minimiser of the code's problem (non-vacuity of the hypothesis below) -/
theorem closed_form_is_least_squares (hZ : 1 ≤ Z) (h : PosRates Z S A tcx ne nD) :
    IsBoxLeastSquares (matEntry Z S A tcx ne nD) (rhsEntry Z ne) (Z + 2) (Z + 1) 0 ne (closedAbundance Z S A tcx ne nD) := by
  refine ⟨fun j hj => ?_, fun x _ => ?_⟩
  · unfold closedAbundance
    have p := (closedFrac_pos h j (by omega)).le
    have q := closedFrac_le_one h j (by omega)
    exact ⟨mul_nonneg h.ne_pos.le p, by nlinarith [h.ne_pos]⟩
  · have h0 : sumSq (Z + 2) (Z + 1) (matEntry Z S A tcx ne nD) (rhsEntry Z ne) (closedAbundance Z S A tcx ne nD) = 0 := by
      unfold sumSq
      rw [sumTo_congr _ (fun _ => (0 : α)) (Z + 2) (fun i hi => by rw [closed_form_solves hZ h i hi]; ring)]
      exact sumTo_zero _
    rw [h0]
    exact sumTo_nonneg _ _ (fun i _ => mul_self_nonneg _)

/-- **steady_state_is_the_least_squares_minimiser**: for every Z ≥ 1 and positive rates, *whatever* bounded least-squares
minimiser `lsq_linear` returns for the matrix the code builds, it is the detailed-balance recurrence — existence
(`closed_form_is_least_squares`), uniqueness and strict positivity in one statement -/
theorem steady_state_is_the_least_squares_minimiser (hZ : 1 ≤ Z) (h : PosRates Z S A tcx ne nD) (y : ℕ → α)
    (hy : IsBoxLeastSquares (matEntry Z S A tcx ne nD) (rhsEntry Z ne) (Z + 2) (Z + 1) 0 ne y) (z : ℕ) (hz : z ≤ Z) :
    y z = closedAbundance Z S A tcx ne nD z ∧ 0 < y z := by
  have hsol := least_squares_zero_residual _ _ _ _ _ _ y hy
    ⟨closedAbundance Z S A tcx ne nD, (closed_form_is_least_squares hZ h).1, fun i hi => closed_form_solves hZ h i hi⟩
  have e := solution_unique hZ h y hsol z hz
  refine ⟨e, ?_⟩
  rw [e]; unfold closedAbundance
  exact mul_pos h.ne_pos (closedFrac_pos h z hz)

/-- **solution_unique_without_last_row**: the last balance row is redundant — the first `Z` balance rows and the
normalisation row already determine the solution (so does any solver that drops a row) -/
theorem solution_unique_without_last_row (hZ : 1 ≤ Z) (h : PosRates Z S A tcx ne nD) (x : ℕ → α)
    (hx : ∀ i, i < Z + 2 → i ≠ Z → rowDot (Z + 1) (matEntry Z S A tcx ne nD) x i = rhsEntry Z ne i)
    (z : ℕ) (hz : z ≤ Z) : x z = closedAbundance Z S A tcx ne nD z := by
  apply solution_unique hZ h x _ z hz
  intro i hi
  by_cases hiZ : i = Z
  · -- the last row is minus the sum of the rows above it
    subst hiZ
    obtain ⟨m, rfl⟩ : ∃ m, i = m + 1 := ⟨i - 1, by omega⟩
    have hne := h.ne_pos.ne'
    have flux : ∀ k, k < m + 1 → S k * x k = recTot A tcx ne nD (k + 1) * x (k + 1) := by
      intro k
      induction k with
      | zero =>
        intro _
        have := hx 0 (by omega) (by omega)
        rw [rowDot_first] at this
        have e : rhsEntry (m + 1) ne 0 = 0 := by simp [rhsEntry]
        rw [e] at this
        have := (mul_eq_zero.mp this).resolve_left hne
        linarith
      | succ k ih =>
        intro hk
        have h1 := ih (by omega)
        have := hx (k + 1) (by omega) (by omega)
        rw [rowDot_interior (m + 1) k hk] at this
        have e : rhsEntry (m + 1) ne (k + 1) = 0 := by simp [rhsEntry]; omega
        rw [e] at this
        have := (mul_eq_zero.mp this).resolve_left hne
        linarith
    rw [rowDot_last, flux m (by omega)]
    simp [rhsEntry]
  · exact hx i hi hiZ

end deepen

/-! ### (B) species dictionaries: the result does not depend on the insertion order -/

/-- **dictToArray_perm**: `array[key] = value` over the items of a dictionary (distinct keys) gives the same array whatever
the insertion order -/
theorem dictToArray_perm (n : ℕ) (l l' : List (ℕ × α)) (hp : l.Perm l') (hk : (l.map Prod.fst).Nodup) :
    dictToArray n l = dictToArray n l' := by
  unfold dictToArray
  apply List.Perm.foldl_eq' hp
  intro x hx y hy a
  by_cases hxy : x = y
  · subst hxy; rfl
  · have hne : x.1 ≠ y.1 := by
      intro he
      apply hxy
      have := List.inj_on_of_nodup_map hk hx hy he
      exact this
    exact List.set_comm x.2 y.2 hne

/-- … and holds, at every key below the length, the value stored under that key -/
theorem dictToArray_get (n : ℕ) (l : List (ℕ × α)) (hk : (l.map Prod.fst).Nodup) (k : ℕ) (v : α)
    (hmem : (k, v) ∈ l) (hkn : k < n) : (dictToArray n l)[k]? = some v := by
  -- move the item to the end of the insertion order (allowed by `dictToArray_perm`), then the last write wins
  obtain ⟨l₁, l₂, rfl⟩ := List.append_of_mem hmem
  have hp : (l₁ ++ (k, v) :: l₂).Perm ((l₁ ++ l₂) ++ [(k, v)]) := by
    have := (List.perm_middle (a := (k, v)) (l₁ := l₁) (l₂ := l₂))
    exact this.trans (List.perm_append_singleton (k, v) (l₁ ++ l₂)).symm
  rw [dictToArray_perm n _ _ hp hk]
  unfold dictToArray
  rw [List.foldl_append]
  simp only [List.foldl_cons, List.foldl_nil]
  have hlen : ∀ (its : List (ℕ × α)) (a : List α), (its.foldl (fun a kv => a.set kv.1 kv.2) a).length = a.length := by
    intro its
    induction its with
    | nil => intro a; rfl
    | cons it its ih => intro a; simp [List.foldl_cons, ih]
  rw [List.getElem?_set_self]
  rw [hlen]; simpa using hkn

/-- **match_independent_of_insertion_order**: neutrality matching with the other species given as `{charge: density}`
dictionaries returns the same densities for every insertion order of every dictionary -/
theorem match_independent_of_insertion_order (fl : Flags) (solve : Solver α) (Z : ℕ) (S A C : ℕ → α) (donor : Bool)
    (ne nD : α) (ds ds' : List (List (ℕ × α)))
    (h : List.Forall₂ (fun d d' => d.Perm d' ∧ (d.map Prod.fst).Nodup) ds ds') (z : ℕ) :
    entryMatch fl solve Z S A C donor ne nD (speciesOfDicts ds) z
      = entryMatch fl solve Z S A C donor ne nD (speciesOfDicts ds') z := by
  have : speciesOfDicts ds = speciesOfDicts ds' := by
    unfold speciesOfDicts
    induction h with
    | nil => rfl
    | cons hd _ ih =>
      simp only [List.map_cons]
      rw [ih, hd.1.length_eq, dictToArray_perm _ _ _ hd.1 hd.2]
  rw [this]

/-! ### (C) array calls are point-wise: no dependence on the other profile points -/

/-- **profile_point_independence**: the result at index `k` is the same for two profile calls that agree at index `k`,
whatever the other points are (a memo across points keyed on part of the arguments would violate this) -/
theorem profile_point_independence (fl : Flags) (solve : Solver α) (Z : ℕ) (S A C : α → α → ℕ → α) (donor : Bool)
    (ne te nD ne' te' nD' : List α) (k : ℕ) (n t d : α)
    (hn : ne[k]? = some n) (ht : te[k]? = some t) (hd : nD[k]? = some d)
    (hn' : ne'[k]? = some n) (ht' : te'[k]? = some t) (hd' : nD'[k]? = some d) :
    (profileFractional fl solve Z S A C donor ne te nD)[k]? = (profileFractional fl solve Z S A C donor ne' te' nD')[k]? := by
  rw [profile_pointwise fl solve Z S A C donor ne te nD k n t d hn ht hd,
    profile_pointwise fl solve Z S A C donor ne' te' nD' k n t d hn' ht' hd']

/-- a scalar call is the one-point profile call (the reference of the `differs-from-scalar-call` oracle) -/
theorem profile_scalar_is_point (fl : Flags) (solve : Solver α) (Z : ℕ) (S A C : α → α → ℕ → α) (donor : Bool) (n t d : α) :
    profileFractional fl solve Z S A C donor [n] [t] [d] = [entryFractional fl solve Z (S n t) (A n t) (C n t) donor n d] := rfl

/-- … and the profile result has one entry per point -/
theorem profile_length (fl : Flags) (solve : Solver α) (Z : ℕ) (S A C : α → α → ℕ → α) (donor : Bool) (ne te nD : List α)
    (h1 : te.length = ne.length) (h2 : nD.length = ne.length) :
    (profileFractional fl solve Z S A C donor ne te nD).length = ne.length := by
  simp [profileFractional, h1, h2]

/-- non-vacuity: two insertion orders of a three-charge dictionary, and the array they both give -/
example : dictToArray 3 [((2 : ℕ), (7 : ℚ)), (0, 5), (1, 6)] = [5, 6, 7] ∧
    dictToArray 3 [((0 : ℕ), (5 : ℚ)), (1, 6), (2, 7)] = [5, 6, 7] := by decide +kernel

example : List.Forall₂ (fun d d' => d.Perm d' ∧ (d.map Prod.fst).Nodup)
    [[((2 : ℕ), (7 : ℚ)), (0, 5), (1, 6)]] [[(0, 5), (1, 6), (2, 7)]] := by
  refine List.Forall₂.cons ⟨?_, by decide⟩ List.Forall₂.nil
  decide

/-! ### non-vacuity -/

/-- the solver contract is satisfiable (an exact minimiser exists) -/
example : ∃ solve : Solver ℚ, SolverSpec solve := by
  classical
  refine ⟨fun M b rows cols lo hi =>
    if h : ∃ x : ℕ → ℚ, (∀ j, j < cols → lo ≤ x j ∧ x j ≤ hi) ∧ ∀ i, i < rows → rowDot cols M x i = b i
    then Classical.choose h else fun _ => 0, ?_⟩
  intro M b rows cols lo hi hex
  simp only [dif_pos hex]
  exact Classical.choose_spec hex

/-- positive rate tables exist for a real element (Z = 2, helium-like, with a donor), and the closed form is the
expected number there -/
example : PosRates 2 (fun _ => (2 : ℚ)) (fun _ => 1) (some fun _ => 3) 4 4 :=
  ⟨by norm_num, by norm_num, fun _ _ => by norm_num, fun _ _ _ => by norm_num,
    fun c hc z _ _ => by cases hc; norm_num⟩

example : closedFrac 2 (fun _ => (2 : ℚ)) (fun _ => 1) (some fun _ => 3) 4 4 1 = 2 / 7 := by
  norm_num [closedFrac, unnorm, sumTo, recTot, cxTerm]

/-- the matrix of the model for Z = 1 with a donor, spelled out -/
example : matrixRows 1 (fun _ => (2 : ℚ)) (fun _ => 3) (some fun _ => 5) 4 8 = [[-8, 52], [8, -52], [1, 1]] := by
  decide +kernel

/-! ## Round 6 — the public array-level entry points (`callFractional`, `callFromDensity`): normalisation ladder + loop -/

/-- the shape test of `_parameters_to_numpy` (`all(shapes[0] == shape for shape in shapes)`), exactly -/
theorem toArrays_eq_some_iff (ps : List (Option (Arr α))) (sh : List ℕ) (ds : List (List α)) :
    toArrays ps = some (sh, ds) ↔
      ∃ (a : Arr α) (rest : List (Arr α)), ps = (a :: rest).map some ∧ a.shape = sh ∧ (∀ b ∈ rest, b.shape = sh) ∧
        ds = (a :: rest).map (·.data) := by
  constructor
  · intro h
    match ps, h with
    | some a :: rest, h =>
      simp only [toArrays] at h
      split_ifs at h with hall
      simp only [Option.some.injEq, Prod.mk.injEq] at h
      obtain ⟨h1, h2⟩ := h
      rw [List.all_eq_true] at hall
      have hsome : ∀ p ∈ rest, ∃ b : Arr α, p = some b ∧ b.shape = a.shape := by
        intro p hp
        have := hall p hp
        cases p with
        | none => simp at this
        | some b => exact ⟨b, rfl, by simpa using this⟩
      refine ⟨a, rest.filterMap id, ?_, h1, ?_, ?_⟩
      · simp only [List.map_cons, List.cons.injEq, true_and]
        clear h2 hall
        induction rest with
        | nil => rfl
        | cons p r ih =>
          obtain ⟨b, rfl, -⟩ := hsome _ (List.mem_cons_self)
          simp only [List.filterMap_cons, id, List.map_cons, List.cons.injEq, true_and]
          exact ih (fun q hq => hsome q (List.mem_cons_of_mem _ hq))
      · intro b hb
        rw [List.mem_filterMap] at hb
        obtain ⟨p, hp, hpb⟩ := hb
        obtain ⟨b', rfl, hb'⟩ := hsome p hp
        simp only [id, Option.some.injEq] at hpb
        rw [← hpb, hb', h1]
      · rw [← h2]
        simp only [List.map_cons, List.cons.injEq, true_and]
        clear h2 hall
        induction rest with
        | nil => rfl
        | cons p r ih =>
          obtain ⟨b, rfl, -⟩ := hsome _ (List.mem_cons_self)
          simp only [List.filterMap_cons, id, List.map_cons, List.cons.injEq, true_and]
          exact ih (fun q hq => hsome q (List.mem_cons_of_mem _ hq))
  · rintro ⟨a, rest, rfl, ha, hrest, rfl⟩
    simp only [List.map_cons, toArrays]
    simp [List.map_map, Function.comp_def, ha]
    exact hrest

/-! ### the array-level entry points: every accepted representation of the same values gives the same result -/

/-- **call_representation_independent**: `fractional_abundance` depends on its inputs only through what the normalisation
ladder makes of them -/
theorem call_representation_independent (fl : Flags) (solve : Solver α) (Z : ℕ) (S A C : α → α → ℕ → α) (donor : Bool)
    (fv fv' : FreeVar α) (pne pne' pte pte' : Profile α) (pd pd' : Option (Profile α))
    (hn : toArray fv pne = toArray fv' pne') (ht : toArray fv pte = toArray fv' pte')
    (hd : assignDonor fv pne pd = assignDonor fv' pne' pd') :
    callFractional fl solve Z S A C donor fv pne pte pd = callFractional fl solve Z S A C donor fv' pne' pte' pd' := by
  simp only [callFractional, hn, ht, hd]

theorem call_density_representation_independent (fl : Flags) (solve : Solver α) (Z : ℕ) (S A C : α → α → ℕ → α)
    (donor : Bool) (fv fv' : FreeVar α) (pe pe' pne pne' pte pte' : Profile α) (pd pd' : Option (Profile α))
    (he : toArray fv pe = toArray fv' pe') (hn : toArray fv pne = toArray fv' pne') (ht : toArray fv pte = toArray fv' pte')
    (hd : assignDonor fv pne pd = assignDonor fv' pne' pd') :
    callFromDensity fl solve Z S A C donor fv pe pne pte pd
      = callFromDensity fl solve Z S A C donor fv' pe' pne' pte' pd' := by
  simp only [callFromDensity, he, hn, ht, hd]

/-- scalars ≡ one-element arrays, donor density scalar / one-element array / absent-with-zero -/
theorem call_scalar_eq_one_point_array (fl : Flags) (solve : Solver α) (Z : ℕ) (S A C : α → α → ℕ → α) (donor : Bool)
    (fv fv' : FreeVar α) (n t : α) (d : Option α) :
    callFractional fl solve Z S A C donor fv (.scalar n) (.scalar t) (d.map .scalar)
      = callFractional fl solve Z S A C donor fv' (.arr1 [n]) (.arr1 [t]) (d.map fun v => .arr1 [v]) := by
  apply call_representation_independent <;> cases d <;> rfl

/-- … and the scalar call is the point-level entry point (with an absent donor density read as 0) -/
theorem call_scalar_is_point (fl : Flags) (solve : Solver α) (Z : ℕ) (S A C : α → α → ℕ → α) (donor : Bool)
    (fv : FreeVar α) (n t : α) (d : Option α) :
    callFractional fl solve Z S A C donor fv (.scalar n) (.scalar t) (d.map .scalar)
      = some ([1], [n], [t], [entryFractional fl solve Z (S n t) (A n t) (C n t) donor n (d.getD 0)]) := by
  cases d <;> rfl

/-- `Function1D` inputs with a free variable ≡ the arrays of their samples (any of the three parameters; donor density
absent, a function or an array) -/
theorem call_fn1_eq_sampled (fl : Flags) (solve : Solver α) (Z : ℕ) (S A C : α → α → ℕ → α) (donor : Bool)
    (fv' : FreeVar α) (xs : List α) (f g : α → α) (h : Option (α → α)) :
    callFractional fl solve Z S A C donor (.one xs) (.fn1 f) (.fn1 g) (h.map .fn1)
      = callFractional fl solve Z S A C donor fv' (.arr1 (xs.map f)) (.arr1 (xs.map g))
          (h.map fun k => .arr1 (xs.map k)) := by
  apply call_representation_independent <;> cases h <;> simp [toArray, assignDonor]

/-- `Function2D` inputs with a pair of coordinate arrays ≡ the 2-D arrays of their samples (x outer, C order) -/
theorem call_fn2_eq_sampled (fl : Flags) (solve : Solver α) (Z : ℕ) (S A C : α → α → ℕ → α) (donor : Bool)
    (fv' : FreeVar α) (xs ys : List α) (hx : xs ≠ []) (f g : α → α → α) (h : Option (α → α → α)) :
    callFractional fl solve Z S A C donor (.two xs ys) (.fn2 f) (.fn2 g) (h.map .fn2)
      = callFractional fl solve Z S A C donor fv' (.arr2 (xs.map fun x => ys.map fun y => f x y))
          (.arr2 (xs.map fun x => ys.map fun y => g x y)) (h.map fun k => .arr2 (xs.map fun x => ys.map fun y => k x y)) := by
  cases xs with
  | nil => exact absurd rfl hx
  | cons x xs => apply call_representation_independent <;> cases h <;> simp [toArray, assignDonor]

/-- an absent donor density ≡ an explicit array of zeros shaped like `n_e` -/
theorem call_no_donor_density_eq_zeros (fl : Flags) (solve : Solver α) (Z : ℕ) (S A C : α → α → ℕ → α) (donor : Bool)
    (fv : FreeVar α) (ne : List α) (pte : Profile α) :
    callFractional fl solve Z S A C donor fv (.arr1 ne) pte none
      = callFractional fl solve Z S A C donor fv (.arr1 ne) pte (some (.arr1 (ne.map fun _ => 0))) := by
  apply call_representation_independent <;> simp [toArray, assignDonor]

/-- **call_rejects_shape_mismatch**: 1-D profiles of different lengths are rejected (the `ValueError` of line 98), whatever
the donor density; in particular a scalar donor density with longer profiles -/
theorem call_rejects_shape_mismatch (fl : Flags) (solve : Solver α) (Z : ℕ) (S A C : α → α → ℕ → α) (donor : Bool)
    (fv : FreeVar α) (ne te : List α) (pd : Option (Profile α)) (h : te.length ≠ ne.length) :
    callFractional fl solve Z S A C donor fv (.arr1 ne) (.arr1 te) pd = none := by
  have : ([te.length] == [ne.length]) = false := by simpa using h
  simp [callFractional, toArrays, toArray, this]

theorem call_rejects_scalar_donor_with_profiles (fl : Flags) (solve : Solver α) (Z : ℕ) (S A C : α → α → ℕ → α)
    (donor : Bool) (fv : FreeVar α) (ne te : List α) (d : α) (h : ne.length ≠ 1) :
    callFractional fl solve Z S A C donor fv (.arr1 ne) (.arr1 te) (some (.scalar d)) = none := by
  have : ([1] == [ne.length]) = false := by simpa using fun h' => h h'.symm
  simp [callFractional, toArrays, toArray, assignDonor, this]

/-- interpolating functions without a matching free variable are rejected -/
theorem call_rejects_function_without_free_variable (fl : Flags) (solve : Solver α) (Z : ℕ) (S A C : α → α → ℕ → α)
    (donor : Bool) (f : α → α) (g : α → α → α) (pte : Profile α) (pd : Option (Profile α)) (xs ys : List α) :
    callFractional fl solve Z S A C donor .none (.fn1 f) pte pd = none ∧
    callFractional fl solve Z S A C donor .none (.fn2 g) pte pd = none ∧
    callFractional fl solve Z S A C donor (.two xs ys) (.fn1 f) pte pd = none ∧
    callFractional fl solve Z S A C donor (.one xs) (.fn2 g) pte pd = none := by
  simp [callFractional, toArrays, toArray]

/-- **call_accepted_iff**: the call returns iff the three normalised parameters exist and have one common shape; the
result is then the loop over their data -/
theorem call_accepted_iff (fl : Flags) (solve : Solver α) (Z : ℕ) (S A C : α → α → ℕ → α) (donor : Bool)
    (fv : FreeVar α) (pne pte : Profile α) (pd : Option (Profile α)) (r : List ℕ × List α × List α × List (ℕ → α)) :
    callFractional fl solve Z S A C donor fv pne pte pd = some r ↔
      ∃ a b c : Arr α, toArray fv pne = some a ∧ toArray fv pte = some b ∧ assignDonor fv pne pd = some c ∧
        b.shape = a.shape ∧ c.shape = a.shape ∧
        r = (a.shape, a.data, b.data, profileFractional fl solve Z S A C donor a.data b.data c.data) := by
  constructor
  · intro h
    unfold callFractional at h
    split at h
    next sh ne te nD heq =>
      rw [toArrays_eq_some_iff] at heq
      obtain ⟨a, rest, hps, ha, hrest, hds⟩ := heq
      match rest, hps, hrest, hds with
      | [b, c], hps, hrest, hds =>
        simp only [List.map_cons, List.map_nil, List.cons.injEq, and_true] at hps hds
        obtain ⟨h1, h2, h3⟩ := hps
        obtain ⟨rfl, rfl, rfl⟩ := hds
        refine ⟨a, b, c, h1, h2, h3, ?_, ?_, ?_⟩
        · rw [hrest b (by simp), ha]
        · rw [hrest c (by simp), ha]
        · simp only [Option.some.injEq] at h
          rw [← h, ha]
    next => exact absurd h (by simp)
  · rintro ⟨a, b, c, h1, h2, h3, hb, hc, rfl⟩
    have hb' : (b.shape == a.shape) = true := by simp [hb]
    have hc' : (c.shape == a.shape) = true := by simp [hc]
    simp [callFractional, toArrays, h1, h2, h3, hb', hc']

/-- **call_fractions_hold_at_every_point**: for every accepted call — whatever the representation of the inputs — the result
at every flat index `k` is in [0,1], sums to one and satisfies the neighbour balance with the rates at the normalised
`(n_e, T_e)` of that index.  (Lift of `fractions_*`/`neighbour_balance` to the public array-level entry point.) -/
theorem call_fractions_hold_at_every_point (fl : Flags) (solve : Solver α) (hs : SolverSpec solve) (Z : ℕ) (hZ : 1 ≤ Z)
    (S A C : α → α → ℕ → α) (donor : Bool) (fv : FreeVar α) (pne pte : Profile α) (pd : Option (Profile α))
    (sh : List ℕ) (ne te : List α) (res : List (ℕ → α))
    (hcall : callFractional fl solve Z S A C donor fv pne pte pd = some (sh, ne, te, res))
    (k : ℕ) (n t d : α) (c : Arr α) (hc : assignDonor fv pne pd = some c)
    (hn : ne[k]? = some n) (ht : te[k]? = some t) (hd : c.data[k]? = some d)
    (hpos : PosRates Z (S n t) (A n t) (specTcx donor (C n t)) n d) :
    ∃ f, res[k]? = some f ∧ (∀ z, z ≤ Z → 0 ≤ f z ∧ f z ≤ 1) ∧ sumTo f (Z + 1) = 1 ∧
      ∀ z, z < Z → f z * S n t z = f (z + 1) * (A n t (z + 1) + if donor then d / n * C n t (z + 1) else 0) := by
  rw [call_accepted_iff] at hcall
  obtain ⟨a, b, c', h1, h2, h3, -, -, hr⟩ := hcall
  rw [hc] at h3
  cases h3
  simp only [Prod.mk.injEq] at hr
  obtain ⟨-, rfl, rfl, rfl⟩ := hr
  refine ⟨_, profile_pointwise fl solve Z S A C donor a.data b.data c.data k n t d hn ht hd, ?_, ?_, ?_⟩
  · exact fun z hz => fractions_in_unit_interval fl solve hs hZ hpos z hz
  · exact fractions_sum_one fl solve hs hZ hpos
  · exact fun z hz => neighbour_balance fl solve hs hZ hpos z hz

/-- non-vacuity: a `Function1D` call on two knots is accepted, and a mismatching one is rejected -/
example : (callFractional ⟨true, true, true⟩ bdSolve 1 (fun _ _ _ => (1 : ℚ)) (fun _ _ _ => 1) (fun _ _ _ => 1) false
    (.one [1, 2]) (.fn1 fun x => x) (.arr1 [3, 4]) none).map (fun r => (r.1, r.2.1, r.2.2.1, r.2.2.2.map fun f => [f 0, f 1]))
    = some ([2], [1, 2], [3, 4], [[1/2, 1/2], [1/2, 1/2]]) := by
  decide +kernel

example : (callFractional ⟨true, true, true⟩ bdSolve 1 (fun _ _ _ => (1 : ℚ)) (fun _ _ _ => 1) (fun _ _ _ => 1) false
    (.one [1, 2]) (.fn1 fun x => x) (.arr1 [3, 4, 5]) none).isNone = true := by
  decide +kernel

end Cherab.Props.C09
