import Cherab.Model.Groups
import Cherab.Gen.GroupTable
import Cherab.Props.C15

/-!
# C15 — the generated descriptor table is well-formed

`table_wf` is the obligation that ties the generic broadcast laws (`Cherab.Props.C15`) to the source as it is now:
every property object reachable on a group class is a correctly wired instance of the broadcast skeleton, or one of
the documented special shapes under its documented name.  It lives in its own module because it is *expected to
break* when the source contains a mis-wired property (then the check searches the implementation for the failing
assignment); the generic laws build and are audited independently.
-/
namespace Cherab.Props.C15Table
open Cherab.Groups Cherab.Gen.GroupTable

theorem table_all_admissible : table.all (fun d => d.admissible table) = true := by decide +kernel

/-- every (class, attribute) descriptor generated from /repo is admissible -/
theorem table_wf : ∀ d ∈ table, d.admissible table = true :=
  List.all_eq_true.mp table_all_admissible

/-- every group class hands slice keys to its member container ("retrievable by … slice"): the hypothesis of
`Cherab.Props.C15.getitem_slice`.  Generated from `__getitem__` of base.py / bolometry.py. -/
theorem classes_accept_slices : ∀ c ∈ classes, c.sliceKeys = true := by decide

/-- the names with a documented shape of their own -/
def specialNames : List String := ["names", "pipelines", "targets", "observers", "sight_lines", "foil_detectors"]

/-- hence every other group-level attribute of every class satisfies the hypothesis of `Cherab.Props.C15.wf_broadcast_laws`,
`history_last_write_wins`, … -/
theorem table_broadcast_wf : ∀ d ∈ table, d.name ∉ specialNames → d.wfBroadcast = true := by
  intro d hd hn
  have h := table_wf d hd
  simp only [specialNames, List.mem_cons, List.not_mem_nil, or_false, not_or] at hn
  obtain ⟨h1, h2, h3, h4, h5, h6⟩ := hn
  simpa [Descriptor.admissible, h1, h2, h3, h4, h5, h6] using h

/-- and the documented shapes sit under their documented names -/
theorem table_special_wf : ∀ d ∈ table,
    (d.name = "names" → d.wfSeqOnly = true) ∧ (d.name = "pipelines" → d.wfLenOnly = true) ∧
    (d.name = "targets" → d.wfAllSeq = true) := by
  intro d hd
  have h := table_wf d hd
  refine ⟨?_, ?_, ?_⟩ <;> intro hn <;> simpa [Descriptor.admissible, hn] using h

/-! ### proof-deepening pass: the state-machine theorems of `Cherab.Props.C15`, instantiated at the table generated from /repo -/

open Cherab.Props.C15 in
/-- for every group class of /repo, every world and every operation of the group API whose values the members accept:
a refused operation (wrong length, wrong container, wrong-typed element anywhere in a member list, wrong-typed argument
of the add method, scalar where only a sequence is allowed, …) leaves the world exactly as it was -/
theorem generated_rejected_unchanged (ci : ClassInfo) (w : World) (op : Op) (hacc : OpAcceptable table ci op)
    (he : (step table ci w op).2 ≠ none) : (step table ci w op).1 = w :=
  step_rejected_unchanged table table_wf ci w op hacc he

open Cherab.Props.C15 in
/-- for every group class of /repo and every history on one group of a scene with several groups: every member of every
group keeps that group as scene-graph parent (so no observer is in two groups), as long as the history does not adopt
members of another group -/
theorem generated_scene_inv (ci : ClassInfo) (ops : List Op) (s : Scene) (hi : s.Inv ci)
    (hforeign : ∀ op ∈ ops, ∀ u ∈ adoptees op, ∀ g ∈ s.others, u ∉ g.2) :
    (ops.foldl (fun s op => s.step table ci op) s).Inv ci :=
  scene_inv_run table table_wf ci ops s hi hforeign

end Cherab.Props.C15Table
