/-
C20 — the dense-matrix form of the cell loop of `generate_derivative_operators`
(cherab/tools/inversions/admt_utils.py:106–254).  Mathlib-free.

`Model/Admt.lean` runs the generated assignment program on a *position*-keyed table (`runProgram`) and reads the dense
entry `[i, j]` off it as the sum of the coefficients of the positions whose column is `j` (`rawEntry`).  The code does
something else: every `D[ith_cell, n_p] = coef` stores into column `n_p` of the `np.zeros` row, a later store into the
same column replaces the earlier one, and a store through a neighbour whose lookup failed (`n_p` still `nan`) is an
`IndexError`.  This file transcribes exactly that (`denseRun`: column-keyed rows, last write wins; the diagonal is written
at `ith_cell` itself, not through a lookup).  `Props/C20Dense.lean` proves that both forms give the same matrix for
every pair of mutually inverse index maps, and the driver op `dense` compares this form with the implementation.
-/
import Cherab.Model.Admt
namespace Cherab.Admt
open Cherab.Gen.Admt

/-- the five dense rows of one cell, column-keyed (`none` = the entry still holds the `0.0` of `np.zeros`) -/
abbrev DenseRows := Op5 → Nat → Option Coef

def DenseRows.empty : DenseRows := fun _ _ => none

/-- the column used by `D[ith_cell, n_p]`: `ith_cell` for the diagonal, otherwise the result of the dictionary lookup
(`none` = `n_p` is still `np.nan`) -/
def colOf (cells : List (Int × Int)) (c : Int × Int) (i : Nat) (p : Pos) : Option Nat :=
  if p = .self then some i else neighbour cells c p

/-- `D[ith_cell, n] = coef`: overwrites whatever the column held -/
def DenseRows.store (d : DenseRows) (op : Op5) (n : Nat) (k : Coef) : DenseRows :=
  fun o j => if o = op ∧ j = n then some k else d o j

/-- one assignment of the loop body executed on the dense rows of cell `i` (2-D index `c`) -/
def stepDense (cells : List (Int × Int)) (c : Int × Int) (i : Nat) (d : DenseRows) (a : Asg) : Option DenseRows :=
  if a.guards.all (·.eval (hasOf cells c)) then
    match colOf cells c i a.pos with
    | some n => some (d.store a.op n ⟨a.num, a.den⟩)
    | none => none
  else some d

/-- the loop body for cell `i`: all assignments in execution order; `none` = `IndexError` -/
def denseRun (prog : List Asg) (cells : List (Int × Int)) (c : Int × Int) (i : Nat) : Option DenseRows :=
  prog.foldlM (stepDense cells c i) DenseRows.empty

section
variable {α : Type} [Add α] [Sub α] [Mul α] [Div α] [Neg α] [Zero α] [NatCast α]

def DenseRows.val (d : DenseRows) (op : Op5) (j : Nat) : α :=
  match d op j with
  | some k => k.val
  | none => 0

/-- entry `[i, j]` of the returned operator in the dense form (`D / scaleDen` after the loop) -/
def denseEntry (dx dy : α) (d : DenseRows) (op : Op5) (j : Nat) : α :=
  d.val op j / scaleDen op dx dy

end
end Cherab.Admt
