"""C03 — passive emission models radiate exactly their documented totals.

T  lean/Cherab/Props/C03.lean over lean/Cherab/Model/PassiveEmission.lean (code as it is) and
   lean/Cherab/Model/PassiveSpec.lean (documented expressions); constants tied by harness/translators/constants.py
   (constants.pyx -> Gen/Constants.lean, compared in Lean with the hand-written CODATA-2018 table Model/Codata.lean).
K  real `PlasmaModel.emission(point, direction, spectrum)` of ExcitationLine / RecombinationLine / ThermalCXLine /
   TotalRadiatedPower / Bremsstrahlung on real `Plasma` objects with Python distributions, a mock AtomicData provider
   whose rate objects return a value that is *distinct per (accessor, element, charge, donor, transition)* and depends on
   the arguments of `evaluate`, and a recording LineShapeModel (the radiance handed to `add_line` is captured exactly);
   the same inputs go to the native Lean driver (model at Float).  Also BremsFunction, GaussianQuadrature,
   InterpolatedFreeFreeGauntFactor (branch + value), RadiationFunction.emission_function.
S  the documented formula evaluated in Python (own hand-written CODATA-2018 constants) on the same sampled values, and
   the clauses "zero when a density/temperature is non-positive", "non-negative", "linear in each density" checked
   directly on the implementation; Ray.trace through a slab; exact bin average (64-node Gauss-Legendre) for
   bremsstrahlung; real Maxwellian Gaunt table at its knots.
"""
import math

import numpy as np

from harness.translators import constants as tr_constants
from harness.vlib.util import f2b, b2f, fs, close, call

PI = math.pi
R4PI = 1.0 / (4.0 * math.pi)

# CODATA 2018, written by hand for the S oracle (independent of /repo and of scipy's table)
C_E = 1.602176634e-19
C_C = 299792458.0
C_H = 6.62607015e-34
C_ME = 9.1093837015e-31
C_EPS0 = 8.8541878128e-12
C_RYD = 13.605693122994
EULER = 0.5772156649015329

TRANSITIONS = [(2, 1), (3, 2), (4, 2), (5, 3), (8, 7), (10, 8), ('2s1 3p1 3P4.0', '2s1 3s1 3S1.0'), (7, 6)]
KIND = dict(exc=0, rec=1, cx=2, plt=3, prb=4, prc=5)

SIG_CX_DENS = 'C03:ThermalCXLine.emission:donor-density-nonpositive:contribution-not-zero'
SIG_CX_TEMP = 'C03:ThermalCXLine.emission:donor-temperature-nonpositive:contribution-not-zero'
SIG_TRP_PROTIUM = 'C03:TotalRadiatedPower:cx-donors:hydrogen-isotope-neutral-not-counted'


# ------------------------------------------------------------------------------------------------------------------
#  mock collaborators (imports of cherab are local: the runner rebuilds the extensions before this module runs)
# ------------------------------------------------------------------------------------------------------------------
def key_factor(kind, e, c, de, dc, tr):
    return (1.0 + 1.0 * kind + 0.0625 * e + 0.001953125 * c + 0.0001220703125 * de
            + 0.000003814697265625 * dc + 0.000000476837158203125 * tr)


def rate_value(par, kind, e, c, de, dc, tr, ne, te, td=0.0):
    """the mock provider's rate coefficient; same operations and order as `mockRate` in lean/Driver/C03.lean"""
    s0, a, b, d = par
    return s0 * key_factor(kind, e, c, de, dc, tr) * (1.0 + ne * a + te * b + td * d)


class World_:
    """lazily imported cherab/raysect names and the mock classes built on them"""
    _inst = None

    @classmethod
    def get(cls):
        if cls._inst is None:
            cls._inst = cls()
        return cls._inst

    def __init__(self):
        from raysect.core import Point3D, Vector3D
        from raysect.optical import Spectrum, Ray, World
        from cherab.core import Plasma, Species
        from cherab.core.distribution import DistributionFunction
        from cherab.core import atomic
        from cherab.core.atomic import elements as el
        from cherab.core.atomic import (AtomicData, Line, ImpactExcitationPEC, RecombinationPEC, ThermalCXPEC,
                                        LineRadiationPower, ContinuumPower, CXRadiationPower, FreeFreeGauntFactor)
        from cherab.core import model as cm
        from cherab.core.model.lineshape import LineShapeModel
        self.Point3D, self.Vector3D, self.Spectrum, self.Ray, self.World = Point3D, Vector3D, Spectrum, Ray, World
        self.Plasma, self.Species, self.Line, self.cm = Plasma, Species, Line, cm
        self.elements = [getattr(el, n) for n in tr_constants.ELEMENT_IDS]
        self.eid = {id(e): i for i, e in enumerate(self.elements)}
        w = self

        class Dist(DistributionFunction):
            def __init__(self, n, t):
                super().__init__()
                self.n, self.t = n, t

            def density(self, x, y, z):
                return self.n

            def effective_temperature(self, x, y, z):
                return self.t

            def bulk_velocity(self, x, y, z):
                return Vector3D(0, 0, 0)

        class RecLS(LineShapeModel):
            """records the radiance handed to the line shape; adds nothing to the spectrum"""
            calls = []

            def __init__(self, line, wavelength, target_species, plasma, atomic_data, *a, **k):
                super().__init__(line, wavelength, target_species, plasma, atomic_data)
                self.w_, self.ts_ = wavelength, target_species

            def add_line(self, radiance, point, direction, spectrum):
                RecLS.calls.append((radiance, self.w_, self.ts_))
                return spectrum

        def mk(base, kind):
            class R(base):
                def __init__(self, ad, key):
                    self.ad, self.key = ad, key

                if kind == 'cx':
                    def evaluate(self, ne, te, td):
                        self.ad.evals.append((self.key, ne, te, td))
                        return rate_value(self.ad.par, *self.key, ne, te, td)
                else:
                    def evaluate(self, ne, te):
                        self.ad.evals.append((self.key, ne, te))
                        return rate_value(self.ad.par, *self.key, ne, te)
            R.__name__ = 'Mock' + base.__name__
            return R

        Exc, Rcb, Cx = mk(ImpactExcitationPEC, 'e'), mk(RecombinationPEC, 'e'), mk(ThermalCXPEC, 'cx')
        Plt, Prb, Prc = mk(LineRadiationPower, 'e'), mk(ContinuumPower, 'e'), mk(CXRadiationPower, 'e')

        class Gaunt(FreeFreeGauntFactor):
            def __init__(self, g):
                self.g = g

            def evaluate(self, z, te, wvl):
                g0, g1, g2, g3 = self.g
                return g0 + g1 * z + g2 * te + g3 * wvl

        class MockAD(AtomicData):
            def __init__(self, par, has=(1, 1, 1), gaunt=(1.0, 0.0, 0.0, 0.0)):
                self.par, self.has, self.gaunt = par, has, gaunt
                self.evals, self.requests = [], []

            def _e(self, el_):
                # by name: copies / unpickled elements are legal arguments and must never make the *harness* raise
                return w.eid[id(el_)] if id(el_) in w.eid else tr_constants.ELEMENT_IDS.index(el_.name)

            def _t(self, t):
                return TRANSITIONS.index(t)

            def impact_excitation_pec(self, ion, charge, transition):
                self.requests.append(('exc', self._e(ion), charge, transition))
                return Exc(self, (0, self._e(ion), charge, 0, 0, self._t(transition)))

            def recombination_pec(self, ion, charge, transition):
                self.requests.append(('rec', self._e(ion), charge, transition))
                return Rcb(self, (1, self._e(ion), charge, 0, 0, self._t(transition)))

            def thermal_cx_pec(self, donor_ion, donor_charge, receiver_ion, receiver_charge, transition):
                self.requests.append(('cx', self._e(donor_ion), donor_charge, self._e(receiver_ion), receiver_charge, transition))
                return Cx(self, (2, self._e(receiver_ion), receiver_charge, self._e(donor_ion), donor_charge, self._t(transition)))

            def line_radiated_power_rate(self, ion, charge):
                return Plt(self, (3, self._e(ion), charge, 0, 0, 0)) if self.has[0] else None

            def continuum_radiated_power_rate(self, ion, charge):
                return Prb(self, (4, self._e(ion), charge, 0, 0, 0)) if self.has[1] else None

            def cx_radiated_power_rate(self, ion, charge):
                return Prc(self, (5, self._e(ion), charge, 0, 0, 0)) if self.has[2] else None

            def wavelength(self, ion, charge, transition):
                return 400.0 + 10.0 * self._t(transition) + charge

            def free_free_gaunt_factor(self):
                return Gaunt(self.gaunt)

        self.Dist, self.RecLS, self.MockAD, self.Gaunt = Dist, RecLS, MockAD, Gaunt

    def plasma(self, comp, ne, te):
        """comp: list of (elem id, charge, density, temperature)"""
        p = self.Plasma()
        p.electron_distribution = self.Dist(ne, te)
        p.composition = [self.Species(self.elements[e], c, self.Dist(n, t)) for (e, c, n, t) in comp]
        return p

    def znum(self, e):
        return self.elements[e].atomic_number


# ------------------------------------------------------------------------------------------------------------------
#  generators
# ------------------------------------------------------------------------------------------------------------------
def rnd_dens(rng, bad=0.22):
    k = rng.random()
    if k < bad * 0.4:
        return 0.0
    if k < bad * 0.5:
        return -0.0
    if k < bad:
        return -(10.0 ** rng.uniform(12, 20))
    return 10.0 ** rng.uniform(13, 20.5)


def rnd_temp(rng, bad=0.12):
    k = rng.random()
    if k < bad * 0.4:
        return 0.0
    if k < bad:
        return -(10.0 ** rng.uniform(-2, 3))
    return 10.0 ** rng.uniform(-1, 4.3)


def rnd_par(rng):
    """(s0, a, b, d): scale and argument sensitivities of the mock rates"""
    k = rng.random()
    s0 = 10.0 ** rng.uniform(-40, -30)
    if k < 0.04:
        s0 = 0.0
    elif k < 0.10:
        s0 = -s0
    return (s0, 10.0 ** rng.uniform(-21, -19), 10.0 ** rng.uniform(-4, -2), 10.0 ** rng.uniform(-3, -1))


def rnd_composition(w, rng, le, lc, nmax=8):
    """1..nmax species with distinct (element, charge) keys, biased towards what the line's models look at"""
    n = rng.randint(1, nmax)
    keys = []

    def add(e, c):
        if (e, c) not in keys and 0 <= c <= w.znum(e):
            keys.append((e, c))
    if rng.random() < 0.93:
        add(le, lc)
    if rng.random() < 0.93:
        add(le, lc + 1)
    nel = len(w.elements)
    while len(keys) < n:
        k = rng.random()
        if k < 0.35:
            add(rng.choice([0, 1, 2, 3]), rng.choice([0, 0, 1]))        # hydrogen isotopes, neutral or bare
        elif k < 0.55:
            e = rng.randrange(nel)
            add(e, w.znum(e))                                            # bare nucleus
        elif k < 0.7:
            add(rng.randrange(nel), 0)                                   # neutral
        elif k < 0.85:
            add(le, rng.randint(0, w.znum(le)))                          # other charge states of the line's element
        else:
            e = rng.randrange(nel)
            add(e, rng.randint(0, w.znum(e)))
    rng.shuffle(keys)
    return [(e, c, rnd_dens(rng), rnd_temp(rng)) for (e, c) in keys[:max(n, 1)]]


def sp_tokens(w, comp):
    return '%d %s' % (len(comp), ' '.join('%d %d %d %s %s' % (e, w.znum(e), c, f2b(n), f2b(t)) for (e, c, n, t) in comp))


def comp_desc(w, comp):
    return [dict(element=tr_constants.ELEMENT_IDS[e], charge=c, density=n, temperature=t) for (e, c, n, t) in comp]


def find(comp, e, c):
    for s in comp:
        if s[0] == e and s[1] == c:
            return s
    return None


# ------------------------------------------------------------------------------------------------------------------
#  documented expressions (S oracle) — written from the docstrings / property text, no model involved
# ------------------------------------------------------------------------------------------------------------------
def doc_line(par, kind, comp, ne, te, le, lc, tr, target_charge):
    """(1/4pi) n_e n_i PEC(n_e, T_e); None when the species is absent (the model cannot be evaluated)"""
    s = find(comp, le, target_charge)
    if s is None:
        return None
    if not (ne > 0 and te > 0 and s[2] > 0):
        return 0.0
    return R4PI * ne * s[2] * rate_value(par, KIND[kind], le, lc, 0, 0, tr, ne, te)


def doc_cx(w, par, comp, ne, te, le, lc, tr, guard_d=True, guard_t=True):
    """(1/4pi) n_rec sum over eligible donors of n_d PEC_d(n_e, T_e, T_d)"""
    r = find(comp, le, lc + 1)
    if r is None:
        return None
    if not (ne > 0 and te > 0 and r[2] > 0):
        return 0.0
    tot = 0.0
    for (e, c, n, t) in comp:
        if (e, c) == (le, lc + 1) or c >= w.znum(e):
            continue
        if (guard_d and not n > 0) or (guard_t and not t > 0):
            continue
        tot += n * rate_value(par, 2, le, lc + 1, e, c, tr, ne, te, t)
    return R4PI * r[2] * tot


def doc_trp(w, par, has, comp, ne, te, mn, mx, e, c, hyd=None):
    """(1/(4 pi dlambda)) (n_i n_e C_exc + n_{i+1} n_e C_rec + n_{i+1} n_hyd C_cx); hyd=None: every Z=1 neutral"""
    s, su = find(comp, e, c), find(comp, e, c + 1)
    if s is None or su is None:
        return None
    if not (ne > 0 and te > 0):
        return 0.0
    nhyd = sum(n for (e_, c_, n, t) in comp if c_ == 0 and (w.znum(e_) == 1 if hyd is None else e_ in hyd))
    p = 0.0
    if has[0] and s[2] > 0:
        p += s[2] * ne * rate_value(par, 3, e, c, 0, 0, 0, ne, te)
    if has[1] and su[2] > 0:
        p += su[2] * ne * rate_value(par, 4, e, c + 1, 0, 0, 0, ne, te)
    if has[2] and su[2] > 0 and nhyd > 0:
        p += su[2] * nhyd * rate_value(par, 5, e, c + 1, 0, 0, 0, ne, te)
    return p / (4.0 * PI * (mx - mn))


def doc_brems(gaunt, zs, ns, ne, te, wvl):
    """Hutchinson 5.3.40 in wavelength form (W m^-3 sr^-1 nm^-1), T_e in eV, lambda in nm"""
    c = (C_E ** 2 / (4 * PI * C_EPS0)) ** 3 * 32 * PI ** 2 / (3 * math.sqrt(3) * C_ME ** 2 * C_C ** 3)
    c *= math.sqrt(2 * C_ME / (PI * C_E * te)) * 1e9 * C_C / (4 * PI * wvl * wvl)
    s = sum(n * gaunt(z, te, wvl) * z * z for z, n in zip(zs, ns) if n > 0)
    return c * ne * s * math.exp(-1e9 * C_H * C_C / (C_E * te * wvl))


_GL64 = np.polynomial.legendre.leggauss(64)


def bin_average(f, lo, hi):
    x, wt = _GL64
    c, d = 0.5 * (lo + hi), 0.5 * (hi - lo)
    return sum(wi * f(c + d * xi) for xi, wi in zip(x, wt)) * d / (hi - lo)


# ------------------------------------------------------------------------------------------------------------------
#  streams
# ------------------------------------------------------------------------------------------------------------------
class Cases:
    def __init__(self, ctx):
        self.ctx = ctx
        self.lines = []     # protocol lines
        self.obs = []       # what the implementation did, same form as the driver's output (string or list of floats)
        self.meta = []      # (kind, description, floor)

    def add(self, kind, line, obs, desc, floor=0.0):
        self.lines.append(line)
        self.obs.append(obs)
        self.meta.append((kind, desc, floor))
        self.ctx.count('K:' + kind)


def guard_class(ne, te, n):
    return 'ne<=0' if not ne > 0 else 'te<=0' if not te > 0 else 'n<=0' if not n > 0 else 'emits'


def run_line_models(ctx, w, K, ncomp):
    rng = ctx.rng
    pt, dr = w.Point3D(0.1, -0.2, 0.3), w.Vector3D(0, 0, 1)
    for it in range(ncomp):
        le = rng.choice([0, 2, 4, 9, 9, 10, 12, 13, rng.randrange(len(w.elements))])
        lc = rng.randint(0, w.znum(le) - 1)
        tr = rng.randrange(len(TRANSITIONS))
        comp = rnd_composition(w, rng, le, lc)
        ne, te = rnd_dens(rng, 0.1), rnd_temp(rng, 0.1)
        par = rnd_par(rng)
        nonneg = par[0] >= 0
        line = w.Line(w.elements[le], lc, TRANSITIONS[tr])
        desc0 = dict(line=dict(element=tr_constants.ELEMENT_IDS[le], charge=lc, transition=TRANSITIONS[tr]), ne=ne, te=te,
                     rate_par=par, composition=comp_desc(w, comp))
        ctx.count('species=%d' % len(comp))

        for kind, cls in (('exc', w.cm.ExcitationLine), ('rec', w.cm.RecombinationLine), ('cx', w.cm.ThermalCXLine)):
            got, info = emit_line(w, cls, line, comp, ne, te, par, pt, dr)
            tgt_c = lc if kind == 'exc' else lc + 1
            tgt = find(comp, le, tgt_c)
            desc = dict(desc0, model=cls.__name__)
            # ---- K
            if kind == 'cx':
                pl = 'cx %d %d %d %s %s' % (le, lc, tr, fs([PI, ne, te, par[0], par[1], par[2], par[3]]), sp_tokens(w, comp))
            else:
                pl = 'line %s %d %d %d %s %s' % (kind, le, lc, tr, fs([PI, ne, te, par[0], par[1], par[2]]), sp_tokens(w, comp))
            K.add(kind, pl, got if isinstance(got, str) else [got], desc)
            # ---- S
            if kind == 'cx':
                want = doc_cx(w, par, comp, ne, te, le, lc, tr)
            else:
                want = doc_line(par, kind, comp, ne, te, le, lc, tr, tgt_c)
            gcls = 'absent' if tgt is None else guard_class(ne, te, tgt[2])
            ctx.count('%s:%s' % (kind, gcls))
            ctx.case(key=(kind, le, lc, tuple(sorted((e, c) for e, c, _, _ in comp)), gcls) if gcls == 'emits' else None,
                     sample=desc if (it < 2 and kind == 'cx') else None)
            check_line_oracle(ctx, w, kind, cls, got, want, info, desc, comp, ne, te, par, le, lc, tr, nonneg)
            # ---- linearity / guards on the implementation itself (subset)
            if gcls == 'emits' and isinstance(got, float) and it % 3 == 0:
                check_line_linearity(ctx, w, kind, cls, line, comp, ne, te, par, pt, dr, got, le, tgt_c, desc)


def emit_line(w, cls, line, comp, ne, te, par, pt, dr, lineshape=None):
    """returns ('RuntimeError'|'none'|radiance, info)"""
    ad = w.MockAD(par)
    pl = w.plasma(comp, ne, te)
    w.RecLS.calls = []
    st, m = call(cls, line, plasma=pl, atomic_data=ad, lineshape=lineshape or w.RecLS)
    if st != 'ok':
        return st, dict(error=m)
    sp = w.Spectrum(390.0, 520.0, 16)
    st, res = call(m.emission, pt, dr, sp)
    info = dict(requests=ad.requests, evals=ad.evals, untouched=not np.any(sp.samples), calls=list(w.RecLS.calls))
    if st != 'ok':
        return st, dict(info, error=res)
    if not w.RecLS.calls:
        return 'none', info
    return float(w.RecLS.calls[-1][0]), info


def check_line_oracle(ctx, w, kind, cls, got, want, info, desc, comp, ne, te, par, le, lc, tr, nonneg):
    name = cls.__name__
    if want is None:
        if got != 'RuntimeError':
            ctx.fail('C03:%s:missing-species-not-reported' % name, '%s on a plasma without its species returned %r' % (name, got), desc)
        return
    if isinstance(got, str) and got != 'none':
        ctx.fail('C03:%s:raised:%s' % (name, got), '%s.emission raised %s: %s' % (name, got, info.get('error')), desc)
        return
    val = 0.0 if got == 'none' else got
    if len(info['calls']) > 1:
        ctx.fail('C03:%s:add_line-called-twice' % name, '%d add_line calls for one emission' % len(info['calls']), desc)
    if info['calls']:
        tgt = info['calls'][-1][2]
        want_key = (le, lc if kind == 'exc' else lc + 1)
        if (w.eid.get(id(tgt.element)), tgt.charge) != want_key:
            ctx.fail('C03:%s:lineshape-target-species' % name, 'line shape was given species %r' % (tgt,), desc)
    if close(val, want, 1e-9, 0.0):
        if want == 0.0 and got != 'none' and val != 0.0:
            ctx.fail('C03:%s:guarded-emission-not-zero' % name, 'emission %r where a guard applies' % val, desc)
        if nonneg and val < 0:
            ctx.fail('C03:%s:negative-emission' % name, 'negative emission %r with non-negative coefficients' % val, desc)
        return
    # ---- documented value not met: classify
    if kind == 'cx':
        bad_d = [s for s in comp if not s[2] > 0 and s[1] < w.znum(s[0]) and (s[0], s[1]) != (le, lc + 1)]
        bad_t = [s for s in comp if s[2] > 0 and not s[3] > 0 and s[1] < w.znum(s[0]) and (s[0], s[1]) != (le, lc + 1)]
        only_t = doc_cx(w, par, comp, ne, te, le, lc, tr, guard_d=False, guard_t=True)
        only_d = doc_cx(w, par, comp, ne, te, le, lc, tr, guard_d=True, guard_t=False)
        none_ = doc_cx(w, par, comp, ne, te, le, lc, tr, guard_d=False, guard_t=False)
        explained = False
        if bad_d and (close(val, none_, 1e-9) or close(val, only_t, 1e-9)):
            explained = True
            neg = ' (emission is negative although every coefficient is non-negative)' if (nonneg and val < 0) else ''
            ctx.fail(SIG_CX_DENS, 'ThermalCXLine adds n_d*PEC for a donor with n_d <= 0: radiance %r, documented %r%s'
                     % (val, want, neg), minimal_cx(w, comp, ne, te, par, le, lc, tr, 'dens') or desc)
        if bad_t and (close(val, none_, 1e-9) or close(val, only_d, 1e-9)):
            explained = True
            ctx.fail(SIG_CX_TEMP, 'ThermalCXLine evaluates PEC(ne, te, T_d) and emits for a donor with T_d <= 0: radiance %r, '
                     'documented %r' % (val, want), minimal_cx(w, comp, ne, te, par, le, lc, tr, 'temp') or desc)
        if explained:
            return
    ctx.fail('C03:%s:radiance-differs-from-documented' % name, '%s radiance %r, documented expression %r' % (name, val, want), desc)


def minimal_cx(w, comp, ne, te, par, le, lc, tr, what):
    """shrink a failing thermal-CX composition to receiver + one offending donor; returns a replay dict or None"""
    rec = find(comp, le, lc + 1)
    pt, dr = w.Point3D(0, 0, 0), w.Vector3D(0, 0, 1)
    line = w.Line(w.elements[le], lc, TRANSITIONS[tr])
    for s in comp:
        if (s[0], s[1]) == (le, lc + 1) or s[1] >= w.znum(s[0]):
            continue
        if (what == 'dens' and s[2] < 0) or (what == 'temp' and s[2] > 0 and not s[3] > 0):
            small = [rec, s]
            got, _ = emit_line(w, w.cm.ThermalCXLine, line, small, ne, te, par, pt, dr)
            want = doc_cx(w, par, small, ne, te, le, lc, tr)
            val = 0.0 if got == 'none' else got
            if isinstance(val, float) and not close(val, want, 1e-9):
                return dict(model='ThermalCXLine', line=dict(element=tr_constants.ELEMENT_IDS[le], charge=lc, transition=TRANSITIONS[tr]),
                            ne=ne, te=te, rate_par=par, composition=comp_desc(w, small), radiance=val, documented=want)
    return None


def check_line_linearity(ctx, w, kind, cls, line, comp, ne, te, par, pt, dr, got, le, tgt_c, desc):
    """scale the target density by k > 0: radiance scales by k; set it to 0 / negative: nothing is emitted"""
    k = 2.0 ** ctx.rng.randint(-3, 3) * 1.5
    comp2 = [(e, c, n * k if (e, c) == (le, tgt_c) else n, t) for (e, c, n, t) in comp]
    got2, _ = emit_line(w, cls, line, comp2, ne, te, par, pt, dr)
    if not (isinstance(got2, float) and close(got2, got * k, 1e-9)):
        ctx.fail('C03:%s:not-linear-in-target-density' % cls.__name__, 'density x%r gives %r, expected %r' % (k, got2, got * k), desc)
    for bad in (0.0, -1e17):
        comp3 = [(e, c, bad if (e, c) == (le, tgt_c) else n, t) for (e, c, n, t) in comp]
        got3, info = emit_line(w, cls, line, comp3, ne, te, par, pt, dr)
        if got3 != 'none' or not info['untouched']:
            ctx.fail('C03:%s:no-guard-on-target-density' % cls.__name__, 'target density %r gives %r' % (bad, got3), desc)
    for (ne3, te3) in ((0.0, te), (-ne, te), (ne, 0.0), (ne, -te)):
        got3, info = emit_line(w, cls, line, comp, ne3, te3, par, pt, dr)
        if got3 != 'none' or not info['untouched']:
            ctx.fail('C03:%s:no-guard-on-electrons' % cls.__name__, 'ne=%r te=%r gives %r' % (ne3, te3, got3), desc)
    ctx.count('S:linearity+guards:' + kind)
    if kind == 'cx':
        # homogeneous in the donor densities: all donors x k
        comp4 = [(e, c, n if (e, c) == (le, tgt_c) else n * k, t) for (e, c, n, t) in comp]
        got4, _ = emit_line(w, cls, line, comp4, ne, te, par, pt, dr)
        if not (isinstance(got4, float) and close(got4, got * k, 1e-9, abs(got) * 1e-12)):
            ctx.fail('C03:ThermalCXLine:not-linear-in-donor-densities', 'donors x%r gives %r, expected %r' % (k, got4, got * k), desc)


def run_cx_edges(ctx, w, K):
    """deterministic minimal thermal-CX inputs: one receiver, one donor, donor density / temperature at and below zero"""
    pt, dr = w.Point3D(0, 0, 0), w.Vector3D(0, 0, 1)
    le, lc, tr = 9, 5, 4           # carbon 5+ (8 -> 7), receiver C6+, donor D0
    par = (1.0e-37, 1e-20, 1e-3, 1e-2)
    line = w.Line(w.elements[le], lc, TRANSITIONS[tr])
    for (nd, td) in ((1e16, 3.0), (0.0, 3.0), (-1e16, 3.0), (1e16, 0.0), (1e16, -3.0), (-1e16, -3.0), (-0.0, 3.0)):
        comp = [(9, 6, 2e17, 60.0), (2, 0, nd, td)]
        got, info = emit_line(w, w.cm.ThermalCXLine, line, comp, 1e19, 100.0, par, pt, dr)
        desc = dict(model='ThermalCXLine', line=dict(element='carbon', charge=lc, transition=TRANSITIONS[tr]), ne=1e19, te=100.0,
                    rate_par=par, composition=comp_desc(w, comp))
        K.add('cx', 'cx %d %d %d %s %s' % (le, lc, tr, fs([PI, 1e19, 100.0] + list(par)), sp_tokens(w, comp)),
              got if isinstance(got, str) else [got], desc)
        want = doc_cx(w, par, comp, 1e19, 100.0, le, lc, tr)
        ctx.case(key=('cx-edge', nd, td))
        ctx.count('cx-edge')
        check_line_oracle(ctx, w, 'cx', w.cm.ThermalCXLine, got, want, info, desc, comp, 1e19, 100.0, par, le, lc, tr, True)


def run_trp(ctx, w, K, ncomp):
    rng = ctx.rng
    pt, dr = w.Point3D(0.3, 0.2, -0.1), w.Vector3D(1, 0, 0)
    for it in range(ncomp):
        e = rng.choice([4, 9, 10, 12, 13, 0, 2, rng.randrange(len(w.elements))])
        c = rng.randint(0, w.znum(e) - 1)
        comp = rnd_composition(w, rng, e, c)
        ne, te = rnd_dens(rng, 0.08), rnd_temp(rng, 0.08)
        par = rnd_par(rng)
        has = tuple(int(rng.random() < 0.85) for _ in range(3))
        mn = rng.choice([400.0, 0.5, 100.0, rng.uniform(1, 900)])
        mx = mn + rng.choice([1.0, 50.0, 300.0, rng.uniform(0.01, 500)])
        bins = rng.choice([1, 2, 3, 7, 16, 50])
        base = rng.choice([0.0, 0.0, 0.5, 8.0])
        desc = dict(model='TotalRadiatedPower', element=tr_constants.ELEMENT_IDS[e], charge=c, ne=ne, te=te, rate_par=par, rates_present=has,
                    window=(mn, mx, bins), composition=comp_desc(w, comp))
        got, samples = emit_trp(w, comp, ne, te, par, has, e, c, mn, mx, bins, base, pt, dr)
        K.add('trp', 'trp %d %d %s %d %d %d %s %s' % (e, c, fs([PI, ne, te, mn, mx]), has[0], has[1], has[2], fs(par[:3]), sp_tokens(w, comp)),
              got if isinstance(got, str) else [got], desc, floor=4e-16 * base)
        want = doc_trp(w, par, has, comp, ne, te, mn, mx, e, c)
        s, su = find(comp, e, c), find(comp, e, c + 1)
        gcls = 'absent' if want is None else ('guard' if not (ne > 0 and te > 0) else 'emits')
        ctx.count('trp:' + gcls)
        ctx.case(key=('trp', e, c, tuple(sorted((a, b) for a, b, _, _ in comp)), has) if gcls == 'emits' else None,
                 sample=desc if it < 1 else None)
        if want is None:
            if got != 'RuntimeError':
                ctx.fail('C03:TotalRadiatedPower:missing-species-not-reported', 'returned %r' % (got,), desc)
            continue
        if isinstance(got, str) and got != 'none':
            ctx.fail('C03:TotalRadiatedPower:raised:' + got, 'emission raised %s' % got, desc)
            continue
        val = 0.0 if got == 'none' else got
        # every bin receives the same increment, and sum(bins)*delta = P/4pi
        if samples is not None and len(samples):
            inc = [x - base for x in samples]
            if not all(close(x, inc[0], 1e-12, 4e-16 * base) for x in inc):
                ctx.fail('C03:TotalRadiatedPower:not-uniform-over-window', 'bin increments differ: %r' % inc[:4], desc)
            tot = sum(inc) * (mx - mn) / bins
            if not close(tot, want * (mx - mn), 1e-9, 1e-12 * base * (mx - mn) + 0.0):
                if close(val, want, 1e-9, 4e-16 * base):
                    ctx.fail('C03:TotalRadiatedPower:window-integral', 'sum(bins)*delta = %r, P/4pi = %r' % (tot, want * (mx - mn)), desc)
        nonneg = par[0] >= 0
        if close(val, want, 1e-9, 4e-16 * base):
            if nonneg and val < -4e-16 * base:
                ctx.fail('C03:TotalRadiatedPower:negative-emission', 'negative emission %r' % val, desc)
            continue
        alt = doc_trp(w, par, has, comp, ne, te, mn, mx, e, c, hyd=[0, 2, 3])
        others = [s_ for s_ in comp if s_[1] == 0 and w.znum(s_[0]) == 1 and s_[0] not in (0, 2, 3)]
        if others and close(val, alt, 1e-9, 4e-16 * base):
            mini = minimal_trp(w, e, c, ne, te, par, mn, mx, others[0], su, s)
            ctx.fail(SIG_TRP_PROTIUM, 'neutral %s is a hydrogen isotope but its density is not part of n_hyd: emission %r, documented %r'
                     % (tr_constants.ELEMENT_IDS[others[0][0]], val, want), mini or desc)
            continue
        ctx.fail('C03:TotalRadiatedPower:emission-differs-from-documented', 'per-nm radiance %r, documented %r' % (val, want), desc)
        # (linearity is covered by run_trp_linearity)
    run_trp_linearity(ctx, w)


def minimal_trp(w, e, c, ne, te, par, mn, mx, donor, su, s):
    if not (ne > 0 and te > 0):
        return None
    comp = [(e, c, 0.0, 1.0), (e, c + 1, abs(su[2]) or 1e17, 10.0), (donor[0], 0, abs(donor[2]) or 1e16, 5.0)]
    par = (abs(par[0]) or 1e-33,) + tuple(par[1:])
    got, _ = emit_trp(w, comp, ne, te, par, (1, 1, 1), e, c, mn, mx, 1, 0.0, w.Point3D(0, 0, 0), w.Vector3D(1, 0, 0))
    want = doc_trp(w, par, (1, 1, 1), comp, ne, te, mn, mx, e, c)
    if isinstance(got, float) and not close(got, want, 1e-9):
        return dict(model='TotalRadiatedPower', element=tr_constants.ELEMENT_IDS[e], charge=c, ne=ne, te=te, rate_par=par,
                    window=(mn, mx, 1), composition=comp_desc(w, comp), emission=got, documented=want)
    return None


def emit_trp(w, comp, ne, te, par, has, e, c, mn, mx, bins, base, pt, dr):
    ad = w.MockAD(par, has=has)
    pl = w.plasma(comp, ne, te)
    st, m = call(w.cm.TotalRadiatedPower, w.elements[e], c, plasma=pl, atomic_data=ad)
    if st != 'ok':
        return st, None
    sp = w.Spectrum(mn, mx, bins)
    sp.samples[:] = base
    st, res = call(m.emission, pt, dr, sp)
    if st != 'ok':
        return st, None
    samples = [float(x) for x in sp.samples]
    if all(x == base for x in samples) and (not (ne > 0 and te > 0)):
        return 'none', samples
    return samples[0] - base, samples


def run_trp_linearity(ctx, w):
    """each of n_i, n_{i+1}, n_hyd scales its own term(s); guards at zero / negative"""
    rng = ctx.rng
    pt, dr = w.Point3D(0, 0, 0), w.Vector3D(1, 0, 0)
    for it in range(ctx.n(12, 120)):
        e, c = 10, rng.randint(0, 6)
        ne, te = 10 ** rng.uniform(18, 20), 10 ** rng.uniform(0, 3)
        par = (10 ** rng.uniform(-34, -31), 1e-20, 1e-3, 0.0)
        ni, nu, nh, nd = (10 ** rng.uniform(15, 19) for _ in range(4))

        def em(ni_, nu_, nh_, nd_, has=(1, 1, 1)):
            comp = [(e, c, ni_, 10.0), (e, c + 1, nu_, 10.0), (0, 0, nh_, 1.0), (2, 0, nd_, 1.0), (2, 1, 1e19, 50.0)]
            g, _ = emit_trp(w, comp, ne, te, par, has, e, c, 400.0, 500.0, 3, 0.0, pt, dr)
            return g
        k = 3.0
        t1 = em(ni, nu, nh, nd, (1, 0, 0)); t1k = em(ni * k, nu, nh, nd, (1, 0, 0))
        t2 = em(ni, nu, nh, nd, (0, 1, 0)); t2k = em(ni, nu * k, nh, nd, (0, 1, 0))
        t3 = em(ni, nu, nh, nd, (0, 0, 1)); t3k = em(ni, nu, nh * k, nd * k, (0, 0, 1)); t3u = em(ni, nu * k, nh, nd, (0, 0, 1))
        full = em(ni, nu, nh, nd)
        desc = dict(model='TotalRadiatedPower', element='nitrogen', charge=c, ne=ne, te=te, ni=ni, n_upper=nu, n_h=nh, n_d=nd, rate_par=par)
        ok = (close(t1k, k * t1, 1e-9) and close(t2k, k * t2, 1e-9) and close(t3k, k * t3, 1e-9) and close(t3u, k * t3, 1e-9)
              and close(full, t1 + t2 + t3, 1e-9))
        if not ok:
            ctx.fail('C03:TotalRadiatedPower:not-linear-in-densities', 'terms %r scaled %r full %r' % ((t1, t2, t3), (t1k, t2k, t3k, t3u), full), desc)
        z = [em(0.0, nu, nh, nd, (1, 0, 0)), em(-ni, nu, nh, nd, (1, 0, 0)), em(ni, 0.0, nh, nd, (0, 1, 1)), em(ni, -nu, nh, nd, (0, 1, 1)),
             em(ni, nu, 0.0, 0.0, (0, 0, 1)), em(ni, nu, -nh, -nd, (0, 0, 1))]
        if any(v != 0.0 for v in z):
            ctx.fail('C03:TotalRadiatedPower:term-not-zero-for-nonpositive-density', 'terms %r' % (z,), desc)
        ctx.count('S:trp-linearity+guards')
        ctx.case(key=('trp-lin', it))


# ---------------------------------------------------------------------------------------------------------------------
def rnd_gaunt(rng):
    return (rng.choice([1.0, 0.75, 1.5]), rng.choice([0.0, 0.125, 0.03125]), rng.choice([0.0, 2.0 ** -14]), rng.choice([0.0, 2.0 ** -11]))


def run_brems(ctx, w, K, ncomp):
    from cherab.core.model.plasma.bremsstrahlung import BremsFunction
    from cherab.core.math.integrators import GaussianQuadrature
    from scipy.special import roots_legendre
    rng = ctx.rng
    # the Gauss-Legendre rules the default integrator caches (orders 1..50), sent to the driver once
    lo, hi = 1, 50
    toks = []
    for order in range(lo, hi + 1):
        x, wt = roots_legendre(order)
        for xi, wi in zip(x, wt):
            toks += [f2b(xi), f2b(wi)]
    K.add('rules', 'rules %d %d %s' % (lo, hi, ' '.join(toks)), 'ok %d' % (hi - lo + 1), dict(rules='roots_legendre(1..50)'))
    pt, dr = w.Point3D(0, 0, 0), w.Vector3D(0, 1, 0)

    # ---- BremsFunction pointwise (float charges incl. 0 and fractional, densities incl. <= 0)
    for it in range(ncomp * 3):
        n = rng.randint(0, 6)
        zs = [rng.choice([1.0, 2.0, 6.0, 7.0, 0.0, 1.5, 18.0, 10.0]) for _ in range(n)]
        ns = [rnd_dens(rng) for _ in range(n)]
        ne, te = 10 ** rng.uniform(17, 21), 10 ** rng.uniform(-1, 4.3)
        wvl = 10 ** rng.uniform(0.5, 3.3)
        g = rnd_gaunt(rng)
        bf = BremsFunction(w.Gaunt(g), ns, zs, ne, te)
        got = float(bf(wvl))
        desc = dict(function='BremsFunction', ne=ne, te=te, wavelength=wvl, charges=zs, densities=ns, gaunt=g)
        K.add('bf', 'bf %s %d %s' % (fs([PI, ne, te, wvl] + list(g)), n, fs([v for p in zip(zs, ns) for v in p])), [got], desc)
        gf = lambda z, t, l: g[0] + g[1] * z + g[2] * t + g[3] * l
        want = doc_brems(gf, zs, ns, ne, te, wvl)
        ctx.case(key=('bf', it) if want != 0.0 else None)
        ctx.count('bf:' + ('zero' if want == 0.0 else 'emits'))
        if not close(got, want, 1e-9, 0.0):
            ctx.fail('C03:BremsFunction:differs-from-hutchinson', 'BremsFunction(%r) = %r, documented %r' % (wvl, got, want), desc)
        if got < 0:
            ctx.fail('C03:BremsFunction:negative', 'negative bremsstrahlung %r' % got, desc)
    for bad in ((0.0, 10.0), (-1e19, 10.0), (1e19, 0.0), (1e19, -1.0)):
        st, _ = call(BremsFunction, w.Gaunt((1.0, 0, 0, 0)), [1e19], [1.0], *bad)
        if st != 'ValueError':
            ctx.fail('C03:BremsFunction:accepts-nonpositive-ne-te', 'BremsFunction(ne=%r, te=%r) -> %s' % (bad + (st,)), dict(ne=bad[0], te=bad[1]))

    # ---- Bremsstrahlung.emission on compositions
    for it in range(ncomp):
        comp = rnd_composition(w, rng, rng.choice([2, 9, 12]), 0, nmax=8)
        ne, te = rnd_dens(rng, 0.1), rnd_temp(rng, 0.1)
        if te > 0:
            te = max(te, 0.3)
        mn = rng.choice([400.0, 200.0, 50.0, rng.uniform(20, 900)])
        bins = rng.choice([0, 1, 2, 5, 12])
        mx = mn + rng.choice([1.0, 30.0, 200.0, rng.uniform(0.1, 400)])
        g = rnd_gaunt(rng)
        rtol = rng.choice([1e-5, 1e-5, 1e-3, 1e-8])
        use_provider = rng.random() < 0.5
        ad = w.MockAD((1e-35, 0, 0, 0), gaunt=g)
        pl = w.plasma(comp, ne, te)
        kw = dict(plasma=pl, atomic_data=ad)
        if not use_provider:
            kw['gaunt_factor'] = w.Gaunt(g)
        if rtol != 1e-5:
            kw['integrator'] = GaussianQuadrature(relative_tolerance=rtol)
        m = w.cm.Bremsstrahlung(**kw)
        sp = w.Spectrum(mn, mx, max(bins, 1)) if bins else None
        desc = dict(model='Bremsstrahlung', ne=ne, te=te, window=(mn, mx, bins), gaunt=g, rtol=rtol, gaunt_from_provider=use_provider,
                    composition=comp_desc(w, comp))
        if bins == 0:
            continue
        st, res = call(m.emission, pt, dr, sp)
        if st != 'ok':
            ctx.fail('C03:Bremsstrahlung:raised:' + st, 'emission raised %s: %s' % (st, res), desc)
            continue
        samples = [float(x) for x in sp.samples]
        guard = not (ne > 0 and te > 0)
        delta = float(sp.delta_wavelength)
        obs = 'none' if (guard and not any(samples)) else samples
        K.add('be', 'be %s %d %s %s' % (fs([PI, ne, te, mn, delta]), bins, fs([rtol] + list(g)), sp_tokens(w, comp)), obs, desc, floor=1e-300)
        ctx.count('be:' + ('guard' if guard else 'emits'))
        charged = [(float(c), n) for (e, c, n, t) in comp if c > 0]
        emits = (not guard) and any(n > 0 for _, n in charged)
        ctx.case(key=('be', tuple(sorted((e, c) for e, c, _, _ in comp)), bins) if emits else None, sample=desc if it < 1 else None)
        if guard:
            if any(samples):
                ctx.fail('C03:Bremsstrahlung:emission-with-nonpositive-ne-te', 'ne=%r te=%r samples %r' % (ne, te, samples[:3]), desc)
            continue
        gf = lambda z, t, l: g[0] + g[1] * z + g[2] * t + g[3] * l
        zs, ns = [float(c) for (e, c, n, t) in comp], [n for (e, c, n, t) in comp]     # documented: sum over ALL species
        f = lambda l: doc_brems(gf, zs, ns, ne, te, l)
        for i in range(bins):
            a, b = mn + i * (mx - mn) / bins, mn + (i + 1) * (mx - mn) / bins
            want = bin_average(f, a, b)
            tol = max(3e-5, 30 * rtol)
            if not close(samples[i], want, tol, 1e-290):
                ctx.fail('C03:Bremsstrahlung:bin-average-differs-from-hutchinson', 'bin %d [%r, %r]: %r, documented bin average %r (rtol %r)'
                         % (i, a, b, samples[i], want, rtol), desc)
                break
            if samples[i] < 0:
                ctx.fail('C03:Bremsstrahlung:negative', 'bin %d negative: %r' % (i, samples[i]), desc)
        # linear in the ion densities (all x k), on the implementation
        if emits and it % 4 == 0:
            k = 2.5
            pl2 = w.plasma([(e, c, n * k, t) for (e, c, n, t) in comp], ne, te)
            m2 = w.cm.Bremsstrahlung(plasma=pl2, atomic_data=ad, gaunt_factor=w.Gaunt(g))
            sp2 = w.Spectrum(mn, mx, bins)
            m2.emission(pt, dr, sp2)
            if not all(close(float(x), k * y, max(1e-4, 30 * rtol), 1e-290) for x, y in zip(sp2.samples, samples)):
                ctx.fail('C03:Bremsstrahlung:not-linear-in-ion-densities', 'x%r: %r vs %r' % (k, list(sp2.samples)[:3], samples[:3]), desc)
            ctx.count('S:brems-linearity')

    # ---- GaussianQuadrature on cubic polynomials (exact from order 2): model loop incl. the stopping rule
    for it in range(ncomp):
        k = [rng.choice([0.0, 1.0, rng.uniform(-3, 3)]) for _ in range(4)]
        a = rng.uniform(-5, 5)
        b = a + rng.choice([0.0, 1.0, rng.uniform(0, 10), -rng.uniform(0, 3)])
        rtol = rng.choice([1e-5, 1e-2, 1e-10, 0.5])
        q = GaussianQuadrature(integrand=lambda x, k=k: ((k[3] * x + k[2]) * x + k[1]) * x + k[0], relative_tolerance=rtol)
        got = float(q(a, b))
        K.add('gq', 'gq %s' % fs([rtol, a, b] + k), [got], dict(integrator='GaussianQuadrature', a=a, b=b, poly=k, rtol=rtol), floor=1e-13)
        F = lambda x: (((k[3] / 4 * x + k[2] / 3) * x + k[1] / 2) * x + k[0]) * x
        exact = F(b) - F(a)
        ctx.case(key=('gq', it))
        scale = max(abs(F(b)), abs(F(a)), 1e-3)
        if abs(got - exact) > max(10 * rtol, 1e-9) * scale:
            ctx.fail('C03:GaussianQuadrature:cubic-not-integrated', 'integral over [%r,%r] of %r: %r, exact %r' % (a, b, k, got, exact),
                     dict(a=a, b=b, poly=k, rtol=rtol))


def run_gaunt(ctx, w, K, n):
    from cherab.core.atomic.gaunt import InterpolatedFreeFreeGauntFactor, MaxwellianFreeFreeGauntFactor
    rng = ctx.rng
    ph = C_H * C_C * 1e9 / C_E
    for tab in range(max(1, n // 40)):
        nu, ng = rng.randint(4, 9), rng.randint(4, 9)
        u = np.array(sorted(10 ** rng.uniform(-4, 2) for _ in range(nu)))
        g2 = np.array(sorted(10 ** rng.uniform(-3, 4) for _ in range(ng)))
        if rng.random() < 0.5:
            u = 10.0 ** np.arange(-3, -3 + nu)                   # exactly representable decades for the boundary stream
            g2 = 10.0 ** np.arange(-2, -2 + ng)
        i0, i1, i2 = rng.choice([1.25, 2.0]), rng.choice([0.125, -0.25]), rng.choice([-0.0625, 0.5])
        table = i0 + i1 * np.log10(u)[:, None] + i2 * np.log10(g2)[None, :]
        G = InterpolatedFreeFreeGauntFactor(u, g2, table)
        umin, umax, gmin, gmax = float(u.min()), float(u.max()), float(g2.min()), float(g2.max())
        for it in range(40):
            z = rng.choice([0.0, 1.0, 2.0, 6.0, 0.5, 18.0, -1.0])
            te = 10 ** rng.uniform(-2, 5)
            wvl = 10 ** rng.uniform(-1, 5)
            got = float(G(z, te, wvl))
            gam = z * z * C_RYD / te
            uu = ph / (te * wvl)
            guard = any(abs(x / y - 1) < 1e-12 for x, y in ((uu, umin), (uu, umax), (gam, gmin), (gam, gmax)) if z != 0)
            br = 0 if z == 0 else 1 if (uu >= umax or gam >= gmax) else 2 if (uu < umin or gam < gmin) else 3
            desc = dict(function='InterpolatedFreeFreeGauntFactor', z=z, te=te, wavelength=wvl, u_range=(umin, umax), gamma2_range=(gmin, gmax),
                        table='%r + %r log10(u) + %r log10(gamma2)' % (i0, i1, i2))
            if guard:
                ctx.count('gaunt:guard-band-skipped')
            K.add('gaunt', 'gaunt %s' % fs([PI, z, te, wvl, umin, umax, gmin, gmax, i0, i1, i2]), ('G', br if not guard else None, got), desc)
            ctx.count('gaunt:branch%d' % br)
            ctx.case(key=('gaunt', tab, it))
            want = (0.0, 1.0, math.sqrt(3) / PI * (math.log(4 / uu) - EULER) if uu > 0 else None,
                    i0 + i1 * math.log10(uu) + i2 * math.log10(gam) if (uu > 0 and gam > 0) else None)[br]
            if not guard and not close(got, want, 1e-9, 1e-12):
                ctx.fail('C03:InterpolatedFreeFreeGauntFactor:branch-value', 'g_ff = %r, documented branch %d value %r' % (got, br, want), desc)
    # ---- exact boundary stream: limits are exact powers of ten (log10 exact in numpy and libm alike) and (te, wvl) are
    #      searched so that the double the code computes for u / gamma2 *equals* the limit: the comparisons
    #      `u >= u_max`, `u < u_min`, `gamma2 >= gamma2_max`, `gamma2 < gamma2_min` are hit with equality
    def hit(f, x0):
        """a double x near x0 with f(x) == target exactly (f monotone), or None"""
        x = x0
        for _ in range(40):
            x = math.nextafter(x, 0.0)
        for _ in range(80):
            if f(x):
                return x
            x = math.nextafter(x, math.inf)
        return None
    for it in range(max(8, n // 10)):
        z = rng.choice([1.0, 2.0, 6.0, 0.5])
        which = ('umax', 'umin', 'g2max', 'g2min')[it % 4]
        b = 10.0 ** rng.randint(-3, 2)
        if which in ('umax', 'umin'):
            x = hit(lambda x: ph / x == b, ph / b)                   # x = te * wvl
            if x is None:
                ctx.count('gaunt:exact-boundary:no-preimage')
                continue
            te = 2.0 ** rng.randint(-2, 10)
            wvl = x / te                                                # exact (power of two)
            if te * wvl != x:
                continue
            g0 = z * z * C_RYD / te
            u = b * 10.0 ** np.arange(-3, 1) if which == 'umax' else b * 10.0 ** np.arange(0, 4)
            g2 = np.array([g0 * 1e-3, g0 * 1e-1, g0 * 10, g0 * 1e3])
        else:
            te = hit(lambda t: z * z * C_RYD / t == b, z * z * C_RYD / b)
            if te is None:
                ctx.count('gaunt:exact-boundary:no-preimage')
                continue
            wvl = 10 ** rng.uniform(0, 4)
            u0 = ph / (te * wvl)
            g2 = b * 10.0 ** np.arange(-3, 1) if which == 'g2max' else b * 10.0 ** np.arange(0, 4)
            u = np.array([u0 * 1e-3, u0 * 1e-1, u0 * 10, u0 * 1e3])
        uu, gam = ph / (te * wvl), z * z * C_RYD / te
        i0, i1, i2 = 1.25, 0.125, -0.0625
        table = i0 + i1 * np.log10(u)[:, None] + i2 * np.log10(g2)[None, :]
        G = InterpolatedFreeFreeGauntFactor(u, g2, table)
        umin, umax, gmin, gmax = float(u.min()), float(u.max()), float(g2.min()), float(g2.max())
        assert (uu == umax, uu == umin, gam == gmax, gam == gmin)[('umax', 'umin', 'g2max', 'g2min').index(which)]
        st, got = call(G, z, te, wvl)
        br = 1 if which in ('umax', 'g2max') else 3     # documented: classical limit *at and above* the upper limits, table from the lower limits on
        want = 1.0 if br == 1 else i0 + i1 * math.log10(uu) + i2 * math.log10(gam)
        desc = dict(function='InterpolatedFreeFreeGauntFactor', boundary=which, z=z, te=te, wavelength=wvl, u_range=(umin, umax), gamma2_range=(gmin, gmax))
        ctx.count('gaunt:exact-boundary:' + which)
        ctx.case(key=('gaunt-boundary', which, it))
        if st != 'ok':
            ctx.fail('C03:InterpolatedFreeFreeGauntFactor:boundary:%s:raised' % which, 'raised %s exactly at %s: %s' % (st, which, got), desc)
            continue
        got = float(got)
        K.add('gaunt', 'gaunt %s' % fs([PI, z, te, wvl, umin, umax, gmin, gmax, i0, i1, i2]), ('G', br, got), desc)
        if not close(got, want, 1e-9, 1e-12):
            ctx.fail('C03:InterpolatedFreeFreeGauntFactor:boundary:' + which, 'g_ff = %r exactly at %s, documented %r' % (got, which, want), desc)
    # observation (not a C03 violation, counted only): for table limits that are not exact powers of ten, numpy's log10
    # (grid) and libm's log10 (argument) may differ by one ulp, so an argument exactly on a lower limit can fall outside
    # the interpolator's grid and raise ValueError
    nraise = 0
    for it in range(max(8, n // 10)):
        te, wvl = 10 ** rng.uniform(-1, 4), 10 ** rng.uniform(0, 4)
        g0, u0 = C_RYD / te, ph / (te * wvl)
        G = InterpolatedFreeFreeGauntFactor([u0 * 1e-2, u0, u0 * 1e2], [g0, g0 * 1e2, g0 * 1e4], np.ones((3, 3)))
        st, _ = call(G, 1.0, te, wvl)
        nraise += st != 'ok'
    ctx.count('observation:gaunt-arbitrary-lower-limit-hit-exactly:interpolator-range-error', nraise)
    # S only: the shipped Maxwellian table is reproduced at its knots, classical limit above, Born below
    M = MaxwellianFreeFreeGauntFactor()
    raw = M.raw_data
    us, gs, tb = raw['u'], raw['gamma2'], raw['gaunt_factor']
    for it in range(n):
        i, j = rng.randrange(1, len(us) - 1), rng.randrange(1, len(gs) - 1)      # interior knots (the outermost are branch boundaries)
        z = rng.choice([1.0, 2.0, 6.0])
        te = z * z * C_RYD / gs[j]
        wvl = ph / (te * us[i])
        got = float(M(z, te, wvl))
        ctx.case(key=('maxwell-knot', i, j))
        if not close(got, float(tb[i, j]), 1e-6, 1e-9):
            ctx.fail('C03:MaxwellianFreeFreeGauntFactor:knot-not-reproduced', 'g_ff(u=%r, gamma2=%r) = %r, table %r' % (us[i], gs[j], got, tb[i, j]),
                     dict(u=float(us[i]), gamma2=float(gs[j]), z=z))
    ctx.count('S:maxwell-knots', n)
    # S only: Bremsstrahlung with the shipped Gaunt factor, handed over by the provider, against the documented bin average
    class AD(w.MockAD):
        def free_free_gaunt_factor(self):
            return M
    pt, dr = w.Point3D(0, 0, 0), w.Vector3D(0, 1, 0)
    for it in range(max(4, n // 40)):
        comp = rnd_composition(w, rng, rng.choice([2, 9, 12]), 0, nmax=6)
        ne, te = 10 ** rng.uniform(18, 20.5), 10 ** rng.uniform(0, 4)
        mn = rng.uniform(200, 800)
        mx, bins = mn + rng.uniform(5, 300), rng.choice([1, 3, 8])
        m = w.cm.Bremsstrahlung(plasma=w.plasma(comp, ne, te), atomic_data=AD((1e-35, 0, 0, 0)))
        sp = w.Spectrum(mn, mx, bins)
        m.emission(pt, dr, sp)
        zs, ns = [float(c) for (e, c, n_, t) in comp], [n_ for (e, c, n_, t) in comp]
        f = lambda l: doc_brems(lambda z, t, l_: float(M(z, t, l_)), zs, ns, ne, te, l)
        desc = dict(model='Bremsstrahlung', gaunt='MaxwellianFreeFreeGauntFactor via provider', ne=ne, te=te, window=(mn, mx, bins), composition=comp_desc(w, comp))
        ctx.case(key=('brems-maxwell', it))
        ctx.count('S:brems-real-gaunt')
        for i in range(bins):
            a, b = mn + i * (mx - mn) / bins, mn + (i + 1) * (mx - mn) / bins
            want = bin_average(f, a, b)
            if not close(float(sp.samples[i]), want, 1e-4, 1e-290):
                ctx.fail('C03:Bremsstrahlung:bin-average-differs-from-hutchinson:real-gaunt', 'bin %d: %r, documented %r' % (i, float(sp.samples[i]), want), desc)
                break


def run_radfn(ctx, w, K, n):
    from cherab.tools.emitters import RadiationFunction
    from raysect.core import AffineMatrix3D
    rng = ctx.rng
    for it in range(n):
        phi = rng.choice([0.0, 1.0, -2.5, 10 ** rng.uniform(-3, 8)])
        mn = rng.choice([400.0, 1.0, rng.uniform(1, 900)])
        mx = mn + rng.choice([1.0, 100.0, rng.uniform(0.01, 500)])
        bins = rng.choice([1, 2, 5, 32])
        seen = []

        def f(x, y, z, phi=phi):
            seen.append((x, y, z))
            return phi
        rf = RadiationFunction(f)
        ray = w.Ray(w.Point3D(0, 0, 0), w.Vector3D(0, 0, 1), min_wavelength=mn, max_wavelength=mx, bins=bins)
        sp = w.Spectrum(mn, mx, bins)
        p = w.Point3D(rng.uniform(-1, 1), rng.uniform(-1, 1), rng.uniform(-1, 1))
        rf.emission_function(p, w.Vector3D(1, 0, 0), sp, None, ray, None, AffineMatrix3D(), AffineMatrix3D())
        samples = [float(x) for x in sp.samples]
        desc = dict(emitter='RadiationFunction', phi=phi, window=(mn, mx, bins))
        K.add('radfn', 'radfn %s' % fs([PI, phi, mn, mx]), [samples[0]], desc)
        ctx.case(key=('radfn', it))
        tot = sum(samples) * (mx - mn) / bins
        ok = all(x == samples[0] for x in samples) and close(tot, phi / (4 * PI), 1e-9) and seen == [(p.x, p.y, p.z)]
        if not ok:
            ctx.fail('C03:RadiationFunction:window-integral', 'sum(bins)*delta = %r, phi/4pi = %r' % (tot, phi / (4 * PI)), desc)


# ------------------------------------------------------------------------------------------------------------------
#  round 6b: probes that may take the interpreter down run in a child process (one per model class, in parallel)
# ------------------------------------------------------------------------------------------------------------------
CHILD = r"""
import sys, json
from raysect.core import Point3D, Vector3D
from raysect.optical import Spectrum
from cherab.core import Plasma, Species
from cherab.core.distribution import DistributionFunction
from cherab.core.atomic import (AtomicData, Line, ImpactExcitationPEC, RecombinationPEC, ThermalCXPEC, LineRadiationPower,
                                ContinuumPower, CXRadiationPower, FreeFreeGauntFactor, deuterium, carbon, helium)
from cherab.core.model import ExcitationLine, RecombinationLine, ThermalCXLine, TotalRadiatedPower, Bremsstrahlung

def say(**k):
    print('C03CHILD ' + json.dumps(k)); sys.stdout.flush()

class Dist(DistributionFunction):
    def __init__(self, n, t):
        super().__init__(); self.n, self.t = n, t
    def density(self, x, y, z): return self.n
    def effective_temperature(self, x, y, z): return self.t
    def bulk_velocity(self, x, y, z): return Vector3D(0, 0, 0)

def mk(base, v, n):
    class R(base):
        def __init__(self): pass
        if n == 3:
            def evaluate(self, ne, te, td): return v * (1 + 1e-3 * te + 1e-3 * td)
        else:
            def evaluate(self, ne, te): return v * (1 + 1e-3 * te)
    return R()

class G(FreeFreeGauntFactor):
    def __init__(self, v): self.v = v
    def evaluate(self, z, te, wvl): return self.v

class AD(AtomicData):
    # every accessor counts as one call; call number `fail_at` (1-based) raises OSError once
    def __init__(self, fail_at=None, gaunt=1.25):
        self.fail_at, self.calls, self.gaunt = fail_at, 0, gaunt
    def _c(self):
        self.calls += 1
        if self.fail_at is not None and self.calls == self.fail_at:
            raise OSError('mock provider failure at accessor call %d' % self.calls)
    def wavelength(self, ion, charge, transition): self._c(); return 529.0
    def impact_excitation_pec(self, ion, charge, transition): self._c(); return mk(ImpactExcitationPEC, 1e-14, 2)
    def recombination_pec(self, ion, charge, transition): self._c(); return mk(RecombinationPEC, 2e-15, 2)
    def thermal_cx_pec(self, di, dc, ri, rc, transition): self._c(); return mk(ThermalCXPEC, 3e-15 * (1 + dc + 0.1 * di.atomic_number), 3)
    def line_radiated_power_rate(self, ion, charge): self._c(); return mk(LineRadiationPower, 1e-32, 2)
    def continuum_radiated_power_rate(self, ion, charge): self._c(); return mk(ContinuumPower, 2e-33, 2)
    def cx_radiated_power_rate(self, ion, charge): self._c(); return mk(CXRadiationPower, 3e-33, 2)
    def free_free_gaunt_factor(self): self._c(); return G(self.gaunt)

def plasma():
    p = Plasma()
    p.electron_distribution = Dist(1e19, 50.0)
    p.composition = [Species(deuterium, 0, Dist(1e17, 5.0)), Species(deuterium, 1, Dist(1e19, 40.0)),
                     Species(helium, 1, Dist(2e17, 30.0)), Species(carbon, 5, Dist(3e17, 45.0)), Species(carbon, 6, Dist(1e17, 45.0))]
    return p

def build(kind, ad):
    line = Line(carbon, 5, (8, 7))
    if kind == 'exc': return ExcitationLine(line, plasma=plasma(), atomic_data=ad)
    if kind == 'rec': return RecombinationLine(line, plasma=plasma(), atomic_data=ad)
    if kind == 'cx': return ThermalCXLine(line, plasma=plasma(), atomic_data=ad)
    if kind == 'trp': return TotalRadiatedPower(carbon, 5, plasma=plasma(), atomic_data=ad)
    return Bremsstrahlung(plasma=plasma(), atomic_data=ad)

def emit(m):
    return [float(x) for x in m.emission(Point3D(0.1, 0.2, 0.3), Vector3D(0, 0, 1), Spectrum(520.0, 540.0, 8)).samples]

kind = sys.argv[1]
if kind == 'gprobe':
    m = build('brems', AD(gaunt=1.25))
    a = emit(m); say(step='first', samples=a)
    m.gaunt_factor = G(2.5); b = emit(m); say(step='user', samples=b)
    m.gaunt_factor = None; say(step='unset', held=m.gaunt_factor is not None)
    c = emit(m); say(step='after-unset', samples=c)
    m2 = build('brems', AD(gaunt=1.25)); a2 = emit(m2); m2.gaunt_factor = None; say(step='unset-direct')
    say(step='after-unset-direct', samples=emit(m2))
else:
    fresh = emit(build(kind, AD()))
    say(step='fresh', samples=fresh)
    for fail_at in (1, 2, 3):
        ad = AD(fail_at)
        m = build(kind, ad)
        try:
            first = emit(m); raised = None
        except Exception as e:
            first = None; raised = type(e).__name__
        say(step='first', fail_at=fail_at, raised=raised, reached=ad.calls >= fail_at)
        try:
            retry = emit(m); err = None
        except Exception as e:
            retry = None; err = type(e).__name__ + ': ' + str(e)[:80]
        say(step='retry', fail_at=fail_at, samples=retry, error=err)
say(step='done')
"""


def run_children(kinds):
    """{kind: (return code, [records])}; the children run concurrently"""
    import json
    import subprocess
    import sys
    procs = {k: subprocess.Popen([sys.executable, '-c', CHILD, k], stdout=subprocess.PIPE, stderr=subprocess.PIPE, text=True) for k in kinds}
    res = {}
    for k, pr in procs.items():
        try:
            out, err = pr.communicate(timeout=300)
        except subprocess.TimeoutExpired:
            pr.kill()
            out, err = pr.communicate()
        recs = [json.loads(l[len('C03CHILD '):]) for l in out.splitlines() if l.startswith('C03CHILD ')]
        res[k] = (pr.returncode, recs, err[-300:])
    return res


SIG_GAUNT_UNSET = 'C03:Bremsstrahlung.emission:gaunt_factor-unset-after-first-emission:crash'
CHILD_CLASS = dict(exc='ExcitationLine', rec='RecombinationLine', cx='ThermalCXLine', trp='TotalRadiatedPower', brems='Bremsstrahlung')


def run_isolated(ctx):
    """S streams `gaunt-unset` and `failed-populate` (child processes).  Returns True when the gaunt_factor = None probe
    passed (the in-process K stream gsel then makes that call too)."""
    res = run_children(['gprobe'] + list(CHILD_CLASS))
    # ---- gaunt_factor = None after the first emission: documented "the atomic_data is used"
    rc, recs, err = res['gprobe']
    by = {r['step']: r for r in recs}
    ok = rc == 0 and 'done' in by
    detail = 'child exit %r after step %r; %s' % (rc, recs[-1]['step'] if recs else None, err.strip().splitlines()[-1] if err.strip() else '')
    if ok:
        a, b, c, d = by['first']['samples'], by['user']['samples'], by['after-unset']['samples'], by['after-unset-direct']['samples']
        ok = all(x > 0 for x in a) and all(close(y, 2 * x, 1e-12) for x, y in zip(a, b)) and \
            all(close(x, y, 1e-12) for x, y in zip(a, c)) and all(close(x, y, 1e-12) for x, y in zip(a, d))
        detail = 'provider factor %r, user factor (x2) %r, after gaunt_factor = None %r / %r' % (a[:2], b[:2], c[:2], d[:2])
    ctx.case(key=('gaunt-unset',))
    ctx.count('isolated:gaunt-unset:' + ('ok' if ok else 'FAILED'))
    if not ok:
        ctx.fail(SIG_GAUNT_UNSET, 'Bremsstrahlung(plasma, atomic_data): emission(); gaunt_factor = None; emission() must use the '
                 "provider's Gaunt factor: " + detail,
                 dict(model='Bremsstrahlung', stream='gaunt-unset', history=['eval', 'gaunt_factor = G', 'eval', 'gaunt_factor = None', 'eval']))
    # ---- a provider accessor raises once during _populate_cache; the retry must behave like a fresh model
    for k, name in CHILD_CLASS.items():
        rc, recs, err = res[k]
        fresh = next((r['samples'] for r in recs if r['step'] == 'fresh'), None)
        for fail_at in (1, 2, 3):
            first = next((r for r in recs if r['step'] == 'first' and r.get('fail_at') == fail_at), None)
            retry = next((r for r in recs if r['step'] == 'retry' and r.get('fail_at') == fail_at), None)
            desc = dict(model=name, stream='failed-populate', provider_raises='OSError at accessor call %d of the first emission, works afterwards' % fail_at,
                        child_exit=rc)
            if first is not None and not first['reached']:
                ctx.count('isolated:failed-populate:%s:not-reached' % k)      # the model makes fewer accessor calls
                ctx.case(key=None)
                good = first['raised'] is None and retry is not None and retry['samples'] is not None and \
                    all(close(x, y, 1e-12) for x, y in zip(retry['samples'], fresh))
            else:
                ctx.case(key=('failed-populate', k, fail_at))
                good = fresh is not None and any(x > 0 for x in fresh) and first is not None and first['raised'] == 'OSError' and \
                    retry is not None and retry['samples'] is not None and len(retry['samples']) == len(fresh) and \
                    all(close(x, y, 1e-12) for x, y in zip(retry['samples'], fresh))
            ctx.count('isolated:failed-populate:%s:%s' % (k, 'ok' if good else 'FAILED'))
            if not good:
                what = 'child died (exit %r) %s' % (rc, err.strip().splitlines()[-1] if err.strip() else '') if retry is None else \
                    'first emission raised %r; retry %r; fresh model %r' % (first and first['raised'], retry.get('error') or (retry['samples'] or [])[:3], (fresh or [])[:3])
                ctx.fail('C03:%s.emission:after-failed-populate:crashed-or-differs-from-fresh' % name, what, desc)
    return by.get('after-unset-direct') is not None and rc is not None and res['gprobe'][0] == 0


def run_gaunt_select(ctx, w, K, n, unset_is_safe=True):
    """round 6 (K, `gsel`): which Gaunt factor a Bremsstrahlung instance evaluates with after a random history of
    `gaunt_factor = G | None`, `atomic_data = A | None`, `plasma = P`, change notifications and emission() calls, against
    Model/BremsConfig.lean.  The Gaunt factor actually used is read off the emitted value (constant factors: user k -> k,
    provider a -> 100 + a; the emission is linear in it).  Every call is made on the real code, including emission after
    `gaunt_factor = None` on an instance whose arrays are cached — unless the child-process probe of exactly that history
    (`run_isolated`) failed (`unset_is_safe` False: a regression to the pre-7210ef7 source, where the call is a segmentation
    fault); only then a history ends where the model predicts the call through None."""
    rng = ctx.rng
    pt, dr = w.Point3D(0, 0, 0), w.Vector3D(0, 0, 1)
    par = (1.0, 0.0, 0.0, 0.0)

    def plasma():
        pl = w.Plasma()
        pl.electron_distribution = w.Dist(1e19, 10.0)
        pl.composition = [w.Species(w.elements[2], 1, w.Dist(1e19, 10.0)), w.Species(w.elements[2], 0, w.Dist(1e18, 1.0))]
        return pl

    def emit(m):
        sp = w.Spectrum(500.0, 510.0, 1)
        return float(m.emission(pt, dr, sp).samples[0])
    unit = emit(w.cm.Bremsstrahlung(plasma=plasma(), gaunt_factor=w.Gaunt((1.0, 0.0, 0.0, 0.0))))

    def tok_of_value(v):
        k = int(round(v))
        if k < 1 or abs(v - k) > 1e-9 * k:
            return 'x%r' % v
        return 'u%d' % k if k < 100 else 'p%d' % (k - 100)

    def gtok(m):
        g = m.gaunt_factor
        return '-' if g is None else tok_of_value(g(1.0, 1.0, 1.0))

    def rnd_op(p_unset):
        r = rng.random()
        if r < 0.40:
            return 'E'
        if r < 0.40 + p_unset:
            return 'G0'
        if r < 0.62:
            return 'G%d' % rng.randint(1, 9)
        if r < 0.76:
            return 'A%d' % rng.choice([0, 1, 2, 3, 4, rng.randint(1, 9)])
        if r < 0.84:
            return 'P'
        return 'C'

    hist = []
    for it in range(n):
        p_unset = rng.choice([0.0, 0.03, 0.10, 0.15])
        init = (rng.choice([1, 1, 1, 0]), rng.choice([0, 1, 2, 3]), rng.choice([0, 0, 5, 6]))
        ops = [rnd_op(p_unset) for _ in range(rng.randint(1, 14))]
        if it < 3:      # fixed: documented order of the two RuntimeErrors; the witness of brems_gaunt_unset_after_use_null_deref
            init, ops = [(0, 0, 0), (1, 0, 0), (1, 1, 0)][it], [['E', 'P', 'E', 'A3', 'E'], ['E', 'G4', 'E', 'G0', 'E'], ['E', 'G0', 'E']][it]
        hist.append((init, ops))
    pred = ctx.driver(['gsel %d %d %d %s' % (i + tuple([' '.join(o)])) for i, o in hist])
    for (init, ops), pr in zip(hist, pred):
        ptoks = pr.split()
        if len(ptoks) != len(ops):
            ctx.broke('correspondence', 'C03 stream gsel', dict(init=init, ops=ops, model=pr[:200]))
            continue
        cut = None if unset_is_safe else next((i for i, t in enumerate(ptoks) if t.startswith('null')), None)
        if cut is not None:
            ops = ops[:cut + 1]
            ctx.count('gsel:history-ends-at-predicted-call-through-None')
        ads = {}

        def ad(a):
            if a == 0:
                return None
            if a not in ads:
                ads[a] = w.MockAD(par, gaunt=(100.0 + a, 0.0, 0.0, 0.0))
            return ads[a]
        pl = plasma() if init[0] else None
        m = w.cm.Bremsstrahlung(plasma=pl, atomic_data=ad(init[1]),
                                gaunt_factor=w.Gaunt((float(init[2]), 0.0, 0.0, 0.0)) if init[2] else None)
        obs = []
        for i, op in enumerate(ops):
            out = 'ok'
            if op == 'E':
                if cut is not None and i == cut:
                    obs.append(ptoks[i])        # not executed (would take the interpreter down)
                    continue
                try:
                    out = tok_of_value(emit(m) / unit)
                except RuntimeError as e:
                    out = 'np' if 'plasma object' in str(e) else 'na' if 'atomic data' in str(e) else 'err:' + str(e)[:40]
            elif op[0] == 'G':
                k = int(op[1:])
                m.gaunt_factor = w.Gaunt((float(k), 0.0, 0.0, 0.0)) if k else None
            elif op[0] == 'A':
                m.atomic_data = ad(int(op[1:]))
            elif op == 'P':
                pl = plasma()
                m.plasma = pl
            elif op == 'C':
                if pl is not None and rng.random() < 0.7:
                    pl.notifier.notify()
                else:
                    m._change()
            obs.append('%s:%s' % (out, gtok(m)))
        desc = dict(model='Bremsstrahlung', stream='gaunt-selection', init=dict(plasma=init[0], atomic_data=init[1], gaunt_factor=init[2]), ops=ops)
        K.add('gsel', 'gsel %d %d %d %s' % (init + (' '.join(ops),)), ' '.join(obs), desc)
        ctx.count('gsel:evals=%d' % min(4, ops.count('E')))
        ctx.case(key=('gsel', init, tuple(ops)) if 'E' in ops else None)


def run_end_to_end(ctx, w, n):
    """observe_at #2: Ray.trace through a slab of known length; line models with the default GaussianLine"""
    from cherab.tools.plasmas.slab import build_constant_slab_plasma
    rng = ctx.rng
    for it in range(n):
        L = rng.choice([0.5, 1.2, 2.0])
        ne, te = 10 ** rng.uniform(18, 20), 10 ** rng.uniform(1, 3.5)
        par = (10 ** rng.uniform(-37, -33), 1e-20, 1e-3, 1e-2)
        n5, n6, nd0, nh0, nd1 = (10 ** rng.uniform(16, 19) for _ in range(5))
        species = [(w.elements[9], 5, n5, 300.0, w.Vector3D(0, 0, 0)), (w.elements[9], 6, n6, 400.0, w.Vector3D(0, 0, 0)),
                   (w.elements[2], 0, nd0, 3.0, w.Vector3D(0, 0, 0)), (w.elements[0], 0, nh0, 2.0, w.Vector3D(0, 0, 0)),
                   (w.elements[2], 1, nd1, 350.0, w.Vector3D(0, 0, 0))]
        comp = [(9, 5, n5, 300.0), (9, 6, n6, 400.0), (2, 0, nd0, 3.0), (0, 0, nh0, 2.0), (2, 1, nd1, 350.0)]
        world = w.World()
        pl = build_constant_slab_plasma(length=L, width=1, height=1, electron_density=ne, electron_temperature=te, plasma_species=species)
        pl.parent = world
        ad = w.MockAD(par)
        pl.atomic_data = ad
        tr = 4
        line = w.Line(w.elements[9], 5, TRANSITIONS[tr])
        wl = ad.wavelength(w.elements[9], 5, TRANSITIONS[tr])
        cases = [('ExcitationLine', w.cm.ExcitationLine(line), doc_line(par, 'exc', comp, ne, te, 9, 5, tr, 5), (wl - 3, wl + 3, 300)),
                 ('RecombinationLine', w.cm.RecombinationLine(line), doc_line(par, 'rec', comp, ne, te, 9, 5, tr, 6), (wl - 3, wl + 3, 300)),
                 ('ThermalCXLine', w.cm.ThermalCXLine(line), doc_cx(w, par, comp, ne, te, 9, 5, tr), (wl - 3, wl + 3, 300)),
                 ('TotalRadiatedPower', w.cm.TotalRadiatedPower(w.elements[9], 5), None, (300.0, 700.0, 4)),
                 ('Bremsstrahlung', w.cm.Bremsstrahlung(gaunt_factor=w.Gaunt((1.25, 0.125, 0.0, 2.0 ** -11))), 'brems', (350.0, 750.0, 8))]
        for name, model, want, (mn, mx, bins) in cases:
            pl.models = [model]
            ray = w.Ray(origin=w.Point3D(L + 0.5, 0, 0), direction=w.Vector3D(-1, 0, 0), min_wavelength=mn, max_wavelength=mx, bins=bins)
            spec = ray.trace(world)
            tot = float(spec.total())
            if want is None:
                want = doc_trp(w, par, (1, 1, 1), comp, ne, te, mn, mx, 9, 5) * (mx - mn)
            elif want == 'brems':
                gf = lambda z, t, l: 1.25 + 0.125 * z + 2.0 ** -11 * l
                f = lambda l: doc_brems(gf, [float(c_) for (_, c_, _, _) in comp], [n_ for (_, _, n_, _) in comp], ne, te, l)
                want = bin_average(f, mn, mx) * (mx - mn)
            ctx.case(key=('slab', name, it))
            ctx.count('S:slab:' + name)
            if not close(tot, want * L, 1e-4 if name == 'Bremsstrahlung' else 1e-6):
                ctx.fail('C03:%s:ray-trace-through-slab' % name, 'Ray.trace total %r, documented emission x length %r' % (tot, want * L),
                         dict(model=name, length=L, ne=ne, te=te, rate_par=par, composition=comp_desc(w, comp)))



# ------------------------------------------------------------------------------------------------------------------
#  re-evaluation stream: the same model object is evaluated again after the provider / composition / electrons changed
# ------------------------------------------------------------------------------------------------------------------
REEVAL_KINDS = ('exc', 'rec', 'cx', 'trp', 'brems')
REEVAL_MODEL = dict(exc='ExcitationLine', rec='RecombinationLine', cx='ThermalCXLine', trp='TotalRadiatedPower', brems='Bremsstrahlung')


def reeval_state(w, kind, model, st, user_gaunt=None, pt=None, base=0.0, rtol=1e-5):
    """evaluate `model.emission` at `pt` in the plasma's *current* state `st` (values at that point) into a spectrum
    prefilled with `base`; returns (obs for K = what was *added*, K line, documented value(s), floor)"""
    pt, dr = pt or w.Point3D(0.1, 0.0, -0.1), w.Vector3D(0, 0, 1)
    comp, ne, te, par = st['comp'], st['ne'], st['te'], st['par']
    le, lc, tr = st['le'], st['lc'], st['tr']
    fl = 4e-16 * abs(base)
    if kind in ('exc', 'rec', 'cx'):
        w.RecLS.calls = []
        sp = w.Spectrum(390.0, 520.0, 8)
        sp.samples[:] = base
        stt, res = call(model.emission, pt, dr, sp)
        got = stt if stt != 'ok' else ('none' if not w.RecLS.calls else float(w.RecLS.calls[-1][0]))
        if stt == 'ok' and (res is not sp or any(float(x) != base for x in sp.samples)):
            got = 'spectrum-modified'          # the recording line shape adds nothing: the incoming spectrum must come back as it was
        if kind == 'cx':
            line = 'cx %d %d %d %s %s' % (le, lc, tr, fs([PI, ne, te, par[0], par[1], par[2], par[3]]), sp_tokens(w, comp))
            want = doc_cx(w, par, comp, ne, te, le, lc, tr)
        else:
            line = 'line %s %d %d %d %s %s' % (kind, le, lc, tr, fs([PI, ne, te, par[0], par[1], par[2]]), sp_tokens(w, comp))
            want = doc_line(par, kind, comp, ne, te, le, lc, tr, lc if kind == 'exc' else lc + 1)
        return (got if isinstance(got, str) else [got]), line, want, 0.0
    mn, mx, bins = st['window']
    sp = w.Spectrum(mn, mx, bins)
    sp.samples[:] = base
    stt, res = call(model.emission, pt, dr, sp)
    samples = [float(x) - base for x in sp.samples]
    guard = not (ne > 0 and te > 0)
    if kind == 'trp':
        has = st['has']
        got = stt if stt != 'ok' else ('none' if (guard and not any(samples)) else samples[0])
        line = 'trp %d %d %s %d %d %d %s %s' % (le, lc, fs([PI, ne, te, mn, mx]), has[0], has[1], has[2], fs(par[:3]), sp_tokens(w, comp))
        want = doc_trp(w, par, has, comp, ne, te, mn, mx, le, lc)
        if stt == 'ok' and not all(x == samples[0] for x in samples):
            got = 'non-uniform'
        return (got if isinstance(got, str) else [got]), line, want, fl
    g = user_gaunt if user_gaunt is not None else st['gaunt']
    got = stt if stt != 'ok' else ('none' if (guard and not any(samples)) else samples)
    line = 'be %s %d %s %s' % (fs([PI, ne, te, mn, float(sp.delta_wavelength)]), bins, fs([rtol] + list(g)), sp_tokens(w, comp))
    if guard:
        want = [0.0] * bins
    else:
        gf = lambda z, t, l: g[0] + g[1] * z + g[2] * t + g[3] * l
        zs, ns = [float(c) for (e, c, n, t) in comp], [n for (e, c, n, t) in comp]
        f = lambda l: doc_brems(gf, zs, ns, ne, te, l)
        want = [bin_average(f, mn + i * (mx - mn) / bins, mn + (i + 1) * (mx - mn) / bins) for i in range(bins)]
    return got, line, want, 1e-300 + fl


def reeval_ok(kind, got, want, floor=0.0, rtol=1e-5):
    """S: does the implementation's output equal the documented value for the current state?"""
    if want is None:
        return got == 'RuntimeError'
    if isinstance(got, str):
        if got != 'none':
            return False
        return (want == 0.0) if not isinstance(want, list) else not any(want)
    if kind == 'brems':
        return len(got) == len(want) and all(close(a, b, max(3e-4, 30 * rtol), 1e-290 + floor) for a, b in zip(got, want))
    return close(got[0], want, 1e-9, floor)


def run_reeval(ctx, w, K, n):
    from raysect.primitive import Sphere
    rng = ctx.rng
    for it in range(n):
        kind = REEVAL_KINDS[it % len(REEVAL_KINDS)]
        name = REEVAL_MODEL[kind]
        le = rng.choice([4, 9, 10, 12])
        lc = rng.randint(0, w.znum(le) - 1)
        tr = rng.randrange(len(TRANSITIONS))

        def fresh_comp():
            comp = rnd_composition(w, rng, le, lc, nmax=6)
            # mostly emitting states: the point of this stream is stale caches, guards are covered elsewhere
            return [(e, c, abs(n_) if rng.random() < 0.8 and n_ != 0 else n_, abs(t) if t != 0 else 1.0) for (e, c, n_, t) in comp]
        par_a, par_b = rnd_par(rng), rnd_par(rng)
        par_a, par_b = (abs(par_a[0]) or 1e-35,) + par_a[1:], (abs(par_b[0]) * 3 or 2e-35,) + par_b[1:]
        ga, gb = (rng.choice([1.0, 1.5]), 0.0, 0.0, 0.0), (rng.choice([0.75, 2.0]), 0.0, 0.0, 0.0)
        has_a, has_b = (1, 1, 1), tuple(int(rng.random() < 0.8) for _ in range(3))
        st = dict(comp=fresh_comp(), ne=10 ** rng.uniform(17, 20), te=10 ** rng.uniform(0, 3.5), par=par_a, has=has_a, gaunt=ga,
                  le=le, lc=lc, tr=tr, window=(rng.uniform(200, 600), 0, 0))
        st['window'] = (st['window'][0], st['window'][0] + rng.uniform(1, 300), rng.choice([1, 2, 5]))
        attached = rng.random() < 0.6                       # through Plasma.models / Plasma.atomic_data, or stand-alone model
        user_gaunt = (1.25, 0.0, 0.0, 0.0) if (kind == 'brems' and rng.random() < 0.3) else None
        ad_a, ad_b = w.MockAD(par_a, has=has_a, gaunt=ga), w.MockAD(par_b, has=has_b, gaunt=gb)
        pl = w.plasma(st['comp'], st['ne'], st['te'])
        line = w.Line(w.elements[le], lc, TRANSITIONS[tr])
        kw = {} if attached else dict(plasma=pl, atomic_data=ad_a)
        if kind in ('exc', 'rec', 'cx'):
            model = getattr(w.cm, name)(line, lineshape=w.RecLS, **kw)
        elif kind == 'trp':
            model = w.cm.TotalRadiatedPower(w.elements[le], lc, **kw)
        else:
            model = w.cm.Bremsstrahlung(gaunt_factor=w.Gaunt(user_gaunt) if user_gaunt else None, **kw)
        if attached:
            pl.geometry = Sphere(2.0)
            pl.atomic_data = ad_a
            pl.models = [model]
        ops = ['provider', 'density', 'composition', 'electrons']
        rng.shuffle(ops)
        history = ['fresh']
        ok0 = True
        for stage, op in enumerate([None] + ops):
            if op == 'provider':
                if attached:
                    pl.atomic_data = ad_b
                else:
                    model.atomic_data = ad_b
                st = dict(st, par=par_b, has=has_b, gaunt=gb)
            elif op == 'density':
                j = rng.randrange(len(st['comp']))
                e_, c_, n_, t_ = st['comp'][j]
                n2, t2 = n_ * rng.choice([2.0, 0.5, 3.0]) + rng.choice([0.0, 1e16]), t_ * rng.choice([1.0, 2.0])
                pl.composition.add(w.Species(w.elements[e_], c_, w.Dist(n2, t2)))
                st = dict(st, comp=st['comp'][:j] + [(e_, c_, n2, t2)] + st['comp'][j + 1:])
            elif op == 'composition':
                comp2 = fresh_comp()
                pl.composition = [w.Species(w.elements[e_], c_, w.Dist(n_, t_)) for (e_, c_, n_, t_) in comp2]
                st = dict(st, comp=comp2)
            elif op == 'electrons':
                ne2, te2 = 10 ** rng.uniform(17, 20), 10 ** rng.uniform(0, 3.5)
                pl.electron_distribution = w.Dist(ne2, te2)
                st = dict(st, ne=ne2, te=te2)
            if op:
                history.append(op)
            got, kline, want, floor = reeval_state(w, kind, model, st, user_gaunt)
            desc = dict(model=name, history=list(history), attached_through_plasma=attached, user_gaunt=user_gaunt,
                        line=dict(element=tr_constants.ELEMENT_IDS[le], charge=lc, transition=TRANSITIONS[tr]), ne=st['ne'], te=st['te'],
                        rate_par=st['par'], rates_present=st['has'], gaunt=st['gaunt'], window=st['window'], composition=comp_desc(w, st['comp']))
            K.add('reeval:' + kind, kline, got, desc, floor=floor)
            ok = reeval_ok(kind, got, want)
            ctx.count('reeval:%s:%s' % (kind, op or 'fresh'))
            emits = not isinstance(got, str)
            ctx.case(key=('reeval', kind, it, stage) if emits else None, sample=desc if (it < 5 and stage == 2 and kind == 'brems') else None)
            if stage == 0:
                ok0 = ok
                if not ok:
                    ctx.count('reeval:fresh-state-already-differs')     # reported by the fresh-scene streams
                    break
            elif not ok:
                shown = got if isinstance(got, str) else got[:3]
                wshown = want if not isinstance(want, list) else want[:3]
                ctx.fail('C03:%s.emission:after-%s:differs-from-documented-for-current-state' % (name, {'provider': 'provider-swap',
                         'density': 'species-density-change', 'composition': 'composition-replaced', 'electrons': 'electron-distribution-change'}[op]),
                         '%s evaluated again after %s (%s): %r, documented for the current provider/plasma %r'
                         % (name, ' -> '.join(history), 'attached to the plasma' if attached else 'stand-alone', shown, wshown), desc)
                break


# ------------------------------------------------------------------------------------------------------------------
#  multi-point sequences on one instance over a non-uniform plasma; several live instances evaluated interleaved
# ------------------------------------------------------------------------------------------------------------------
def prof_dist(w):
    """DistributionFunction whose density / temperature are tabulated per point (point i is Point3D(i, 0, 0))"""
    if not hasattr(w, 'ProfDist'):
        base = w.Dist.__mro__[1]

        class ProfDist(base):
            def __init__(self, ns, ts):
                super().__init__()
                self.ns, self.ts = ns, ts

            def density(self, x, y, z):
                return self.ns[int(round(x))]

            def effective_temperature(self, x, y, z):
                return self.ts[int(round(x))]

            def bulk_velocity(self, x, y, z):
                return w.Vector3D(0, 0, 0)
        w.ProfDist = ProfDist
    return w.ProfDist


def rnd_presence(rng, positive, p_pos=0.55, p_zero=0.25):
    """independently present / exactly absent / negative"""
    k = rng.random()
    return positive if k < p_pos else (rng.choice([0.0, 0.0, -0.0]) if k < p_pos + p_zero else -positive * rng.choice([1.0, 0.1]))


def build_model(w, kind, le, lc, tr, pl, ad, lineshape='rec', gaunt=None, integrator=None, elem=None, line=None):
    elem = elem if elem is not None else w.elements[le]
    line = line if line is not None else w.Line(elem, lc, TRANSITIONS[tr])
    if kind in ('exc', 'rec', 'cx'):
        kw = dict(lineshape=w.RecLS) if lineshape == 'rec' else {}
        return getattr(w.cm, REEVAL_MODEL[kind])(line, plasma=pl, atomic_data=ad, **kw)
    if kind == 'trp':
        return w.cm.TotalRadiatedPower(elem, lc, plasma=pl, atomic_data=ad)
    kw = {}
    if gaunt is not None:
        kw['gaunt_factor'] = w.Gaunt(gaunt)
    if integrator is not None:
        kw['integrator'] = integrator
    return w.cm.Bremsstrahlung(plasma=pl, atomic_data=ad, **kw)


def run_multipoint(ctx, w, K, n):
    """(a) one model instance, a sequence of points of a plasma with compact-support / sign-changing profiles, points
    revisited; the value at a point must not depend on what was evaluated before: = documented expression at that point
    (S), = model fed that point's values (K), = a fresh instance evaluated only there"""
    rng = ctx.rng
    PD = prof_dist(w)
    for it in range(n):
        kind = REEVAL_KINDS[it % len(REEVAL_KINDS)]
        name = REEVAL_MODEL[kind]
        le = rng.choice([4, 9, 10, 12])
        lc = rng.randint(0, w.znum(le) - 1)
        tr = rng.randrange(len(TRANSITIONS))
        npts = rng.randint(3, 6)
        keys = [(e, c) for (e, c, _, _) in rnd_composition(w, rng, le, lc, nmax=6)]
        for need in ((le, lc), (le, lc + 1)):
            if need not in keys and rng.random() < 0.9:
                keys.append(need)
        prof = {}
        for k_ in keys:
            n0, t0 = 10 ** rng.uniform(15, 20), 10 ** rng.uniform(0, 3.5)
            prof[k_] = ([rnd_presence(rng, n0 * rng.choice([1.0, 0.3, 2.0])) for _ in range(npts)],
                        [rnd_presence(rng, t0, 0.85, 0.08) for _ in range(npts)])
        ne0, te0 = 10 ** rng.uniform(17, 20), 10 ** rng.uniform(0.5, 3.5)
        nes = [rnd_presence(rng, ne0 * rng.choice([1.0, 0.5]), 0.8, 0.1) for _ in range(npts)]
        tes = [rnd_presence(rng, te0 * rng.choice([1.0, 2.0]), 0.85, 0.08) for _ in range(npts)]
        par = rnd_par(rng)
        par = (abs(par[0]) or 1e-35,) + par[1:]
        g = (rng.choice([1.0, 1.5]), rng.choice([0.0, 0.125]), 0.0, 0.0)
        has = tuple(int(rng.random() < 0.9) for _ in range(3))
        mn = rng.uniform(200, 600)
        window = (mn, mn + rng.uniform(1, 300), rng.choice([1, 2, 5]))

        def make_plasma():
            pl = w.Plasma()
            pl.electron_distribution = PD(nes, tes)
            pl.composition = [w.Species(w.elements[e], c, PD(*prof[(e, c)])) for (e, c) in keys]
            return pl
        ad = w.MockAD(par, has=has, gaunt=g)
        model = build_model(w, kind, le, lc, tr, make_plasma(), ad)
        seq = list(range(npts)) + [rng.randrange(npts) for _ in range(npts + 2)]
        rng.shuffle(seq)
        prev = None
        for step, i in enumerate(seq):
            comp = [(e, c, prof[(e, c)][0][i], prof[(e, c)][1][i]) for (e, c) in keys]
            st = dict(comp=comp, ne=nes[i], te=tes[i], par=par, has=has, gaunt=g, le=le, lc=lc, tr=tr, window=window)
            base = rng.choice([0.0, 0.5, 3.0])
            pt = w.Point3D(float(i), 0.0, 0.0)
            got, kline, want, floor = reeval_state(w, kind, model, st, pt=pt, base=base)
            fresh, _, _, _ = reeval_state(w, kind, build_model(w, kind, le, lc, tr, make_plasma(), w.MockAD(par, has=has, gaunt=g)), st, pt=pt, base=base)
            desc = dict(model=name, stream='multi-point', point=i, visited_before=seq[:step], incoming_spectrum=base,
                        line=dict(element=tr_constants.ELEMENT_IDS[le], charge=lc, transition=TRANSITIONS[tr]), rate_par=par, rates_present=has,
                        gaunt=g, window=window, species=[(tr_constants.ELEMENT_IDS[e], c) for (e, c) in keys],
                        profiles=dict(ne=nes, te=tes, **{'%s%d' % (tr_constants.ELEMENT_IDS[e], c): prof[(e, c)] for (e, c) in keys}))
            K.add('multipoint:' + kind, kline, got, desc, floor=floor)
            ctx.count('multipoint:%s:%s' % (kind, 'error' if (isinstance(got, str) and got not in ('none',)) else 'none' if got == 'none' else 'emits'))
            ctx.case(key=('multipoint', kind, it, step) if not isinstance(got, str) else None,
                     sample=desc if (it < 5 and step == 3 and kind == 'brems') else None)
            same = (got == fresh) if (isinstance(got, str) or isinstance(fresh, str)) else \
                (len(got) == len(fresh) and all(close(a, b, 1e-12, floor) for a, b in zip(got, fresh)))
            ok = reeval_ok(kind, got, want, floor)
            if not ok or not same:
                shown = got if isinstance(got, str) else got[:3]
                if reeval_ok(kind, fresh, want, floor) and not ok:
                    ctx.fail('C03:%s.emission:multi-point:value-depends-on-previously-evaluated-points' % name,
                             '%s at point %d after visiting %r: %r; a fresh instance gives %r = documented' % (name, i, seq[:step], shown,
                                                                                                           fresh if isinstance(fresh, str) else fresh[:3]), desc)
                elif not ok:
                    ctx.fail('C03:%s.emission:multi-point:differs-from-documented' % name, '%s at point %d: %r, documented %r'
                             % (name, i, shown, want if not isinstance(want, list) else want[:3]), desc)
                else:
                    ctx.fail('C03:%s.emission:multi-point:differs-from-fresh-instance' % name, '%s at point %d after %r: %r, fresh instance %r'
                             % (name, i, seq[:step], shown, fresh if isinstance(fresh, str) else fresh[:3]), desc)
                break
            prev = i


def run_multi_instance(ctx, w, K, n):
    """(b) 2-3 live models of one kind (default-constructed and explicitly configured) on different plasmas / providers,
    evaluated interleaved: each equals its own documented expression whatever the others did"""
    from cherab.core.math.integrators import GaussianQuadrature
    rng = ctx.rng
    for it in range(n):
        kind = REEVAL_KINDS[it % len(REEVAL_KINDS)]
        name = REEVAL_MODEL[kind]
        k_inst = rng.choice([2, 3])
        inst = []
        for j in range(k_inst):
            le = rng.choice([4, 9, 10, 12])
            lc = rng.randint(0, w.znum(le) - 1)
            tr = rng.randrange(len(TRANSITIONS))
            comp = [(e, c, abs(n_) if rng.random() < 0.85 and n_ != 0 else n_, abs(t) or 1.0) for (e, c, n_, t) in rnd_composition(w, rng, le, lc, nmax=5)]
            par = rnd_par(rng)
            par = (abs(par[0]) or 1e-35,) + par[1:]
            g = (rng.choice([0.75, 1.0, 1.5, 2.0]), rng.choice([0.0, 0.125]), 0.0, 0.0)
            has = tuple(int(rng.random() < 0.9) for _ in range(3))
            mn = rng.uniform(200, 600)
            st = dict(comp=comp, ne=10 ** rng.uniform(17, 20), te=10 ** rng.uniform(0.5, 3.5), par=par, has=has, gaunt=g, le=le, lc=lc, tr=tr,
                      window=(mn, mn + rng.uniform(1, 300), rng.choice([1, 2, 5])))
            pl = w.plasma(comp, st['ne'], st['te'])
            ad = w.MockAD(par, has=has, gaunt=g)
            cfg = dict(default=True, rtol=1e-5, user_gaunt=None, lineshape='rec')
            if kind == 'brems':
                # at least two default-constructed (no integrator argument) instances per case; sometimes an explicit one
                if j >= 2 or (j == 1 and rng.random() < 0.3):
                    cfg.update(default=False, rtol=rng.choice([1e-3, 1e-7]))
                if rng.random() < 0.3:
                    cfg['user_gaunt'] = (1.25, 0.0, 0.0, 0.0)
                model = build_model(w, kind, le, lc, tr, pl, ad, gaunt=cfg['user_gaunt'],
                                    integrator=None if cfg['default'] else GaussianQuadrature(relative_tolerance=cfg['rtol']))
            elif kind in ('exc', 'rec', 'cx'):
                if j == k_inst - 1 and rng.random() < 0.5:
                    cfg.update(default=True, lineshape='gaussian')           # default-constructed: GaussianLine
                model = build_model(w, kind, le, lc, tr, pl, ad, lineshape=cfg['lineshape'])
            else:
                model = build_model(w, kind, le, lc, tr, pl, ad)
            inst.append((model, st, cfg, pl, ad))
        order = [j for _ in range(2) for j in range(k_inst)]
        rng.shuffle(order)
        if rng.random() < 0.5:
            order = list(range(k_inst)) + order          # oldest first right after the newest was constructed
        for step, j in enumerate(order):
            model, st, cfg, pl, ad = inst[j]
            base = rng.choice([0.0, 0.5])
            desc = dict(model=name, stream='multi-instance', instance=j, instances=k_inst, evaluation_order=order[:step + 1], config=cfg,
                        incoming_spectrum=base, line=dict(element=tr_constants.ELEMENT_IDS[st['le']], charge=st['lc'], transition=TRANSITIONS[st['tr']]),
                        ne=st['ne'], te=st['te'], rate_par=st['par'], rates_present=st['has'], gaunt=st['gaunt'], window=st['window'],
                        composition=comp_desc(w, st['comp']))
            if cfg['lineshape'] == 'gaussian':
                # default line shape: the wavelength-integrated spectrum over a wide window is the documented radiance (C02)
                wl = ad.wavelength(w.elements[st['le']], st['lc'], TRANSITIONS[st['tr']])
                sp = w.Spectrum(wl - 40.0, wl + 40.0, 4000)
                sp.samples[:] = base
                stt, res = call(model.emission, w.Point3D(0, 0, 0), w.Vector3D(0, 0, 1), sp)
                kk = kind
                want = doc_cx(w, st['par'], st['comp'], st['ne'], st['te'], st['le'], st['lc'], st['tr']) if kk == 'cx' else \
                    doc_line(st['par'], kk, st['comp'], st['ne'], st['te'], st['le'], st['lc'], st['tr'], st['lc'] if kk == 'exc' else st['lc'] + 1)
                tot = float(np.sum(sp.samples - base)) * float(sp.delta_wavelength) if stt == 'ok' else None
                ok = (stt == 'RuntimeError') if want is None else (stt == 'ok' and close(tot, want, 1e-6, 1e-9 * abs(base) * 80.0 + 1e-300))
                got = stt if stt != 'ok' else [tot]
                ctx.count('multi-instance:%s:default-lineshape' % kind)
            else:
                got, kline, want, floor = reeval_state(w, kind, model, st, cfg['user_gaunt'], base=base, rtol=cfg['rtol'])
                K.add('multi-instance:' + kind, kline, got, desc, floor=floor)
                ok = reeval_ok(kind, got, want, floor, cfg['rtol'])
                ctx.count('multi-instance:%s:%s' % (kind, 'default' if cfg['default'] else 'explicit'))
            ctx.case(key=('multi-instance', kind, it, step) if not isinstance(got, str) else None,
                     sample=desc if (it < 5 and step == 1 and kind == 'brems') else None)
            if not ok:
                ctx.fail('C03:%s.emission:multi-instance:differs-from-own-documented-expression' % name,
                         '%s instance %d of %d (evaluation order %r): %r, its documented value %r'
                         % (name, j, k_inst, order[:step + 1], got if isinstance(got, str) else got[:3], want if not isinstance(want, list) else want[:3]), desc)
                break


# ------------------------------------------------------------------------------------------------------------------
#  round 5: a collected (dead) observer registered before the live model; equal-but-not-identical element / species copies
# ------------------------------------------------------------------------------------------------------------------
def rnd_state(w, rng, kind, positive=0.85):
    le = rng.choice([4, 9, 10, 12])
    lc = rng.randint(0, w.znum(le) - 1)
    comp = [(e, c, abs(n_) if rng.random() < positive and n_ != 0 else n_, abs(t) or 1.0) for (e, c, n_, t) in rnd_composition(w, rng, le, lc, nmax=6)]
    if kind == 'trp':
        # make the hydrogen-CX term matter: both ion stages and a hydrogen-isotope neutral present
        keys = [(e, c) for (e, c, _, _) in comp]
        for need in ((le, lc), (le, lc + 1), (rng.choice([0, 1, 2, 3]), 0)):
            if need not in keys:
                comp.append((need[0], need[1], 10 ** rng.uniform(15, 19), 10.0))
        comp = [(e, c, abs(n_) or 1e16 if (c == 0 and w.znum(e) == 1) or (e, c) == (le, lc + 1) else n_, t) for (e, c, n_, t) in comp]
    par = rnd_par(rng)
    mn = rng.uniform(200, 600)
    return dict(comp=comp, ne=10 ** rng.uniform(17, 20), te=10 ** rng.uniform(0.5, 3.5), par=(abs(par[0]) or 1e-35,) + par[1:],
                has=(1, 1, 1) if kind == 'trp' else tuple(int(rng.random() < 0.9) for _ in range(3)),
                gaunt=(rng.choice([0.75, 1.0, 1.5]), rng.choice([0.0, 0.125]), 0.0, 0.0), le=le, lc=lc, tr=rng.randrange(len(TRANSITIONS)),
                window=(mn, mn + rng.uniform(1, 300), rng.choice([1, 2, 5])))


def state_desc(w, name, st, **extra):
    return dict(model=name, line=dict(element=tr_constants.ELEMENT_IDS[st['le']], charge=st['lc'], transition=TRANSITIONS[st['tr']]),
                ne=st['ne'], te=st['te'], rate_par=st['par'], rates_present=st['has'], gaunt=st['gaunt'], window=st['window'],
                composition=comp_desc(w, st['comp']), **extra)


def run_dead_observer(ctx, w, K, n):
    """(a) models created on the same plasma *before* the model under test are dropped and garbage collected; then the
    plasma changes (species density / whole composition / electrons) and the survivor, whose cache was populated, is
    evaluated again: documented expression for the current plasma (S), model fed the current values (K)"""
    import gc
    rng = ctx.rng
    for it in range(n):
        kind = REEVAL_KINDS[it % len(REEVAL_KINDS)]
        name = REEVAL_MODEL[kind]
        st = rnd_state(w, rng, kind)
        le, lc, tr = st['le'], st['lc'], st['tr']
        pl = w.plasma(st['comp'], st['ne'], st['te'])
        ad = w.MockAD(st['par'], has=st['has'], gaunt=st['gaunt'])
        layout = rng.choice(['V S', 'V V S', 'L V S', 'V S L', 'V L V S', 'V V V S L'])     # V victim, L live bystander, S survivor
        objs, survivor = [], None
        for tag in layout.split():
            k2 = kind if tag == 'S' else rng.choice(REEVAL_KINDS)
            m = build_model(w, k2, le, lc, tr, pl, ad)
            objs.append((tag, m))
            if tag == 'S':
                survivor = m
        got, kline, want, floor = reeval_state(w, kind, survivor, st)
        if not reeval_ok(kind, got, want, floor):
            ctx.count('dead-observer:fresh-state-already-differs')
            continue
        for tag, m in objs:                                  # some victims / bystanders have populated caches too
            if tag != 'S' and rng.random() < 0.5:
                call(m.emission, w.Point3D(0, 0, 0), w.Vector3D(0, 0, 1), w.Spectrum(400.0, 500.0, 2))
        live = [m for tag, m in objs if tag != 'V']
        del objs, m
        gc.collect()
        history = ['fresh', 'collected(%s)' % layout]
        ops = rng.choice([['density'], ['composition'], ['density', 'composition'], ['composition', 'density'], ['electrons', 'density']])
        for op in ops:
            if op == 'density':
                # change a species the model caches (target / receiver / donor) where possible
                cands = [j for j, (e_, c_, _, _) in enumerate(st['comp']) if (e_, c_) in ((le, lc), (le, lc + 1)) or c_ == 0] or list(range(len(st['comp'])))
                j = rng.choice(cands)
                e_, c_, n_, t_ = st['comp'][j]
                n2, t2 = abs(n_) * rng.choice([7.0, 0.25, 3.0]) + 1e15, t_ * rng.choice([1.0, 2.0])
                pl.composition.add(w.Species(w.elements[e_], c_, w.Dist(n2, t2)))
                st = dict(st, comp=st['comp'][:j] + [(e_, c_, n2, t2)] + st['comp'][j + 1:])
            elif op == 'composition':
                comp2 = rnd_state(w, rng, kind)['comp'] if rng.random() < 0.3 else \
                    [(e_, c_, abs(n_) * rng.choice([5.0, 0.2]) + 1e15, t_) for (e_, c_, n_, t_) in st['comp']] + \
                    ([(13, rng.randint(1, 18), 10 ** rng.uniform(15, 18), 20.0)] if all(e_ != 13 for (e_, _, _, _) in st['comp']) else [])
                pl.composition = [w.Species(w.elements[e_], c_, w.Dist(n_, t_)) for (e_, c_, n_, t_) in comp2]
                st = dict(st, comp=comp2)
            else:
                ne2, te2 = 10 ** rng.uniform(17, 20), 10 ** rng.uniform(0.5, 3.5)
                pl.electron_distribution = w.Dist(ne2, te2)
                st = dict(st, ne=ne2, te=te2)
            history.append(op)
            got, kline, want, floor = reeval_state(w, kind, survivor, st)
            desc = state_desc(w, name, st, stream='dead-observer', registration_order=layout, history=list(history))
            K.add('dead-observer:' + kind, kline, got, desc, floor=floor)
            ctx.count('dead-observer:%s:%s' % (kind, op))
            ctx.case(key=('dead-observer', kind, it, len(history)) if not isinstance(got, str) else None,
                     sample=desc if (it < 5 and kind == 'trp') else None)
            if not reeval_ok(kind, got, want, floor):
                ctx.fail('C03:%s.emission:after-%s-following-collected-model:differs-from-documented-for-current-state'
                         % (name, {'density': 'species-density-change', 'composition': 'composition-replaced', 'electrons': 'electron-distribution-change'}[op]),
                         '%s (models created on the plasma in order %s, the V ones deleted and collected) after %s: %r, documented for the current plasma %r'
                         % (name, layout, ' -> '.join(history), got if isinstance(got, str) else got[:3], want if not isinstance(want, list) else want[:3]), desc)
                break
        del live


def run_copies(ctx, w, K, n):
    """(b) the plasma's elements / species / the model's line are equal-but-not-identical copies (copy, deepcopy, pickle
    round trip) of the library objects: same emission as with the library objects, = documented (S), = model (K)"""
    import copy
    import pickle
    rng = ctx.rng
    HOW = ('library', 'copy', 'deepcopy', 'pickle')

    def variant(obj, how):
        return obj if how == 'library' else copy.copy(obj) if how == 'copy' else copy.deepcopy(obj) if how == 'deepcopy' else pickle.loads(pickle.dumps(obj))
    for it in range(n):
        kind = REEVAL_KINDS[it % len(REEVAL_KINDS)]
        name = REEVAL_MODEL[kind]
        st = rnd_state(w, rng, kind)
        le, lc, tr = st['le'], st['lc'], st['tr']
        hows = [rng.choice(HOW[1:]) if rng.random() < 0.8 else 'library' for _ in st['comp']]
        how_model = rng.choice(HOW)
        how_species = [rng.choice(['new', 'copy']) for _ in st['comp']]

        def plasma(use_copies):
            pl = w.Plasma()
            pl.electron_distribution = w.Dist(st['ne'], st['te'])
            sp = []
            for (e_, c_, n_, t_), how, hs in zip(st['comp'], hows, how_species):
                s_ = w.Species(variant(w.elements[e_], how) if use_copies else w.elements[e_], c_, w.Dist(n_, t_))
                sp.append(copy.copy(s_) if (use_copies and hs == 'copy') else s_)
            pl.composition = sp
            return pl
        results = []
        for use_copies in (False, True):
            elem = variant(w.elements[le], how_model) if use_copies else w.elements[le]
            line = w.Line(elem, lc, TRANSITIONS[tr])
            if use_copies and rng.random() < 0.5:
                line = variant(line, rng.choice(HOW[1:]))
            m = build_model(w, kind, le, lc, tr, plasma(use_copies), w.MockAD(st['par'], has=st['has'], gaunt=st['gaunt']), elem=elem, line=line)
            results.append(reeval_state(w, kind, m, st))
        (got_l, _, want, floor), (got_c, kline, _, _) = results
        desc = state_desc(w, name, st, stream='copied-elements', element_copies=hows, species_copies=how_species, model_element=how_model)
        K.add('copies:' + kind, kline, got_c, desc, floor=floor)
        ctx.count('copies:%s' % kind)
        ctx.case(key=('copies', kind, it) if not isinstance(got_c, str) else None, sample=desc if (it < 5 and kind == 'trp') else None)
        same = (got_c == got_l) if (isinstance(got_c, str) or isinstance(got_l, str)) else \
            (len(got_c) == len(got_l) and all(close(a, b, 1e-12, floor) for a, b in zip(got_c, got_l)))
        shown = got_c if isinstance(got_c, str) else got_c[:3]
        if not reeval_ok(kind, got_c, want, floor):
            ctx.fail('C03:%s.emission:copied-elements:differs-from-documented' % name,
                     '%s on a plasma whose elements are %r copies of the library objects: %r, documented %r (library objects give %r)'
                     % (name, sorted(set(hows)), shown, want if not isinstance(want, list) else want[:3], got_l if isinstance(got_l, str) else got_l[:3]), desc)
        elif not same:
            ctx.fail('C03:%s.emission:copied-elements:differs-from-library-objects' % name,
                     '%s: %r with copied elements, %r with the library objects' % (name, shown, got_l if isinstance(got_l, str) else got_l[:3]), desc)

# ------------------------------------------------------------------------------------------------------------------
def compare(ctx, K, outs):
    for line, obs, (kind, desc, floor), o in zip(K.lines, K.obs, K.meta, outs):
        if kind == 'gaunt':
            _, br, val = obs
            t = o.split()
            agree = len(t) == 2 and (br is None or t[0] == str(br)) and (br is None or close(b2f(t[1]), val, 1e-9, 1e-12))
            shown = 'branch %s value %r' % (br, val)
        elif kind == 'gsel':      # model tokens are out:gaunt:userProvided:loaded; the last two are not observable from Python
            mt = [t.split(':') for t in o.split()]
            agree = [':'.join(t[:2]) for t in mt] == [':'.join(t.split(':')[:2]) for t in obs.split()]
            shown = obs
        elif isinstance(obs, str):
            agree = (o == obs)
            shown = obs
        else:
            try:
                mod = [b2f(t) for t in o.split()]
            except ValueError:
                mod = None
            agree = mod is not None and len(mod) == len(obs) and all(close(a, b, 1e-9, floor) for a, b in zip(mod, obs))
            shown = repr(obs[:4])
            if not agree and mod is not None:
                o = repr(mod[:4])
        if not agree:
            ctx.disagreements += 1
            ctx.count('disagreement:' + kind)
            ctx.broke('correspondence', 'C03 stream ' + kind, dict(line=line[:400], model=o[:200], implementation=shown, input=desc))


def run(ctx):
    ctx.rule = ('random plasma compositions of 1..8 species over 14 elements/isotopes (neutrals, bare nuclei, H/protium/D/T, other charge states '
                'of the line element), densities/temperatures incl. 0, -0.0 and negative, mock rates distinct per (accessor, element, charge, donor, '
                'transition) and dependent on evaluate() arguments, incl. zero/negative/None coefficients; a case is distinct by (model, line, set of '
                'species keys, guard class) and non-trivial when the model actually emits (no guard fired); re-evaluation stream: the same model object '
                'is evaluated fresh and again after each of provider swap / species density change / composition replacement / electron change (random order); '
                'multi-point stream: one instance over tabulated non-uniform profiles (each species / electrons / temperatures independently '
                'positive, 0 or negative per point), points revisited in random order, non-empty incoming spectrum; multi-instance stream: 2-3 live '
                'models of one kind (default-constructed and explicit) on different plasmas/providers evaluated interleaved; dead-observer stream: models '
                'created on the plasma before the model under test are deleted and collected, then the plasma changes; copies stream: elements / '
                'species / lines are copy, deepcopy or pickle round trips of the library objects')
    ctx.trusted += ['pi, sqrt, exp, log, log10 are parameters of the model (libm at Float); the provider rate functions, the Gaunt-factor '
                    'interpolator (raysect Interpolator2DArray) and the Gauss-Legendre nodes (scipy roots_legendre) are parameters',
                    'hand-written CODATA-2018 table lean/Cherab/Model/Codata.lean (and its copy in harness/props/c03.py)',
                    'Composition is a dict keyed by (element, charge): species keys are unique; Species has no __eq__ (identity comparison)',
                    'translator harness/translators/constants.py (regex over constants.pyx, gaunt.pyx DEF EULER_GAMMA, thermal_cx.pyx donor loop, '
                    'total_radiated_power.pyx hydrogen tuple); validated by the correspondence run']
    ctx.assumptions += ['line-shape models are normalised (C02): the wavelength-integrated line emission is the radiance passed to add_line',
                        'finite inputs; random Gaunt-factor inputs within 1e-12 (relative) of a branch boundary are skipped (counted); the boundaries are hit exactly in a separate stream',
                        'accuracy of the Gauss-Legendre bin integral and Gaunt-factor table values are checked by S only (partial)']
    gen = tr_constants.generate()
    ctx.extra['translated'] = dict(cx_density_guard=gen['cx_density_guard'], cx_temperature_guard=gen['cx_temperature_guard'],
                                   trp_hydrogen=gen['trp_hydrogen'], constants=len(gen['literals']),
                                   brems_guard_tests_gaunt=gen['brems_guard_tests_gaunt'])
    ctx.lean_check(['Cherab.Props.C03', 'Cherab.Props.C03Gaunt'], 'Cherab/Audit/C03.lean')

    w = World_.get()
    K = Cases(ctx)
    replay_corpus(ctx, w)
    run_cx_edges(ctx, w, K)
    run_line_models(ctx, w, K, ctx.n(3000, 40000))
    run_trp(ctx, w, K, ctx.n(3000, 40000))
    run_brems(ctx, w, K, ctx.n(300, 4000))
    run_gaunt(ctx, w, K, ctx.n(800, 10000))
    run_radfn(ctx, w, K, ctx.n(60, 600))
    unset_ok = run_isolated(ctx)
    run_gaunt_select(ctx, w, K, ctx.n(400, 6000), unset_is_safe=unset_ok)
    run_end_to_end(ctx, w, ctx.n(4, 40))
    run_reeval(ctx, w, K, ctx.n(250, 4000))
    run_multipoint(ctx, w, K, ctx.n(200, 3000))
    run_multi_instance(ctx, w, K, ctx.n(150, 2500))
    run_dead_observer(ctx, w, K, ctx.n(150, 2500))
    run_copies(ctx, w, K, ctx.n(150, 2500))
    outs = ctx.driver(K.lines)
    ctx.traces = len(K.lines)
    compare(ctx, K, outs)


def replay_corpus(ctx, w):
    import glob
    import json
    import os
    from harness.vlib.util import VERIF
    for p in sorted(glob.glob(os.path.join(VERIF, 'corpus', 'C03', '*.json'))):
        replay_one(ctx, w, json.load(open(p)))
        ctx.count('corpus')


def replay_one(ctx, w, r):
    """re-execute a stored failing input (replay dict of ctx.fail or corpus file) against the real code"""
    r = r.get('replay', r)
    ids = tr_constants.ELEMENT_IDS
    if 'composition' not in r:
        return None
    comp = [(ids.index(s['element']), s['charge'], s['density'], s['temperature']) for s in r['composition']]
    pt, dr = w.Point3D(0, 0, 0), w.Vector3D(0, 0, 1)
    par = tuple(r['rate_par'])
    model = r.get('model')
    if model in ('ExcitationLine', 'RecombinationLine', 'ThermalCXLine'):
        le, lc = ids.index(r['line']['element']), r['line']['charge']
        t = r['line']['transition']
        t = tuple(t) if isinstance(t, list) else t
        tr = TRANSITIONS.index(t)
        kind = dict(ExcitationLine='exc', RecombinationLine='rec', ThermalCXLine='cx')[model]
        cls = getattr(w.cm, model)
        got, info = emit_line(w, cls, w.Line(w.elements[le], lc, TRANSITIONS[tr]), comp, r['ne'], r['te'], par, pt, dr)
        want = doc_cx(w, par, comp, r['ne'], r['te'], le, lc, tr) if kind == 'cx' else \
            doc_line(par, kind, comp, r['ne'], r['te'], le, lc, tr, lc if kind == 'exc' else lc + 1)
        desc = dict(r, replayed=True)
        check_line_oracle(ctx, w, kind, cls, got, want, info, desc, comp, r['ne'], r['te'], par, le, lc, tr, par[0] >= 0)
        ctx.case(key=('replay', model, json_key(r)))
        return got, want
    if model == 'TotalRadiatedPower' and 'window' in r:
        e, c = ids.index(r['element']), r['charge']
        mn, mx, bins = r['window']
        has = tuple(r.get('rates_present', (1, 1, 1)))
        got, _ = emit_trp(w, comp, r['ne'], r['te'], par, has, e, c, mn, mx, bins, 0.0, pt, dr)
        want = doc_trp(w, par, has, comp, r['ne'], r['te'], mn, mx, e, c)
        val = 0.0 if got == 'none' else got
        ctx.case(key=('replay', model, json_key(r)))
        if isinstance(val, float) and want is not None and not close(val, want, 1e-9):
            alt = doc_trp(w, par, has, comp, r['ne'], r['te'], mn, mx, e, c, hyd=[0, 2, 3])
            sig = SIG_TRP_PROTIUM if close(val, alt, 1e-9) else 'C03:TotalRadiatedPower:emission-differs-from-documented'
            ctx.fail(sig, 'replay: emission %r, documented %r' % (val, want), dict(r, replayed=True))
        return got, want
    return None


def json_key(r):
    import json
    return json.dumps(r, sort_keys=True, default=str)[:300]


def replay(ctx, path):
    import json
    r = json.load(open(path))
    print(json.dumps(r, indent=1, default=str)[:3000])
    tr_constants.generate()
    w = World_.get()
    res = replay_one(ctx, w, r)
    print('replayed on the real code: (implementation, documented) =', res)
    if res is None:
        run(ctx)            # not a single-model replay (e.g. a broken obligation): re-run the whole check
    return ctx.finish()
