import Cherab.Props.C18TableFresh
open Cherab.Props.C18Table
#print axioms tables_ok
#print axioms history_eq_fresh_all
