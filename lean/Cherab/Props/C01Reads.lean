import Cherab.Props.C01Table
import Cherab.Model.CherabDeps
import Cherab.Gen.NotifyEdges
import Cherab.Gen.CacheReads

/-!
# C01 — the read sets extracted from the fill functions are inside the dependency table and covered by the graph

`Cherab.Gen.CacheReads` (harness/translators/cache_reads.py) lists, per derived state, the property setters and scene-graph
placements whose value the cache-filling functions of the .pyx sources read (`_populate_cache` of the seven emission models,
`_calc_attenuation` / `_beam_attenuation` / `_beam_stopping` / `_populate_stopping_data_cache` of SingleRayAttenuator,
`Beam._generate_geometry`, `Beam._configure_geometry`, `Plasma._configure_geometry`).  It is regenerated on every run.
Until round 6 the completeness of the hand-written table `CherabDeps.deps` was only validated by search; now

* `reads_subset_deps` — every generated read is a dependency of the hand-written table (decided);
* `reads_covered` — every generated read reaches its cache in the generated notification graph (decided, no hand-written
  table on either side);
* `no_stale_reads` — hence the no-stale theorem for the protocol whose dependency relation is the generated one;
* `coveredBy_of_rows_subset` — coverage is monotone in the table (for all graphs and tables), which is why the first two
  statements are consistent: `reads_covered_via_deps` re-derives the second from the first and `covered_cherab`.
-/
namespace Cherab.Props.C01
open Cherab.NotifyGraph Cherab.CherabDeps Cherab.Gen.NotifyEdges Cherab.Gen.CacheReads

/-- executable inclusion of dependency tables: every row of `t'` lies inside what `t` lists for the same cache -/
def rowsSubset (t' t : DepTable) : Bool := t'.all fun e => e.2.all fun p => (depsOf t e.1).contains p

/-- coverage is monotone: a table whose rows are inside a covered table is covered (any graph, any tables) -/
theorem coveredBy_of_rows_subset (names : List String) (es : List (Nat × Nat)) (fuel : Nat) (t t' : DepTable)
    (h : coveredBy names es fuel t = true) (hs : rowsSubset t' t = true) : coveredBy names es fuel t' = true := by
  unfold coveredBy at h ⊢
  unfold rowsSubset at hs
  rw [List.all_eq_true] at h hs ⊢
  intro e he
  have hse := hs e he
  rw [List.all_eq_true] at hse ⊢
  intro p hp
  have hmem := hse p hp
  simp only [List.contains_iff_mem, depsOf, List.mem_flatMap, List.mem_filter, beq_iff_eq] at hmem
  obtain ⟨r, ⟨hr, hrc⟩, hpr⟩ := hmem
  have := h r hr
  rw [List.all_eq_true] at this
  rw [← hrc]
  exact this p hpr

example : rowsSubset [("c", ["p"])] [("c", ["q", "p"])] = true := by decide
example : rowsSubset [("c", ["p"])] [("d", ["p"])] = false := by decide
example : coveredBy ["p", "q", "c"] [(0, 2), (1, 2)] 3 [("c", ["p"])] = true :=
  coveredBy_of_rows_subset _ _ _ [("c", ["q", "p"])] _ (by decide) (by decide)

/-- the translator found every fill function and every cache node -/
theorem no_read_problems : readProblems = [] := by decide

/-- non-vacuity of the generated table: eleven derived states, each with at least three reads -/
theorem reads_table_nonempty : cacheReads.length = 11 ∧ cacheReads.all (fun e => decide (3 ≤ e.2.length)) = true := by decide

/-- the hand-written dependency table misses nothing the fill functions syntactically read -/
theorem reads_subset_deps : rowsSubset cacheReads deps = true := by decide +kernel

/-- every read of every fill function is invalidated by the code's own call / notification chains
(source-derived on both sides: no hand-written table) -/
theorem reads_covered : coveredBy nodeNames edges fuel cacheReads = true := by decide +kernel

/-- the same, re-derived from `covered_cherab` by monotonicity -/
theorem reads_covered_via_deps : coveredBy nodeNames edges fuel cacheReads = true :=
  coveredBy_of_rows_subset nodeNames edges fuel deps cacheReads covered_cherab reads_subset_deps

/-- C01 for the dependency relation extracted from the source: any history, any derived state -/
theorem no_stale_reads (ops : List (Inval.Op String String)) (c : String) :
    let pr := protoOf nodeNames edges fuel cacheReads
    let s := Inval.run pr Inval.init ops
    (Inval.step pr s (.obs c)).2 = some ((pr.deps c).map s.ver) :=
  no_stale_of_coveredBy nodeNames edges fuel cacheReads reads_covered ops c

end Cherab.Props.C01
