"""C08 translator: re-reads the literals that the text layer of the ADF model transcribes — every regular expression,
every constant column slice, every readvalues(…, n, per_line) call, the charge-correction list and the unit factors —
from the anchored sources (Python `ast`, nothing is executed except `re.match` of the resolved-file probe on two fixed
strings) and writes lean/Cherab/Gen/AdfLex.lean.  Keys are `<file>:<function>:<ordinal>` so that moving code by a few
lines is not a change, editing a pattern is."""
import ast
import os
import re

from harness.vlib import lean
from harness.vlib.util import LEAN, REPO

FILES = ['cherab/openadas/parse/adf11.py', 'cherab/openadas/parse/adf12.py', 'cherab/openadas/parse/adf15.py',
         'cherab/openadas/parse/adf21.py', 'cherab/openadas/parse/adf22.py', 'cherab/openadas/parse/utility.py',
         'cherab/openadas/install.py']
RE_FUNCS = {'match', 'search', 'sub', 'split', 'compile', 'fullmatch', 'findall'}


def lean_str(s):
    out = ['"']
    for ch in s:
        if ch == '\\':
            out.append('\\\\')
        elif ch == '"':
            out.append('\\"')
        elif ch == '\n':
            out.append('\\n')
        elif ch == '\t':
            out.append('\\t')
        else:
            out.append(ch)
    out.append('"')
    return ''.join(out)


class Scan(ast.NodeVisitor):
    def __init__(self, fname):
        self.fname = os.path.basename(fname)
        self.func = ['<module>']
        self.regexes = []       # (key, pattern)
        self.slices = []        # (key, lo, hi)
        self.readvalues = []    # (key, 'n per_line type')
        self.probe = None
        self.counts = {}
        self.inlists = []       # (key, [strings])  `x in ["a", "b"]`
        self.divs = []          # (key, constant)    `… / 10`
        self.norms = []         # (key, text)        normalisation=… keyword arguments

    def key(self, kind):
        k = (self.func[-1], kind)
        self.counts[k] = self.counts.get(k, 0) + 1
        return '%s:%s:%s%d' % (self.fname, self.func[-1], kind, self.counts[k])

    def visit_FunctionDef(self, node):
        self.func.append(node.name)
        self.generic_visit(node)
        self.func.pop()

    def visit_Assign(self, node):
        # pattern variables of adf15.py:  xxx_match = r'…'
        if (len(node.targets) == 1 and isinstance(node.targets[0], ast.Name) and node.targets[0].id.endswith('_match')
                and isinstance(node.value, ast.Constant) and isinstance(node.value.value, str)):
            self.regexes.append(('%s:%s:%s' % (self.fname, self.func[-1], node.targets[0].id), node.value.value))
        self.generic_visit(node)

    def visit_Call(self, node):
        f = node.func
        if isinstance(f, ast.Attribute) and isinstance(f.value, ast.Name) and f.value.id == 're' and f.attr in RE_FUNCS:
            if node.args and isinstance(node.args[0], ast.Constant) and isinstance(node.args[0].value, str):
                pat = node.args[0].value
                subject = ast.unparse(node.args[-1]) if len(node.args) > 1 else ''
                if f.attr == 'match' and subject == 'lines[3]':
                    self.probe = pat
                else:
                    self.regexes.append((self.key('re.' + f.attr), pat))
        if isinstance(f, ast.Name) and f.id == 'readvalues':
            args = [ast.unparse(a) for a in node.args[1:]] + ['%s=%s' % (k.arg, ast.unparse(k.value)) for k in node.keywords]
            self.readvalues.append((self.key('readvalues'), ' '.join(args)))
        for k in node.keywords:
            if k.arg == 'normalisation':
                self.norms.append((self.key('normalisation'), ast.unparse(k.value)))
        self.generic_visit(node)

    def visit_Subscript(self, node):
        s = node.slice
        if isinstance(s, ast.Slice) and s.lower is not None and s.upper is not None:
            lo, hi = s.lower, s.upper
            if isinstance(lo, ast.Constant) and isinstance(hi, ast.Constant) and isinstance(lo.value, int) and isinstance(hi.value, int):
                self.slices.append((self.key('slice'), lo.value, hi.value))
            elif not (isinstance(lo, ast.Constant) or isinstance(hi, ast.Constant)):
                txt = ast.unparse(node)
                if 'line[' in txt:
                    self.regexes.append((self.key('fieldslice'), txt))
        self.generic_visit(node)

    def visit_Compare(self, node):
        if len(node.ops) == 1 and isinstance(node.ops[0], ast.In) and isinstance(node.comparators[0], (ast.List, ast.Tuple)):
            els = node.comparators[0].elts
            if els and all(isinstance(e, ast.Constant) and isinstance(e.value, str) for e in els):
                self.inlists.append((self.key('in'), [e.value for e in els]))
        self.generic_visit(node)

    def visit_BinOp(self, node):
        if isinstance(node.op, ast.Div) and isinstance(node.right, ast.Constant):
            self.divs.append((self.key('div'), repr(node.right.value)))
        self.generic_visit(node)


def conversion_factors():
    src = open(os.path.join(REPO, 'cherab/core/utility/conversion.py')).read()
    out = []
    tree = ast.parse(src)
    for node in tree.body:
        if isinstance(node, ast.ClassDef) and node.name in ('Cm3ToM3', 'PerCm3ToPerM3', 'AngstromToNm'):
            for st in node.body:
                if isinstance(st, ast.Assign) and ast.unparse(st.targets[0]) == 'conversion_factor':
                    out.append((node.name, ast.unparse(st.value)))
    return sorted(out)


def dispatch_table():
    """install_files: `if adf.lower() == '<key>': for args in configuration[adf]: install_x(*args, download=…, …)`
    -> [(key, function name, 'kw=value …')]; anything of another shape is recorded as ('?', source text) so that the
    pinned table stops matching"""
    tree = ast.parse(open(os.path.join(REPO, 'cherab/openadas/install.py')).read())
    table, installers = [], []
    for node in tree.body:
        if isinstance(node, ast.FunctionDef) and node.name.startswith('install_adf'):
            # installer -> parser called, notation class, repository update functions called (with their last argument)
            parsers, notation, updates = [], [], []
            for sub in ast.walk(node):
                if isinstance(sub, ast.Call):
                    fn = ast.unparse(sub.func)
                    if fn.startswith('parse_adf'):
                        parsers.append(fn)
                    elif fn == '_notation_adf11_adas2cherab' and len(sub.args) == 2:
                        notation.append(ast.unparse(sub.args[1]).strip('"\''))
                    elif fn.startswith('repository.update_'):
                        updates.append(fn[len('repository.'):] + '(' + ','.join(ast.unparse(a) for a in sub.args[1:]) + ')')
            installers.append((node.name, ' '.join(parsers), ' '.join(notation), ' '.join(updates)))
        if isinstance(node, ast.FunctionDef) and node.name == 'install_files':
            loops = [n for n in node.body if isinstance(n, ast.For)]
            if len(loops) != 1 or ast.unparse(loops[0].iter) != 'configuration' or len(node.body) != 1:
                table.append(('?', 'install_files body', ast.unparse(node)[:200]))
                continue
            var = ast.unparse(loops[0].target)
            for st in loops[0].body:
                ok = False
                if (isinstance(st, ast.If) and not st.orelse and isinstance(st.test, ast.Compare) and len(st.test.ops) == 1
                        and isinstance(st.test.ops[0], ast.Eq) and ast.unparse(st.test.left) == var + '.lower()'
                        and isinstance(st.test.comparators[0], ast.Constant) and len(st.body) == 1 and isinstance(st.body[0], ast.For)
                        and ast.unparse(st.body[0].iter) == 'configuration[%s]' % var and len(st.body[0].body) == 1
                        and isinstance(st.body[0].body[0], ast.Expr) and isinstance(st.body[0].body[0].value, ast.Call)):
                    call = st.body[0].body[0].value
                    argv = ast.unparse(st.body[0].target)
                    if (isinstance(call.func, ast.Name) and len(call.args) == 1 and isinstance(call.args[0], ast.Starred)
                            and ast.unparse(call.args[0].value) == argv):
                        kws = ' '.join('%s=%s' % (k.arg, ast.unparse(k.value)) for k in call.keywords)
                        table.append((st.test.comparators[0].value, call.func.id, kws))
                        ok = True
                if not ok:
                    table.append(('?', 'unrecognised', ast.unparse(st)[:200]))
    return table, installers


def scan():
    regexes, slices, rvs, inlists, divs, norms = [], [], [], [], [], []
    probe = None
    for rel in FILES:
        sc = Scan(rel)
        sc.visit(ast.parse(open(os.path.join(REPO, rel)).read()))
        regexes += sc.regexes
        slices += sc.slices
        rvs += sc.readvalues
        inlists += sc.inlists
        divs += sc.divs
        norms += sc.norms
        if sc.probe is not None:
            probe = sc.probe
    table, installers = dispatch_table()
    return dict(regexes=regexes, slices=slices, readvalues=rvs, inlists=inlists, divs=divs, norms=norms, probe=probe,
                factors=conversion_factors(), dispatch=table, installers=installers)


def probe_accepts_minus(pat):
    """does the resolved-file probe accept a data line starting with a negative number (and still reject dashes)?"""
    if pat is None:
        return False
    try:
        return re.match(pat, '  -0.69897  -0.52288\n') is not None and re.match(pat, '-' * 80 + '\n') is None \
            and re.match(pat, '   7.69897   8.00000\n') is not None
    except re.error:
        return False


def render(d):
    L = ['/- generated by harness/translators/adf_lex.py from /repo — do not edit -/', 'namespace Cherab.Gen.AdfLex', '']
    L.append('/-- the resolved-file probe `re.match(<this>, lines[3])` of parse_adf11 -/')
    L.append('def probeRegex : String := %s' % lean_str(d['probe'] or ''))
    L.append('/-- it matches a data line that starts with a negative number -/')
    L.append('def probeAcceptsMinus : Bool := %s' % ('true' if probe_accepts_minus(d['probe']) else 'false'))
    L.append('')
    L.append('def regexes : List (String × String) := [')
    L.append(',\n'.join('  (%s, %s)' % (lean_str(k), lean_str(v)) for k, v in d['regexes']))
    L.append(']')
    L.append('')
    L.append('def slices : List (String × Nat × Nat) := [')
    L.append(',\n'.join('  (%s, %d, %d)' % (lean_str(k), a, b) for k, a, b in d['slices']))
    L.append(']')
    L.append('')
    L.append('def readvaluesCalls : List (String × String) := [')
    L.append(',\n'.join('  (%s, %s)' % (lean_str(k), lean_str(v)) for k, v in d['readvalues']))
    L.append(']')
    L.append('')
    L.append('def membershipLists : List (String × List String) := [')
    L.append(',\n'.join('  (%s, [%s])' % (lean_str(k), ', '.join(lean_str(x) for x in v)) for k, v in d['inlists']))
    L.append(']')
    L.append('')
    L.append('def divisions : List (String × String) := [')
    L.append(',\n'.join('  (%s, %s)' % (lean_str(k), lean_str(v)) for k, v in d['divs']))
    L.append(']')
    L.append('')
    L.append('def normalisations : List (String × String) := [')
    L.append(',\n'.join('  (%s, %s)' % (lean_str(k), lean_str(v)) for k, v in d['norms']))
    L.append(']')
    L.append('')
    L.append('def conversionFactors : List (String × String) := [')
    L.append(',\n'.join('  (%s, %s)' % (lean_str(k), lean_str(v)) for k, v in d['factors']))
    L.append(']')
    L.append('')
    L.append('/-- install_files: configuration key (compared after `.lower()`) → installer called → keyword arguments passed on -/')
    L.append('def dispatch : List (String × String × String) := [')
    L.append(',\n'.join('  (%s, %s, %s)' % (lean_str(k), lean_str(f), lean_str(kw)) for k, f, kw in d['dispatch']))
    L.append(']')
    L.append('')
    L.append('/-- the `install_adf*` functions defined in install.py, each with: parser called, notation class passed to `_notation_adf11_adas2cherab`, repository update calls -/')
    L.append('def installers : List (String × String × String × String) := [')
    L.append(',\n'.join('  (%s, %s, %s, %s)' % tuple(lean_str(x) for x in row) for row in d['installers']))
    L.append(']')
    L.append('')
    L.append('end Cherab.Gen.AdfLex')
    return '\n'.join(L) + '\n'


def run():
    d = scan()
    text = render(d)
    changed = lean.write_if_changed(os.path.join(LEAN, 'Cherab', 'Gen', 'AdfLex.lean'), text)
    return d, changed


if __name__ == '__main__':
    d, ch = run()
    print('changed' if ch else 'unchanged', len(d['regexes']), 'regexes', len(d['slices']), 'slices')
