import Cherab.Props.C10

/-!
# C10, round 6: the shrunk bounding primitives keep every sampled index inside the voxel map; the 1D/2D pipeline mean

* `box_points_cell_in_map` — raytransfer.py:160-175: for EVERY point of the `Box(Point3D(0,0,0), Point3D(xmax-1e-5·dx, …))`
  built by `RayTransferBox`, `cartCell` (emitters.pyx:206-208) is a valid index of a voxel map of shape `(nx, ny, nz)`:
  `VMap.look` returns `some`, i.e. `integrate` never takes the IndexError branch for samples inside the primitive.
* `cyl_shrunk_inside_grid`, `cyl_points_rz_in_map` — raytransfer.py:235-250: the same for the r and z indices of every point
  between the two coaxial cylinders `[radius_inner + 1e-5·dr, radius_outer - 1e-5·dr] × [0, height - 1e-5·dz]`
  (the φ index is `phi_index_in_range`).
* `unshrunk_box_corner_out_of_map` — why the shrink is there: the corner `xmax` itself has index `nx`.
* `pipe1D_fold_get`, `pipe1D_observe_is_mean` — pipelines.py (1D/2D `update`): after an observe every pixel that got a task
  holds `packed / pixel_samples` of its LAST task, every other pixel holds zeros.
* `pixelProcess_nil`, `pixelProcess_snoc` — the pixel processor is the running sum `Σ spectrum.samples [· sensitivity]`.
-/

namespace Cherab.Props.C10
open Cherab.RayTransfer

section geom
variable {α : Type} [Field α] [LinearOrder α] [IsStrictOrderedRing α] [FloorRing α]

/-- one axis: a coordinate in `[0, u]` with `u < n·d` has its truncated index in `[0, n)` -/
theorem axis_index_of_le_upper (trunc : α → Int) (ht : TruncSpec trunc) (x d u : α) (n : Nat) (hd : 0 < d)
    (hu : u < n * d) (hx0 : 0 ≤ x) (hx1 : x ≤ u) : 0 ≤ trunc (x / d) ∧ trunc (x / d) < (n : Int) :=
  cart_index_in_range trunc ht x d n hd hx0 (lt_of_le_of_lt hx1 hu)

/-- **every point of the bounding `Box` of `RayTransferBox` samples a cell inside the voxel map** (all grid shapes, all box
sizes, every truncation satisfying `TruncSpec`): the lookup that `integrate` / `emission_function` perform does not fail. -/
theorem box_points_cell_in_map (trunc : α → Int) (ht : TruncSpec trunc) (xmax ymax zmax : α) (nx ny nz : Nat)
    (hx : 0 < xmax) (hy : 0 < ymax) (hz : 0 < zmax) (hnx : 0 < nx) (hny : 0 < ny) (hnz : 0 < nz)
    (vm : VMap) (h0 : vm.n0 = nx) (h1 : vm.n1 = ny) (h2 : vm.n2 = nz) (x y z : α)
    (hx0 : 0 ≤ x) (hx1 : x ≤ (boxGeom xmax ymax zmax nx ny nz).ux)
    (hy0 : 0 ≤ y) (hy1 : y ≤ (boxGeom xmax ymax zmax nx ny nz).uy)
    (hz0 : 0 ≤ z) (hz1 : z ≤ (boxGeom xmax ymax zmax nx ny nz).uz) :
    let g := boxGeom xmax ymax zmax nx ny nz
    ∃ s, vm.look (cartCell trunc g.dx g.dy g.dz x y z) = some s := by
  intro g
  obtain ⟨dx, dy, dz, ux, uy, uz, -, -, -⟩ := box_upper_inside_grid xmax ymax zmax nx ny nz hx hy hz hnx hny hnz
  have ax := axis_index_of_le_upper trunc ht x g.dx g.ux nx dx ux hx0 hx1
  have ay := axis_index_of_le_upper trunc ht y g.dy g.uy ny dy uy hy0 hy1
  have az := axis_index_of_le_upper trunc ht z g.dz g.uz nz dz uz hz0 hz1
  unfold VMap.look cartCell
  rw [if_pos (by simp only [h0, h1, h2]; exact ⟨ax.1, ax.2, ay.1, ay.2, az.1, az.2⟩)]
  exact ⟨_, rfl⟩

/-- without the shrink the far corner is outside the map: `trunc (xmax / dx) = nx` -/
theorem unshrunk_box_corner_out_of_map (trunc : α → Int) (ht : TruncSpec trunc) (xmax : α) (nx : Nat) (hx : 0 < xmax)
    (hnx : 0 < nx) : trunc (xmax / (xmax / (nx : α))) = (nx : Int) := by
  have cx : (0 : α) < nx := by exact_mod_cast hnx
  have e : xmax / (xmax / (nx : α)) = ((nx : Int) : α) := by
    push_cast; field_simp
  rw [e, (ht _).1 (by push_cast; exact cx.le), Int.floor_intCast]

/-- the two coaxial cylinders and the caps of `RayTransferCylinder` lie strictly inside the `(r, z)` extent of the grid -/
theorem cyl_shrunk_inside_grid (radiusOuter height radiusInner period : α) (nr nz npolar : Nat)
    (hr : radiusInner < radiusOuter) (hh : 0 < height) (hnr : 0 < nr) (hnz : 0 < nz) :
    let g := cylGeom radiusOuter height nr nz radiusInner npolar period
    0 < g.dr ∧ 0 < g.dz ∧ radiusInner < g.rInner ∧ g.rInner ≤ g.rOuter ∧ g.rOuter < radiusInner + nr * g.dr ∧
      0 < g.height ∧ g.height < nz * g.dz := by
  have cr : (0 : α) < nr := by exact_mod_cast hnr
  have cz : (0 : α) < nz := by exact_mod_cast hnz
  have hw : 0 < radiusOuter - radiusInner := by linarith
  have hdr : 0 < (radiusOuter - radiusInner) / nr := div_pos hw cr
  have hdz : 0 < height / nz := div_pos hh cz
  have er : (nr : α) * ((radiusOuter - radiusInner) / nr) = radiusOuter - radiusInner := by field_simp
  have ez : (nz : α) * (height / nz) = height := by field_simp
  have lr : (radiusOuter - radiusInner) / nr ≤ radiusOuter - radiusInner := by
    rw [div_le_iff₀ cr]; nlinarith [show (1 : α) ≤ nr from by exact_mod_cast hnr]
  have lz : height / nz ≤ height := by
    rw [div_le_iff₀ cz]; nlinarith [show (1 : α) ≤ nz from by exact_mod_cast hnz]
  simp only [cylGeom]
  refine ⟨hdr, hdz, ?_, ?_, ?_, ?_, ?_⟩
  · norm_num; nlinarith
  · norm_num; nlinarith
  · rw [er]; norm_num; nlinarith
  · norm_num; nlinarith
  · rw [ez]; norm_num; nlinarith

/-- **every point between the bounding cylinders samples `(ir, iz)` inside the voxel map**: `rInner ≤ r ≤ rOuter`,
`0 ≤ z ≤ height'` ⇒ `0 ≤ ir < nr ∧ 0 ≤ iz < nz` with the index formulas of `cylCell` (`rmin = radius_inner`) -/
theorem cyl_points_rz_in_map (trunc : α → Int) (ht : TruncSpec trunc) (radiusOuter height radiusInner period : α)
    (nr nz npolar : Nat) (hr : radiusInner < radiusOuter) (hh : 0 < height) (hnr : 0 < nr) (hnz : 0 < nz) (r z : α)
    (hr0 : (cylGeom radiusOuter height nr nz radiusInner npolar period).rInner ≤ r)
    (hr1 : r ≤ (cylGeom radiusOuter height nr nz radiusInner npolar period).rOuter)
    (hz0 : 0 ≤ z) (hz1 : z ≤ (cylGeom radiusOuter height nr nz radiusInner npolar period).height) :
    let g := cylGeom radiusOuter height nr nz radiusInner npolar period
    (0 ≤ trunc ((r - radiusInner) / g.dr) ∧ trunc ((r - radiusInner) / g.dr) < (nr : Int)) ∧
      (0 ≤ trunc (z / g.dz) ∧ trunc (z / g.dz) < (nz : Int)) := by
  intro g
  obtain ⟨dr, dz, ri, -, ro, -, hz⟩ :=
    cyl_shrunk_inside_grid radiusOuter height radiusInner period nr nz npolar hr hh hnr hnz
  exact ⟨cyl_r_index_in_range trunc ht r radiusInner g.dr nr dr (le_trans ri.le hr0) (lt_of_le_of_lt hr1 ro),
    axis_index_of_le_upper trunc ht z g.dz g.height nz dz hz hz0 hz1⟩

end geom

/-! ## 1D / 2D pipeline: per-pixel mean -/
section pipe
variable {α : Type} [Field α]

/-- fold of `update` over the tasks: the sample count is never touched; row `i` holds `packed / samples` of the LAST task
for pixel `i`, or what it held before if there is none -/
theorem pipe1D_fold_get (rs : List (Nat × List α)) : ∀ (q : Pipe1D α) (i : Nat),
    (rs.foldl (fun q r => q.update r.1 r.2) q).samples = q.samples ∧
    (rs.foldl (fun q r => q.update r.1 r.2) q).matrix.length = q.matrix.length ∧
    (rs.foldl (fun q r => q.update r.1 r.2) q).matrix[i]? =
      if i < q.matrix.length then
        match rs.reverse.find? (fun r => r.1 == i) with
        | some r => some (r.2.map (· / (q.samples : α)))
        | none => q.matrix[i]?
      else none := by
  induction rs using List.reverseRecOn with
  | nil =>
    intro q i
    simp only [List.foldl_nil, List.reverse_nil, List.find?_nil, true_and]
    split_ifs with h
    · rfl
    · exact List.getElem?_eq_none (by omega)
  | append_singleton rs r ih =>
    intro q i
    obtain ⟨h1, h2, h3⟩ := ih q i
    simp only [List.foldl_append, List.foldl_cons, List.foldl_nil, List.reverse_append, List.reverse_cons,
      List.reverse_nil, List.nil_append, List.singleton_append, List.find?_cons]
    generalize (rs.foldl (fun q r => q.update r.1 r.2) q) = q' at h1 h2 h3 ⊢
    refine ⟨by simpa [Pipe1D.update] using h1, by simpa [Pipe1D.update] using h2, ?_⟩
    simp only [Pipe1D.update, List.getElem?_set, h2, h1]
    by_cases hri : r.1 = i
    · subst hri
      simp only [beq_self_eq_true, if_true]
    · have : (r.1 == i) = false := by simpa using hri
      simp only [hri, if_false, this, h3]

/-- **what an observe leaves in the 1D (2D: flattened pixel index) pipeline**: for every pixel inside the frame, the row is
the packed result of the pixel's last task divided by `pixel_samples` of THIS observe — zeros if the pixel got no task -/
theorem pipe1D_observe_is_mean (p : Pipe1D α) (pixels ps bins : Nat) (rs : List (Nat × List α)) (i : Nat)
    (hi : i < pixels) :
    (p.observe pixels ps bins rs).matrix[i]? =
      match rs.reverse.find? (fun r => r.1 == i) with
      | some r => some (r.2.map (· / (ps : α)))
      | none => some (List.replicate bins 0) := by
  obtain ⟨-, -, h3⟩ := pipe1D_fold_get rs (p.initialise pixels ps bins) i
  unfold Pipe1D.observe
  rw [h3]
  simp only [Pipe1D.initialise, List.length_replicate, hi, if_true]
  cases rs.reverse.find? (fun r => r.1 == i) with
  | some r => rfl
  | none => simp [hi]

/-- the pixel processor starts from zeros … -/
theorem pixelProcess_nil (power : Bool) (bins : Nat) :
    pixelProcess power bins ([] : List (List α × α)) = List.replicate bins 0 := rfl

/-- … and every `add_sample` adds `spectrum.samples` (times the sensitivity for `kind = 'power'`) bin by bin -/
theorem pixelProcess_snoc (power : Bool) (bins : Nat) (ss : List (List α × α)) (s : List α × α) :
    pixelProcess power bins (ss ++ [s]) =
      List.zipWith (· + ·) (pixelProcess power bins ss) (if power then s.1.map (· * s.2) else s.1) := by
  simp [pixelProcess, List.foldl_append]

end pipe

/-! ## non-vacuity -/

/-- a 2×1×1 box of size 2×1×1: the shrunk corner 2 − 1e-5 has index 1 (inside), the unshrunk corner 2 has index 2 (outside) -/
example :
    let trunc : ℚ → Int := fun x => if 0 ≤ x then ⌊x⌋ else ⌈x⌉
    let g : BoxGeom ℚ := boxGeom 2 1 1 2 1 1
    (cartCell trunc g.dx g.dy g.dz g.ux g.uy g.uz).1 = 1 ∧ (cartCell trunc g.dx g.dy g.dz 2 0 0).1 = 2 := by
  decide +kernel

/-- cylinder 1 ≤ r ≤ 3, two radial cells: the shrunk outer radius has radial index 1, the unshrunk one index 2 -/
example :
    let trunc : ℚ → Int := fun x => if 0 ≤ x then ⌊x⌋ else ⌈x⌉
    let g : CylGeom ℚ := cylGeom 3 1 2 1 1 1 360
    trunc ((g.rOuter - 1) / g.dr) = 1 ∧ trunc ((3 - 1) / g.dr) = 2 ∧ trunc ((g.rInner - 1) / g.dr) = 0 := by
  decide +kernel

/-- 3 pixels, 4 samples each, pixel 1 rendered twice (last task wins), pixel 2 not rendered -/
example : ((Pipe1D.new : Pipe1D ℚ).observe 3 4 1 [(1, [8]), (0, [2]), (1, [4])]).matrix = [[1 / 2], [1], [0]] := by
  decide +kernel

example : pixelProcess true 2 [([1, 2], (3 : ℚ)), ([1, 0], 1)] = [4, 6] := by decide +kernel

end Cherab.Props.C10
