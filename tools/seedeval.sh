#!/bin/bash
# usage: tools/seedeval.sh <Cxx> <dir-with patch.diff demo.py meta.json> [tier]
# Confirms a seeded change in a scratch worktree (demo passes clean / fails patched, suite still passes) and runs the
# property's check against it using a scratch copy of /verif.  Never touches /repo or /verif.  Writes <dir>/eval.json.
P=$1; DIR=$(readlink -f "$2"); TIER=${3:-quick}; TAG=${P}_$(basename $DIR)_$$
WT=/tmp/ev_wt_$TAG; EV=/tmp/ev_verif_$TAG
D="$(cd "$(dirname "${BASH_SOURCE[0]}")/.." && pwd)"
export OPENBLAS_NUM_THREADS=1 OMP_NUM_THREADS=1
res() { /venv/bin/python - "$@" <<'PY'
import json,sys
d=sys.argv[1]; kv=dict(a.split('=',1) for a in sys.argv[2:])
json.dump(kv,open(d+'/eval.json','w'),indent=1); print(kv)
PY
}
$D/tools/mut/mkwt.sh $WT >/dev/null || exit 3
( cd /tmp && $D/tools/mut/wtpy $WT $DIR/demo.py >/tmp/ev_demo0_$TAG.log 2>&1 ); DEMO_CLEAN=$?
if ! git -C $WT apply "$DIR/patch.diff" 2>/tmp/ev_apply_$TAG.log; then
  if ! git -C $WT apply -3 "$DIR/patch.diff" 2>>/tmp/ev_apply_$TAG.log; then res $DIR status=patch-does-not-apply; $D/tools/mut/rmwt.sh $WT >/dev/null 2>&1; exit 3; fi
fi
git -C $WT diff --name-only | grep -q '\.pxd$' && find $WT/cherab -name '*.pxd' -newer $WT/setup.py -exec touch {} + 
(cd $WT && /venv/bin/python setup.py build_ext --inplace -j16 > /tmp/ev_build_$TAG.log 2>&1) || { res $DIR status=does-not-compile; $D/tools/mut/rmwt.sh $WT >/dev/null 2>&1; exit 3; }
( cd /tmp && $D/tools/mut/wtpy $WT $DIR/demo.py >/tmp/ev_demo1_$TAG.log 2>&1 ); DEMO_PATCHED=$?
( cd $WT && timeout 2400 $D/tools/mut/wtpy $WT -m pytest -q -p no:cacheprovider --timeout=900 $WT/cherab > /tmp/ev_tests_$TAG.log 2>&1 ); 
TESTS=$(grep -E "passed|failed" /tmp/ev_tests_$TAG.log | tail -1 | tr ' ' '_')
mkdir -p $EV
rsync -a --delete --exclude .git --exclude replays --exclude seeded "$D"/ $EV/
grep -rl "/repo" $EV/harness $EV/setup.sh 2>/dev/null | xargs -r sed -i -E "s#/repo([^a-zA-Z0-9_]|$)#$WT\\1#g"
cd $EV
timeout 3000 env PYTHONPATH=$D/tools/mut/wtsite CHERAB_WT=$WT VERIF_SEED=${VERIF_SEED:-0} ./check $P --tier $TIER > /tmp/ev_out_$TAG.log 2>&1
RC=$?
SIGS=$(grep -E "FAILING INPUT" /tmp/ev_out_$TAG.log | sed 's/.*FAILING INPUT //' | cut -c1-110 | head -4 | tr '\n' ';' | tr '=' ':')
NV=$(grep -c "^VIOLATION" /tmp/ev_out_$TAG.log)
NF=$(grep -c "no-failing-input-found" /tmp/ev_out_$TAG.log)
NB=$(grep -c "BROKEN" /tmp/ev_out_$TAG.log)
res $DIR status=evaluated demo_clean_exit=$DEMO_CLEAN demo_patched_exit=$DEMO_PATCHED tests="$TESTS" check_exit=$RC violations=$NV no_failing_input_found=$NF broken=$NB signatures="$SIGS"
cp /tmp/ev_out_$TAG.log $DIR/check_output.log 2>/dev/null
$D/tools/mut/rmwt.sh $WT >/dev/null 2>&1
rm -rf $EV
