"""C07 — OpenADAS rates reproduce stored tables and honour the range / missing-data policy.

T  lean/Cherab/Props/C07.lean      (general theorems about lean/Cherab/Model/Rates.lean, any table size, ordered field)
   lean/Cherab/Props/C07Table.lean (`decide` over lean/Cherab/Gen/OpenAdasPolicy.lean, regenerated from the source
                                    on every run by harness/translators/openadas_policy.py)
K  (policy)   every accessor x the three provider flags x {element, isotope, protium-like isotope} per species argument
              x repository contents (which symbol vectors hold rate data, which symbols hold a wavelength), exhaustive:
              the running accessor's outcome (exception class / Null / which stored table and which wavelength the
              returned rate was built from) against `Policy.run` applied to the generated table (native driver);
   (numerics) tables written with the repository's own update_* functions into temp repositories, read back through the
              accessors; evaluation at every grid point (value), interior points (status), non-positive arguments
              (exact 0), up to a decade outside every axis end (status) against the model functions at Float.
S  the property sentence evaluated directly on the implementation's outputs (no model): converted table value at grid
   points, >= 0 and finite, exact 0 on non-positive density/temperature/energy, raise <-> extrapolation not permitted,
   element's rates for isotopes, requested species' wavelength, RuntimeError / all-zero Null on missing data.
"""
import itertools
import json
import math
import os
import shutil
import tempfile

# the provider computes DEFAULT_REPOSITORY_PATH from ~ at import time: point HOME at a scratch directory first
_REAL_HOME = os.environ.get('HOME')
_HOME = tempfile.mkdtemp(prefix='c07_home_')
os.environ['HOME'] = _HOME

import numpy as np  # noqa: E402

from harness.vlib.util import f2b, b2f, close  # noqa: E402

HC9 = None        # PhotonToJ.conversion_factor, read from the implementation at run time (and checked against CODATA)
OUT_FACTORS = (1.001, 3.0, 10.0)


# ------------------------------------------------------------------------------------------------ accessor catalogue
def _catalogue():
    """how to call each accessor and how to store its data; species objects are passed in the order of `species`"""
    from cherab.openadas import repository as R

    def adf11(fn):
        def w(root, key, ch, tr, tab):
            fn({key[0]: {ch['charge']: dict(ne=tab['ne'], te=tab['te'], rates=tab['rate'])}}, repository_path=root)
        return w

    def pec(cls):
        def w(root, key, ch, tr, tab):
            R.update_pec_rates({cls: {key[0]: {ch['charge']: {tr: dict(ne=list(tab['ne']), te=list(tab['te']), rate=tab['rate'])}}}},
                               repository_path=root)
        return w

    def beamtab(tab):
        d = {k: tab[k] for k in ('e', 'n', 't', 'sen', 'st', 'sref')}
        d.update(eref=tab['e'][0], nref=tab['n'][0], tref=tab['t'][0])
        return d

    C = {}
    C['ionisation_rate'] = dict(species=['ion'], cls='IonisationRate', shape='grid2', wl=None,
                                call=lambda a, s, ch, tr: a.ionisation_rate(s[0], ch['charge']),
                                write=adf11(R.update_ionisation_rates))
    C['recombination_rate'] = dict(species=['ion'], cls='RecombinationRate', shape='grid2', wl=None,
                                   call=lambda a, s, ch, tr: a.recombination_rate(s[0], ch['charge']),
                                   write=adf11(R.update_recombination_rates))
    C['thermal_cx_rate'] = dict(
        species=['donor_element', 'receiver_element'], cls='ThermalCXRate', shape='grid2', wl=None,
        call=lambda a, s, ch, tr: a.thermal_cx_rate(s[0], ch['donor_charge'], s[1], ch['charge']),
        write=lambda root, key, ch, tr, tab: R.update_thermal_cx_rates(
            {key[0]: {ch['donor_charge']: {key[1]: {ch['charge']: dict(ne=tab['ne'], te=tab['te'], rates=tab['rate'])}}}},
            repository_path=root))
    C['beam_cx_pec'] = dict(
        species=['donor_ion', 'receiver_ion'], cls='BeamCXPEC', shape='beamCX', wl=(1, -1),
        call=lambda a, s, ch, tr: a.beam_cx_pec(s[0], s[1], ch['charge'], tr),
        write=lambda root, key, ch, tr, tab: R.update_beam_cx_rates(
            {key[0]: {key[1]: {ch['charge']: {tr: {m: {k: (list(v) if isinstance(v, list) else v) for k, v in t.items()}
                                                   for m, t in tab['metastables'].items()}}}}}, repository_path=root))
    C['beam_stopping_rate'] = dict(
        species=['beam_ion', 'plasma_ion'], cls='BeamStoppingRate', shape='beam', wl=None,
        call=lambda a, s, ch, tr: a.beam_stopping_rate(s[0], s[1], ch['charge']),
        write=lambda root, key, ch, tr, tab: R.update_beam_stopping_rates({key[0]: {key[1]: {ch['charge']: beamtab(tab)}}},
                                                                          repository_path=root))
    C['beam_population_rate'] = dict(
        species=['beam_ion', 'plasma_ion'], cls='BeamPopulationRate', shape='beam', wl=None,
        call=lambda a, s, ch, tr: a.beam_population_rate(s[0], ch['metastable'], s[1], ch['charge']),
        write=lambda root, key, ch, tr, tab: R.update_beam_population_rates(
            {key[0]: {ch['metastable']: {key[1]: {ch['charge']: beamtab(tab)}}}}, repository_path=root))
    C['beam_emission_pec'] = dict(
        species=['beam_ion', 'plasma_ion'], cls='BeamEmissionPEC', shape='beam', wl=(0, None),
        call=lambda a, s, ch, tr: a.beam_emission_pec(s[0], s[1], ch['charge'], tr),
        write=lambda root, key, ch, tr, tab: R.update_beam_emission_rates({key[0]: {key[1]: {ch['charge']: {tr: beamtab(tab)}}}},
                                                                          repository_path=root))
    C['impact_excitation_pec'] = dict(species=['ion'], cls='ImpactExcitationPEC', shape='grid2', wl=(0, 0),
                                      call=lambda a, s, ch, tr: a.impact_excitation_pec(s[0], ch['charge'], tr),
                                      write=pec('excitation'))
    C['recombination_pec'] = dict(species=['ion'], cls='RecombinationPEC', shape='grid2', wl=(0, 0),
                                  call=lambda a, s, ch, tr: a.recombination_pec(s[0], ch['charge'], tr),
                                  write=pec('recombination'))
    C['thermal_cx_pec'] = dict(
        species=['donor_element', 'receiver_element'], cls='ThermalCXPEC', shape='grid3', wl=(1, -1),
        call=lambda a, s, ch, tr: a.thermal_cx_pec(s[0], ch['donor_charge'], s[1], ch['charge'], tr),
        write=lambda root, key, ch, tr, tab: R.update_pec_thermal_cx_rates(
            {key[0]: {ch['donor_charge']: {key[1]: {ch['charge']: {tr: dict(ne=tab['ne'], te=tab['te'], td=tab['td'], rate=tab['rate'])}}}}},
            repository_path=root))
    C['line_radiated_power_rate'] = dict(species=['ion'], cls='LineRadiationPower', shape='grid2', wl=None,
                                         call=lambda a, s, ch, tr: a.line_radiated_power_rate(s[0], ch['charge']),
                                         write=adf11(R.update_line_power_rates))
    C['continuum_radiated_power_rate'] = dict(species=['ion'], cls='ContinuumPower', shape='grid2', wl=None,
                                              call=lambda a, s, ch, tr: a.continuum_radiated_power_rate(s[0], ch['charge']),
                                              write=adf11(R.update_continuum_power_rates))
    C['cx_radiated_power_rate'] = dict(species=['ion'], cls='CXRadiationPower', shape='grid2', wl=None,
                                       call=lambda a, s, ch, tr: a.cx_radiated_power_rate(s[0], ch['charge']),
                                       write=adf11(R.update_cx_power_rates))
    return C


ARG_NAMES = {'grid2': ['density', 'temperature'], 'grid3': ['density', 'temperature', 'donor_temperature'],
             'beam': ['energy', 'density', 'temperature'],
             'beamCX': ['energy', 'temperature', 'density', 'z_effective', 'b_field']}
# which arguments the property sentence wants guarded ("a density, temperature or energy argument")
DTE = {'grid2': [0, 1], 'grid3': [0, 1, 2], 'beam': [0, 1, 2], 'beamCX': [0, 1, 2]}


def _species_pool():
    from cherab.core.atomic import elements as E
    first = [E.hydrogen, E.deuterium, E.tritium, E.protium]                       # donors / beams
    second = [E.carbon, E.carbon13, E.helium, E.helium3, E.neon, E.neon22, E.hydrogen, E.deuterium, E.protium]
    return first, second


def _elem(sp):
    return getattr(sp, 'element', sp)


def _is_iso(sp):
    from cherab.core.atomic.elements import Isotope
    return isinstance(sp, Isotope)


# ------------------------------------------------------------------------------------------------ table generators
def _sig(x):
    return float('%.6g' % x)


def np_log10(xs):
    """what the constructors compute for an axis array"""
    return [float(v) for v in np.log10(np.array(xs, np.float64))]


AXIS_LOG_NUMPY = {}      # rate class -> does __init__ compute its log-space knots with np.log10? (from the translator)


def knot_logs(cls, xs):
    """the knots the constructor of `cls` hands to raysect, as the current source computes them"""
    if AXIS_LOG_NUMPY.get(cls, True):
        return np_log10(xs)
    return [math.log10(x) for x in xs]


SIGNATURES = set()
_DRV_BUILT = [False]


def drive(ctx, lines):
    """the native driver; built (under the shared lake lock) by the first call of a run, then executed directly"""
    if not _DRV_BUILT[0]:
        out = ctx.driver(lines)
        _DRV_BUILT[0] = True
        return out
    import subprocess
    from harness.vlib import lean
    r = subprocess.run([os.path.join(lean.BIN, 'drv_c07')], input='\n'.join(lines) + '\n', stdout=subprocess.PIPE,
                       stderr=subprocess.PIPE, text=True, timeout=600)
    out = r.stdout.split('\n')
    if out and out[-1] == '':
        out.pop()
    if r.returncode != 0 or len(out) != len(lines):
        raise RuntimeError('driver failed (%d): %d lines for %d inputs; %s' % (r.returncode, len(out), len(lines), r.stderr[-500:]))
    return out


def fail(ctx, sig, desc, rep):
    SIGNATURES.add(sig)
    ctx.fail(sig, desc, rep)


def logs_agree(x):
    return float(np.log10(np.array([x, x, x, x, x], np.float64))[0]) == math.log10(x) and float(np.log10(np.array([x]))[0]) == math.log10(x)


def axis(rng, n, lo, hi, safe=True, linear=False):
    """n strictly increasing positive knots; `safe`: NumPy's and libm's log10 agree on the end knots"""
    for _ in range(1000):
        if linear:
            ls = sorted(rng.uniform(lo, hi) for _ in range(n))
            xs = [_sig(l) for l in ls]
            if not all(b - a > 0.1 * (hi - lo) / n for a, b in zip(xs, xs[1:])):
                continue
            return xs
        ls = sorted(rng.uniform(lo, hi) for _ in range(n))
        if not all(b - a > 0.08 for a, b in zip(ls, ls[1:])):
            continue
        xs = [_sig(10 ** l) for l in ls]
        if safe:
            lg = np_log10(xs)
            if lg[0] != math.log10(xs[0]) or lg[-1] != math.log10(xs[-1]):
                continue
        return xs
    raise RuntimeError('axis generator exhausted')


def gap_axis(rng, n, lo, hi, end):
    """an axis whose first (end=0) / last (end=1) knot has libm log10 outside NumPy's log10 (the float gap)"""
    for _ in range(200000):
        xs = axis(rng, n, lo, hi, safe=False)
        lg = np_log10(xs)
        if end == 0 and math.log10(xs[0]) < lg[0]:
            return xs
        if end == 1 and math.log10(xs[-1]) > lg[-1]:
            return xs
    return None


def smooth(rng, shape, base_lo, base_hi):
    """positive table, smooth in the (normalised) indices plus a little noise; values as 6-digit decimals"""
    base = rng.uniform(base_lo, base_hi)
    co = [rng.uniform(-2.0, 2.0) for _ in shape]
    mix = rng.uniform(-1.0, 1.0)
    out = np.zeros(shape)
    for idx in itertools.product(*[range(s) for s in shape]):
        u = [i / max(1, s - 1) for i, s in zip(idx, shape)]
        v = base + sum(c * x for c, x in zip(co, u)) + mix * math.prod(u) + rng.uniform(-0.15, 0.15)
        out[idx] = _sig(10 ** v)
    return out.tolist()


def gen_table(rng, shape_kind, dims, gap=None):
    """gap = (axis index, end) forces the float gap on that axis end"""
    def ax(i, n, lo, hi):
        if gap is not None and gap[0] == i and n >= 2:
            g = gap_axis(rng, n, lo, hi, gap[1])
            if g is not None:
                return g
        return axis(rng, n, lo, hi)

    if shape_kind == 'grid2':
        n, m = dims
        return dict(ne=ax(0, n, 16, 22), te=ax(1, m, -0.9, 4), rate=smooth(rng, (n, m), -20, -10))
    if shape_kind == 'grid3':
        n, m, k = dims
        return dict(ne=ax(0, n, 16, 22), te=ax(1, m, -0.9, 4), td=ax(2, k, -0.9, 4), rate=smooth(rng, (n, m, k), -20, -10))
    if shape_kind == 'beam':
        a, b, c = dims
        sref = _sig(10 ** rng.uniform(-14, -12))
        return dict(e=ax(0, a, 2.5, 5.5), n=ax(1, b, 17, 21), t=ax(2, c, 0.3, 4.3), sen=smooth(rng, (a, b), -14, -12),
                    st=[_sig(sref * 10 ** rng.uniform(-0.5, 0.5)) for _ in range(c)], sref=sref)
    if shape_kind == 'beamCX':
        ms = {}
        for m in sorted(rng.sample(range(1, 13), rng.randint(1, 3))):      # up to 12: as JSON keys "10" sorts before "2"
            a, b, c, d, e = dims
            qref = _sig(10 ** rng.uniform(-15, -13))

            def q(xs):
                # smooth and slowly varying in the (linear) coordinate: the cubic through these knots stays positive
                c0, c1, c2 = rng.uniform(-0.2, 0.2), rng.uniform(-0.25, 0.25), rng.uniform(-0.1, 0.1)
                span = (xs[-1] - xs[0]) or 1.0
                return [_sig(qref * 10 ** (c0 + c1 * ((x - xs[0]) / span) + c2 * ((x - xs[0]) / span) ** 2)) for x in xs]

            t0, n0 = 10 ** rng.uniform(0.5, 3.0), 10 ** rng.uniform(17, 20)
            ti = axis(rng, b, t0, t0 * rng.uniform(3, 30), linear=True)
            ni = axis(rng, c, n0, n0 * rng.uniform(3, 30), linear=True)
            z = axis(rng, d, 1.0, 6.0, linear=True)
            bf = axis(rng, e, 0.2, 9.0, linear=True)
            ms[m] = dict(eb=ax(0, a, 2.5, 5.5), ti=ti, ni=ni, z=z, b=bf,
                         qeb=smooth(rng, (a,), -15, -13), qti=q(ti), qni=q(ni), qz=q(z), qb=q(bf), qref=qref)
        return dict(metastables=ms)
    raise ValueError(shape_kind)


SHAPES = {
    'grid2': [(2, 2), (3, 4), (1, 1), (1, 3), (3, 1), (5, 6), (2, 5)],
    'grid3': [(2, 2, 2), (3, 2, 4), (1, 2, 2), (2, 2, 1), (2, 3, 2)],
    'beam': [(3, 4, 3), (1, 1, 2), (1, 3, 2), (3, 1, 3), (2, 2, 2), (2, 2, 1), (4, 2, 5)],
    'beamCX': [(3, 3, 3, 3, 3), (1, 1, 1, 1, 1), (2, 1, 3, 1, 2), (4, 2, 2, 3, 1), (1, 3, 1, 2, 4)],
}


def axes_of(shape_kind, tab):
    if shape_kind == 'grid2':
        return [tab['ne'], tab['te']]
    if shape_kind == 'grid3':
        return [tab['ne'], tab['te'], tab['td']]
    if shape_kind == 'beam':
        return [tab['e'], tab['n'], tab['t']]
    return [tab['eb'], tab['ti'], tab['ni'], tab['z'], tab['b']]


def expected_at(shape_kind, tab, idx, wl):
    """the property's right-hand side at a grid point: stored value after the documented unit conversion"""
    ph = (lambda x: x * HC9 / wl) if wl is not None else (lambda x: x)
    if shape_kind == 'grid2':
        return ph(tab['rate'][idx[0]][idx[1]])
    if shape_kind == 'grid3':
        return ph(tab['rate'][idx[0]][idx[1]][idx[2]])
    # ratios first: the same number as sen*st/sref and qeb*qti*qni*qz*qb/qref**4, without intermediate under- / overflow
    # when the components have extreme (legal) magnitudes
    if shape_kind == 'beam':
        return ph(tab['sen'][idx[0]][idx[1]]) * (tab['st'][idx[2]] / tab['sref'])
    q = tab['qref']
    return ph(tab['qeb'][idx[0]]) * (tab['qti'][idx[1]] / q) * (tab['qni'][idx[2]] / q) * (tab['qz'][idx[3]] / q) * (tab['qb'][idx[4]] / q)


def eval_points(rng, shape_kind, tab, n_interior):
    """list of (kind, args, info).  kinds: knot / interior / nonpos / outside"""
    axs = axes_of(shape_kind, tab)
    pts = []
    for idx in itertools.product(*[range(len(a)) for a in axs]):
        pts.append(('knot', [axs[d][i] for d, i in enumerate(idx)], dict(idx=list(idx))))
    mid = []
    for _ in range(n_interior):
        p = []
        for d, a in enumerate(axs):
            if len(a) == 1:
                p.append(a[0])
            else:
                i = rng.randrange(len(a) - 1)
                f = rng.uniform(0.2, 0.8)
                p.append(a[i] ** (1 - f) * a[i + 1] ** f)
        mid.append(p)
        pts.append(('interior', p, {}))
    base = mid[0] if mid else [a[0] for a in axs]
    for d in DTE[shape_kind] + ([3, 4] if shape_kind == 'beamCX' else []):
        for v in (0.0, -0.0, -1.0, -base[d]):
            p = list(base)
            p[d] = v
            pts.append(('nonpos', p, dict(axis=d)))
    p = [0.0 if d in DTE[shape_kind] else base[d] for d in range(len(axs))]
    pts.append(('nonpos', p, dict(axis=-1)))
    for d, a in enumerate(axs):
        for end, f in itertools.product((0, 1), OUT_FACTORS):
            p = list(base)
            p[d] = a[0] / f if end == 0 else a[-1] * f
            if shape_kind == 'beamCX' and d >= 3:      # linear axes: step outside by a fraction of the span
                span = (a[-1] - a[0]) or 1.0
                p[d] = a[0] - (f - 1) * 0.1 * span if end == 0 else a[-1] + (f - 1) * 0.1 * span
                if p[d] <= 0 and d == 3:
                    continue
            pts.append(('outside', p, dict(axis=d, end=end, single=len(a) == 1)))
    return pts


# ------------------------------------------------------------------------------------------------ driver lines
def _axis_tokens(cls, xs):
    return [str(len(xs))] + [f2b(x) for x in xs] + [f2b(x) for x in knot_logs(cls, xs)]


def _flat(t):
    if isinstance(t, list):
        return [x for r in t for x in _flat(r)]
    return [t]


def rate_line(cls, shape_kind, ex, wl, tab, pts):
    toks = ['rate', cls, '1' if ex else '0', f2b(wl if wl is not None else 0.0), f2b(HC9)]
    if shape_kind == 'grid2':
        toks += _axis_tokens(cls, tab['ne']) + _axis_tokens(cls, tab['te']) + [f2b(x) for x in _flat(tab['rate'])]
    elif shape_kind == 'grid3':
        toks += _axis_tokens(cls, tab['ne']) + _axis_tokens(cls, tab['te']) + _axis_tokens(cls, tab['td']) + [f2b(x) for x in _flat(tab['rate'])]
    elif shape_kind == 'beam':
        toks += _axis_tokens(cls, tab['e']) + _axis_tokens(cls, tab['n']) + _axis_tokens(cls, tab['t'])
        toks += [f2b(x) for x in _flat(tab['sen'])] + [f2b(x) for x in tab['st']] + [f2b(tab['sref'])]
    else:
        for k in ('eb', 'ti', 'ni', 'z', 'b'):
            toks += _axis_tokens(cls, tab[k])
        for k in ('qeb', 'qti', 'qni', 'qz', 'qb'):
            toks += [f2b(x) for x in tab[k]]
        toks.append(f2b(tab['qref']))
    toks.append(str(len(pts)))
    for p in pts:
        for x in p:
            toks += [f2b(x), f2b(math.log10(x) if x > 0 else 0.0)]
    return ' '.join(toks)


def pol_line(name, null, fb, species, stored, wls):
    toks = ['pol', name, '1' if null else '0', '1' if fb else '0', str(len(species))]
    for (param, sp) in species:
        toks += [param, sp.symbol, _elem(sp).symbol, '1' if _is_iso(sp) else '0']
    toks.append(str(len(stored)))
    for k in stored:
        toks += [str(len(k))] + list(k)
    toks.append(str(len(wls)))
    toks += list(wls)
    return ' '.join(toks)


def parse_out(tok):
    if tok.startswith('v:'):
        return ('ok', b2f(tok[2:]))
    return ({'VE': 'ValueError', 'CT': 'ctor'}.get(tok, tok), None)


# ------------------------------------------------------------------------------------------------ implementation side
class Repo:
    """a scratch repository directory per case"""

    def __init__(self):
        self.top = tempfile.mkdtemp(prefix='c07_repo_')
        self.k = 0

    def fresh(self):
        self.k += 1
        p = os.path.join(self.top, 'r%d' % self.k)
        os.makedirs(p)
        return p

    def drop(self, p):
        shutil.rmtree(p, ignore_errors=True)

    def close(self):
        shutil.rmtree(self.top, ignore_errors=True)


def impl_eval(rate, args):
    try:
        v = rate(*args)
    except ValueError:
        return ('ValueError', None)
    except Exception as e:  # noqa
        return (type(e).__name__, None)
    return ('ok', float(v))


def call_accessor(spec, a, species, ch, tr):
    """-> ('ok', [rate objects], in_list) | ('ctor', msg) | (exception class name, msg)"""
    try:
        r = spec['call'](a, species, ch, tr)
    except ValueError as e:
        return ('ctor', str(e)[:160], False)
    except Exception as e:  # noqa
        return (type(e).__name__, str(e)[:160], False)
    if isinstance(r, list):
        return ('ok', r, True)
    return ('ok', [r], False)


def charges_for(rng, name, species):
    z = _elem(species[-1]).atomic_number
    ch = dict(charge=rng.randint(1, z), donor_charge=0, metastable=rng.randint(1, 12))
    return ch


def key_syms(key):
    return [k.symbol for k in key]


# ------------------------------------------------------------------------------------------------ policy stream (K + S)
def tag_table(shape_kind, tag):
    """small fixed tables (knots on which both log10s agree), values scaled by `tag` so that the source is identifiable"""
    if shape_kind == 'grid2':
        return dict(ne=[1e18, 1e19, 1e20], te=[1.0, 10.0, 100.0], rate=[[tag * 1e-15 * (1 + i + 3 * j) for j in range(3)] for i in range(3)])
    if shape_kind == 'grid3':
        return dict(ne=[1e18, 1e19], te=[1.0, 10.0], td=[1.0, 100.0],
                    rate=[[[tag * 1e-15 * (1 + i + 2 * j + 4 * k) for k in range(2)] for j in range(2)] for i in range(2)])
    if shape_kind == 'beam':
        return dict(e=[1e3, 1e4], n=[1e18, 1e19], t=[10.0, 100.0, 1000.0], sen=[[tag * 1e-13, tag * 2e-13], [tag * 3e-13, tag * 4e-13]],
                    st=[1e-13, 2e-13, 4e-13], sref=2e-13)
    t = dict(eb=[1e3, 1e4], ti=[10.0, 100.0], ni=[1e18, 1e19], z=[1.0, 2.0], b=[1.0, 3.0],
             qeb=[tag * 1e-14, tag * 2e-14], qti=[1e-14, 2e-14], qni=[1e-14, 3e-14], qz=[1e-14, 1.5e-14], qb=[1e-14, 1.25e-14], qref=1e-14)
    return dict(metastables={1: t, 2: dict(t, qeb=[tag * 3e-14, tag * 5e-14])})


def first_knot(shape_kind, tab):
    if shape_kind == 'beamCX':
        tab = tab['metastables'][1]
    return [a[0] for a in axes_of(shape_kind, tab)]


TRANSITION = (3, 2)
POL_CHARGES = dict(charge=1, donor_charge=0, metastable=1)


def build_policy_repo(repo, spec, species, stored, wsyms):
    """write tagged tables under the symbol vectors `stored` and wavelengths for the symbols `wsyms`"""
    from cherab.openadas import repository as R
    root = repo.fresh()
    ch = dict(POL_CHARGES)
    tags, wls = {}, {}
    for n_, syms in enumerate(stored):
        key = tuple([x for x in (sp, _elem(sp)) if x.symbol == sym][0] for sp, sym in zip(species, syms))
        tags[tuple(syms)] = 2.0 + n_
        spec['write'](root, key, ch, TRANSITION, tag_table(spec['shape'], 2.0 + n_))
    if spec['wl']:
        wl_sp = species[spec['wl'][0]]
        wl_charge = 0 if spec['wl'][1] is None else ch['charge'] + spec['wl'][1]
        order = sorted({wl_sp.symbol, _elem(wl_sp).symbol})
        for sym in wsyms:
            wls[sym] = 400.0 + 100.0 * (order.index(sym) + 1)
            who = [x for x in (wl_sp, _elem(wl_sp)) if x.symbol == sym][0]
            R.update_wavelengths({who: {wl_charge: {TRANSITION: wls[sym]}}}, repository_path=root)
    return root, ch, tags, wls


def run_policy(ctx, name, spec, root, ch, tags, wls, species, stored, null, fb, ex):
    from cherab.openadas import OpenADAS
    a = OpenADAS(data_path=root, permit_extrapolation=ex, missing_rates_return_null=null, wavelength_element_fallback=fb)
    st, val, in_list = call_accessor(spec, a, species, ch, TRANSITION)
    o = observe_policy(spec, st, val, in_list, tags, wls)
    m = dict(kind='policy', accessor=name, species=[s.name for s in species], stored=[list(k) for k in stored],
             wavelengths=sorted(wls), null=null, fallback=fb, extrapolate=ex)
    policy_oracle(ctx, name, spec, species, [list(k) for k in stored], wls, null, fb, o, m)
    return pol_line(name, null, fb, list(zip(spec['species'], species)), [list(k) for k in stored], sorted(wls)), o, m


def wavelength_case(ctx, repo, sp, wsub, fb):
    from cherab.openadas import OpenADAS, repository as R
    syms = sorted({sp.symbol, _elem(sp).symbol})
    root = repo.fresh()
    wls = {}
    for sym in wsub:
        wls[sym] = 400.0 + 100.0 * (syms.index(sym) + 1)
        who = [s for s in (sp, _elem(sp)) if s.symbol == sym][0]
        R.update_wavelengths({who: {0: {TRANSITION: wls[sym]}}}, repository_path=root)
    a = OpenADAS(data_path=root, wavelength_element_fallback=fb)
    try:
        w = a.wavelength(sp, 0, TRANSITION)
        o = 'ok:' + ([s for s, v in wls.items() if v == w] + ['?'])[0]
    except Exception as e:  # noqa
        o = 'raises:' + type(e).__name__
    repo.drop(root)
    m = dict(kind='wavelength', species=sp.name, wavelengths=sorted(wls), fallback=fb)
    # S: the requested species' wavelength when stored; with fall-back the element's; else RuntimeError
    want = ('ok:' + sp.symbol) if sp.symbol in wls else (
        'ok:' + _elem(sp).symbol if (fb and _is_iso(sp) and _elem(sp).symbol in wls) else 'raises:RuntimeError')
    if o != want:
        fail(ctx, 'C07:wavelength:%s' % ('wrong-species' if o.startswith('ok') else o.split(':')[1]),
             'OpenADAS.wavelength(%s) with stored %s, fallback=%s gave %s, property wants %s' % (sp.name, sorted(wls), fb, o, want), m)
    line = 'wl %d %s %s %s %s %d %s' % (fb, 'ion', sp.symbol, _elem(sp).symbol, '1' if _is_iso(sp) else '0', len(wls), ' '.join(sorted(wls)))
    return line, o, m


def policy_stream(ctx, cat):
    from cherab.core.atomic import elements as E
    repo = Repo()
    lines, obs, meta = [], [], []
    full = ctx.tier == 'thorough'
    # species variants per argument: element, isotope with its own symbol, isotope sharing the element's symbol
    donors = [E.hydrogen, E.deuterium, E.protium]
    receivers = [E.carbon, E.carbon13, E.hydrogen, E.deuterium, E.protium] if full else [E.carbon, E.carbon13, E.protium]
    for name, spec in cat.items():
        pools = [donors, receivers] if len(spec['species']) == 2 else [receivers]
        for species in itertools.product(*pools):
            species = list(species)
            # candidate storage keys: per argument the element's symbol and the symbol of the species as requested
            keys = sorted(set(itertools.product(*[sorted({_elem(s).symbol, s.symbol}) for s in species])))
            subsets = [()]
            if full:
                for r in range(1, len(keys) + 1):
                    subsets += list(itertools.combinations(keys, r))
            else:
                subsets += [(k,) for k in keys] + ([tuple(keys)] if len(keys) > 1 else [])
            wl_syms = sorted({species[spec['wl'][0]].symbol, _elem(species[spec['wl'][0]]).symbol}) if spec['wl'] else []
            wl_subsets = [()]
            for r in range(1, len(wl_syms) + 1):
                wl_subsets += list(itertools.combinations(wl_syms, r))
            for sub, wsub in itertools.product(subsets, wl_subsets):
                root, ch, tags, wls = build_policy_repo(repo, spec, species, sub, wsub)
                for null, fb, ex in itertools.product((False, True), (False, True), (False, True)):
                    line, o, m = run_policy(ctx, name, spec, root, ch, tags, wls, species, sub, null, fb, ex)
                    lines.append(line)
                    obs.append(o)
                    meta.append(m)
                    ctx.count('policy:' + o.split(':')[0])
                    ctx.case(key=('pol', name, tuple(s.name for s in species), sub, wsub, null, fb, ex),
                             sample=m if ctx.rng.random() < 0.0005 else None)
                repo.drop(root)
    # the wavelength accessor itself
    for sp in receivers + [E.deuterium]:
        syms = sorted({sp.symbol, _elem(sp).symbol})
        for r in range(0, len(syms) + 1):
            for wsub in itertools.combinations(syms, r):
                for fb in (False, True):
                    line, o, m = wavelength_case(ctx, repo, sp, wsub, fb)
                    lines.append(line)
                    obs.append(o)
                    meta.append(m)
                    ctx.case(key=('wl', sp.name, wsub, fb))
    repo.close()
    outs = drive(ctx, lines)
    for line, o, m, d in zip(lines, obs, meta, outs):
        ctx.traces += 1
        if o != d:
            ctx.disagreements += 1
            ctx.count('disagreement:policy')
            _broke(ctx, 'policy stream ' + m.get('accessor', 'wavelength'), dict(input=m, model=d, implementation=o))
    return len(lines)


def observe_policy(spec, st, val, in_list, tags, wls):
    """canonical observation, in the vocabulary of the driver's `pol` output"""
    if st == 'ok':
        rates = val
        nulls = [type(r).__name__.startswith('Null') for r in rates]
        if all(nulls):
            zero = all(impl_eval(r, p) == ('ok', 0.0) for r in rates
                       for p in ([1e19] * len(ARG_NAMES[spec['shape']]), [-1.0] * len(ARG_NAMES[spec['shape']]),
                                 [3.3] * len(ARG_NAMES[spec['shape']])))
            return 'null:%d' % in_list if zero else 'null-not-zero:%d' % in_list
        # identify the stored table the first rate was built from, by its value at the first grid point
        r = rates[0]
        tab0 = tag_table(spec['shape'], 1.0)
        p = first_knot(spec['shape'], tab0)
        wl = getattr(r, 'wavelength', None)
        stv = impl_eval(r, p)
        key = '?'
        if stv[0] == 'ok':
            t1 = tab0['metastables'][1] if spec['shape'] == 'beamCX' else tab0
            unit = expected_at(spec['shape'], t1, [0] * len(p), wl)
            for syms, tag in tags.items():
                if close(stv[1], tag * unit, 1e-9):
                    key = ','.join(syms)
        wsym = '-'
        if spec['wl']:
            wsym = '?'
            for sym, w in wls.items():
                if w == wl:
                    wsym = sym
        return 'rate:%s:%s:%d' % (key, wsym, in_list)
    if st == 'ctor':
        return 'raises:ValueError'
    return 'raises:' + st


def policy_oracle(ctx, name, spec, species, stored, wls, null, fb, o, m):
    """the property sentence, directly"""
    elem_key = [_elem(s).symbol for s in species]
    present = elem_key in stored
    if not present:
        if null:
            if not o.startswith('null:'):
                fail(ctx, 'C07:%s:missing-data-null-requested:%s' % (name, o.replace('raises:', '').split(':')[0]),
                         '%s(%s) with the element\'s data missing and missing_rates_return_null=True gave %s; the property wants a rate that is zero everywhere'
                         % (name, [s.name for s in species], o), m)
        else:
            if o != 'raises:RuntimeError':
                fail(ctx, 'C07:%s:missing-data:%s' % (name, o.split(':')[1] if o.startswith('raises:') else o.split(':')[0]),
                         '%s(%s) with the element\'s data missing gave %s; the property wants RuntimeError' % (name, [s.name for s in species], o), m)
        return
    # data present for the element(s)
    if o.startswith('rate:'):
        _, key, wsym, _ = o.split(':')
        if key != ','.join(elem_key):
            fail(ctx, 'C07:%s:isotope-not-served-from-element-rates' % name,
                     '%s(%s): returned rate was built from stored key %s, the property wants the element key %s' % (
                         name, [s.name for s in species], key, elem_key), m)
        if spec['wl']:
            req = species[spec['wl'][0]]
            if req.symbol in wls and wsym != req.symbol:
                fail(ctx, 'C07:%s:wavelength-not-of-requested-species' % name,
                         '%s(%s): photon->W conversion used the wavelength stored for %s although the requested species %s has its own (%s nm vs %s nm)'
                         % (name, [s.name for s in species], wsym, req.symbol, wls.get(wsym), wls[req.symbol]), m)
    elif o.startswith('raises:'):
        # legitimate only when the wavelength the property asks for is unavailable
        if spec['wl']:
            req = species[spec['wl'][0]]
            avail = req.symbol in wls or (fb and _is_iso(req) and _elem(req).symbol in wls)
            if avail:
                fail(ctx, 'C07:%s:raises-with-data-present:%s' % (name, o.split(':')[1]),
                         '%s(%s) raised %s although rate data (key %s) and the wavelength of the requested species are stored (%s)'
                         % (name, [s.name for s in species], o, elem_key, sorted(wls)), m)
        else:
            fail(ctx, 'C07:%s:raises-with-data-present:%s' % (name, o.split(':')[1]),
                     '%s(%s) raised %s although rate data are stored under %s' % (name, [s.name for s in species], o, elem_key), m)
    elif o.startswith('null'):
        fail(ctx, 'C07:%s:null-with-data-present' % name, '%s returned a Null rate although data are stored' % name, m)


# ------------------------------------------------------------------------------------------------ sequence stream (K + S)
# One provider instance answers several requests in a row.  The sentence makes every answer a function of the
# repository content and the request alone, so the answer in a sequence must equal the answer of a fresh provider
# (S, differential against the implementation itself) and the stateless model's (K).  The repository holds distinct
# tables / wavelengths for every combination of species variant, charge, transition, metastable, so a per-instance
# memo keyed too coarsely (element and isotope sharing a key, charge / transition / donor / metastable ignored)
# returns somebody else's datum.
SEQ_TRANSITIONS = [(3, 2), (4, 2)]
SEQ_CHARGES = [1, 2]
USES_TRANSITION = ('beam_cx_pec', 'beam_emission_pec', 'impact_excitation_pec', 'recombination_pec', 'thermal_cx_pec')
USES_METASTABLE = ('beam_population_rate',)


def seq_dims(name):
    trs = SEQ_TRANSITIONS if name in USES_TRANSITION else [SEQ_TRANSITIONS[0]]
    mss = [1, 2] if name in USES_METASTABLE else [1]
    return trs, mss


def seq_pools(spec):
    from cherab.core.atomic import elements as E
    if len(spec['species']) == 2:
        return ([[E.hydrogen, E.deuterium, E.protium, E.helium], [E.carbon, E.carbon13, E.helium]],
                [[E.hydrogen, E.deuterium, E.helium], [E.carbon, E.carbon13]])
    return ([[E.carbon, E.carbon13, E.hydrogen, E.deuterium, E.protium]], [[E.carbon, E.carbon13, E.hydrogen, E.deuterium]])


def build_seq_repo(repo, name, spec):
    """deterministic content: returns root, entries {(syms, charge, tr, ms): tag}, wavelengths {(sym, charge, tr): nm}"""
    from cherab.openadas import repository as R
    from cherab.core.atomic import elements as E
    root = repo.fresh()
    trs, mss = seq_dims(name)
    _, store = seq_pools(spec)
    entries, wls = {}, {}
    tag = 2.0
    for key in itertools.product(*store):
        for charge, tr, ms in itertools.product(SEQ_CHARGES, trs, mss):
            if charge > key[-1].atomic_number:
                continue
            if charge == 2 and tr == (4, 2):
                continue                                  # a hole: this datum is missing
            ch = dict(charge=charge, donor_charge=0, metastable=ms)
            spec['write'](root, key, ch, tr, tag_table(spec['shape'], tag))
            entries[(tuple(key_syms(key)), charge, tr if name in USES_TRANSITION else None, ms if name in USES_METASTABLE else None)] = tag
            tag += 1.0
    if spec['wl'] or name == 'wavelength':
        w = 401.0
        for sp in (E.carbon, E.carbon13, E.hydrogen, E.deuterium, E.helium):
            for charge, tr in itertools.product((0, 1, 2), SEQ_TRANSITIONS):
                if charge > sp.atomic_number:
                    continue
                if _is_iso(sp) and tr == (4, 2):
                    continue                              # isotope wavelength missing: the fall-back decides
                wls[(sp.symbol, charge, tr)] = w
                R.update_wavelengths({sp: {charge: {tr: w}}}, repository_path=root)
                w += 7.0
    return root, entries, wls


def seq_requests(name, spec):
    trs, mss = seq_dims(name)
    req, _ = seq_pools(spec)
    out = []
    for species in itertools.product(*req):
        for charge, tr, ms in itertools.product(SEQ_CHARGES, trs, mss):
            out.append(dict(species=list(species), charge=charge, tr=tr, ms=ms))
    return out


def seq_coords(name, spec, rq):
    """(rate coordinates, wavelength coordinates) of a request"""
    rc = (rq['charge'], rq['tr'] if name in USES_TRANSITION else None, rq['ms'] if name in USES_METASTABLE else None)
    wc = None
    if spec['wl']:
        wc = (0 if spec['wl'][1] is None else rq['charge'] + spec['wl'][1], rq['tr'])
    return rc, wc


def seq_observe(name, spec, a, rq, entries, wls):
    """canonical observation of one request on provider `a` (vocabulary of the driver's `pol` output; a datum that
    belongs to other coordinates than the request's is marked `@stale`)"""
    ch = dict(charge=rq['charge'], donor_charge=0, metastable=rq['ms'])
    st, val, in_list = call_accessor(spec, a, rq['species'], ch, rq['tr'])
    if st == 'ctor':
        return 'raises:ValueError'
    if st != 'ok':
        return 'raises:' + st
    rc, wc = seq_coords(name, spec, rq)
    n = len(ARG_NAMES[spec['shape']])
    if all(type(r).__name__.startswith('Null') for r in val):
        zero = all(impl_eval(r, p) == ('ok', 0.0) for r in val for p in ([1e19] * n, [-1.0] * n, [3.3] * n))
        return ('null:%d' if zero else 'null-not-zero:%d') % in_list
    r = val[0]
    tab0 = tag_table(spec['shape'], 1.0)
    p = first_knot(spec['shape'], tab0)
    wl = getattr(r, 'wavelength', None)
    stv = impl_eval(r, p)
    key = '?'
    if stv[0] == 'ok':
        t1 = tab0['metastables'][1] if spec['shape'] == 'beamCX' else tab0
        unit = expected_at(spec['shape'], t1, [0] * len(p), wl)
        for (syms, c, t, m), tag in entries.items():
            if close(stv[1], tag * unit, 1e-9):
                key = ','.join(syms) + ('' if (c, t, m) == rc else '@stale')
    wsym = '-'
    if spec['wl']:
        wsym = '?'
        for (sym, c, t), w in wls.items():
            if w == wl:
                wsym = sym + ('' if (c, t) == wc else '@stale')
    return 'rate:%s:%s:%d' % (key, wsym, in_list)


def seq_abstract(name, spec, rq, entries, wls):
    """the abstract call of the stateless model for this request: stored symbol vectors / wavelength symbols at its coordinates"""
    rc, wc = seq_coords(name, spec, rq)
    stored = sorted(list(syms) for (syms, c, t, m) in entries if (c, t, m) == rc)
    wsyms = sorted(sym for (sym, c, t) in wls if wc is not None and (c, t) == wc)
    return stored, wsyms


def rq_json(rq):
    return dict(species=[s.name for s in rq['species']], charge=rq['charge'], tr=list(rq['tr']), ms=rq['ms'])


def rq_from_json(d):
    from cherab.core.atomic import elements as E
    return dict(species=[getattr(E, n) for n in d['species']], charge=d['charge'], tr=tuple(d['tr']), ms=d['ms'])


def differs_in_one(a, b):
    d = sum(1 for x, y in zip(a['species'], b['species']) if x is not y)
    d += (a['charge'] != b['charge']) + (a['tr'] != b['tr']) + (a['ms'] != b['ms'])
    return d == 1


def seq_judge(ctx, name, spec, root, flags, order, k, o, fresh_o, reqs, entries, wls, provider):
    """S for the k-th request of `order`: same answer as a fresh provider; then the sentence itself"""
    rq = reqs[order[k]]
    null, fb, ex = flags
    if o != fresh_o:
        # shrink to two requests: which single earlier request is enough?
        culprit = None
        for j in order[:k]:
            a = provider()
            seq_observe(name, spec, a, reqs[j], entries, wls)
            if seq_observe(name, spec, a, rq, entries, wls) == o:
                culprit = j
                break
        seqr = [reqs[culprit]] if culprit is not None else [reqs[j] for j in order[:k]]
        fo, so = fresh_o.split(':'), o.split(':')
        what = 'outcome'
        if fo[0] == so[0] == 'rate':
            what = 'rates' if fo[1] != so[1] else ('wavelength' if fo[2] != so[2] else 'result')
        m = dict(kind='sequence', accessor=name, null=null, fallback=fb, extrapolate=ex,
                 requests=[rq_json(x) for x in seqr] + [rq_json(rq)], in_sequence=o, fresh_provider=fresh_o)
        fail(ctx, 'C07:sequence:%s:%s-depends-on-earlier-request' % (name, what),
             '%s%s on a provider that had answered %s before gives %s, a fresh provider gives %s: the answer must depend on the repository '
             'content and the request only (%s)' % (name, rq_json(rq), [rq_json(x) for x in seqr][:3], o, fresh_o,
                                                    'hc/lambda of another species/transition' if what == 'wavelength' else 'stale ' + what), m)
        return
    stored, wsyms = seq_abstract(name, spec, rq, entries, wls)
    rc, wc = seq_coords(name, spec, rq)
    wd = {sym: wls[(sym, wc[0], wc[1])] for sym in wsyms} if wc else {}
    m = dict(kind='sequence', accessor=name, null=null, fallback=fb, extrapolate=ex, requests=[rq_json(rq)])
    policy_oracle(ctx, name, spec, rq['species'], stored, wd, null, fb, o.replace('@stale', ''), m)
    if '@stale' in o or ':?' in o:
        fail(ctx, 'C07:sequence:%s:datum-of-other-coordinates' % name, '%s%s returned %s' % (name, rq_json(rq), o), m)


def sequence_stream(ctx, cat, only=None):
    from cherab.openadas import OpenADAS
    rng = ctx.rng
    repo = Repo()
    lines, obs, meta = [], [], []
    full = ctx.tier == 'thorough'
    for name, spec in cat.items():
        if only and name != only:
            continue
        root, entries, wls = build_seq_repo(repo, name, spec)
        reqs = seq_requests(name, spec)
        flag_sets = list(itertools.product((False, True), (False, True)))
        if not full:
            # both fall-back settings always; the null flag alternates
            k = rng.randrange(2)
            flag_sets = [(bool(k), False), (not k, True)]
        for null, fb in flag_sets:
            ex = rng.random() < 0.5
            flags = (null, fb, ex)

            def provider():
                return OpenADAS(data_path=root, permit_extrapolation=ex, missing_rates_return_null=null, wavelength_element_fallback=fb)

            fresh = [seq_observe(name, spec, provider(), rq, entries, wls) for rq in reqs]
            pol = []
            for rq in reqs:
                stored, wsyms = seq_abstract(name, spec, rq, entries, wls)
                pol.append(pol_line(name, null, fb, list(zip(spec['species'], rq['species'])), stored, wsyms))
            # (a) long sequences: random permutations and their reverses, the permutation repeated once (warm memo)
            orders = []
            for _ in range(ctx.n(1, 4)):
                perm = list(range(len(reqs)))
                rng.shuffle(perm)
                orders += [perm + perm[: len(perm) // 2], perm[::-1]]
            # (b) every ordered pair of requests that differ in exactly one coordinate (species variant, charge,
            #     transition, metastable), each pair on its own provider
            pairs = [(i, j) for i in range(len(reqs)) for j in range(len(reqs)) if i != j and differs_in_one(reqs[i], reqs[j])]
            if not full and len(pairs) > 160:
                # always keep the element <-> isotope pairs; sample the rest
                keep = [p_ for p_ in pairs if reqs[p_[0]]['charge'] == reqs[p_[1]]['charge'] and reqs[p_[0]]['tr'] == reqs[p_[1]]['tr']
                        and reqs[p_[0]]['ms'] == reqs[p_[1]]['ms']
                        and all(_elem(x) is _elem(y) for x, y in zip(reqs[p_[0]]['species'], reqs[p_[1]]['species']))]
                rest = [p_ for p_ in pairs if p_ not in set(keep)]
                pairs = keep + rng.sample(rest, min(len(rest), 160 - min(160, len(keep))))
            orders += [list(p_) for p_ in pairs]
            for order in orders:
                a = provider()
                for k, idx in enumerate(order):
                    o = seq_observe(name, spec, a, reqs[idx], entries, wls)
                    lines.append(pol[idx])
                    obs.append(o)
                    meta.append(dict(kind='sequence', accessor=name, null=null, fallback=fb, extrapolate=ex,
                                     requests=[rq_json(reqs[j]) for j in order[:k + 1]][-3:]))
                    ctx.count('sequence:' + o.split(':')[0])
                    ctx.case(key=('seq', name, flags, tuple(order[max(0, k - 1):k + 1]), len(order) > 2))
                    seq_judge(ctx, name, spec, root, flags, order, k, o, fresh[idx], reqs, entries, wls, provider)
        repo.drop(root)
    # ---- OpenADAS.wavelength itself
    if not only or only == 'wavelength':
        from cherab.core.atomic import elements as E
        wspec = dict(wl=(0, 0), species=['ion'], shape='grid2')
        root, entries, wls = build_seq_repo(repo, 'wavelength', dict(wspec, write=lambda *a_: None))
        reqs = [dict(species=[sp], charge=c, tr=tr, ms=1) for sp in (E.carbon, E.carbon13, E.hydrogen, E.deuterium, E.protium, E.helium)
                for c in (0, 1) for tr in SEQ_TRANSITIONS]
        for fb in (False, True):
            def wobs(a, rq):
                try:
                    w = a.wavelength(rq['species'][0], rq['charge'], rq['tr'])
                except Exception as e:  # noqa
                    return 'raises:' + type(e).__name__
                for (sym, c, t), v in wls.items():
                    if v == w:
                        return 'ok:' + sym + ('' if (c, t) == (rq['charge'], rq['tr']) else '@stale')
                return 'ok:?'

            def wprov():
                return OpenADAS(data_path=root, wavelength_element_fallback=fb)

            fresh = [wobs(wprov(), rq) for rq in reqs]
            orders = []
            for _ in range(ctx.n(2, 6)):
                perm = list(range(len(reqs)))
                rng.shuffle(perm)
                orders += [perm + perm[: len(perm) // 2], perm[::-1]]
            orders += [[i, j] for i in range(len(reqs)) for j in range(len(reqs)) if i != j and differs_in_one(reqs[i], reqs[j])]
            for order in orders:
                a = wprov()
                for k, idx in enumerate(order):
                    rq = reqs[idx]
                    sp = rq['species'][0]
                    o = wobs(a, rq)
                    wsyms = sorted(sym for (sym, c, t) in wls if (c, t) == (rq['charge'], rq['tr']))
                    lines.append('wl %d %s %s %s %s %d %s' % (fb, 'ion', sp.symbol, _elem(sp).symbol, '1' if _is_iso(sp) else '0', len(wsyms), ' '.join(wsyms)))
                    obs.append(o)
                    m = dict(kind='sequence', accessor='wavelength', null=False, fallback=fb, extrapolate=False,
                             requests=[rq_json(reqs[j]) for j in order[:k + 1]][-3:])
                    meta.append(m)
                    ctx.case(key=('seq', 'wavelength', fb, tuple(order[max(0, k - 1):k + 1]), len(order) > 2))
                    ctx.count('sequence:wavelength')
                    if o != fresh[idx]:
                        culprit = None
                        for j in order[:k]:
                            a2 = wprov()
                            wobs(a2, reqs[j])
                            if wobs(a2, rq) == o:
                                culprit = j
                                break
                        seqr = [reqs[culprit]] if culprit is not None else [reqs[j] for j in order[:k]]
                        m2 = dict(m, requests=[rq_json(x) for x in seqr] + [rq_json(rq)], in_sequence=o, fresh_provider=fresh[idx])
                        fail(ctx, 'C07:sequence:wavelength:wavelength-depends-on-earlier-request',
                             'OpenADAS.wavelength%s on a provider that had answered %s before gives %s, a fresh provider gives %s '
                             '(distinct wavelengths are stored for the element and its isotope): every photon coefficient converted with it uses hc/lambda '
                             'of the wrong species' % (rq_json(rq), [rq_json(x) for x in seqr][:3], o, fresh[idx]), m2)
                    else:
                        want = ('ok:' + sp.symbol) if sp.symbol in wsyms else (
                            'ok:' + _elem(sp).symbol if (fb and _is_iso(sp) and _elem(sp).symbol in wsyms) else 'raises:RuntimeError')
                        if o != want:
                            fail(ctx, 'C07:wavelength:%s' % ('wrong-species' if o.startswith('ok') else o.split(':')[1]),
                                 'OpenADAS.wavelength%s with stored %s, fallback=%s gave %s, property wants %s' % (rq_json(rq), wsyms, fb, o, want), m)
        repo.drop(root)
    repo.close()
    outs = drive(ctx, lines) if lines else []
    for line, o, m, d in zip(lines, obs, meta, outs):
        ctx.traces += 1
        if o != d:
            ctx.disagreements += 1
            ctx.count('disagreement:sequence')
            _broke(ctx, 'sequence stream ' + m['accessor'], dict(input=m, model=d, implementation=o,
                                                                  note='the model is stateless: the answer is a function of repository content and request'))
    return len(lines)


def run_sequence_record(ctx, cat, d):
    """replay of a `sequence` record: the recorded requests on one provider, the last one judged"""
    from cherab.openadas import OpenADAS
    repo = Repo()
    name = d['accessor']
    reqs = [rq_from_json(x) for x in d['requests']]
    null, fb, ex = d['null'], d['fallback'], d['extrapolate']
    if name == 'wavelength':
        root, entries, wls = build_seq_repo(repo, 'wavelength', dict(wl=(0, 0), species=['ion'], shape='grid2', write=lambda *a_: None))

        def once(a, rq):
            try:
                return 'ok:%r' % a.wavelength(rq['species'][0], rq['charge'], rq['tr'])
            except Exception as e:  # noqa
                return 'raises:' + type(e).__name__
        a = OpenADAS(data_path=root, wavelength_element_fallback=fb)
        seq = [once(a, rq) for rq in reqs]
        fresh = once(OpenADAS(data_path=root, wavelength_element_fallback=fb), reqs[-1])
    else:
        spec = cat[name]
        root, entries, wls = build_seq_repo(repo, name, spec)

        def prov():
            return OpenADAS(data_path=root, permit_extrapolation=ex, missing_rates_return_null=null, wavelength_element_fallback=fb)
        a = prov()
        seq = [seq_observe(name, spec, a, rq, entries, wls) for rq in reqs]
        fresh = seq_observe(name, spec, prov(), reqs[-1], entries, wls)
    repo.close()
    print('in sequence: %s\nfresh provider for the last request: %s' % (seq, fresh))
    if seq[-1] != fresh:
        what = 'wavelength'
        if name != 'wavelength':
            fo, so = fresh.split(':'), seq[-1].split(':')
            what = 'outcome'
            if fo[0] == so[0] == 'rate':
                what = 'rates' if fo[1] != so[1] else ('wavelength' if fo[2] != so[2] else 'result')
        fail(ctx, 'C07:sequence:%s:%s-depends-on-earlier-request' % (name, what),
             '%s: %s in sequence, %s on a fresh provider' % (name, seq[-1], fresh), d)
    return True


# ------------------------------------------------------------------------------------------------ numeric stream (K + S)
STEEP_DIMS = {'grid2': (4, 4), 'grid3': (4, 3, 4), 'beam': (4, 4, 5), 'beamCX': (4, 4, 4, 5, 5)}
LINEAR_AXES = {'beamCX': (1, 2, 3, 4)}


def make_steep(rng, shape, tab, axis_i):
    """values alternating over 2-4 decades between adjacent knots of axis `axis_i` (strictly positive, 6 digits)"""
    amps = [rng.uniform(2.0, 4.0) for _ in range(16)]      # a different swing at every knot (a symmetric zig-zag has
    sgn = rng.choice((1, -1))                              # zero slope at the knots and does not undershoot)

    def f(i):
        return 10 ** (sgn * (amps[i % 16] / 2) * (1 if i % 2 == 0 else -1))

    def scale(t):
        t = json.loads(json.dumps(t))
        if shape == 'grid2':
            t['rate'] = [[_sig(v * f((i, j)[axis_i])) for j, v in enumerate(row)] for i, row in enumerate(t['rate'])]
        elif shape == 'grid3':
            t['rate'] = [[[_sig(v * f((i, j, k)[axis_i])) for k, v in enumerate(r)] for j, r in enumerate(pl)] for i, pl in enumerate(t['rate'])]
        elif shape == 'beam':
            if axis_i < 2:
                t['sen'] = [[_sig(v * f((i, j)[axis_i])) for j, v in enumerate(row)] for i, row in enumerate(t['sen'])]
            else:
                t['st'] = [_sig(v * f(i)) for i, v in enumerate(t['st'])]
        else:
            k = ('qeb', 'qti', 'qni', 'qz', 'qb')[axis_i]
            t[k] = [_sig(v * f(i)) for i, v in enumerate(t[k])]
        return t

    if shape == 'beamCX':
        return dict(metastables={int(m): scale(t) for m, t in tab['metastables'].items()})
    return scale(tab)


def steep_points(rng, shape, tab, axis_i):
    """every grid point (they must still reproduce) + four interior points per cell of the steep axis, the other
    coordinates once at a knot and once inside a cell"""
    second = None
    if isinstance(axis_i, (tuple, list)):
        axis_i, second = axis_i[0], axis_i[1]
    axs = axes_of(shape, tab)
    lin = LINEAR_AXES.get(shape, ())
    pts = [('knot', [axs[d][i] for d, i in enumerate(idx)], dict(idx=list(idx)))
           for idx in itertools.product(*[range(len(a)) for a in axs])]

    def between(d, a, i, fr):
        return a[i] + fr * (a[i + 1] - a[i]) if d in lin else a[i] ** (1 - fr) * a[i + 1] ** fr

    a = axs[axis_i]
    for i in range(len(a) - 1):
        for fr in (0.12, 0.38, 0.62, 0.88):
            for inside in (False, True):
                p = []
                for d, b in enumerate(axs):
                    if d == axis_i:
                        p.append(between(d, a, i, fr))
                    elif d == second and len(b) > 1:
                        # the second steep axis: also at an undershoot-prone position of a random cell
                        p.append(between(d, b, rng.randrange(len(b) - 1), rng.choice((0.12, 0.38, 0.62, 0.88))))
                    elif len(b) == 1 or not inside:
                        p.append(b[rng.randrange(len(b))])
                    else:
                        j = rng.randrange(len(b) - 1)
                        p.append(between(d, b, j, rng.uniform(0.2, 0.8)))
                pts.append(('steep', p, dict(axis=axis_i, cell=i, fraction=fr, second=second)))
    return pts


def cx_double_negative_points(r, tab, pair):
    """directed search: positions on both steep axes where raysect's cubic undershoots below zero, combined, so that
    two negative factors meet (their product is positive; only the intermediate clamp makes the rate 0)"""
    axs = axes_of('beamCX', tab)
    fns = [r._eb, r._ti, r._ni, r._zeff, r._b]
    neg = {}
    for d in pair:
        a = axs[d]
        neg[d] = []
        for i in range(len(a) - 1):
            for k in range(1, 20):
                x = a[i] + k / 20.0 * (a[i + 1] - a[i])
                try:
                    if fns[d](x) < 0:
                        neg[d].append(x)
                except ValueError:
                    pass
    pts = []
    for x in neg[pair[0]][:: max(1, len(neg[pair[0]]) // 4)][:4]:
        for y in neg[pair[1]][:: max(1, len(neg[pair[1]]) // 3)][:3]:
            p = [a[0] for a in axs]
            p[pair[0]], p[pair[1]] = x, y
            pts.append(('steep', p, dict(axis=pair[0], second=pair[1], double_negative=True)))
    return pts


def cx_chain_line(r, args):
    """`cxf` line: raysect's own values of the five interpolators of the BeamCXPEC object `r` at `args`"""
    def ev(fn, x):
        try:
            return f2b(float(fn(x)))
        except ValueError:
            return 'VE'
    en, t, d, z, b = args
    return ' '.join(['cxf', f2b(en), f2b(t), f2b(d), ev(r._eb, math.log10(en)), ev(r._ti, t), ev(r._ni, d), ev(r._zeff, z), ev(r._b, b)])


def _const_like(t, v):
    return [_const_like(x, v) for x in t] if isinstance(t, list) else v


def _flat_along(t, axis_i, depth=0):
    """make a nested table constant along axis `axis_i` (copy of the index-0 slice)"""
    if depth == axis_i:
        return [json.loads(json.dumps(t[0])) for _ in t]
    return [_flat_along(x, axis_i, depth + 1) for x in t]


def degenerate(shape, tab, label):
    """exactly flat components, components equal to 1 / to the reference value (the tables stay positive)"""
    def one(t):
        t = json.loads(json.dumps(t))
        if shape in ('grid2', 'grid3'):
            if label == 'flat':
                t['rate'] = _const_like(t['rate'], _flat_first(t['rate']))
            elif label == 'ones':
                t['rate'] = _const_like(t['rate'], 1.0)
            elif label.startswith('flat-axis'):
                t['rate'] = _flat_along(t['rate'], int(label[-1]))
        elif shape == 'beam':
            if label == 'st-flat':
                t['st'] = [t['st'][0]] * len(t['st'])
            elif label == 'st-equals-sref':
                t['st'] = [t['sref']] * len(t['st'])
            elif label == 'sen-flat':
                t['sen'] = _const_like(t['sen'], t['sen'][0][0])
            elif label == 'ones':
                t['sen'] = _const_like(t['sen'], 1.0)
                t['st'] = [1.0] * len(t['st'])
                t['sref'] = 1.0
            elif label.startswith('flat-axis'):
                t['sen'] = _flat_along(t['sen'], int(label[-1]))
            elif label == 'all-flat':
                t['sen'] = _const_like(t['sen'], t['sen'][0][0])
                t['st'] = [t['sref']] * len(t['st'])
        else:
            ks = ('qeb', 'qti', 'qni', 'qz', 'qb')
            if label.startswith('flat-axis'):
                k = ks[int(label[-1])]
                t[k] = [t[k][0]] * len(t[k])
            elif label.startswith('ref-axis'):
                k = ks[int(label[-1])]
                t[k] = [t['qref']] * len(t[k])
            elif label == 'all-flat':
                for k in ks:
                    t[k] = [t[k][0]] * len(t[k])
            elif label == 'ones':
                for k in ks:
                    t[k] = [1.0] * len(t[k])
                t['qref'] = 1.0
        return t
    if shape == 'beamCX':
        return dict(metastables={int(m): one(t) for m, t in tab['metastables'].items()})
    return one(tab)


MAGNITUDES = ['mag:-280:0', 'mag:-40:60', 'mag:0:64', 'mag:-33:0', 'mag:40:0', 'mag:30:120']
MAG_DIMS = {'grid2': (3, 5), 'grid3': (3, 4, 3), 'beam': (4, 3, 3), 'beamCX': (5, 2, 3, 2, 2)}


def magnitude(shape, tab, label, photon):
    """the same table at an extreme but legal magnitude: every stored coefficient times 10**shift (hot end) falling by
    `ramp` further decades towards the cold end of the temperature / energy axis like exp(-E/T) (the cold ends of ADF11
    tables: 8.6e-74 m^3/s and below).  Photon coefficients stay above 1e-270 so that x / wavelength * hc stays a normal
    double.  Linear-space components (st, q*) and their reference value move together by 10**-45 / 10**+20."""
    _, shift, ramp = label.split(':')
    shift, ramp = float(shift), float(ramp)
    if photon:
        shift = max(shift, -250.0)
        ramp = min(ramp, shift + 250.0)
    joint = 1e-45 if shift < 0 else (1e20 if shift > 0 else 1.0)

    def u(xs):
        if len(xs) < 2:
            return [0.0] * len(xs)
        a, b = 1.0 / xs[0], 1.0 / xs[-1]
        return [(1.0 / x - b) / (a - b) for x in xs]

    def one(t):
        t = json.loads(json.dumps(t))
        if shape == 'grid2':
            w = u(t['te'])
            t['rate'] = [[_sig(v * 10 ** (shift - ramp * w[j])) for j, v in enumerate(row)] for row in t['rate']]
        elif shape == 'grid3':
            w = u(t['te'])
            t['rate'] = [[[_sig(v * 10 ** (shift - ramp * w[j])) for v in cell] for j, cell in enumerate(pl)] for pl in t['rate']]
        elif shape == 'beam':
            w = u(t['e'])
            t['sen'] = [[_sig(v * 10 ** (shift - ramp * w[i])) for v in row] for i, row in enumerate(t['sen'])]
            t['st'] = [_sig(v * joint) for v in t['st']]
            t['sref'] = _sig(t['sref'] * joint)
        else:
            w = u(t['eb'])
            t['qeb'] = [_sig(v * 10 ** (shift - ramp * w[i])) for i, v in enumerate(t['qeb'])]
            for k in ('qti', 'qni', 'qz', 'qb'):
                t[k] = [_sig(v * joint) for v in t[k]]
            t['qref'] = _sig(t['qref'] * joint)
        return t
    if shape == 'beamCX':
        return dict(metastables={int(m): one(t) for m, t in tab['metastables'].items()})
    return one(tab)


def _flat_first(t):
    return _flat_first(t[0]) if isinstance(t, list) else t


DEGENERATE = {
    'grid2': [((3, 3), 'flat'), ((3, 4), 'ones'), ((4, 3), 'flat-axis0'), ((3, 4), 'flat-axis1'), ((2, 2), 'flat'), ((2, 3), None), ((3, 2), 'ones')],
    'grid3': [((3, 3, 3), 'flat'), ((2, 3, 2), 'ones'), ((3, 3, 3), 'flat-axis0'), ((3, 3, 3), 'flat-axis1'), ((3, 3, 3), 'flat-axis2'), ((2, 2, 2), None)],
    'beam': [((3, 3, 4), 'st-flat'), ((3, 3, 3), 'st-equals-sref'), ((3, 3, 3), 'sen-flat'), ((3, 3, 3), 'ones'), ((3, 3, 3), 'flat-axis0'),
             ((3, 3, 3), 'flat-axis1'), ((3, 4, 3), 'all-flat'), ((2, 2, 2), None), ((2, 2, 2), 'st-flat'), ((1, 3, 3), 'st-flat'), ((3, 1, 2), 'st-equals-sref'),
             ((1, 1, 3), 'all-flat')],
    'beamCX': [((3, 3, 3, 3, 3), 'flat-axis%d' % i) for i in range(5)] + [((3, 3, 3, 3, 3), 'ref-axis%d' % i) for i in range(1, 5)]
              + [((3, 3, 3, 3, 3), 'all-flat'), ((3, 3, 3, 3, 3), 'ones'), ((2, 2, 2, 2, 2), None), ((2, 2, 2, 2, 2), 'all-flat'), ((1, 2, 1, 2, 2), 'all-flat')],
}


def numeric_case(ctx, cat, repo, name, dims, ex, gap=None, fixed=None, steep=None, degen=None, keep_root=False, shuffle=None):
    """build one repository + accessor call; returns dict with driver line(s) and observations.
    `fixed` (replay): dict(species, ch, tr, tab, wls, fb, extra) instead of generated content"""
    from cherab.openadas import OpenADAS, repository as R
    rng = ctx.rng
    spec = cat[name]
    shape = spec['shape']
    first, second = _species_pool()
    species = fb = None
    if fixed:
        species, fb = fixed['species'], fixed['fb']
    if species is None:
        species = [rng.choice(second)] if len(spec['species']) == 1 else [rng.choice(first), rng.choice(second)]
    ch = fixed['ch'] if fixed else charges_for(rng, name, species)
    tr = fixed['tr'] if fixed else rng.choice([(3, 2), (8, 7), ('2s1 2S0.5', '2p1 2P1.5'), (4, 2)])
    root = repo.fresh()
    elem_key = tuple(_elem(s) for s in species)
    req_key = tuple(species)
    tabs = {}
    tab = fixed['tab'] if fixed else gen_table(rng, shape, dims, gap)
    if degen and not fixed:
        tab = magnitude(shape, tab, degen, bool(spec['wl'])) if degen.startswith('mag:') else degenerate(shape, tab, degen)
    if steep is not None and not fixed:
        for ax_ in (steep if isinstance(steep, tuple) else (steep,)):
            tab = make_steep(rng, shape, tab, ax_)
    spec['write'](root, elem_key, ch, tr, json.loads(json.dumps(tab)) if shape != 'beamCX' else _cx_copy(tab))
    tabs[tuple(key_syms(elem_key))] = tab
    if tuple(key_syms(req_key)) not in tabs and not fixed and rng.random() < 0.7:
        other = gen_table(rng, shape, dims)
        spec['write'](root, req_key, ch, tr, json.loads(json.dumps(other)) if shape != 'beamCX' else _cx_copy(other))
        tabs[tuple(key_syms(req_key))] = other
    wls = {}
    if spec['wl']:
        wsp = species[spec['wl'][0]]
        wch = 0 if spec['wl'][1] is None else ch['charge'] + spec['wl'][1]
        for s in {wsp.symbol: wsp, _elem(wsp).symbol: _elem(wsp)}.values():
            if fixed and s.symbol not in fixed['wls']:
                continue
            wls[s.symbol] = fixed['wls'][s.symbol] if fixed else _sig(rng.uniform(90.0, 1200.0))
            R.update_wavelengths({s: {wch: {tr: wls[s.symbol]}}}, repository_path=root)
    fb = rng.random() < 0.5 if fb is None else fb
    if shuffle if shuffle is not None else (not fixed and rng.random() < 0.35):
        shuffle_json_files(rng, root)            # legal but unusual key order in every repository file
        ctx.count('files-in-shuffled-key-order')
    a = OpenADAS(data_path=root, permit_extrapolation=ex, missing_rates_return_null=rng.random() < 0.5, wavelength_element_fallback=fb)
    st, val, in_list = call_accessor(spec, a, species, ch, tr)
    if not keep_root:
        repo.drop(root)
    return dict(root=root, provider=a, degen=degen, name=name, spec=spec, species=species, ch=ch, tr=tr, tabs=tabs, elem_syms=tuple(key_syms(elem_key)), wls=wls, fb=fb, ex=ex,
                st=st, val=val, in_list=in_list, dims=dims, extra=(fixed or {}).get('extra'),
                steep=steep if steep is not None else (fixed or {}).get('steep'),
                pol=pol_line(name, False, fb, list(zip(spec['species'], species)), [list(k) for k in tabs], sorted(wls)))


def _cx_copy(tab):
    return dict(metastables={m: {k: (list(v) if isinstance(v, list) else v) for k, v in t.items()} for m, t in tab['metastables'].items()})


def numeric_stream(ctx, cat, plan):
    """plan: list of (accessor, dims, ex, gap)"""
    repo = Repo()
    cases = [numeric_case(ctx, cat, repo, *p) for p in plan]
    repo.close()
    pol_out = drive(ctx, [c['pol'] for c in cases])
    lines, index, chain_cases = [], [], []
    for c, po in zip(cases, pol_out):
        spec, shape = c['spec'], c['spec']['shape']
        desc = dict(kind='numeric', accessor=c['name'], species=[s.name for s in c['species']], charges=c['ch'], transition=list(c['tr']),
                    extrapolate=c['ex'], fallback=c['fb'], wavelengths=c['wls'], dims=list(c['dims']), degenerate=c.get('degen'),
                    table=c['tabs'][c['elem_syms']])
        # ---- K, accessor level: the policy model's prediction of which table / wavelength is used
        c['model_tab'] = c['model_wl'] = None
        if po.startswith('rate:'):
            _, key, wsym, _ = po.split(':')
            c['model_tab'] = c['tabs'].get(tuple(key.split(',')))
            c['model_wl'] = c['wls'].get(wsym) if spec['wl'] else None
        # ---- S, accessor level
        want_wl = None
        if spec['wl']:
            req = c['species'][spec['wl'][0]]
            want_wl = c['wls'].get(req.symbol)
        c['want_wl'] = want_wl
        c['want_tab'] = c['tabs'][c['elem_syms']]
        mts = sorted(c['want_tab']['metastables']) if shape == 'beamCX' else [None]
        if c['st'] == 'ctor':
            # raysect refuses single-point axes for the N-D array interpolators: no rate object is returned
            ctx.count('ctor-rejects:' + c['name'])
            ctx.case(key=('ctor', c['name'], tuple(c['dims'])))
            if c['model_tab'] is None:
                ctx.disagreements += 1
                _broke(ctx, 'numeric stream ' + c['name'], dict(input=desc, model=po, implementation='constructor raised ValueError'))
                continue
            t0 = c['model_tab']['metastables'][mts[0]] if shape == 'beamCX' else c['model_tab']
            lines.append(rate_line(spec['cls'], shape, c['ex'], c['model_wl'], t0, [[1.0] * len(ARG_NAMES[shape])]))
            index.append((c, None, None, [('ctor-probe', None, {})], desc))
            continue
        if c['st'] != 'ok':
            ctx.count('accessor-raised:' + c['st'])
            fail(ctx, 'C07:%s:raises-with-data-present:%s' % (c['name'], c['st']),
                     '%s raised %s: %s although data and wavelength are stored' % (c['name'], c['st'], c['val']), desc)
            if po != 'raises:' + c['st']:
                ctx.disagreements += 1
                _broke(ctx, 'numeric stream ' + c['name'], dict(input=desc, model=po, implementation=c['st']))
            continue
        if shape == 'beamCX':
            got = sorted(r.donor_metastable for r in c['val'])
            if got != mts or not c['in_list']:
                fail(ctx, 'C07:beam_cx_pec:metastable-list', 'returned metastables %s for stored %s' % (got, mts), desc)
        for r in c['val']:
            m = getattr(r, 'donor_metastable', None) if shape == 'beamCX' else None
            wt = c['want_tab']['metastables'][m] if shape == 'beamCX' else c['want_tab']
            mt = (c['model_tab']['metastables'][m] if shape == 'beamCX' else c['model_tab']) if c['model_tab'] else None
            if c.get('steep') is not None:
                pts = steep_points(ctx.rng, shape, wt, c['steep'])
            else:
                pts = eval_points(ctx.rng, shape, wt, ctx.n(5, 12))
            if shape == 'beamCX' and isinstance(c.get('steep'), (tuple, list)):
                pts += cx_double_negative_points(r, wt, c['steep'])
            if c.get('extra'):
                pts.append((c['extra']['point'], c['extra']['args'], c['extra']['info']))
            res = [impl_eval(r, p[1]) for p in pts]
            if mt is None:
                _broke(ctx, 'numeric stream ' + c['name'], dict(input=desc, model=po, implementation='rate object'))
                continue
            lines.append(rate_line(spec['cls'], shape, c['ex'], c['model_wl'], mt, [p[1] for p in pts]))
            index.append((c, wt, res, pts, dict(desc, metastable=m, table=wt, steep=c.get('steep'))))
            if shape == 'beamCX' and c.get('steep') is not None:
                for (kind, args, info), (ist, iv) in zip(pts, res):
                    if all(x > 0 for x in args[:3]):
                        chain_cases.append((cx_chain_line(r, args), kind, args, ist, iv, dict(desc, metastable=m, table=wt, steep=c['steep'], args=args, point=kind, info=info)))
    chain_out = drive(ctx, [x[0] for x in chain_cases]) if chain_cases else []
    for (line, kind, args, ist, iv, d), out in zip(chain_cases, chain_out):
        # K, clamp structure: the model's chain (guard + clamp flags read from the source) on raysect's own factor values
        ctx.traces += 1
        mst, mv = parse_out(out)
        facs = [b2f(t) for t in line.split()[5:] if t != 'VE']
        if any(f < 0 for f in facs):
            ctx.count('steep:negative-factor')
        if sum(1 for f in facs[1:] if f < 0) >= 2:
            ctx.count('steep:two-negative-factors')
        if ist == 'ok' and iv == 0.0:
            ctx.count('steep:clamp-fired')
        agree = ist == mst and (ist != 'ok' or (close(iv, mv, 1e-9) and (iv == 0.0) == (mv == 0.0)))
        if not agree:
            ctx.disagreements += 1
            ctx.count('disagreement:chain')
            _broke(ctx, 'BeamCXPEC clamp chain', dict(input=d, model=[mst, mv], implementation=[ist, iv], factors=facs))
    outs = drive(ctx, lines) if lines else []
    for (c, wt, res, pts, desc), out in zip(index, outs):
        spec, shape = c['spec'], c['spec']['shape']
        mods = [parse_out(t) for t in out.split()]
        if res is None:
            ctx.traces += 1
            if mods[0][0] != 'ctor':
                ctx.disagreements += 1
                _broke(ctx, 'numeric stream ctor ' + c['name'], dict(input=desc, model=out, implementation='constructor raised ValueError: ' + str(c['val'])))
            continue
        mag = str(c.get('degen') or '').startswith('mag:')
        for (kind, args, info), (ist, iv), (mst, mv) in zip(pts, res, mods):
            ctx.traces += 1
            ctx.count('eval:' + kind)
            if mag and kind == 'knot' and ist == 'ok':
                ctx.count('magnitude-knots')
                if 0 < iv < 1e-50:
                    ctx.count('magnitude-knots-below-1e-50')
                if iv > 1e10:
                    ctx.count('magnitude-knots-above-1e10')
            ctx.case(key=(c['name'], kind, tuple(f2b(x) for x in args), c['ex']),
                     sample=dict(accessor=c['name'], kind=kind, args=args, result=[ist, iv]) if ctx.rng.random() < 0.0004 else None)
            d = dict(desc, args=args, point=kind, info=info, implementation=[ist, iv])
            # -------- K: model vs implementation
            agree = ist == mst
            if agree and ist == 'ok' and kind == 'knot':
                agree = close(iv, mv, 1e-9, 0.0)
            if agree and ist == 'ok' and kind == 'nonpos':
                agree = (iv == 0.0) == (mv == 0.0)
            if not agree:
                ctx.disagreements += 1
                ctx.count('disagreement:' + kind)
                _broke(ctx, 'numeric stream %s %s' % (c['name'], kind), dict(input=d, model=[mst, mv], implementation=[ist, iv]))
            # -------- S: the property, directly
            rate_oracle(ctx, c, shape, wt, kind, args, info, ist, iv, d)


def rate_oracle(ctx, c, shape, wt, kind, args, info, ist, iv, d):
    name, cls = c['name'], c['spec']['cls']
    if kind == 'combo':
        want = combo_expect(shape, wt, args, c['ex'])
        if want[0] == 'zero' and ist != 'ok':
            fail(ctx, 'C07:%s:zero-guard-loses-to-range-policy' % cls, '%s%r raised %s; a non-positive density / temperature / energy must give 0' % (cls, tuple(args), ist), d)
            return
        if want[0] == 'raise' and ist != 'ValueError':
            fail(ctx, 'C07:%s:no-raise-outside-range:%s' % (cls, ARG_NAMES[shape][want[1][0]]), '%s%r returned %r outside the range' % (cls, tuple(args), iv), d)
            return
        if want[0] == 'raise':
            return
    if ist == 'ok':
        if not (iv >= 0.0):
            fail(ctx, 'C07:%s:negative-rate' % cls, '%s%r = %r < 0' % (cls, tuple(args), iv), d)
        if not math.isfinite(iv):
            fail(ctx, 'C07:%s:non-finite-rate:%s' % (cls, kind), '%s%r = %r' % (cls, tuple(args), iv), d)
    nonpos = [i for i in DTE[shape] if args[i] <= 0]
    if nonpos:
        # "returns zero when a density, temperature or energy argument is non-positive"
        if not (ist == 'ok' and iv == 0.0):
            which = ARG_NAMES[shape][nonpos[0]]
            fail(ctx, 'C07:%s:nonpositive-%s-not-zero' % (cls, which),
                     '%s(%s) with %s = %r returned %s, the property wants 0 (extrapolate=%s)' % (
                         cls, ', '.join('%s=%r' % (n, a) for n, a in zip(ARG_NAMES[shape], args)), which, args[nonpos[0]],
                         iv if ist == 'ok' else ist, c['ex']), d)
        return
    if kind == 'nonpos':
        return      # z_effective / b_field <= 0: outside the sentence
    if kind == 'knot':
        want = expected_at(shape, wt, info['idx'], c['want_wl'])
        if ist != 'ok':
            axs = axes_of(shape, wt)
            edge = any(i in (0, len(a) - 1) and len(a) > 1 for i, a in zip(info['idx'], axs))
            if ist == 'ValueError' and edge and not c['ex']:
                fail(ctx, 'C07:grid-point:edge-knot-raises',
                         '%s via %s: evaluating at the tabulated grid point %r (an end knot) raises ValueError "outside range" with permit_extrapolation=False: '
                         'the knots are np.log10(axis), the argument is libm log10(x) and the two differ by an ulp; table value %r' % (cls, name, args, want), d)
            else:
                fail(ctx, 'C07:%s:grid-point-raises:%s' % (cls, ist), '%s at grid point %r raised %s' % (cls, args, ist), d)
        elif not close(iv, want, 1e-9):
            sig = 'C07:%s:grid-point-value' % cls
            if c['spec']['wl'] and c['model_wl'] is not None and c['want_wl'] is not None and c['model_wl'] != c['want_wl'] \
                    and close(iv * c['model_wl'], want * c['want_wl'], 1e-9):
                sig = 'C07:%s:wavelength-not-of-requested-species' % name
            fail(ctx, sig, '%s via %s at grid point %r returned %r, stored value after conversion is %r' % (cls, name, args, iv, want), d)
        return
    if kind in ('interior', 'steep'):
        if ist != 'ok':
            fail(ctx, 'C07:%s:raises-inside-range' % cls, '%s%r raised %s strictly inside the tabulated range' % (cls, tuple(args), ist), d)
        return
    if kind == 'outside' and not info.get('single'):
        if c['ex']:
            if ist != 'ok':
                fail(ctx, 'C07:%s:raises-with-extrapolation' % cls, '%s%r raised %s although permit_extrapolation=True' % (cls, tuple(args), ist), d)
        else:
            if ist != 'ValueError':
                fail(ctx, 'C07:%s:no-raise-outside-range:%s' % (cls, ARG_NAMES[shape][info['axis']]),
                         '%s%r returned %r outside the tabulated range of %s with permit_extrapolation=False' % (
                             cls, tuple(args), iv if ist == 'ok' else ist, ARG_NAMES[shape][info['axis']]), d)


# ------------------------------------------------------------------------------------------------ argument-combination policy (K + S)
# Every special value in every argument position combined pairwise with every special value in every other position:
# non-positive (0, -1), below the range, above the range, exactly the first / the last knot.  Decision table of the
# sentence (= the guard order of the model): a non-positive density / temperature / energy gives 0 *whatever the other
# arguments are*; otherwise an argument outside a tabulated (multi-point) axis raises iff extrapolation is not permitted;
# otherwise a finite value >= 0, the stored value when every argument sits on a knot.
COMBO_SHAPES = {'grid2': [(3, 3)], 'grid3': [(3, 3, 3)], 'beam': [(3, 3, 3), (1, 3, 3), (3, 1, 2)], 'beamCX': [(3, 3, 3, 3, 3), (1, 3, 1, 3, 3), (3, 1, 3, 1, 1)]}


def combo_points(rng, shape, tab):
    axs = axes_of(shape, tab)
    lin = LINEAR_AXES.get(shape, ())

    def specials(d):
        a = axs[d]
        span = (a[-1] - a[0]) or 1.0
        below = a[0] - 0.3 * span if d in lin else a[0] / 3.0
        above = a[-1] + 0.3 * span if d in lin else a[-1] * 3.0
        out = [('zero', 0.0), ('negative', -1.0), ('first-knot', a[0]), ('last-knot', a[-1])]
        if len(a) > 1:
            out += [('below', below), ('above', above)]
        return out

    def plain(d):
        a = axs[d]
        if len(a) == 1:
            return a[0]
        i = rng.randrange(len(a) - 1)
        f = rng.uniform(0.3, 0.7)
        return a[i] + f * (a[i + 1] - a[i]) if d in lin else a[i] ** (1 - f) * a[i + 1] ** f

    pts = []
    n = len(axs)
    for i in range(n):
        for j in range(i + 1, n):
            for (li, vi), (lj, vj) in itertools.product(specials(i), specials(j)):
                p = [plain(d) for d in range(n)]
                p[i], p[j] = vi, vj
                pts.append((p, {ARG_NAMES[shape][i]: li, ARG_NAMES[shape][j]: lj}))
    return pts


def combo_expect(shape, tab, args, ex):
    """('zero',) | ('raise', [axes]) | ('value', idx or None)"""
    axs = axes_of(shape, tab)
    if any(args[i] <= 0 for i in DTE[shape]):
        return ('zero',)
    out = [d for d, a in enumerate(axs) if len(a) > 1 and (args[d] < a[0] or args[d] > a[-1])]
    if out and not ex:
        return ('raise', out)
    idx = [a.index(x) if x in a else None for x, a in zip(args, axs)]
    return ('value', idx if all(i is not None for i in idx) else None)


def combo_stream(ctx, cat):
    repo = Repo()
    batch = []
    for rep in range(ctx.n(1, 4)):
        for name, spec in cat.items():
            shape = spec['shape']
            for dims in COMBO_SHAPES[shape]:
                for ex in (False, True):
                    c = numeric_case(ctx, cat, repo, name, dims, ex)
                    if c['st'] != 'ok':
                        continue
                    r = c['val'][0]
                    m = getattr(r, 'donor_metastable', None) if shape == 'beamCX' else None
                    tab = c['tabs'][c['elem_syms']]
                    wt = tab['metastables'][m] if shape == 'beamCX' else tab
                    wl = None
                    if spec['wl']:
                        req = c['species'][spec['wl'][0]]
                        wl = c['wls'].get(req.symbol, c['wls'].get(_elem(req).symbol))
                    pts = combo_points(ctx.rng, shape, wt)
                    res = [impl_eval(r, p[0]) for p in pts]
                    desc = dict(kind='numeric', accessor=name, species=[s.name for s in c['species']], charges=c['ch'], transition=list(c['tr']),
                                extrapolate=ex, fallback=c['fb'], wavelengths=c['wls'], dims=list(dims), table=wt, metastable=m)
                    batch.append((rate_line(spec['cls'], shape, ex, wl, wt, [p[0] for p in pts]), pts, res, desc, spec, wt, wl, ex))
    repo.close()
    outs = drive(ctx, [b[0] for b in batch]) if batch else []
    n = 0
    for (line, pts, res, desc, spec, wt, wl, ex), out in zip(batch, outs):
        shape, cls = spec['shape'], spec['cls']
        mods = [parse_out(t) for t in out.split()]
        for (args, labels), (ist, iv), (mst, mv) in zip(pts, res, mods):
            n += 1
            ctx.traces += 1
            ctx.count('combo:' + '+'.join(sorted(set(labels.values()))))
            ctx.case(key=('combo', cls, ex, tuple(sorted(labels.items())), tuple(len(a) for a in axes_of(shape, wt))))
            d = dict(desc, args=args, point='combo', info=dict(labels=labels), implementation=[ist, iv])
            want = combo_expect(shape, wt, args, ex)
            # ---- K
            on_knots = want[0] == 'value' and want[1] is not None
            agree = ist == mst and (ist != 'ok' or (iv == 0.0) == (mv == 0.0)) and (not on_knots or ist != 'ok' or close(iv, mv, 1e-9))
            if not agree:
                ctx.disagreements += 1
                ctx.count('disagreement:combo')
                _broke(ctx, 'argument combinations ' + desc['accessor'], dict(input=d, model=[mst, mv], implementation=[ist, iv]))
            # ---- S: the decision table
            call = '%s(%s)' % (cls, ', '.join('%s=%r' % (a_, v) for a_, v in zip(ARG_NAMES[shape], args)))
            lab = ', '.join('%s %s' % kv for kv in sorted(labels.items()))
            if want[0] == 'zero':
                if ist != 'ok':
                    fail(ctx, 'C07:%s:zero-guard-loses-to-range-policy' % cls,
                         '%s [%s] with permit_extrapolation=%s raised %s; a non-positive density / temperature / energy must give 0 whatever the other '
                         'arguments are' % (call, lab, ex, ist), d)
                elif iv != 0.0:
                    which = ARG_NAMES[shape][[i for i in DTE[shape] if args[i] <= 0][0]]
                    fail(ctx, 'C07:%s:nonpositive-%s-not-zero' % (cls, which), '%s [%s] returned %r, the property wants 0' % (call, lab, iv), d)
            elif want[0] == 'raise':
                if ist != 'ValueError':
                    fail(ctx, 'C07:%s:no-raise-outside-range:%s' % (cls, ARG_NAMES[shape][want[1][0]]),
                         '%s [%s] returned %s outside the tabulated range with permit_extrapolation=False' % (call, lab, iv if ist == 'ok' else ist), d)
            else:
                if ist != 'ok':
                    fail(ctx, 'C07:%s:raises-%s' % (cls, 'with-extrapolation' if ex else 'inside-range'), '%s [%s] raised %s (permit_extrapolation=%s)' % (call, lab, ist, ex), d)
                elif not (iv >= 0.0 and math.isfinite(iv)):
                    fail(ctx, 'C07:%s:%s' % (cls, 'negative-rate' if iv < 0 else 'non-finite-rate:combo'), '%s [%s] = %r' % (call, lab, iv), d)
                elif want[1] is not None and not close(iv, expected_at(shape, wt, want[1], wl), 1e-9):
                    fail(ctx, 'C07:%s:grid-point-value' % cls, '%s [%s] returned %r, stored value after conversion is %r' % (
                        call, lab, iv, expected_at(shape, wt, want[1], wl)), d)
    return n


# ------------------------------------------------------------------------------------------------ caller data: aliasing, dtype, layout (S)
# The rate classes are constructed from a dict of arrays.  Whatever the representation of those arrays (float64 C,
# Fortran order, a strided view of a larger buffer, float32, int64) the object must be a function of the *numbers* only,
# must not modify the caller's dict / arrays, and must not keep looking at them: overwriting the caller's arrays after
# construction, or building a second object from the same dict, must not change a single bit of any evaluation.
ARRAY_KEYS = {'grid2': ['ne', 'te', 'rate'], 'grid3': ['ne', 'te', 'td', 'rate'], 'beam': ['e', 'n', 't', 'sen', 'st'],
              'beamCX': ['eb', 'ti', 'ni', 'z', 'b', 'qeb', 'qti', 'qni', 'qz', 'qb']}
REPRESENTATIONS = ('c64', 'fortran', 'strided', 'float32', 'int64', 'lists')


def construct(spec, data, wl, ex):
    import cherab.openadas.rates as RT
    from cherab.core.atomic import elements as E
    cls = getattr(RT, spec['cls'])
    name = spec['cls']
    if name in ('LineRadiationPower', 'ContinuumPower', 'CXRadiationPower'):
        return cls(E.carbon, 2, data, extrapolate=ex)
    if name == 'BeamCXPEC':
        return cls(1, wl, data, extrapolate=ex)
    if name == 'BeamEmissionPEC':
        return cls(data, wl, extrapolate=ex)
    if spec['wl']:
        return cls(wl, data, extrapolate=ex)
    return cls(data, extrapolate=ex)


def integer_table(rng, shape):
    """a table all of whose numbers are integers (so that an int64 representation holds the same numbers)"""
    def ax(n, lo):
        return [float(lo * 10 ** i) for i in range(n)]

    def vals(shp):
        out = np.zeros(shp)
        for idx in itertools.product(*[range(k) for k in shp]):
            out[idx] = float(rng.randint(2, 900))
        return out.tolist()
    if shape == 'grid2':
        return dict(ne=ax(3, 100), te=ax(3, 1), rate=vals((3, 3)))
    if shape == 'grid3':
        return dict(ne=ax(3, 100), te=ax(2, 1), td=ax(3, 2), rate=vals((3, 2, 3)))
    if shape == 'beam':
        return dict(e=ax(3, 10), n=ax(3, 1000), t=ax(3, 1), sen=vals((3, 3)), st=vals((3,)), sref=4.0)
    return dict(eb=ax(3, 10), ti=[5.0, 50.0, 90.0], ni=[100.0, 300.0, 800.0], z=[1.0, 2.0, 4.0], b=[1.0, 2.0, 3.0],
                qeb=vals((3,)), qti=[8.0, 9.0, 11.0], qni=[13.0, 12.0, 10.0], qz=[10.0, 12.0, 13.0], qb=[12.0, 13.0, 14.0], qref=12.0)


def represent(tab, shape, rep):
    """-> (data dict for the constructor, list of (key, array to scribble on) that are the caller's storage, reference float64 numbers)"""
    data, store, ref = {}, [], {}
    for k, v in tab.items():
        if k not in ARRAY_KEYS[shape]:
            data[k] = ref[k] = v
            continue
        a = np.array(v, np.float64)
        if rep == 'c64':
            arr = a.copy(order='C')
            store.append((k, arr))
        elif rep == 'fortran':
            arr = np.asfortranarray(a.copy())
            store.append((k, arr))
        elif rep == 'strided':
            big = np.full(tuple(2 * n + 1 for n in a.shape), -7.0)
            sl = tuple(slice(1, 2 * n + 1, 2) for n in a.shape)
            big[sl] = a
            arr = big[sl]
            store.append((k, big))
        elif rep == 'float32':
            arr = a.astype(np.float32)
            a = arr.astype(np.float64)
            store.append((k, arr))
        elif rep == 'int64':
            arr = a.astype(np.int64)
            a = arr.astype(np.float64)
            store.append((k, arr))
        else:
            arr = a.tolist()
        data[k] = arr
        ref[k] = a.copy()
    return data, store, ref


def snapshot(data):
    out = {}
    for k, v in data.items():
        if isinstance(v, np.ndarray):
            out[k] = (id(v), v.dtype.str, v.shape, v.strides, v.flags.writeable, v.flags.c_contiguous, v.tobytes())
        else:
            out[k] = (id(v), repr(v))
    return out


FLOAT32_DEV = [0.0]


def same_value(a, b, rep):
    """bit-identical; for float32 *inputs* the constructors do their log10 / division in float32 (NumPy keeps the dtype), which
    costs eps32 * |ln y| ~ 5e-6 relative on top of the rounding of the inputs: outside the sentence (the provider always hands
    float64 arrays to the classes), tolerated here and reported as the number `float32_constructor_arithmetic_max_rel_dev`"""
    if rep != 'float32' or a[0] != 'ok' or b[0] != 'ok':
        return same_result(a, b)
    return close(a[1], b[1], 2e-4)


def alias_stream(ctx, cat):
    rng = ctx.rng
    seen = set()
    n = 0
    for rep_i in range(ctx.n(1, 4)):
        for name, spec in cat.items():
            shape, cls = spec['shape'], spec['cls']
            for rep in REPRESENTATIONS:
                ex = rng.random() < 0.5
                wl = _sig(rng.uniform(90.0, 1200.0)) if spec['wl'] else None
                if rep == 'int64':
                    tab = integer_table(rng, shape)
                else:
                    tab = gen_table(rng, shape, {'grid2': (3, 4), 'grid3': (3, 2, 3), 'beam': (3, 3, 3), 'beamCX': (3, 3, 3, 3, 3)}[shape])
                    if shape == 'beamCX':
                        tab = tab['metastables'][sorted(tab['metastables'])[0]]
                data, store, ref = represent(tab, shape, rep)
                d = dict(kind='alias', rate_class=cls, accessor=name, representation=rep, extrapolate=ex, wavelength=wl, table=tab)
                before = snapshot(data)
                try:
                    r = construct(spec, data, wl, ex)
                except Exception as e:  # noqa
                    ctx.count('alias:%s:rejected-%s' % (rep, type(e).__name__))
                    if rep != 'lists':
                        fail(ctx, 'C07:%s:rejects-array-representation:%s' % (cls, rep),
                             '%s constructed from %s arrays raised %s: %s' % (cls, rep, type(e).__name__, str(e)[:120]), d)
                    elif snapshot(data) != before:
                        fail(ctx, 'C07:%s:constructor-modifies-caller-data' % cls, '%s (rejected nested lists) changed the caller\'s dict' % cls, d)
                    continue
                after = snapshot(data)
                if after != before:
                    ks = sorted(set(before) ^ set(after)) + sorted(k for k in before if k in after and before[k] != after[k])
                    fail(ctx, 'C07:%s:constructor-modifies-caller-data' % cls,
                         '%s(%s arrays) changed the caller\'s data dict / arrays: %s' % (cls, rep, ks), dict(d, changed=ks))
                wt = {k: (v.tolist() if isinstance(v, np.ndarray) else v) for k, v in ref.items()}
                pts = [p for p in eval_points(rng, shape, wt, 3) if p[0] != 'knot'][:14] + rng.sample([p for p in eval_points(rng, shape, wt, 0) if p[0] == 'knot'], 6)
                res0 = [impl_eval(r, p[1]) for p in pts]
                # (b) a function of the numbers only: an object built from private float64 C copies of the same numbers
                r_ref = construct(spec, {k: (v.copy() if isinstance(v, np.ndarray) else v) for k, v in ref.items()}, wl, ex)
                res_ref = [impl_eval(r_ref, p[1]) for p in pts]
                # (c) a second object built from the SAME dict (other extrapolation setting), evaluated in between
                r2 = None
                try:
                    r2 = construct(spec, data, wl, not ex)
                    res2 = [impl_eval(r2, p[1]) for p in pts]
                    r2_ref = construct(spec, {k: (v.copy() if isinstance(v, np.ndarray) else v) for k, v in ref.items()}, wl, not ex)
                    for (kind, args, info), b0, bref in zip(pts, res2, [impl_eval(r2_ref, p[1]) for p in pts]):
                        if not same_value(b0, bref, rep):
                            fail(ctx, 'C07:%s:second-object-from-same-dict-differs' % cls,
                                 'the second %s built from one data dict gives %s at %r, an object built from private copies of the same numbers %s '
                                 '(the first constructor changed the shared data?)' % (cls, b0, tuple(args), bref), dict(d, args=args, point=kind))
                            break
                except Exception as e:  # noqa
                    fail(ctx, 'C07:%s:second-object-from-same-dict' % cls, 'a second %s from the same data dict raised %s: %s' % (cls, type(e).__name__, str(e)[:100]), d)
                res_mid = [impl_eval(r, p[1]) for p in pts]
                # (a) the caller overwrites its storage in place
                for k, arr in store:
                    try:
                        arr[...] = (np.arange(arr.size).reshape(arr.shape) % 5 + 1) * (3 if arr.dtype.kind == 'f' else 2)
                    except ValueError:
                        fail(ctx, 'C07:%s:constructor-modifies-caller-data' % cls, '%s left the caller\'s array %r read-only' % (cls, k), dict(d, changed=[k]))
                for k in list(data):
                    if k not in ARRAY_KEYS[shape] and isinstance(data[k], float):
                        data[k] = data[k] * 7.0 + 1.0          # the scalar entries (sref, qref) of the caller's dict too
                res1 = [impl_eval(r, p[1]) for p in pts]
                for (kind, args, info), a0, aref, amid, a1 in zip(pts, res0, res_ref, res_mid, res1):
                    n += 1
                    ctx.count('alias:' + rep)
                    ctx.case(key=('alias', cls, rep, kind, tuple(f2b(x) for x in args)) if (cls, rep, kind) not in seen else None)
                    seen.add((cls, rep, kind))
                    dd = dict(d, args=args, point=kind)
                    if rep == 'float32' and a0[0] == aref[0] == 'ok' and aref[1] != 0:
                        FLOAT32_DEV[0] = max(FLOAT32_DEV[0], abs(a0[1] / aref[1] - 1))
                    if not same_value(a0, aref, rep):
                        fail(ctx, 'C07:%s:depends-on-array-representation:%s' % (cls, rep),
                             '%s%r built from %s arrays gives %s, built from float64 C copies of the same numbers %s' % (cls, tuple(args), rep, a0, aref), dd)
                    if not same_result(a0, amid):
                        fail(ctx, 'C07:%s:objects-from-one-dict-interfere' % cls,
                             '%s%r changed from %s to %s after a second %s was built from the same data dict and evaluated' % (cls, tuple(args), a0, amid, cls), dd)
                    if not same_result(a0, a1):
                        fail(ctx, 'C07:%s:aliases-caller-arrays:%s' % (cls, rep),
                             '%s%r changed from %s to %s after the caller overwrote its (%s) arrays in place' % (cls, tuple(args), a0, a1, rep), dd)
                    if kind == 'knot' and a0[0] == 'ok' and not close(a0[1], expected_at(shape, wt, info['idx'], wl), 2e-4 if rep == 'float32' else 1e-9):
                        fail(ctx, 'C07:%s:grid-point-value' % cls, '%s (%s arrays) at grid point %r returned %r, stored value after conversion is %r' % (
                            cls, rep, args, a0[1], expected_at(shape, wt, info['idx'], wl)), dd)
    return n


# ------------------------------------------------------------------------------------------------ repository files in unusual key order (K + S)
def shuffle_json_files(rng, root, order=None):
    """rewrite every .json under `root` with its object keys (all levels) in a random -- or the given top-down -- order:
    the same JSON value, a different text"""
    def shuf(v, depth=0):
        if isinstance(v, dict):
            ks = list(v)
            rng.shuffle(ks)
            return {k: shuf(v[k], depth + 1) for k in ks}
        return v
    for dp, _, fs in os.walk(root):
        for f in fs:
            if f.endswith('.json'):
                pth = os.path.join(dp, f)
                v = json.load(open(pth))
                w = shuf(v)
                if order and 'beam/cx' in pth.replace(os.sep, '/'):
                    w = {tr: {k: t[k] for k in [str(m) for m in order if str(m) in t] + [k for k in t if k not in [str(m) for m in order]]}
                         for tr, t in w.items()}
                with open(pth, 'w') as fh:
                    json.dump(w, fh, indent=1)


def order_case(ctx, cat, repo, order, ex, tables=None, species=None, verbose=False):
    """beam_cx_pec (the one family the provider returns as a list): metastables stored in the JSON order `order`; every
    returned BeamCXPEC must reproduce the table stored under ITS OWN label"""
    from cherab.openadas import OpenADAS, repository as R
    from cherab.core.atomic import elements as E
    rng = ctx.rng
    spec = cat['beam_cx_pec']
    species = species or [rng.choice([E.hydrogen, E.deuterium]), rng.choice([E.carbon, E.neon, E.carbon13])]
    ch, tr = dict(charge=1, donor_charge=0, metastable=1), (3, 2)
    if tables is None:
        one = gen_table(rng, 'beamCX', (3, 2, 2, 2, 2))
        base = one['metastables'][sorted(one['metastables'])[0]]
        tables = {m: dict(base, qeb=[_sig(q * (1.0 + 0.37 * k)) for q in base['qeb']]) for k, m in enumerate(sorted(order))}
    root = repo.fresh()
    spec['write'](root, tuple(_elem(s) for s in species), ch, tr, _cx_copy(dict(metastables=tables)))
    wl = 529.0
    for s in {species[1].symbol: species[1], _elem(species[1]).symbol: _elem(species[1])}.values():
        R.update_wavelengths({s: {0: {tr: wl}}}, repository_path=root)
    shuffle_json_files(rng, root, order=order)
    a = OpenADAS(data_path=root, permit_extrapolation=ex)
    st, val, in_list = call_accessor(spec, a, species, ch, tr)
    repo.drop(root)
    d = dict(kind='order', accessor='beam_cx_pec', species=[s.name for s in species], file_order=list(order), extrapolate=ex,
             tables={str(m): t for m, t in tables.items()})
    lines, checks = [], []
    if st != 'ok':
        fail(ctx, 'C07:beam_cx_pec:raises-with-data-present:%s' % st, 'beam_cx_pec raised %s on a file with metastable order %s' % (st, list(order)), d)
        return lines, checks
    labels = [r.donor_metastable for r in val]
    if sorted(labels) != sorted(tables):
        fail(ctx, 'C07:beam_cx_pec:metastable-list', 'returned metastables %s for stored %s (file order %s)' % (labels, sorted(tables), list(order)), d)
        return lines, checks
    for r in val:
        m = r.donor_metastable
        wt = tables[m]
        pts = [p for p in eval_points(rng, 'beamCX', wt, 0) if p[0] == 'knot'][:6]
        res = [impl_eval(r, p[1]) for p in pts]
        lines.append(rate_line('BeamCXPEC', 'beamCX', ex, wl, wt, [p[1] for p in pts]))
        checks.append((m, pts, res, d))
        for (kind, args, info), (ist, iv) in zip(pts, res):
            ctx.count('order:knot')
            ctx.case(key=('order', tuple(order), m, tuple(info['idx'])))
            want = expected_at('beamCX', wt, info['idx'], wl)
            if ist != 'ok' or not close(iv, want, 1e-9):
                other = [k for k, t in tables.items() if k != m and ist == 'ok' and close(iv, expected_at('beamCX', t, info['idx'], wl), 1e-9)]
                fail(ctx, 'C07:beam_cx_pec:metastable-label-table-mismatch',
                     'beam_cx_pec on a file listing the donor metastables in the order %s: the BeamCXPEC labelled donor_metastable=%d returns %s at grid '
                     'point %r, the table stored under %d gives %r%s' % (list(order), m, iv if ist == 'ok' else ist, args, m, want,
                                                                         ' (that is the table of metastable %s)' % other if other else ''), dict(d, metastable=m, args=args))
                break
    if verbose:
        print('labels returned:', labels)
    return lines, checks


def order_stream(ctx, cat):
    repo = Repo()
    rng = ctx.rng
    orders = [(2, 1), (1, 10, 2), (10, 2), (3, 12, 1, 7), tuple(range(12, 0, -1)), (1, 2, 3)]
    for _ in range(ctx.n(3, 12)):
        ms = rng.sample(range(1, 13), rng.randint(2, 6))
        orders.append(tuple(ms))
    lines, checks = [], []
    for order in orders:
        ln, ck = order_case(ctx, cat, repo, order, rng.random() < 0.5)
        lines += ln
        checks += ck
    repo.close()
    outs = drive(ctx, lines) if lines else []
    for (m, pts, res, d), out in zip(checks, outs):
        mods = [parse_out(t) for t in out.split()]
        for (kind, args, info), (ist, iv), (mst, mv) in zip(pts, res, mods):
            ctx.traces += 1
            if ist != mst or (ist == 'ok' and not close(iv, mv, 1e-9)):
                ctx.disagreements += 1
                _broke(ctx, 'file key order beam_cx_pec', dict(input=dict(d, metastable=m, args=args), model=[mst, mv], implementation=[ist, iv]))
    return len(checks)


# ------------------------------------------------------------------------------------------------ repeated calls on one rate object (K + S)
# The sentence speaks of "every rate object": each call on a live object must behave exactly like the same call on a
# freshly constructed one (value, or exception kind) -- a rate object that remembers anything from earlier calls
# (last energy, last interpolation cell, last result) and gets it wrong shows up here.
REPEAT_SHAPES = {'grid2': [(3, 4), (2, 2)], 'grid3': [(3, 2, 3)], 'beam': [(3, 3, 3), (1, 3, 2), (3, 1, 3), (1, 1, 2)],
                 'beamCX': [(3, 3, 3, 3, 3), (1, 2, 1, 3, 1), (3, 1, 1, 1, 1)]}


def repeat_sequence(rng, shape, wt, length):
    """calls: in-range, out-of-range, the same out-of-range again, in-range again, non-positive, grid points ... in random order"""
    pts = eval_points(rng, shape, wt, 4)
    by = {}
    for p in pts:
        by.setdefault(p[0], []).append(p)
    inside = by.get('interior', []) + rng.sample(by['knot'], min(4, len(by['knot'])))
    outs = [p for p in by.get('outside', []) if not p[2].get('single')]
    rng.shuffle(outs)
    seq = []
    for o in outs:
        i1 = rng.choice(inside)
        block = rng.choice(([i1, o, o, i1, o], [o, o, i1, o], [i1, o, rng.choice(by['nonpos']), o, i1], [o, i1, o, o]))
        seq += block
    rest = inside + rng.sample(by['nonpos'], min(3, len(by['nonpos']))) + [p for p in by.get('outside', []) if p[2].get('single')][:3]
    rng.shuffle(rest)
    seq += rest + rest[: len(rest) // 2]
    if len(seq) > length:
        # keep whole blocks from the front (all axes), random tail
        seq = seq[:length]
    return seq


def same_result(a, b):
    if a[0] != b[0]:
        return False
    if a[0] != 'ok':
        return True
    return a[1] == b[1] or (math.isnan(a[1]) and math.isnan(b[1]))


def repeat_case(ctx, cat, repo, name, dims, ex, fixed=None, calls=None):
    """one live rate object answering a sequence of calls; returns (driver line, live results, points, case) or None"""
    spec, shape = cat[name], cat[name]['shape']
    c = numeric_case(ctx, cat, repo, name, dims, ex, fixed=fixed, keep_root=True) if fixed else numeric_case(ctx, cat, repo, name, dims, ex, keep_root=True)
    try:
        if c['st'] != 'ok':
            return None
        live = c['val'][0]
        m = getattr(live, 'donor_metastable', None) if shape == 'beamCX' else None
        tab = c['tabs'][c['elem_syms']]
        wt = tab['metastables'][m] if shape == 'beamCX' else tab

        def fresh():
            st, val, _ = call_accessor(spec, c['provider'], c['species'], c['ch'], c['tr'])
            return val[0]

        seq = calls if calls is not None else repeat_sequence(ctx.rng, shape, wt, ctx.n(40, 90))
        wl = None
        if spec['wl']:
            req = c['species'][spec['wl'][0]]
            wl = c['wls'].get(req.symbol, c['wls'].get(_elem(req).symbol))
        c['want_wl'] = c['model_wl'] = wl
        desc = dict(kind='repeat', accessor=name, species=[s.name for s in c['species']], charges=c['ch'], transition=list(c['tr']),
                    extrapolate=ex, fallback=c['fb'], wavelengths=c['wls'], dims=list(dims), table=wt, metastable=m)
        results = []
        for k, (kind, args, info) in enumerate(seq):
            lv = impl_eval(live, args)
            fr = impl_eval(fresh(), args)
            results.append(lv)
            ctx.count('repeat:' + kind)
            ctx.case(key=('repeat', name, ex, k, tuple(f2b(x) for x in args)))
            if not same_result(lv, fr):
                # shrink: one earlier call + this one on a new object
                prefix = None
                earlier = []
                for p_ in seq[:k]:
                    if p_[1] not in earlier:
                        earlier.append(p_[1])
                cands = [[a_] for a_ in earlier] + [[a_, b_] for a_ in earlier[-8:] for b_ in earlier[-8:]]
                for cand in cands:
                    o = fresh()
                    for a_ in cand:
                        impl_eval(o, a_)
                    got = impl_eval(o, args)
                    if not same_result(got, fr):
                        prefix, lv = cand, got
                        break
                if prefix is None:
                    prefix = [p[1] for p in seq[:k]]
                d = dict(desc, calls=prefix + [args], live_object=list(lv), fresh_object=list(fr), point=kind, info=info)
                what = '%s-where-fresh-%s' % ('returns' if lv[0] == 'ok' else 'raises-' + lv[0], 'returns' if fr[0] == 'ok' else 'raises-' + fr[0])
                if lv[0] == fr[0] == 'ok':
                    what = 'different-value'
                fail(ctx, 'C07:%s:call-depends-on-earlier-calls:%s' % (spec['cls'], what),
                     '%s via %s (permit_extrapolation=%s): after the calls %s the call %s(%s) gives %s, the same call on a freshly constructed rate object gives %s'
                     % (spec['cls'], name, ex, [tuple(x) for x in prefix][-3:], spec['cls'], ', '.join('%r' % x for x in args),
                        lv[1] if lv[0] == 'ok' else lv[0], fr[1] if fr[0] == 'ok' else fr[0]), d)
            else:
                rate_oracle(ctx, c, shape, wt, kind, args, info, lv[0], lv[1], dict(desc, args=args, point=kind, info=info))
        line = rate_line(spec['cls'], shape, ex, wl, wt, [p[1] for p in seq])
        return line, results, seq, desc
    finally:
        repo.drop(c['root'])


def repeat_stream(ctx, cat):
    repo = Repo()
    rng = ctx.rng
    batch = []
    for rep in range(ctx.n(1, 5)):
        for name, spec in cat.items():
            shapes = REPEAT_SHAPES[spec['shape']]
            chosen = shapes if ctx.tier == 'thorough' else [shapes[0]] + ([rng.choice(shapes[1:])] if len(shapes) > 1 else [])
            for dims in chosen:
                for ex in (False, True):
                    r = repeat_case(ctx, cat, repo, name, dims, ex)
                    if r:
                        batch.append(r)
    repo.close()
    outs = drive(ctx, [b[0] for b in batch]) if batch else []
    for (line, results, seq, desc), out in zip(batch, outs):
        mods = [parse_out(t) for t in out.split()]
        for (kind, args, info), (ist, iv), (mst, mv) in zip(seq, results, mods):
            ctx.traces += 1
            agree = ist == mst and (ist != 'ok' or (iv == 0.0) == (mv == 0.0)) and (kind != 'knot' or ist != 'ok' or close(iv, mv, 1e-9))
            if not agree:
                ctx.disagreements += 1
                ctx.count('disagreement:repeat')
                _broke(ctx, 'repeated calls ' + desc['accessor'], dict(input=dict(desc, args=args, point=kind), model=[mst, mv], implementation=[ist, iv],
                                                                      note='the model is a function of the table and the arguments only'))
    return sum(len(b[2]) for b in batch)


# ------------------------------------------------------------------------------------------------ bookkeeping
_BROKE_SEEN = {}


def _broke(ctx, name, detail):
    """a correspondence disagreement (the first three of each stream are kept in full, the rest are counted)"""
    _BROKE_SEEN[name] = _BROKE_SEEN.get(name, 0) + 1
    if _BROKE_SEEN[name] <= 3:
        ctx.broke('correspondence', 'C07 ' + name, detail)
    else:
        ctx.count('disagreement-not-listed:' + name)


def constants_check(ctx):
    global HC9
    from cherab.core.utility.conversion import PhotonToJ
    HC9 = float(PhotonToJ.conversion_factor)
    codata = 6.62607015e-34 * 299792458.0 * 1e9
    ctx.case(key=('hc9', f2b(HC9)))
    if not close(HC9, codata, 1e-12):
        fail(ctx, 'C07:PhotonToJ:conversion-factor', 'PhotonToJ.conversion_factor = %r, hc*1e9 = %r' % (HC9, codata), dict(value=HC9))
    # the model's formula against the implementation's, a few values (also vector input as used by the constructors)
    lines, vals = [], []
    for x, w in ((1e-14, 656.28), (3.5e-15, 121.567), (1.0, 1.0), (2.5e-13, 1032.5)):
        lines.append('conv %s %s %s' % (f2b(x), f2b(w), f2b(HC9)))
        vals.append(float(PhotonToJ.to(np.array([x]), w)[0]))
    for o, v, l in zip(drive(ctx, lines), vals, lines):
        ctx.traces += 1
        if not close(b2f(o), v, 1e-12):
            _broke(ctx, 'PhotonToJ', dict(line=l, model=b2f(o), implementation=v))
        if PhotonToJ.inv(v, 656.28) <= 0:
            pass


def conversion_stream(ctx):
    """K: cherab/core/utility/conversion.py against `Cherab/Model/Conversion.lean` — every class, `to` and `inv`, the
    GENERATED return expressions (interpreted with Python's method resolution) and the hand-written functions, on
    mostly-valid and malformed arguments (zero / negative / infinite / nan values, wavelengths and factors); the
    `conversion_factor` expressions in scipy.constants' environment; the class list."""
    import inspect
    import scipy.constants as sc
    import cherab.core.utility.conversion as M
    rng = ctx.rng
    classes = [n for n, c in vars(M).items() if inspect.isclass(c) and c.__module__ == M.__name__]
    out = drive(ctx, ['cvt'])[0]
    gen = [x for x in out.split()[0].split(',') if x]
    ctx.traces += 1
    if sorted(gen) != sorted(classes) or not out.endswith('not-understood:'):
        ctx.disagreements += 1
        _broke(ctx, 'conversion classes', dict(implementation=sorted(classes), generated=out))
    env = []
    for n in ('elementary_charge', 'atomic_mass', 'Planck', 'speed_of_light'):
        env += [n, f2b(float(getattr(sc, n)))]
    # conversion factors
    lines, want = [], []
    for n in classes:
        lines.append('cvf %s %s' % (n, ' '.join(env)))
        want.append(float(getattr(M, n).conversion_factor) if hasattr(getattr(M, n), 'conversion_factor') else None)
    for l, o, w in zip(lines, drive(ctx, lines), want):
        ctx.traces += 1
        ctx.case(key=('conv-factor', l.split()[1]))
        got = [None if t == 'none' else b2f(t) for t in o.split()]
        ok = len(got) == 2 and all((g is None) == (w is None) and (w is None or f2b(g) == f2b(w)) for g in got)
        if not ok:
            ctx.disagreements += 1
            _broke(ctx, 'conversion factor', dict(line=l, model=got, implementation=w))
    # methods
    special = [0.0, -0.0, -1.0, -3.7e5, float('inf'), float('-inf'), float('nan'), 5e-324, 1e-310, 1.7e308, 1e-200, 1e200]

    def pick(p_special=0.2):
        if rng.random() < p_special:
            return rng.choice(special)
        return 10.0 ** rng.uniform(-30, 30) * rng.choice((1.0, 1.0, 1.0, 1.0 + rng.random()))

    lines, calls = [], []
    reps = ctx.n(60, 600)
    for n in classes:
        cls = getattr(M, n)
        has_cf = hasattr(cls, 'conversion_factor')
        two = n == 'PhotonToJ'
        for direction in ('to', 'inv'):
            for r in range(reps):
                x = pick()
                wl = (rng.choice((656.28, 121.567, 10.0 ** rng.uniform(0, 4))) if rng.random() < 0.8 else rng.choice(special)) if two else 1.0
                if has_cf and r % 3:
                    cf = float(cls.conversion_factor)
                    sub = cls
                else:
                    # a subclass with another (possibly malformed) factor: the methods read `cls.conversion_factor`
                    cf = pick(0.3)
                    sub = type(n + 'Sub', (cls,), dict(conversion_factor=cf))
                as_array = r % 4 == 0
                arg = np.array([x]) if as_array else np.float64(x)
                with np.errstate(all='ignore'):
                    v = getattr(sub, direction)(arg, np.float64(wl)) if two else getattr(sub, direction)(arg)
                v = float(np.asarray(v).reshape(-1)[0])
                lines.append('cv %s %s %s %s %s' % (n, direction, f2b(x), f2b(wl), f2b(cf)))
                calls.append((n, direction, x, wl, cf, v))
                ctx.case(key=('conv', n, direction, f2b(x), f2b(wl), f2b(cf)))
            # plain Python floats on valid input (the scalar code path: float ** 2, math on floats)
            if has_cf:
                for r in range(ctx.n(6, 60)):
                    x = 10.0 ** rng.uniform(-20, 20)
                    wl = 10.0 ** rng.uniform(0, 4) if two else 1.0
                    v = float(getattr(cls, direction)(x, wl) if two else getattr(cls, direction)(x))
                    lines.append('cv %s %s %s %s %s' % (n, direction, f2b(x), f2b(wl), f2b(float(cls.conversion_factor))))
                    calls.append((n, direction, x, wl, float(cls.conversion_factor), v))
    n_special = 0
    for l, o, c in zip(lines, drive(ctx, lines), calls):
        ctx.traces += 1
        got = [None if t == 'none' else b2f(t) for t in o.split()]
        v = c[5]
        if not (math.isfinite(v) and v != 0):
            n_special += 1
        if len(got) != 2 or any(g is None or not close(g, v, 1e-15) for g in got):
            ctx.disagreements += 1
            _broke(ctx, 'conversion ' + c[0] + '.' + c[1], dict(line=l, x=c[2], wavelength=c[3], factor=c[4], model=got, implementation=v))
    ctx.count('conversion-calls', len(lines))
    ctx.count('conversion-calls-nonfinite-or-zero', n_special)


def plan_numeric(ctx, cat):
    rng = ctx.rng
    plan = []
    reps = ctx.n(1, 20)
    for name, spec in cat.items():
        shapes = SHAPES[spec['shape']]
        for rep in range(reps):
            for dims in shapes:
                for ex in (False, True):
                    plan.append((name, dims, ex, None))
            # a random larger shape
            k = len(shapes[0])
            plan.append((name, tuple(rng.randint(2, 5) for _ in range(k)), rng.random() < 0.5, None))
    # the float gap, deliberately: every log-space axis end of every shape family
    for name in ('ionisation_rate', 'impact_excitation_pec', 'thermal_cx_pec', 'beam_stopping_rate', 'beam_cx_pec', 'cx_radiated_power_rate'):
        spec = cat[name]
        k = {'grid2': 2, 'grid3': 3, 'beam': 3, 'beamCX': 1}[spec['shape']]
        for axis_i in range(k):
            for end in (0, 1):
                dims = tuple(3 for _ in SHAPES[spec['shape']][0])
                plan.append((name, dims, False, (axis_i, end)))
                if ctx.tier == 'thorough':
                    plan.append((name, dims, True, (axis_i, end)))
    # degenerate tables in the range-policy stream: exactly flat components, components equal to 1 / the reference value,
    # two-point axes, accepted single-point axes; all point kinds incl. 1.001x/3x/10x outside every axis end
    for rep in range(ctx.n(1, 4)):
        for name, spec in cat.items():
            for dims, label in DEGENERATE[spec['shape']]:
                for ex in (False, True):
                    plan.append((name, dims, ex, None, None, None, label))
    # extreme but legal magnitudes (1e-300 … 1e+30, cold ends far below 1e-50): every class, all point kinds; the grid
    # points must reproduce the stored values RELATIVELY (a floor / clip on the table before log10 shows here)
    for rep in range(ctx.n(1, 4)):
        for name, spec in cat.items():
            for label in MAGNITUDES:
                for ex in (False, True):
                    plan.append((name, MAG_DIMS[spec['shape']], ex, None, None, None, label))
    # steep tables: every class (through its accessor), every axis, both extrapolation settings
    for rep in range(ctx.n(1, 6)):
        for name, spec in cat.items():
            base = STEEP_DIMS[spec['shape']]
            for axis_i in range(len(base)):
                dims = base
                if spec['shape'] == 'beamCX':
                    # independent 1-D factors: many knots on the steep axis, two elsewhere
                    dims = tuple(6 if d == axis_i else 2 for d in range(len(base)))
                for ex in (False, True):
                    plan.append((name, dims, ex, None, None, axis_i))
            if spec['shape'] == 'beamCX':
                # two steep linear-space factors at once: two negative factors multiply to a positive number, which
                # only the intermediate clamps turn into 0
                for pair in ((1, 2), (2, 3), (3, 4), (1, 4), (2, 4), (1, 3)):
                    dims = tuple(6 if d in pair else 2 for d in range(len(base)))
                    plan.append((name, dims, rng.random() < 0.5, None, None, pair))
    return plan


def deviants_tie(ctx):
    """what the generated table says deviates (T side) against what S found on the running code"""
    out = drive(ctx, ['deviants'])[0]
    pol = [x for x in out.split()[0].split(':', 1)[1].split(',') if x]
    grd = [x for x in out.split()[1].split(':', 1)[1].split(',') if x]
    clm = [x for x in out.split()[2].split(':', 1)[1].split(',') if x] if len(out.split()) > 2 else []
    ctx.extra['table_deviants'] = dict(policy=pol, guards=grd, clamps=clm)
    acc_fail = sorted({sg.split(':')[1] for sg in SIGNATURES
                       if sg.split(':')[1] in ACCESSOR_NAMES and 'grid-point' not in sg and ':sequence:' not in sg})
    grd_fail = sorted({sg.split(':')[1] for sg in SIGNATURES if ':nonpositive-' in sg or ':zero-guard-loses-to-range-policy' in sg})
    ctx.traces += 2
    if acc_fail != sorted(pol):
        ctx.disagreements += 1
        _broke(ctx, 'table deviants (policy)', dict(table=sorted(pol), failing_on_implementation=acc_fail))
    if grd_fail != sorted(grd):
        ctx.disagreements += 1
        _broke(ctx, 'table deviants (guards)', dict(table=sorted(grd), failing_on_implementation=grd_fail))


ACCESSOR_NAMES = set()


def setup(ctx):
    """translator, T, catalogue; returns (catalogue, translator output)"""
    from harness.translators import openadas_policy
    from harness.translators import conversion as conversion_tr
    tr = openadas_policy.translate()
    trc = conversion_tr.translate()
    ctx.extra['translator_conversion'] = dict(classes=[c['name'] for c in trc['classes']], regenerated=trc['changed'])
    for c in tr['classes']:
        AXIS_LOG_NUMPY[c['name']] = c['axisLogNumpy']
    ctx.extra['translator'] = dict(accessors=[a['name'] for a in tr['accessors']], regenerated=tr['changed'],
                                   unrecognised=[a['name'] for a in tr['accessors'] if not a['recognised']],
                                   knots_by_numpy_log10=sorted(k for k, v in AXIS_LOG_NUMPY.items() if v))
    from cherab.openadas import OpenADAS, repository as R
    if not R.DEFAULT_REPOSITORY_PATH.startswith(_HOME):
        raise RuntimeError('DEFAULT_REPOSITORY_PATH %s is not under the scratch HOME' % R.DEFAULT_REPOSITORY_PATH)
    cat = _catalogue()
    ACCESSOR_NAMES.update(cat)
    # the catalogue, the generated table and the provider class must list the same accessors
    impl_names = sorted(n for n in vars(OpenADAS) if not n.startswith('_') and n not in ('data_path', 'wavelength') and callable(getattr(OpenADAS, n)))
    gen_names = sorted(a['name'] for a in tr['accessors'])
    if impl_names != sorted(cat) or gen_names != sorted(cat):
        _broke(ctx, 'accessor list', dict(implementation=impl_names, translator=gen_names, harness=sorted(cat)))
    return cat, tr


def describe(ctx):
    ctx.rule = ('order: repository files rewritten with shuffled JSON key order (35% of the numeric cases, every family) and beam-CX files listing up to 12 '
                'donor metastables in non-numeric order: each returned BeamCXPEC must reproduce the table stored under its own label; alias: every rate class constructed directly from caller-owned float64-C / Fortran / strided-view / float32 / int64 / nested-list data, caller '
                'overwrites its storage, second object from the same dict, private-copy reference: bit-identical evaluations, caller data untouched; combo: per class every pair of argument positions x {0, -1, below, above, first knot, last knot}^2, other arguments inside, both extrapolation '
                'settings, judged by the decision table zero-guard > range policy > value; repeat: one live rate object per accessor/shape/extrapolation answering 40-90 calls (in-range, out-of-range, the same out-of-range again, '
                'in-range again, non-positive, grid points, random order), each against a freshly constructed object; degenerate: flat / all-ones / '
                'reference-valued components, two-point and accepted single-point axes through the full point set; steep: per accessor and axis, tables swinging 2-4 decades between adjacent knots, four interior points per cell (and, for BeamCXPEC, '
                'two steep factors at once with a directed search for two simultaneous undershoots), S: value >= 0 and finite, K: BeamCXPEC clamp chain on '
                'the interpolator values raysect itself returns; sequence: one provider instance answering random permutations of all requests (species variant x charge x transition x '
                'metastable) and every ordered pair of requests differing in one coordinate, against a fresh provider and the stateless model, '
                'distinct by (accessor, flags, last two requests); policy: exhaustive product accessor x species kinds (element / isotope / isotope sharing the element symbol) x stored key subsets '
                'x stored wavelength subsets x 8 flag settings, distinct by that tuple; numerics: per accessor generated positive tables over the shape '
                'list (incl. single-point axes), evaluated at every grid point, interior points, non-positive arguments and 1.001x/3x/10x outside '
                'each axis end; distinct by (accessor, point kind, argument bit patterns, extrapolate); non-trivial = the accessor was really called '
                'on a repository written by the repository module')
    ctx.trusted += ['harness/translators/conversion.py (syntactic; its expressions are interpreted by the driver and compared with the running classes)',
                    'harness/translators/openadas_policy.py (syntactic; its table is interpreted by the driver and compared with the running accessors)',
                    'raysect Interpolator1D/2D/3DArray, Constant1D/2D, Arg2D, IsoMapper2D: parameters of the model under the contract ExtSpec '
                    '(through the knots; raise outside the knot range iff extrapolation type is none; >= 2 knots per interpolated axis)',
                    'libm log10/pow and NumPy log10: parameters (pow10(log10 y) = y, pow10 > 0, pow10(a+b) = pow10 a * pow10 b, log10 strictly increasing)',
                    'cherab.openadas.repository get_*/update_* (property C06): get_* raises RuntimeError on a missing file or key',
                    'json float round trip']
    ctx.assumptions += ['provider flags are constructor arguments: sequences run under fixed flags (all four null x fall-back settings in the thorough tier)',
                        'tables: strictly increasing positive axes with >= 0.08 decade spacing, 6-significant-digit values, |d log10 rate / d log10 x| bounded '
                        '(so that extrapolating one decade stays finite in double precision)',
                        'a single-point axis tabulates no dependence on that variable: no range policy is demanded along it',
                        'raysect refuses to build N-D array interpolators on a single-point axis: the accessor raises ValueError and returns no rate object '
                        '(modelled as ctorError, compared, counted; the sentence speaks of returned rate objects)',
                        'values between knots (raysect cubic) are only checked for sign / finiteness / status',
                        'a missing wavelength (rate data present) is outside the missing-rates clause: the accessors raise RuntimeError (modelled, compared, not judged)']


def finish_run(ctx):
    stray = os.path.exists(os.path.join(_HOME, '.cherab'))
    shutil.rmtree(_HOME, ignore_errors=True)
    if _REAL_HOME is not None:
        os.environ['HOME'] = _REAL_HOME
    if stray:
        ctx.count('stray-write-under-home')
        fail(ctx, 'C07:accessor-writes-under-home', 'an accessor call created ~/.cherab although data_path was given', {})
    # a known (open) finding explains the correspondence lines that only restate it; nothing else is excused
    if ctx.broken and not ctx.failing and ctx.known_hits:
        for b in ctx.broken:
            if b['kind'] == 'correspondence' and b['name'].startswith('C07 table deviants'):
                pass


def run(ctx):
    describe(ctx)
    cat, tr = setup(ctx)
    ctx.lean_check(['Cherab.Props.C07', 'Cherab.Props.C07Table', 'Cherab.Props.C07Conv'], 'Cherab/Audit/C07.lean')
    try:
        constants_check(ctx)
        conversion_stream(ctx)
        corpus_stream(ctx, cat)
        n_pol = policy_stream(ctx, cat)
        ctx.count('policy-cases', n_pol)
        ctx.count('sequence-cases', sequence_stream(ctx, cat))
        numeric_stream(ctx, cat, plan_numeric(ctx, cat))
        ctx.count('repeat-calls', repeat_stream(ctx, cat))
        ctx.count('combo-calls', combo_stream(ctx, cat))
        ctx.count('order-objects', order_stream(ctx, cat))
        ctx.count('alias-evaluations', alias_stream(ctx, cat))
        ctx.extra['float32_constructor_arithmetic_max_rel_dev'] = FLOAT32_DEV[0]
        deviants_tie(ctx)
    finally:
        finish_run(ctx)
    ctx.exhaustive = True
    ctx.extra['exhaustive_part'] = 'policy stream (accessor x species kinds x stored keys x wavelengths x flags)'


def run_record(ctx, cat, repo, d, verbose=False):
    """execute one recorded input (corpus / replay) against the current tree through the same K + S code paths"""
    from cherab.core.atomic import elements as E
    if d.get('kind') == 'policy':
        spec = cat[d['accessor']]
        species = [getattr(E, n) for n in d['species']]
        stored = [tuple(k) for k in d['stored']]
        root, ch, tags, wls = build_policy_repo(repo, spec, species, stored, d['wavelengths'])
        line, o, m = run_policy(ctx, d['accessor'], spec, root, ch, tags, wls, species, stored, d['null'], d['fallback'], d['extrapolate'])
        model = drive(ctx, [line])[0]
    elif d.get('kind') == 'wavelength':
        line, o, m = wavelength_case(ctx, repo, getattr(E, d['species']), d['wavelengths'], d['fallback'])
        model = drive(ctx, [line])[0]
    elif d.get('kind') == 'sequence':
        return run_sequence_record(ctx, cat, d)
    elif d.get('kind') == 'order':
        order_case(ctx, cat, repo, tuple(d['file_order']), d['extrapolate'], tables={int(m): t for m, t in d['tables'].items()},
                   species=[getattr(E, n) for n in d['species']], verbose=verbose)
        return True
    elif d.get('kind') == 'repeat':
        spec = cat[d['accessor']]
        tab = d['table']
        if spec['shape'] == 'beamCX':
            tab = dict(metastables={int(d.get('metastable') or 1): tab})
        fixed = dict(species=[getattr(E, n) for n in d['species']], ch=d['charges'], tr=tuple(d['transition']), tab=tab, wls=d['wavelengths'], fb=d['fallback'])
        calls = [(d.get('point', 'interior') if i == len(d['calls']) - 1 else 'replay-prefix', a_, d.get('info', {}) if i == len(d['calls']) - 1 else {})
                 for i, a_ in enumerate(d['calls'])]
        r = repeat_case(ctx, cat, repo, d['accessor'], tuple(d['dims']), d['extrapolate'], fixed=fixed, calls=calls)
        if verbose and r:
            print('live object results:', r[1])
        return True
    elif d.get('kind') == 'numeric':
        spec = cat[d['accessor']]
        tab = d['table']
        if spec['shape'] == 'beamCX':
            tab = dict(metastables={int(d.get('metastable') or 1): tab})
        fixed = dict(species=[getattr(E, n) for n in d['species']], ch=d['charges'], tr=tuple(d['transition']), tab=tab, wls=d['wavelengths'],
                     fb=d['fallback'], steep=d.get('steep'), extra=dict(point=d['point'], args=d['args'], info=d['info']) if 'args' in d else None)
        numeric_stream(ctx, cat, [(d['accessor'], tuple(d['dims']), d['extrapolate'], None, fixed)])
        return True
    else:
        return False
    ctx.traces += 1
    if o != model:
        ctx.disagreements += 1
        _broke(ctx, 'recorded input ' + d.get('accessor', 'wavelength'), dict(input=d, model=model, implementation=o))
    if verbose:
        print('implementation: %s   model: %s' % (o, model))
    return True


def corpus_stream(ctx, cat):
    """minimised past failures first"""
    d = os.path.join(os.path.dirname(os.path.dirname(os.path.dirname(os.path.abspath(__file__)))), 'corpus', 'C07')
    if not os.path.isdir(d):
        return
    repo = Repo()
    for f in sorted(os.listdir(d)):
        if f.endswith('.json'):
            rec = json.load(open(os.path.join(d, f)))
            before = set(SIGNATURES)
            run_record(ctx, cat, repo, rec['replay'])
            ctx.count('corpus')
            ctx.count('corpus-still-failing' if rec.get('signature') in SIGNATURES else 'corpus-no-longer-failing')
    repo.close()


def replay(ctx, path):
    """re-execute the recorded input against the current tree; exit 1 iff its signature fails again"""
    from cherab.core.atomic import elements as E
    r = json.load(open(path))
    sig, d = r.get('signature'), r.get('replay') or {}
    print('REPLAY %s' % sig)
    print(json.dumps(d, indent=1, default=str)[:2500])
    describe(ctx)
    cat, tr = setup(ctx)
    repo = Repo()
    try:
        constants_check(ctx)
        if run_record(ctx, cat, repo, d, verbose=True):
            pass
        else:
            print('no targeted replay for this record; running the whole check')
            repo.close()
            run(ctx)
            return ctx.finish()
    finally:
        repo.close()
        finish_run(ctx)
    again = sig in SIGNATURES
    print('REPLAY RESULT: %s %s on the current tree' % (sig, 'FAILS AGAIN' if again else 'does not fail'))
    for f in ctx.failing:
        print('  failing: %s -- %s' % (f['signature'], f['description'][:300]))
    for k in ctx.known_hits:
        print('  known finding hit: %s' % k['signature'])
    return 1 if again else 0
