import Cherab.Props.C06TableAll
open Cherab.Props.C06Table
#print axioms tables_wellformed
#print axioms refines_kv_current
