import Cherab.Model.Laser
import Cherab.Model.Invalidation
import Mathlib.Tactic.Ring
import Mathlib.Tactic.Linarith
import Mathlib.Tactic.FieldSimp
import Mathlib.Tactic.NormNum
import Mathlib.Tactic.NormNum.OfScientific
import Mathlib.Tactic.Push
import Mathlib.Tactic.Positivity
import Mathlib.Algebra.Order.Field.Basic
import Mathlib.Algebra.Order.Floor.Ring
import Mathlib.Algebra.Order.Archimedean.Basic

/-!
# C18 — laser profiles and spectra (table-independent theorems)

Property theorems about `Cherab/Model/Laser.lean` for all inputs / histories, over an arbitrary ordered field
(`erf`, `exp`, `sqrt`, `π`, `c` are parameters).  The real-analysis statements (cross-section / volume integrals,
bin power = ∫ density) are in `Props/C18Real.lean`; the statements about the *generated* class tables are in
`Props/C18Table.lean`.
-/
namespace Cherab.Props.C18
set_option linter.unusedSectionVars false
set_option linter.unusedVariables false
open Cherab.Laser

section Field
variable {α : Type} [Field α] [LinearOrder α] [IsStrictOrderedRing α]

theorem two_eq : (two : α) = 2 := by simp [two]

/-! ## generate_segmented_cylinder: the segments tile `[0, L]` exactly once -/

/-- closed form of the segment list for any `n ≥ 0`: `max 1 n` cylinders, the i-th at `i·(L/len)` of height `L/len` -/
theorem segments_closed_form (n : Int) (hn : 0 ≤ n) (r L : α) :
    ∃ segs, segments n r L = some segs ∧ segs.length = max 1 n.toNat ∧
      ∀ i (h : i < segs.length), segs[i].z0 = (i : α) * (L / (segs.length : α)) ∧
        segs[i].height = L / (segs.length : α) ∧ segs[i].radius = r := by
  unfold segments
  by_cases h1 : n > 1
  · simp only [h1, if_true]
    refine ⟨_, rfl, ?_, ?_⟩
    · simp; omega
    · intro i h
      simp at h ⊢
  · simp only [h1, if_false, hn, if_true]
    refine ⟨_, rfl, ?_, ?_⟩
    · simp; omega
    · intro i h
      simp at h
      subst h
      simp

variable [FloorRing α]

/-- **segments_tile**: for all `r, L > 0` (including `L < 2r`) the generated segments start at 0, are pairwise
adjacent, end at `L`, have equal positive height and radius `r`. -/
theorem segments_tile (r L : α) (hr : 0 < r) (hL : 0 < L) :
    ∃ segs, segments ⌊L / (two * r)⌋ r L = some segs ∧ 0 < segs.length ∧
      (∀ h : 0 < segs.length, segs[0].z0 = 0) ∧
      (∀ i (h : i + 1 < segs.length), segs[i + 1].z0 = segs[i].z0 + segs[i].height) ∧
      (∀ h : segs.length - 1 < segs.length, segs[segs.length - 1].z0 + segs[segs.length - 1].height = L) ∧
      (∀ i (h : i < segs.length), segs[i].height = L / (segs.length : α) ∧ 0 < segs[i].height ∧ segs[i].radius = r) := by
  have hn : 0 ≤ ⌊L / (two * r)⌋ := by
    apply Int.floor_nonneg.mpr
    rw [two_eq]; positivity
  obtain ⟨segs, hs, hlen, hform⟩ := segments_closed_form ⌊L / (two * r)⌋ hn r L
  have hpos : 0 < segs.length := by rw [hlen]; omega
  have hposα : (0 : α) < (segs.length : α) := by exact_mod_cast hpos
  refine ⟨segs, hs, hpos, ?_, ?_, ?_, ?_⟩
  · intro h; rw [(hform 0 h).1]; simp
  · intro i h
    rw [(hform (i + 1) h).1, (hform i (by omega)).1, (hform i (by omega)).2.1]
    push_cast; ring
  · intro h
    rw [(hform _ h).1, (hform _ h).2.1]
    have : ((segs.length - 1 : Nat) : α) = (segs.length : α) - 1 := by
      rw [Nat.cast_sub (by omega)]; simp
    rw [this]; field_simp; ring
  · intro i h
    refine ⟨(hform i h).2.1, ?_, (hform i h).2.2⟩
    rw [(hform i h).2.1]; positivity

/-- "exactly once": every axial position of `[0, L)` lies in exactly one segment `[z0, z0 + height)`. -/
theorem segments_cover_unique (r L : α) (hr : 0 < r) (hL : 0 < L) :
    ∃ segs, segments ⌊L / (two * r)⌋ r L = some segs ∧
      ∀ z, 0 ≤ z → z < L → ∃ i, ∃ h : i < segs.length, (segs[i].z0 ≤ z ∧ z < segs[i].z0 + segs[i].height) ∧
        ∀ j (hj : j < segs.length), (segs[j].z0 ≤ z ∧ z < segs[j].z0 + segs[j].height) → j = i := by
  have hn : 0 ≤ ⌊L / (two * r)⌋ := by
    apply Int.floor_nonneg.mpr
    rw [two_eq]; positivity
  obtain ⟨segs, hs, hlen, hform⟩ := segments_closed_form ⌊L / (two * r)⌋ hn r L
  have hpos : 0 < segs.length := by rw [hlen]; omega
  have hposα : (0 : α) < (segs.length : α) := by exact_mod_cast hpos
  set h := L / (segs.length : α) with hh
  have hhpos : 0 < h := by positivity
  refine ⟨segs, hs, ?_⟩
  intro z hz0 hzL
  -- the index is ⌊z / h⌋
  have hq0 : 0 ≤ z / h := by positivity
  have hfl : 0 ≤ ⌊z / h⌋ := Int.floor_nonneg.mpr hq0
  have hqlt : z / h < (segs.length : α) := by
    rw [div_lt_iff₀ hhpos, hh]; field_simp; exact hzL
  have hilt : ⌊z / h⌋.toNat < segs.length := by
    have : ⌊z / h⌋ < (segs.length : Int) := by
      rw [Int.floor_lt]; exact_mod_cast hqlt
    omega
  have hcast : ((⌊z / h⌋.toNat : Nat) : α) = ((⌊z / h⌋ : Int) : α) := by
    have : ((⌊z / h⌋.toNat : Nat) : Int) = ⌊z / h⌋ := Int.toNat_of_nonneg hfl
    exact_mod_cast congrArg (fun k : Int => (k : α)) this
  refine ⟨⌊z / h⌋.toNat, hilt, ⟨?_, ?_⟩, ?_⟩
  · rw [(hform _ hilt).1, hcast]
    have := Int.floor_le (z / h)
    calc (⌊z / h⌋ : α) * h ≤ z / h * h := by gcongr
      _ = z := by field_simp
  · rw [(hform _ hilt).1, (hform _ hilt).2.1, hcast]
    have := Int.lt_floor_add_one (z / h)
    calc z = z / h * h := by field_simp
      _ < ((⌊z / h⌋ : α) + 1) * h := by gcongr
      _ = (⌊z / h⌋ : α) * h + h := by ring
  · intro j hj ⟨hj1, hj2⟩
    rw [(hform j hj).1] at hj1 hj2
    rw [(hform j hj).2.1] at hj2
    -- j ≤ z/h < j+1  ⇒  ⌊z/h⌋ = j
    have h1 : (j : α) ≤ z / h := by rw [le_div_iff₀ hhpos]; exact hj1
    have h2 : z / h < (j : α) + 1 := by rw [div_lt_iff₀ hhpos]; linarith
    have : ⌊z / h⌋ = (j : Int) := by
      rw [Int.floor_eq_iff]; exact ⟨by exact_mod_cast h1, by exact_mod_cast h2⟩
    omega

/-- for `n > 1` the segment height is "roughly 2r": `2r ≤ h < 3r` -/
theorem segments_height_bounds (r L : α) (hr : 0 < r) (hL : 0 < L) (hn : 1 < ⌊L / (two * r)⌋) :
    two * r ≤ L / ((⌊L / (two * r)⌋.toNat : Nat) : α) ∧ L / ((⌊L / (two * r)⌋.toNat : Nat) : α) < 3 * r := by
  rw [two_eq] at *
  set n := ⌊L / (2 * r)⌋ with hndef
  have h2r : (0 : α) < 2 * r := by positivity
  have hcast : ((n.toNat : Nat) : α) = (n : α) := by
    have : ((n.toNat : Nat) : Int) = n := Int.toNat_of_nonneg (by omega)
    exact_mod_cast congrArg (fun k : Int => (k : α)) this
  have hnα : (2 : α) ≤ (n : α) := by exact_mod_cast (show (2 : Int) ≤ n by omega)
  have hnpos : (0 : α) < (n : α) := by linarith
  have hle : (n : α) ≤ L / (2 * r) := Int.floor_le _
  have hlt : L / (2 * r) < (n : α) + 1 := Int.lt_floor_add_one _
  rw [hcast]
  constructor
  · rw [le_div_iff₀ hnpos]
    have := (le_div_iff₀ h2r).mp hle
    linarith
  · rw [div_lt_iff₀ hnpos]
    have := (div_lt_iff₀ h2r).mp hlt
    nlinarith

end Field

section Spectrum
variable {α : Type} [Field α] [LinearOrder α] [IsStrictOrderedRing α]

/-! ## LaserSpectrum._update_cache -/

theorem firstLower_eq (lo d : α) : firstLower lo d = lo := by
  unfold firstLower wavelength
  norm_num
  ring

theorem binEdges_length (d s : α) (n : Nat) : (binEdges d s n).length = n := by
  induction n generalizing s with
  | zero => rfl
  | succ n ih => simp [binEdges, ih]

theorem binEdges_get (d s : α) (n i : Nat) (h : i < (binEdges d s n).length) :
    (binEdges d s n)[i] = (s + (i : α) * d, s + ((i : α) + 1) * d) := by
  induction n generalizing s i with
  | zero => simp [binEdges] at h
  | succ n ih =>
    cases i with
    | zero => simp [binEdges]
    | succ i =>
      simp only [binEdges, List.getElem_cons_succ]
      rw [ih]
      push_cast
      congr 1 <;> ring

theorem delta_mul (lo hi : α) (n : Nat) (hn : 0 < n) : (n : α) * delta lo hi n = hi - lo := by
  unfold delta
  have : (0 : α) < (n : α) := by exact_mod_cast hn
  field_simp

/-- the bins are `[lo + i·Δ, lo + (i+1)·Δ]`, `i < n` -/
theorem bins_closed_form (lo hi : α) (n i : Nat) (h : i < (bins lo hi n).length) :
    (bins lo hi n)[i] = (lo + (i : α) * delta lo hi n, lo + ((i : α) + 1) * delta lo hi n) := by
  unfold bins at h ⊢
  rw [binEdges_get, firstLower_eq]

theorem bins_length (lo hi : α) (n : Nat) : (bins lo hi n).length = n := binEdges_length _ _ _

/-- bin centres reported by `wavelengths` are the mid-points of the bins used for the densities -/
theorem wavelengths_are_bin_centres (lo hi : α) (n i : Nat) (h : i < (bins lo hi n).length)
    (h' : i < (wavelengths lo hi n).length) :
    (wavelengths lo hi n)[i] = ((bins lo hi n)[i].1 + (bins lo hi n)[i].2) / 2 := by
  rw [bins_closed_form]
  simp only [wavelengths, List.getElem_map, List.getElem_range, wavelength]
  norm_num
  ring

/-- telescoping over consecutive bins -/
theorem sum_binEdges_telescope (F : α → α) (d s : α) (n : Nat) :
    sumList ((binEdges d s n).map fun e => F e.2 - F e.1) = F (s + (n : α) * d) - F s := by
  induction n generalizing s with
  | zero => simp [binEdges, sumList]
  | succ n ih =>
    simp only [binEdges, List.map_cons, sumList, List.foldr_cons] at ih ⊢
    rw [ih]
    push_cast
    have : s + d + (n : α) * d = s + ((n : α) + 1) * d := by ring
    rw [this]; ring

theorem sumList_map_mul (xs : List α) (c : α) : sumList (xs.map fun x => x * c) = sumList xs * c := by
  induction xs with
  | nil => simp [sumList]
  | cons x xs ih =>
    simp only [List.map_cons, sumList, List.foldr_cons] at ih ⊢
    rw [ih]; ring

/-- **spectrum_bins_telescope** (GaussianSpectrum): Σ power = ½ (erf((max − μ)k) − erf((min − μ)k)), for any `erf` -/
theorem spectrum_bins_telescope (erf : α → α) (mean k lo hi : α) (n : Nat) (hn : 0 < n) (hlt : lo < hi) :
    sumList (powerList (gaussBinPsd erf mean k (delta lo hi n)) lo hi n)
      = 0.5 * (erf ((hi - mean) * k) - erf ((lo - mean) * k)) := by
  have hnα : (0 : α) < (n : α) := by exact_mod_cast hn
  have hd : delta lo hi n ≠ 0 := by
    unfold delta
    have : 0 < hi - lo := by linarith
    positivity
  unfold powerList psdList bins
  rw [List.map_map, firstLower_eq]
  have hfun : ((fun p => p * delta lo hi n) ∘ fun e : α × α => gaussBinPsd erf mean k (delta lo hi n) e.1 e.2)
      = fun e => (fun x => 0.5 * erf ((x - mean) * k)) e.2 - (fun x => 0.5 * erf ((x - mean) * k)) e.1 := by
    funext e
    simp only [Function.comp, gaussBinPsd]
    field_simp
  rw [hfun]
  have ht := sum_binEdges_telescope (fun x => 0.5 * erf ((x - mean) * k)) (delta lo hi n) lo n
  beta_reduce at ht ⊢
  rw [ht, delta_mul lo hi n hn]
  ring_nf

/-- **bin_power_is_integral** (GaussianSpectrum, algebraic half): the power of bin i is the increment of the
cumulative distribution `Φ(x) = ½(1 + erf((x − μ)k))` over the bin.  (`Props/C18Real.lean` shows that this
increment is `∫ density` over the bin, with `erf` the real error function.) -/
theorem gauss_bin_power_is_cdf_increment (erf : α → α) (mean k lo hi : α) (n i : Nat) (hn : 0 < n) (hlt : lo < hi)
    (h : i < (powerList (gaussBinPsd erf mean k (delta lo hi n)) lo hi n).length) (h' : i < (bins lo hi n).length) :
    (powerList (gaussBinPsd erf mean k (delta lo hi n)) lo hi n)[i]
      = 0.5 * (1 + erf (((bins lo hi n)[i].2 - mean) * k)) - 0.5 * (1 + erf (((bins lo hi n)[i].1 - mean) * k)) := by
  have hnα : (0 : α) < (n : α) := by exact_mod_cast hn
  have hd : delta lo hi n ≠ 0 := by
    unfold delta
    have : 0 < hi - lo := by linarith
    positivity
  simp only [powerList, psdList, List.getElem_map, gaussBinPsd]
  field_simp
  ring

/-- ConstantSpectrum: every bin lies inside the support, so the trapezoid sees the density at both ends -/
theorem const_bins_inside (lo hi : α) (n i : Nat) (hn : 0 < n) (hlt : lo < hi) (h : i < (bins lo hi n).length) :
    lo ≤ (bins lo hi n)[i].1 ∧ (bins lo hi n)[i].1 ≤ hi ∧ lo ≤ (bins lo hi n)[i].2 ∧ (bins lo hi n)[i].2 ≤ hi := by
  have hi' : i < n := by rwa [bins_length] at h
  have hnα : (0 : α) < (n : α) := by exact_mod_cast hn
  have hdpos : 0 < delta lo hi n := by
    unfold delta
    have : 0 < hi - lo := by linarith
    positivity
  have hiα : ((i : α) + 1) ≤ (n : α) := by exact_mod_cast hi'
  have hi0 : (0 : α) ≤ (i : α) := by positivity
  have hmul := delta_mul lo hi n hn
  rw [bins_closed_form]
  simp only
  refine ⟨?_, ?_, ?_, ?_⟩ <;> nlinarith

/-- **bin_power_is_integral** (ConstantSpectrum): psd of every bin is the density `1/(max − min)`, and the power is
(bin width) × density, i.e. the integral of the constant density over the bin. -/
theorem const_bin_power_is_integral (lo hi : α) (n i : Nat) (hn : 0 < n) (hlt : lo < hi)
    (h : i < (powerList (trapezoidPsd (constEval lo hi)) lo hi n).length) (h' : i < (bins lo hi n).length) :
    (psdList (trapezoidPsd (constEval lo hi)) lo hi n)[i]'(by simpa [powerList] using h) = 1 / (hi - lo) ∧
    (powerList (trapezoidPsd (constEval lo hi)) lo hi n)[i]
      = ((bins lo hi n)[i].2 - (bins lo hi n)[i].1) * (1 / (hi - lo)) := by
  obtain ⟨a1, a2, b1, b2⟩ := const_bins_inside lo hi n i hn hlt h'
  have hp : (psdList (trapezoidPsd (constEval lo hi)) lo hi n)[i]'(by simpa [powerList] using h) = 1 / (hi - lo) := by
    simp only [psdList, List.getElem_map, trapezoidPsd, constEval, a1, a2, b1, b2, and_self, if_true]
    norm_num
    ring
  refine ⟨hp, ?_⟩
  simp only [powerList, List.getElem_map]
  rw [hp, bins_closed_form]
  ring

/-- ConstantSpectrum: the range is the support of the line, and the bin powers sum to one -/
theorem const_total_power_one (lo hi : α) (n : Nat) (hn : 0 < n) (hlt : lo < hi) :
    sumList (powerList (trapezoidPsd (constEval lo hi)) lo hi n) = 1 := by
  have hne : hi - lo ≠ 0 := by linarith [sub_pos.mpr hlt]
  -- every psd entry equals 1/(hi-lo): rewrite the list as a telescoping sum of F(x) = x/(hi-lo)
  have hmap : powerList (trapezoidPsd (constEval lo hi)) lo hi n
      = (bins lo hi n).map fun e => (fun x => x / (hi - lo)) e.2 - (fun x => x / (hi - lo)) e.1 := by
    apply List.ext_getElem
    · simp [powerList, psdList]
    · intro i h1 h2
      have hb : i < (bins lo hi n).length := by simpa using h2
      rw [(const_bin_power_is_integral lo hi n i hn hlt h1 hb).2]
      simp only [List.getElem_map]
      field_simp
  rw [hmap]
  unfold bins
  have ht := sum_binEdges_telescope (fun x => x / (hi - lo)) (delta lo hi n) (firstLower lo (delta lo hi n)) n
  beta_reduce at ht ⊢
  rw [ht, firstLower_eq, delta_mul lo hi n hn]
  field_simp
  ring

end Spectrum

section Beam
variable {α : Type} [Field α] [LinearOrder α] [IsStrictOrderedRing α]

/-! ## Gaussian-beam width σ(z) and the normalisation constant -/

/-- `z_R = 2π σ0² / (λ · 1e-9)` (wavelength in nm) -/
theorem rayleigh_formula (pi sw wl : α) (hwl : wl ≠ 0) :
    rayleigh pi sw wl = 2 * pi * sw ^ 2 / (wl * (1 / 1000000000)) := by
  unfold rayleigh Laser.sq
  rw [two_eq]
  norm_num
  field_simp

/-- σ(z)² = σ0² (1 + ((z − z0)/zR)²) -/
theorem gbm_sigma_formula (pi sw wl wz z : α) :
    gbmSigma2 pi sw wl wz z = sw ^ 2 * (1 + ((z - wz) / rayleigh pi sw wl) ^ 2) := by
  unfold gbmSigma2 Laser.sq; ring

/-- at the waist the width is σ0 -/
theorem gbm_sigma_waist (pi sw wl wz : α) : gbmSigma2 pi sw wl wz wz = sw ^ 2 := by
  rw [gbm_sigma_formula]; simp

/-- the waist is the narrowest point and the width is positive everywhere -/
theorem gbm_sigma_ge_waist (pi sw wl wz z : α) (hsw : sw ≠ 0) :
    sw ^ 2 ≤ gbmSigma2 pi sw wl wz z ∧ 0 < gbmSigma2 pi sw wl wz z := by
  rw [gbm_sigma_formula]
  have h1 : 0 < sw ^ 2 := by positivity
  have h2 : 0 ≤ ((z - wz) / rayleigh pi sw wl) ^ 2 := by positivity
  constructor <;> nlinarith

/-- symmetric about the waist -/
theorem gbm_sigma_symm (pi sw wl wz d : α) : gbmSigma2 pi sw wl wz (wz + d) = gbmSigma2 pi sw wl wz (wz - d) := by
  rw [gbm_sigma_formula, gbm_sigma_formula]; ring

/-- `normalisation = E_p / (c τ)`; multiplied by the spatial pulse length it gives back the pulse energy -/
theorem normalisation_spec (c ep tau : α) (hc : 0 < c) (ht : 0 < tau) :
    normalisation c ep tau = ep / (c * tau) ∧ normalisation c ep tau * (c * tau) = ep := by
  unfold normalisation
  refine ⟨rfl, ?_⟩
  field_simp

/-- the energy densities factor as (normalisation) × (unit transverse shape) -/
theorem cbg_factor (E : Ext α) (ep tau sx sy x y : α) :
    cbgDensity E ep tau sx sy x y = ep / (E.c * tau) * bivEval E.exp (bivCache E.pi sx sy) x y := rfl

theorem gba_factor (E : Ext α) (ep tau wl wz sw x y z : α) :
    gbaDensity E ep tau wl wz sw x y z = ep / (E.c * tau) * gbmEval E.pi E.exp wl wz sw x y z := rfl

theorem tri_factor (E : Ext α) (ep mean sx sy sz x y z : α) :
    triDensity E ep mean sx sy sz x y z = ep * triEval E.exp (triCache E.pi E.sqrt mean sx sy sz) x y z := rfl

/-- closed forms of the three unit shapes (documented formulas) -/
theorem bivEval_formula (exp : α → α) (pi sx sy x y : α) (hx : sx ≠ 0) (hy : sy ≠ 0) :
    bivEval exp (bivCache pi sx sy) x y
      = 1 / (2 * pi * sx * sy) * exp (-(x ^ 2 / (2 * sx ^ 2)) - y ^ 2 / (2 * sy ^ 2)) := by
  unfold bivEval bivCache Laser.sq
  rw [two_eq]
  congr 2
  field_simp
  ring

theorem gbmEval_formula (exp : α → α) (pi wl wz sw x y z : α) (hsw : sw ≠ 0) :
    gbmEval pi exp wl wz sw x y z
      = 1 / (2 * pi * gbmSigma2 pi sw wl wz z) * exp (-((x ^ 2 + y ^ 2) / (2 * gbmSigma2 pi sw wl wz z))) := by
  have hpos := (gbm_sigma_ge_waist pi sw wl wz z hsw).2
  unfold gbmEval Laser.sq
  rw [two_eq]
  simp only
  congr 2
  field_simp

end Beam

section History
variable {α : Type} [Field α] [LinearOrder α] [IsStrictOrderedRing α]

/-! ## histories of assignments: the interpreter of the generated tables

Decidable conditions on a class table (checked on the *generated* tables in `Props/C18Table.lean`): -/

/-- does setter `s` write a field the rebuild code reads? -/
def writesRead (t : Cls) (s : Setter) : Bool := s.writes.any fun w => decide (w.1 ∈ t.rebuildReads)
def hasRebuild (s : Setter) : Bool := s.refresh.any isRebuild
/-- every setter that writes a field read by `_function_changed` / `_update_cache` performs that rebuild -/
def coveredB (t : Cls) : Bool := t.setters.all fun s => !writesRead t s || hasRebuild s
/-- a setter validates before writing, and a field that the rebuilt function insists on being positive is only
written by a setter that has checked positivity (so a rejected assignment cannot be half-applied) -/
def atomicSetter (t : Cls) (s : Setter) : Bool :=
  s.guardFirst && s.writes.all fun w =>
    !decide (w.1 ∈ t.rebuildPositive) || (s.guard == .positive && (w.2 == .value || w.2 == .timesC))
def atomicB (t : Cls) : Bool := t.setters.all (atomicSetter t)

/-- the cached function / binned spectrum reflects the current fields -/
def Clean (t : Cls) (o : Obj α) : Prop := ∀ f ∈ t.rebuildReads, o.snap f = o.fields f
/-- what the inner function constructors require -/
def Pos (t : Cls) (o : Obj α) : Prop := ∀ f ∈ t.rebuildPositive, 0 < o.fields f

theorem rebuildOk_iff (t : Cls) (fs : String → α) : rebuildOk t fs = true ↔ ∀ f ∈ t.rebuildPositive, 0 < fs f := by
  simp [rebuildOk, List.all_eq_true]

theorem rebuild_clean (t : Cls) (o o' : Obj α) (h : rebuild t o = some o') :
    Clean t o' ∧ o'.fields = o.fields ∧ o'.built = true := by
  unfold rebuild at h
  split at h
  · cases h
    refine ⟨?_, rfl, rfl⟩
    intro f hf
    simp [hf]
  · cases h

theorem runRefresh_fields (t : Cls) (rs : List Refresh) (o : Obj α) : (runRefresh t o rs).1.fields = o.fields := by
  induction rs generalizing o with
  | nil => rfl
  | cons r rs ih =>
    unfold runRefresh
    split
    · split
      · rename_i o' ho'
        rw [ih, (rebuild_clean t o o' ho').2.1]
      · rfl
    · rw [ih]

theorem runRefresh_keeps_clean (t : Cls) (rs : List Refresh) (o : Obj α) (h : Clean t o) :
    Clean t (runRefresh t o rs).1 := by
  induction rs generalizing o with
  | nil => exact h
  | cons r rs ih =>
    unfold runRefresh
    split
    · split
      · rename_i o' ho'
        exact ih o' (rebuild_clean t o o' ho').1
      · exact h
    · exact ih _ h

theorem runRefresh_makes_clean (t : Cls) (rs : List Refresh) (o : Obj α) (hok : (runRefresh t o rs).2 = .ok)
    (hr : rs.any isRebuild = true) : Clean t (runRefresh t o rs).1 := by
  induction rs generalizing o with
  | nil => simp at hr
  | cons r rs ih =>
    unfold runRefresh at hok ⊢
    by_cases hrb : isRebuild r = true
    · simp only [hrb, if_true] at hok ⊢
      split
      · rename_i o' ho'
        exact runRefresh_keeps_clean t rs o' (rebuild_clean t o o' ho').1
      · rename_i hnone
        simp [hnone] at hok
    · simp only [hrb] at hok ⊢
      have hrb' : isRebuild r = false := by simpa using hrb
      simp only [List.any_cons, hrb', Bool.false_or] at hr
      exact ih _ hok hr

theorem runRefresh_pos_ok (t : Cls) (rs : List Refresh) (o : Obj α) (hp : Pos t o) : (runRefresh t o rs).2 = .ok := by
  induction rs generalizing o with
  | nil => rfl
  | cons r rs ih =>
    unfold runRefresh
    split
    · have hro : rebuildOk t o.fields = true := (rebuildOk_iff t o.fields).mpr hp
      simp only [rebuild, hro, if_true]
      apply ih
      exact hp
    · exact ih _ hp

theorem applyWrites_notin (E : Ext α) (ws : List (String × Rhs)) (fs : String → α) (v : α) (f : String)
    (h : ∀ w ∈ ws, w.1 ≠ f) : applyWrites E ws fs v f = fs f := by
  unfold applyWrites
  induction ws generalizing fs with
  | nil => rfl
  | cons w ws ih =>
    simp only [List.foldl_cons]
    rw [ih]
    · simp only [write]
      have := h w (by simp)
      simp [Ne.symm this]
    · intro w' hw'; exact h w' (by simp [hw'])

theorem applyWrites_pos (E : Ext α) (P : List String) (ws : List (String × Rhs)) (fs : String → α) (v : α)
    (hw : ∀ w ∈ ws, w.1 ∈ P → 0 < evalRhs E w.2 v) (hfs : ∀ f ∈ P, 0 < fs f) :
    ∀ f ∈ P, 0 < applyWrites E ws fs v f := by
  unfold applyWrites
  induction ws generalizing fs with
  | nil => exact hfs
  | cons w ws ih =>
    simp only [List.foldl_cons]
    apply ih
    · intro w' hw'; exact hw w' (by simp [hw'])
    · intro f hf
      simp only [write]
      split
      · rename_i heq; subst heq; exact hw w (by simp) hf
      · exact hfs f hf

theorem evalRhs_pos (E : Ext α) (hc : 0 < E.c) (r : Rhs) (v : α) (hv : 0 < v) (hr : r = .value ∨ r = .timesC) :
    0 < evalRhs E r v := by
  rcases hr with h | h <;> subst h <;> simp only [evalRhs]
  · exact hv
  · positivity

/-- one assignment through setter `s`: an accepted assignment of a covered setter leaves the object clean; under
atomicity a rejected assignment leaves the object untouched, and positivity of the guarded fields is invariant. -/
theorem setWith_inv (E : Ext α) (hc : 0 < E.c) (t : Cls) (s : Setter)
    (hcov : (!writesRead t s || hasRebuild s) = true) (hat : atomicSetter t s = true)
    (o : Obj α) (v : α) (hcl : Clean t o) (hp : Pos t o) :
    Clean t (setWith E t s o v).1 ∧ Pos t (setWith E t s o v).1 ∧
      ((setWith E t s o v).2 = .ok ∨ (setWith E t s o v).1 = o) := by
  simp only [atomicSetter, Bool.and_eq_true, List.all_eq_true, Bool.or_eq_true, Bool.not_eq_true',
    decide_eq_false_iff_not, beq_iff_eq] at hat
  obtain ⟨hgf, hws⟩ := hat
  unfold setWith
  simp only [hgf, Bool.true_and, Bool.not_true, Bool.false_and]
  by_cases hg : guardOk s.guard o.fields v = true
  · simp only [hg, Bool.not_true]
    simp only [Bool.false_eq_true, if_false]
    -- the written object
    have hpos1 : Pos t { o with fields := applyWrites E s.writes o.fields v } := by
      apply applyWrites_pos E t.rebuildPositive s.writes o.fields v _ hp
      intro w hw hwp
      rcases hws w hw with hn | ⟨hgp, hrv⟩
      · exact absurd hwp hn
      · have hv : 0 < v := by
          rw [hgp] at hg
          simpa [guardOk] using hg
        exact evalRhs_pos E hc w.2 v hv hrv
    have hok := runRefresh_pos_ok t s.refresh _ hpos1
    refine ⟨?_, ?_, Or.inl hok⟩
    · by_cases hrb : hasRebuild s = true
      · exact runRefresh_makes_clean t s.refresh _ hok hrb
      · have hnw : writesRead t s = false := by
          rcases Bool.or_eq_true _ _ ▸ hcov with h | h
          · simpa using h
          · exact absurd h hrb
        apply runRefresh_keeps_clean
        intro f hf
        have hnot : ∀ w ∈ s.writes, w.1 ≠ f := by
          intro w hw heq
          simp only [writesRead, List.any_eq_false, decide_eq_true_eq] at hnw
          exact hnw w hw (heq ▸ hf)
        simp only
        rw [applyWrites_notin E s.writes o.fields v f hnot]
        exact hcl f hf
    · intro f hf
      rw [runRefresh_fields]
      exact hpos1 f hf
  · simp only [hg]
    simp only [Bool.not_false, if_true]
    exact ⟨hcl, hp, Or.inr trivial⟩

theorem findSetter_mem (t : Cls) (p : String) (s : Setter) (h : findSetter t p = some s) :
    s ∈ t.setters ∧ s.prop = p := by
  unfold findSetter at h
  exact ⟨List.mem_of_find?_eq_some h, by simpa using List.find?_some h⟩

theorem setProp_inv (E : Ext α) (hc : 0 < E.c) (t : Cls) (hcov : coveredB t = true) (hat : atomicB t = true)
    (o : Obj α) (p : String) (v : α) (hcl : Clean t o) (hp : Pos t o) :
    Clean t (setProp E t o p v).1 ∧ Pos t (setProp E t o p v).1 := by
  unfold setProp
  split
  · exact ⟨hcl, hp⟩
  · rename_i s hs
    have hmem := (findSetter_mem t p s hs).1
    have h1 := List.all_eq_true.mp hcov s hmem
    have h2 := List.all_eq_true.mp hat s hmem
    have := setWith_inv E hc t s h1 h2 o v hcl hp
    exact ⟨this.1, this.2.1⟩

/-- **no stale state after any history** (value level): starting from a clean object, after *any* sequence of
assignments — accepted or rejected, any values — the cached energy-density function / binned spectrum is the one a
rebuild from the current fields would produce. -/
theorem history_clean (E : Ext α) (hc : 0 < E.c) (t : Cls) (hcov : coveredB t = true) (hat : atomicB t = true)
    (ops : List (String × α)) (o : Obj α) (hcl : Clean t o) (hp : Pos t o) :
    Clean t (runOps E t o ops) ∧ Pos t (runOps E t o ops) := by
  induction ops generalizing o with
  | nil => exact ⟨hcl, hp⟩
  | cons op ops ih =>
    obtain ⟨p, v⟩ := op
    unfold runOps
    have := setProp_inv E hc t hcov hat o p v hcl hp
    exact ih _ this.1 this.2

/-- a rejected assignment changes nothing (atomicity) -/
theorem rejected_assignment_unchanged (E : Ext α) (hc : 0 < E.c) (t : Cls) (hcov : coveredB t = true)
    (hat : atomicB t = true) (o : Obj α) (p : String) (v : α) (hcl : Clean t o) (hp : Pos t o)
    (hrej : (setProp E t o p v).2 ≠ .ok) : (setProp E t o p v).1 = o := by
  unfold setProp at hrej ⊢
  split
  · rfl
  · rename_i s hs
    have hmem := (findSetter_mem t p s hs).1
    have h1 := List.all_eq_true.mp hcov s hmem
    have h2 := List.all_eq_true.mp hat s hmem
    rcases (setWith_inv E hc t s h1 h2 o v hcl hp).2.2 with h | h
    · simp [hs] at hrej; exact absurd h hrej
    · exact h

end History

end Cherab.Props.C18
