import Cherab.Props.C16Table
open Cherab.Props.C16
#print axioms wf_spectrometer
#print axioms wf_ct
#print axioms wf_polychromator
#print axioms covered_spectrometer
#print axioms covered_ct
#print axioms covered_polychromator
#print axioms covered_all
#print axioms spectrometer_settings_follow
#print axioms ct_settings_follow
#print axioms polychromator_settings_follow
