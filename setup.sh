#!/bin/bash
# offline setup: build /repo's extensions from the working tree, the out-of-tree shim, the Lean library
# (models, theorems) and the native drivers.
set -e
D="$(cd "$(dirname "${BASH_SOURCE[0]}")" && pwd)"
cd "$D"
export PYTHONPATH="$D:$PYTHONPATH"
/venv/bin/python -m harness.vlib.rebuild
if [ -f harness/shim/setup_shim.py ]; then
  (cd harness/shim && /venv/bin/python setup_shim.py build_ext --inplace -q >/dev/null 2>&1 || /venv/bin/python setup_shim.py build_ext --inplace)
fi
cd lean
mods=""
for f in Cherab/Props/C*.lean; do b=$(basename "$f" .lean); mods="$mods Cherab.Props.$b"; done
drvs=""
for f in Driver/C*.lean; do b=$(basename "$f" .lean | tr 'C' 'c'); drvs="$drvs drv_$b"; done
./lk $mods $drvs
echo "setup complete"
