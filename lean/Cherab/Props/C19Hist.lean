import Cherab.Props.C19

/-!
# C19, round 6: constructing species does not change what the lookups return

The registry as a state machine (`Model/Registry.lean`: `RegState`, `RegEvent`, `RegState.step/run`): after import the only
code that could touch `_element_index` / `_isotope_index` is a constructor body.  The translator reads both `__init__`
bodies (`elementCtorKeys` / `isotopeCtorKeys` = the index keys they write; a body containing anything but `self.f = …`
and `super().__init__(…)` is rejected), so for the current source every history of public-constructor calls leaves both
dictionaries — hence every lookup — unchanged.  The negative theorem shows the statement is not vacuous: a
self-registering constructor (keys = `elementKeys`) does change a lookup on a concrete two-step history.
-/

namespace Cherab.Props.C19

open Cherab.Registry Cherab.Gen.Elements

/-- the state right after import -/
def importState : RegState := ⟨elementIndex, isotopeIndex⟩

/-- **every history of `Element(...)` / `Isotope(...)` calls leaves both indices as they were at import** (any arguments:
equal-valued, same name, same symbol, same atomic number, same element + mass number as an exported species, …) -/
theorem construct_preserves_index (s : RegState) (h : List RegEvent) :
    RegState.run elementCtorKeys isotopeCtorKeys s h = s := by
  induction h generalizing s with
  | nil => rfl
  | cons ev t ih =>
    have hs : RegState.step elementCtorKeys isotopeCtorKeys s ev = s := by
      cases ev <;> rfl
    show RegState.run elementCtorKeys isotopeCtorKeys (RegState.step elementCtorKeys isotopeCtorKeys s ev) t = s
    rw [hs]; exact ih s

/-- … hence every lookup (any argument kind, any `number`) answers after the history what it answered before -/
theorem construct_preserves_lookups (h : List RegEvent) (q : Query) (number : Option Int) :
    let s := RegState.run elementCtorKeys isotopeCtorKeys importState h
    lookupElement s.eidx q = lookupElement elementIndex q ∧
    lookupIsotope s.eidx s.iidx q number = lookupIsotope elementIndex isotopeIndex q number := by
  simp only [construct_preserves_index, importState, and_self]

/-- a user's helium with a rounded weight -/
def userHelium : El := mkElement (enc "helium") (enc "He") 2 (4, 1)

example : lookupElement
    (RegState.run elementCtorKeys isotopeCtorKeys importState [.newEl userHelium, .newIso o_tritium]).eidx (.str (enc "He"))
    = some o_helium := by
  rw [construct_preserves_index]; decide +kernel

/-- non-vacuity / the class in the model: if the constructor registered itself (index keys = the builder's key
expressions), the history `lookup; Element('helium','He',2,4.0); lookup` would change the answer -/
theorem self_registering_ctor_changes_lookup :
    lookupElement importState.eidx (.str (enc "He")) = some o_helium ∧
    lookupElement (RegState.run elementKeys isotopeKeys importState [.newEl userHelium]).eidx (.str (enc "He")) = some userHelium ∧
    userHelium ≠ o_helium := by
  decide +kernel

end Cherab.Props.C19
