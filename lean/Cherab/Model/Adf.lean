/-
C08 — ADAS ADF parsers (cherab/openadas/parse/{utility,adf11,adf12,adf15,adf21,adf22}.py) and the
installers' notation conversions (cherab/openadas/install.py).  Mathlib-free.

Two layers.

* Layer 2 (this file): the *structure* of the parsers, transcribed from the code as it is, over an abstract line type
  `ℓ` and abstract numeric tokens `α`.  Everything the code learns about a line by slicing columns or by matching a
  regular expression is a field of a `Lex…` record ("views" of a line); the parsers only use the views.
  Exceptions are the `Err` enum (`Except Err`).  Unit conversions stay symbolic (`Conv`).
* Layer 1 (`Model/AdfText.lean`): the views for `ℓ = String` (column slicing, hand-coded recognisers for the
  regular expressions) and the text rendering of the abstract lines.  Tied by the correspondence run only.

Beside the parsers: abstract line *kinds* (`K11`, `K12`, `K15`, `K2x`) with their canonical views, and the
writers `render11 … render2x : Tables → List Kind`, the executable statement of the file formats we assume.
-/
import Cherab.Gen.AdfLex
namespace Cherab.Adf

/-- exception classes that the parsers can raise -/
inductive Err | value | index | key | runtime | name | attribute | type
  deriving DecidableEq, Repr, Inhabited

def Err.toString : Err → String
  | .value => "ValueError" | .index => "IndexError" | .key => "KeyError" | .runtime => "RuntimeError"
  | .name => "NameError" | .attribute => "AttributeError" | .type => "TypeError"

/-- symbolic unit / notation conversions (cherab.core.utility.conversion, install._notation_adf11_adas2cherab) -/
inductive Conv
  | id            -- value as written
  | perCm3        -- PerCm3ToPerM3.to      x * 1e6
  | cm3           -- Cm3ToM3.to            x * 1e-6
  | pow10         -- 10 ** x
  | pow10PerCm3   -- PerCm3ToPerM3.to(10 ** x)
  | pow10Cm3      -- Cm3ToM3.to(10 ** x)
  | angstrom      -- x / 10   (Angstrom -> nm)
  deriving DecidableEq, Repr, Inhabited

def Conv.code : Conv → String
  | .id => "id" | .perCm3 => "pcm3" | .cm3 => "cm3" | .pow10 => "p10" | .pow10PerCm3 => "p10pcm3"
  | .pow10Cm3 => "p10cm3" | .angstrom => "ang"

def opt {β : Type} (e : Err) : Option β → Except Err β
  | some x => .ok x
  | none => .error e

/-- Python `dict.__setitem__` on an association list: an existing key keeps its position -/
def dictSet {κ ν : Type} [BEq κ] : List (κ × ν) → κ → ν → List (κ × ν)
  | [], k, v => [(k, v)]
  | (k', v') :: t, k, v => if k' == k then (k', v) :: t else (k', v') :: dictSet t k v

def dictGet {κ ν : Type} [BEq κ] : List (κ × ν) → κ → Option ν
  | [], _ => none
  | (k', v') :: t, k => if k' == k then some v' else dictGet t k

/-- build a dict from an insertion sequence -/
def dictOfList {κ ν : Type} [BEq κ] (l : List (κ × ν)) : List (κ × ν) :=
  l.foldl (fun d kv => dictSet d kv.1 kv.2) []

/-- the lines of a Fortran list write: `p` values per line (`fuel` bounds the number of lines) -/
def chunkF {α : Type} (p : Nat) : Nat → List α → List (List α)
  | 0, _ => []
  | fuel + 1, xs => if p = 0 ∨ xs.isEmpty then [] else xs.take p :: chunkF p fuel (xs.drop p)

def chunk {α : Type} (p : Nat) (xs : List α) : List (List α) := chunkF p xs.length xs

/-- row-major table from a function -/
def tabulate {α : Type} (n m : Nat) (f : Nat → Nat → α) : List (List α) :=
  (List.range n).map fun i => (List.range m).map fun j => f i j

/-! ## utility.readvalues -/
section readvalues
variable {ℓ α : Type}

/-- utility.py `readvalues`: `fuel` = values still to read, `nb` = nb_read, `cur` = the variable `line`.
`field l k` is `type(line[1+k*10:(k+1)*10].replace('D','E'))`, `none` when the conversion raises. -/
def readvaluesAux (field : ℓ → Nat → Option α) (p : Nat) :
    Nat → Nat → Option ℓ → List ℓ → Except Err (List α × List ℓ)
  | 0, _, _, rest => .ok ([], rest)
  | fuel + 1, nb, cur, rest =>
    let k := nb % p
    let cur' := if k == 0 then rest.head? else cur       -- file.readline(); '' at EOF has no fields
    let rest' := if k == 0 then rest.tail else rest
    match cur'.bind (fun l => field l k) with
    | none => .error .value
    | some v =>
      match readvaluesAux field p fuel (nb + 1) cur' rest' with
      | .ok (o, r) => .ok (v :: o, r)
      | .error e => .error e

def readvalues (field : ℓ → Nat → Option α) (n p : Nat) (lines : List ℓ) : Except Err (List α × List ℓ) :=
  readvaluesAux field p n 0 none lines

end readvalues

/-! ## ADF21 / ADF22  (utility.parse_adas2x_rate) -/
section adf2x
variable {ℓ α : Type}

/-- column views used by `parse_adas2x_rate` -/
structure Lex2x (ℓ α : Type) where
  field : ℓ → Nat → Option α   -- float(line[1+10k : 10(k+1)].replace('D','E'))
  zt : ℓ → Option Nat          -- int(line[3:5])
  svref : ℓ → Option α         -- float(line[13:22])
  n1 : ℓ → Option Nat          -- int(line[1:5])
  n2 : ℓ → Option Nat          -- int(line[6:10])
  tref : ℓ → Option α          -- float(line[17:26])
  eref : ℓ → Option α          -- float(line[12:21])
  dref : ℓ → Option α          -- float(line[28:37])

structure Out2x (α : Type) where
  e : List α            -- beam energies                        (as written)
  n : List α            -- target densities                     (PerCm3ToPerM3)
  t : List α            -- target temperatures                  (as written)
  sen : List (List α)   -- sen[i_e][i_n]                        (normalisation)
  st : List α           --                                      (normalisation)
  eref : α
  nref : α              --                                      (PerCm3ToPerM3)
  tref : α
  sref : α              --                                      (normalisation)
  deriving BEq, Repr, DecidableEq

/-- `for index in range(ndt): sv[:, index] = readvalues(file, neb, 8)` -/
def readCols (field : ℓ → Nat → Option α) (neb : Nat) : Nat → List ℓ → Except Err (List (List α) × List ℓ)
  | 0, ls => .ok ([], ls)
  | k + 1, ls =>
    match readvalues field neb 8 ls with
    | .error e => .error e
    | .ok (c, ls') =>
      match readCols field neb k ls' with
      | .error e => .error e
      | .ok (cs, ls'') => .ok (c :: cs, ls'')

/-- a header line that is immediately converted with int()/float(): '' at EOF raises ValueError -/
def needLine (ls : List ℓ) : Except Err (ℓ × List ℓ) :=
  match ls with
  | [] => .error .value
  | l :: t => .ok (l, t)

def parse2x (lex : Lex2x ℓ α) (lines : List ℓ) : Except Err (Out2x α) := do
  let (l0, r) ← needLine lines
  let _zt ← opt .value (lex.zt l0)
  let svref ← opt .value (lex.svref l0)
  let r := r.tail                                  -- hyphen line
  let (l2, r) ← needLine r
  let neb ← opt .value (lex.n1 l2)
  let ndt ← opt .value (lex.n2 l2)
  let tref ← opt .value (lex.tref l2)
  let r := r.tail
  let (eb, r) ← readvalues lex.field neb 8 r
  let (dt, r) ← readvalues lex.field ndt 8 r
  let r := r.tail
  let (cols, r) ← readCols lex.field neb ndt r
  let r := r.tail
  let (l3, r) ← needLine r
  let ntt ← opt .value (lex.n1 l3)
  let eref ← opt .value (lex.eref l3)
  let dref ← opt .value (lex.dref l3)
  let r := r.tail
  let (tt, r) ← readvalues lex.field ntt 8 r
  let r := r.tail
  let (svt, _) ← readvalues lex.field ntt 8 r
  return { e := eb, n := dt, t := tt,
           sen := (List.range neb).map fun i => cols.filterMap fun c => c[i]?,
           st := svt, eref := eref, nref := dref, tref := tref, sref := svref }

/-- which parser front end: the normalisation applied to `sen`, `st`, `sref` -/
inductive Kind2x | adf21 | bmp | bme deriving DecidableEq, Repr

/-- adf21.py / adf22.py: `normalisation=Cm3ToM3.conversion_factor` for adf21 and bme, `1` for bmp -/
def Kind2x.norm : Kind2x → Conv
  | .adf21 => .cm3 | .bmp => .id | .bme => .cm3

/-- key of the `normalisation=` argument in the generated literal table -/
def Kind2x.key : Kind2x → String
  | .adf21 => "adf21.py:parse_adf21:normalisation1"
  | .bmp => "adf22.py:parse_adf22bmp:normalisation1"
  | .bme => "adf22.py:parse_adf22bme:normalisation1"

/-- abstract lines of an ADF21/22 file -/
inductive K2x (α : Type)
  | head (zt : Nat) (svref spec : α)        -- ZT=.. SVREF=.. SPEC=.. DATE=.. CODE=..
  | hy                                      -- line of hyphens
  | dims (neb ndt : Nat) (tref : α)
  | tdims (ntt : Nat) (eref dref : α)
  | vals (xs : List α)
  deriving BEq, Repr

def lexK2x : Lex2x (K2x α) α where
  field := fun l k => match l with | .vals xs => xs[k]? | _ => none
  zt := fun l => match l with | .head z _ _ => some z | _ => none
  svref := fun l => match l with | .head _ s _ => some s | _ => none
  n1 := fun l => match l with | .dims a _ _ => some a | .tdims n _ _ => some n | _ => none
  n2 := fun l => match l with | .dims _ b _ => some b | _ => none
  tref := fun l => match l with | .dims _ _ t => some t | _ => none
  eref := fun l => match l with | .tdims _ e _ => some e | _ => none
  dref := fun l => match l with | .tdims _ _ d => some d | _ => none

/-- content of an ADF21/22 file -/
structure Tab2x (α : Type) where
  zt : Nat
  spec : α
  svref : α
  tref : α
  eref : α
  dref : α
  eb : List α
  dt : List α
  tt : List α
  svt : Nat → α              -- svt j, j < tt.length
  sv : Nat → Nat → α         -- sv i_e i_n

def render2x (t : Tab2x α) : List (K2x α) :=
  [.head t.zt t.svref t.spec, .hy, .dims t.eb.length t.dt.length t.tref, .hy]
  ++ (chunk 8 t.eb).map .vals ++ (chunk 8 t.dt).map .vals
  ++ [.hy]
  ++ (List.range t.dt.length).flatMap (fun j => (chunk 8 ((List.range t.eb.length).map fun i => t.sv i j)).map .vals)
  ++ [.hy, .tdims t.tt.length t.eref t.dref, .hy]
  ++ (chunk 8 t.tt).map .vals
  ++ [.hy]
  ++ (chunk 8 ((List.range t.tt.length).map t.svt)).map .vals

def expected2x (t : Tab2x α) : Out2x α :=
  { e := t.eb, n := t.dt, t := t.tt, sen := tabulate t.eb.length t.dt.length t.sv,
    st := (List.range t.tt.length).map t.svt, eref := t.eref, nref := t.dref, tref := t.tref, sref := t.svref }

end adf2x

/-! ## ADF12 -/
section adf12
variable {ℓ α : Type}

structure Lex12 (ℓ α : Type) where
  field : ℓ → Nat → Option α     -- float(line[1+10k : 10(k+1)].replace('D','E'))
  ifield : ℓ → Nat → Option Nat  -- int(  same slice )
  count : ℓ → Option Nat         -- int(line[3:5])
  trans : ℓ → Option (Nat × Nat) -- (int(line[38:40]), int(line[41:43]))

structure Rate12 (α : Type) where
  eb : List α          -- as written
  ti : List α          -- as written
  ni : List α          -- PerCm3ToPerM3
  z : List α           -- as written
  b : List α           -- as written
  qeb : List α         -- Cm3ToM3
  qti : List α         -- Cm3ToM3
  qni : List α         -- Cm3ToM3
  qz : List α          -- Cm3ToM3
  qb : List α          -- Cm3ToM3
  ebref : α
  tiref : α
  niref : α            -- PerCm3ToPerM3
  zref : α
  bref : α
  qref : α             -- Cm3ToM3
  deriving BEq, Repr, DecidableEq

/-- adf12.py `_parse_block` -/
def parseBlock12 (lex : Lex12 ℓ α) (lines : List ℓ) : Except Err (((Nat × Nat) × Rate12 α) × List ℓ) := do
  let (h, r) ← needLine lines
  let tr ← opt .value (lex.trans h)
  let (q, r) ← readvalues lex.field 1 6 r
  let qefref ← opt .index q[0]?
  let (refs, r) ← readvalues lex.field 5 6 r
  let (cnt, r) ← readvalues lex.ifield 5 6 r
  match refs, cnt with
  | [ebref, tiref, niref, zeref, bref], [nbeam, nti, ndi, nze, nb] =>
    let (ener, r) ← readvalues lex.field 24 6 r
    let (qener, r) ← readvalues lex.field 24 6 r
    let (tiev, r) ← readvalues lex.field 12 6 r
    let (qtiev, r) ← readvalues lex.field 12 6 r
    let (densi, r) ← readvalues lex.field 24 6 r
    let (qdensi, r) ← readvalues lex.field 24 6 r
    let (zeff, r) ← readvalues lex.field 12 6 r
    let (qzeff, r) ← readvalues lex.field 12 6 r
    let (bmag, r) ← readvalues lex.field 12 6 r
    let (qbmag, r) ← readvalues lex.field 12 6 r
    return ((tr, { eb := ener.take nbeam, ti := tiev.take nti, ni := densi.take ndi, z := zeff.take nze, b := bmag.take nb,
                   qeb := qener.take nbeam, qti := qtiev.take nti, qni := qdensi.take ndi, qz := qzeff.take nze,
                   qb := qbmag.take nb,
                   ebref := ebref, tiref := tiref, niref := niref, zref := zeref, bref := bref, qref := qefref }), r)
  | _, _ => .error .value

def parseBlocks12 (lex : Lex12 ℓ α) : Nat → List ℓ → List ((Nat × Nat) × Rate12 α) → Except Err (List ((Nat × Nat) × Rate12 α))
  | 0, _, d => .ok d
  | k + 1, ls, d =>
    match parseBlock12 lex ls with
    | .error e => .error e
    | .ok ((tr, rate), ls') => parseBlocks12 lex k ls' (dictSet d tr rate)

/-- adf12.py `parse_adf12`: transition → rate (the donor / receiver / metastable keys are the caller's arguments) -/
def parse12 (lex : Lex12 ℓ α) (lines : List ℓ) : Except Err (List ((Nat × Nat) × Rate12 α)) := do
  let (l0, r) ← needLine lines
  let n ← opt .value (lex.count l0)
  parseBlocks12 lex n r []

inductive K12 (α : Type)
  | count (n : Nat)
  | hdr (up lo : Nat)
  | vals (xs : List α)
  | ints (xs : List Nat)
  deriving BEq, Repr

def lexK12 : Lex12 (K12 α) α where
  field := fun l k => match l with | .vals xs => xs[k]? | _ => none
  ifield := fun l k => match l with | .ints xs => xs[k]? | _ => none
  count := fun l => match l with | .count n => some n | _ => none
  trans := fun l => match l with | .hdr a b => some (a, b) | _ => none

/-- one ADF12 block: the stored sections are padded to their fixed lengths with `pad` -/
structure Blk12 (α : Type) where
  up : Nat
  lo : Nat
  qefref : α
  refs : List α             -- ebref, tiref, niref, zeref, bref
  ener : List α             -- ≤ 24
  qener : Nat → α
  tiev : List α             -- ≤ 12
  qtiev : Nat → α
  densi : List α            -- ≤ 24
  qdensi : Nat → α
  zeff : List α             -- ≤ 12
  qzeff : Nat → α
  bmag : List α             -- ≤ 12
  qbmag : Nat → α

def padTo {α : Type} (n : Nat) (pad : α) (xs : List α) : List α := xs ++ List.replicate (n - xs.length) pad

def section12 (n : Nat) (pad : α) (xs : List α) : List (K12 α) := (chunk 6 (padTo n pad xs)).map .vals

def renderBlk12 (pad : α) (b : Blk12 α) : List (K12 α) :=
  [.hdr b.up b.lo, .vals [b.qefref], .vals b.refs,
   .ints [b.ener.length, b.tiev.length, b.densi.length, b.zeff.length, b.bmag.length]]
  ++ section12 24 pad b.ener ++ section12 24 pad ((List.range b.ener.length).map b.qener)
  ++ section12 12 pad b.tiev ++ section12 12 pad ((List.range b.tiev.length).map b.qtiev)
  ++ section12 24 pad b.densi ++ section12 24 pad ((List.range b.densi.length).map b.qdensi)
  ++ section12 12 pad b.zeff ++ section12 12 pad ((List.range b.zeff.length).map b.qzeff)
  ++ section12 12 pad b.bmag ++ section12 12 pad ((List.range b.bmag.length).map b.qbmag)

def render12 (pad : α) (blocks : List (Blk12 α)) : List (K12 α) :=
  .count blocks.length :: blocks.flatMap (renderBlk12 pad)

def expectedBlk12 (b : Blk12 α) : (Nat × Nat) × Rate12 α :=
  ((b.up, b.lo),
   { eb := b.ener, ti := b.tiev, ni := b.densi, z := b.zeff, b := b.bmag,
     qeb := (List.range b.ener.length).map b.qener, qti := (List.range b.tiev.length).map b.qtiev,
     qni := (List.range b.densi.length).map b.qdensi, qz := (List.range b.zeff.length).map b.qzeff,
     qb := (List.range b.bmag.length).map b.qbmag,
     ebref := b.refs.getD 0 b.qefref, tiref := b.refs.getD 1 b.qefref, niref := b.refs.getD 2 b.qefref,
     zref := b.refs.getD 3 b.qefref, bref := b.refs.getD 4 b.qefref, qref := b.qefref })

end adf12

/-! ## ADF11 -/
section adf11
variable {ℓ α ν : Type}

/-- `re.split(r"\s{2,}", lines[0].strip())` and the conversions applied to its parts -/
structure Hdr11 (ν : Type) where
  z : Nat          -- int(tmp[0])
  nNe : Nat        -- int(tmp[1])
  nTe : Nat        -- int(tmp[2])
  zmin : Nat       -- int(tmp[3])
  zmax : Nat       -- int(tmp[4])
  name : ν         -- tmp[5].strip('/').lower()        (tmp[6] must exist)
  deriving BEq, Repr

structure Lex11 (ℓ α ν : Type) where
  header : ℓ → Option (Hdr11 ν)   -- none: IndexError / ValueError while decoding the first line
  digit0 : ℓ → Bool               -- re.match(r"\s*[0-9]+", l)
  dash : ℓ → Bool                 -- re.match(r"^\s*C{0}-{2,}", l)
  cdash : ℓ → Bool                -- re.match(r"^\s*C*-{2,}", l)
  c1dash : ℓ → Bool               -- re.match(r"^\s*C{1}-{2,}", l)
  c01dash : ℓ → Bool              -- re.match(r"^\s*C{0,1}-{2,}", l)
  conly : ℓ → Bool                -- re.match(r"^\s*C\n", l)
  z1 : ℓ → Option (Option Nat)    -- re.search(r"Z1\s*=*\s*[0-9]+\s*", l): none = no match; some none = int() raises
  toks : ℓ → Option (List α)      -- whitespace-separated numbers on the line (np.fromstring)

structure Block11 (α : Type) where
  ne : List α
  te : List α
  rates : List (List α)    -- rates[i_ne][i_te]
  deriving BEq, Repr, DecidableEq

def tokensOf (lex : Lex11 ℓ α ν) : List ℓ → Option (List α)
  | [] => some []
  | l :: t => match lex.toks l, tokensOf lex t with
    | some a, some b => some (a ++ b)
    | _, _ => none

/-- `np.fromstring(...).reshape((n_te, n_ne))` then `np.swapaxes(·, 0, 1)`: entry [i_ne][i_te] = flat[i_te*n_ne + i_ne] -/
def reshapeSwap (nTe nNe : Nat) (flat : List α) : Option (List (List α)) :=
  if flat.length = nTe * nNe then
    some ((List.range nNe).map fun i => (List.range nTe).filterMap fun j => flat[j * nNe + i]?)
  else none

/-- first loop of parse_adf11: the lines before the first `dash` line, and the suffix starting at it -/
def splitAtDash (lex : Lex11 ℓ α ν) : List ℓ → Option (List ℓ × List ℓ)
  | [] => none
  | l :: t => if lex.dash l then some ([], l :: t) else
      match splitAtDash lex t with
      | some (a, b) => some (l :: a, b)
      | none => none

/-- state of the second loop: lines since `blockrates_start` (none = no block open), `ion_charge`, `rates` -/
structure St11 (ℓ α : Type) where
  acc : Option (List ℓ)
  ion : Nat
  rates : List (Nat × Block11 α)

/-- second loop of parse_adf11 over the suffix `lines[startsearch:]` -/
def loop11 (lex : Lex11 ℓ α ν) (h : Hdr11 ν) (vec : Option (List α)) :
    List ℓ → St11 ℓ α → Except Err (List (Nat × Block11 α))
  | [], st => .ok st.rates
  | l :: rest, st =>
    if lex.cdash l then
      -- close the open block, if any
      let closed : Except Err (List (Nat × Block11 α) × Bool) :=
        match st.acc with
        | none => .ok (st.rates, false)
        | some ls =>
          match tokensOf lex ls with
          | none => .error .value
          | some flat =>
            match reshapeSwap h.nTe h.nNe flat with
            | none => .error .value                       -- reshape raises
            | some tab =>
              match vec with
              | none => .error .name                      -- `densities` was never assigned
              | some v =>
                let rates' := dictSet st.rates st.ion { ne := v.take h.nNe, te := v.drop h.nNe, rates := tab }
                if lex.c1dash l then .ok (rates', true)
                else if lex.c01dash l then
                  match rest with
                  | [] => .error .index                   -- lines[i + 1]
                  | nxt :: _ => .ok (rates', lex.conly nxt)
                else .ok (rates', false)
      match closed with
      | .error e => .error e
      | .ok (rates', true) => .ok rates'
      | .ok (rates', false) =>
        match lex.z1 l with
        | none => .error .attribute                       -- re.search(...) is None → .group()
        | some none => .error .value                      -- int() of the cleaned Z1 text
        | some (some z) => loop11 lex h vec rest { acc := some [], ion := z, rates := rates' }
    else
      loop11 lex h vec rest { st with acc := st.acc.map (· ++ [l]) }

/-- the two loops of parse_adf11 over `lines[startsearch:]`: density-then-temperature vector up to the first `dash`
line, then the block loop from that line -/
def body11 (lex : Lex11 ℓ α ν) (h : Hdr11 ν) (ls : List ℓ) : Except Err (List (Nat × Block11 α)) :=
  match splitAtDash lex ls with
  | some (pre, suf) =>
    match tokensOf lex pre with
    | none => .error .value
    | some v => loop11 lex h (some v) suf { acc := none, ion := 0, rates := [] }
  | none => loop11 lex h none ls { acc := none, ion := 0, rates := [] }

/-- parse_adf11 (the `Element` type check of the argument is the caller's) -/
def parse11 [BEq ν] (lex : Lex11 ℓ α ν) (elemZ : Nat) (elemName : ν) (lines : List ℓ) :
    Except Err (List (Nat × Block11 α)) := do
  let l0 ← opt .index lines[0]?
  let h ← opt .value (lex.header l0)
  if elemZ != h.z || !(elemName == h.name) then .error .value
  else
    let l3 ← opt .index lines[3]?
    let start := if lex.digit0 l3 then 2 else 4
    body11 lex h (lines.drop start)

/-- install.py `_notation_adf11_adas2cherab`: which ADF11 classes get the −1 charge offset -/
inductive Class11 | scd | acd | ccd | plt | prb | prc | pls deriving DecidableEq, Repr

def Class11.chargeCorrection : Class11 → Int
  | .scd => -1 | .plt => -1 | .pls => -1 | _ => 0

/-- the `filetype` string that the installer of the class passes to `_notation_adf11_adas2cherab` -/
def Class11.code : Class11 → String
  | .scd => "scd" | .acd => "acd" | .ccd => "ccd" | .plt => "plt" | .prb => "prb" | .prc => "prc" | .pls => "pls"

structure Rate11 (α : Type) where
  ne : List α           -- PerCm3ToPerM3.to(10 ** ·)
  te : List α           -- 10 ** ·
  rates : List (List α) -- Cm3ToM3.to(10 ** ·)
  deriving BEq, Repr

def convNe11 : Conv := .pow10PerCm3
def convTe11 : Conv := .pow10
def convRate11 : Conv := .pow10Cm3

/-- `_notation_adf11_adas2cherab`: charge → charge + correction; keys that collide after the shift overwrite -/
def notation11 (c : Class11) (rates : List (Nat × Block11 α)) : List (Int × Rate11 α) :=
  rates.foldl (fun d kb => dictSet d ((kb.1 : Int) + c.chargeCorrection) { ne := kb.2.ne, te := kb.2.te, rates := kb.2.rates }) []

/-- abstract lines of an ADF11 file -/
inductive K11 (α ν : Type)
  | hdr (h : Hdr11 ν)
  | dashes (nC : Nat) (z1 : Option Nat)     -- nC leading 'C's then dashes, with "/ Z1= n /" if given
  | nums (xs : List α)
  | cOnly                                   -- "C"
  | text                                    -- any other comment text
  deriving BEq, Repr

/-- canonical views of the abstract lines.  `neg x`: the token starts with a minus sign.
`Cherab.Gen.AdfLex.probeAcceptsMinus` is read off the regular expression of the resolved-file probe in the source. -/
def lexK11 (neg : α → Bool) : Lex11 (K11 α ν) α ν where
  header := fun l => match l with | .hdr h => some h | _ => none
  digit0 := fun l => match l with
    | .nums (x :: _) => !neg x || Cherab.Gen.AdfLex.probeAcceptsMinus
    | .hdr _ => true
    | _ => false
  dash := fun l => match l with | .dashes 0 _ => true | _ => false
  cdash := fun l => match l with | .dashes _ _ => true | _ => false
  c1dash := fun l => match l with | .dashes 1 _ => true | _ => false
  c01dash := fun l => match l with | .dashes 0 _ => true | .dashes 1 _ => true | _ => false
  conly := fun l => match l with | .cOnly => true | _ => false
  z1 := fun l => match l with | .dashes _ (some z) => some (some z) | _ => none
  toks := fun l => match l with | .nums xs => some xs | _ => none

structure Blk11 (α : Type) where
  z1 : Nat
  rate : Nat → Nat → α     -- rate i_ne i_te

structure Tab11 (α ν : Type) where
  z : Nat
  name : ν
  zmin : Nat
  zmax : Nat
  ne : List α
  te : List α
  resolved : Option (List α)   -- some m: resolved file, m = the metastable-count line
  blocks : List (Blk11 α)
  altEnd : Bool                -- false: data closed by "C-----"; true: closed by "-----" followed by "C"

def dataLines11 (nNe nTe : Nat) (b : Blk11 α) : List (K11 α ν) :=
  (List.range nTe).flatMap fun j => (chunk 8 ((List.range nNe).map fun i => b.rate i j)).map .nums

def renderBlk11 (nNe nTe : Nat) (b : Blk11 α) : List (K11 α ν) :=
  .dashes 0 (some b.z1) :: dataLines11 nNe nTe b

def endLines11 (altEnd : Bool) : List (K11 α ν) :=
  if altEnd then [.dashes 0 none, .cOnly, .text] else [.dashes 1 none, .cOnly, .text]

def render11 (t : Tab11 α ν) : List (K11 α ν) :=
  [.hdr { z := t.z, nNe := t.ne.length, nTe := t.te.length, zmin := t.zmin, zmax := t.zmax, name := t.name },
   .dashes 0 none]
  ++ (match t.resolved with | some m => [.nums m, .dashes 0 none] | none => [])
  ++ (chunk 8 t.ne).map .nums ++ (chunk 8 t.te).map .nums
  ++ t.blocks.flatMap (renderBlk11 t.ne.length t.te.length)
  ++ endLines11 t.altEnd

def expectedBlk11 (t : Tab11 α ν) (b : Blk11 α) : Nat × Block11 α :=
  (b.z1, { ne := t.ne, te := t.te, rates := tabulate t.ne.length t.te.length b.rate })

end adf11

/-! ## ADF15 -/
section adf15
variable {ℓ α ω σ : Type}

inductive RateType | excit | recom | chexc deriving DecidableEq, Repr, Inhabited

def RateType.cls : RateType → String
  | .excit => "excitation" | .recom => "recombination" | .chexc => "thermalcx"

/-- groups of `block_id_match`; an inner `none` means `int('')` -/
structure BlockId where
  numN : Option Nat
  numT : Option Nat
  isel : Option Nat
  deriving BEq, Repr

/-- groups of the three transition regular expressions; an inner `none` means the conversion raises -/
structure IdxMatch (ω : Type) where
  isel : Option Nat
  wl : Option ω
  up : Option Nat
  lo : Option Nat
  typ : Option RateType      -- none: not one of EXCIT / RECOM / CHEXC
  deriving BEq, Repr

/-- groups of `configuration_string_match` -/
structure CfgMatch (σ : Type) where
  id : Option Nat
  conf : σ                   -- groups()[1].rstrip().lower()
  spin : σ
  l : Option Nat
  j : σ
  deriving BEq, Repr

structure Lex15 (ℓ α ω σ : Type) where
  fileHeader : ℓ → Bool                -- re.match(r'^\s*(\d*) {4}/(.*)/?\s*$')
  wl : ℓ → Bool                        -- wavelength_match
  blockId : ℓ → Option BlockId         -- block_id_match
  split : ℓ → Option (List α)          -- [float(v) for v in line.split()]; none: a token is not a number
  idxHeader : ℓ → Bool                 -- pec_index_header_match
  cfgHeader : ℓ → Bool                 -- configuration_header_match
  idxH : ℓ → Option (IdxMatch ω)       -- pec_hydrogen_transition_match
  idxHL : ℓ → Option (IdxMatch ω)      -- pec_full_transition_match of _scrape_metadata_hydrogen_like
  idxF : ℓ → Option (IdxMatch ω)       -- pec_full_transition_match of _scrape_metadata_full  (`\.?`)
  cfg : ℓ → Option (CfgMatch σ)        -- configuration_string_match

/-- a level: principal quantum number (hydrogen dialects) or a described configuration (full dialect) -/
inductive Level (σ : Type)
  | n (k : Nat)
  | cfg (conf spin : σ) (l : Nat) (j : σ)      -- conf + " " + spin + _L_LOOKUP[l] + j
  deriving Repr, DecidableEq

abbrev Trans (σ : Type) := Level σ × Level σ

structure Rate15 (α : Type) where
  ne : List α            -- PerCm3ToPerM3
  te : List α            -- as written
  rate : List (List α)   -- rate[i_ne][i_te]   Cm3ToM3
  deriving BEq, Repr, DecidableEq

/-- one scraped index entry -/
structure Entry15 (ω σ : Type) where
  typ : RateType
  tr : Trans σ
  block : Nat
  wl : ω                 -- float(...) / 10

/-- adf15.py `_group_by_block` -/
def groupAux (wl : ℓ → Bool) : List ℓ → List ℓ → List (List ℓ)
  | [], buf => [buf]
  | l :: ls, buf =>
    if wl l then (if buf.isEmpty then groupAux wl ls [l] else buf :: groupAux wl ls [l])
    else groupAux wl ls (buf ++ [l])

/-- `while nn != n: components = block.pop(0).split(); …` -/
def readToks (split : ℓ → Option (List α)) (n : Nat) : List ℓ → Nat → List α → Except Err (List α × List ℓ)
  | [], nn, acc => if nn == n then .ok (acc, []) else .error .index
  | l :: ls, nn, acc =>
    if nn == n then .ok (acc, l :: ls) else
      match split l with
      | none => .error .value
      | some ts => readToks split n ls (nn + ts.length) (acc ++ ts)

/-- rates.reshape((num_n, num_t)) -/
def reshape (n m : Nat) (flat : List α) : List (List α) :=
  (List.range n).map fun i => (List.range m).filterMap fun j => flat[i * m + j]?

def readBlock15 (lex : Lex15 ℓ α ω σ) (id : BlockId) (body : List ℓ) : Except Err (Rate15 α) := do
  let numN ← opt .value id.numN
  let numT ← opt .value id.numT
  let (ne, b1) ← readToks lex.split numN body 0 []
  let (te, b2) ← readToks lex.split numT b1 0 []
  let (rs, _) ← readToks lex.split (numN * numT) b2 0 []
  return { ne := ne, te := te, rate := reshape numN numT rs }

/-- the `for block in _group_by_block(...)` loop of `_extract_rate` -/
def searchBlocks (lex : Lex15 ℓ α ω σ) (blockNum : Nat) : List (List ℓ) → Except Err (Rate15 α)
  | [] => .error .runtime                         -- 'Block number {} was not found'
  | [] :: _ => .error .index                      -- block[0] of an empty buffer
  | (h :: body) :: more =>
    match lex.blockId h with
    | none => searchBlocks lex blockNum more
    | some id =>
      match id.isel with
      | none => .error .value
      | some isel => if isel == blockNum then readBlock15 lex id body else searchBlocks lex blockNum more

def extractRate (lex : Lex15 ℓ α ω σ) (lines : List ℓ) (blockNum : Nat) : Except Err (Rate15 α) :=
  searchBlocks lex blockNum (groupAux lex.wl lines [])

/-- `while not re.match(header, lines[0]): lines.pop(0)` -/
def dropUntil (p : ℓ → Bool) : List ℓ → Except Err (List ℓ)
  | [] => .error .index
  | l :: t => if p l then .ok (l :: t) else dropUntil p t

/-- decode one matched index line (hydrogen dialects): levels are principal quantum numbers -/
def entryN (m : IdxMatch ω) : Except Err (Entry15 ω σ) := do
  let b ← opt .value m.isel
  let w ← opt .value m.wl
  let u ← opt .value m.up
  let l ← opt .value m.lo
  let t ← opt .value m.typ
  return { typ := t, tr := (.n u, .n l), block := b, wl := w }

def scrapeWith (view : ℓ → Option (IdxMatch ω)) : List ℓ → Except Err (List (Entry15 ω σ))
  | [] => .ok []
  | l :: t =>
    match view l with
    | none => scrapeWith view t
    | some m =>
      match entryN m with
      | .error e => .error e
      | .ok en => match scrapeWith view t with
        | .error e => .error e
        | .ok es => .ok (en :: es)

def scrapeHydrogen (lex : Lex15 ℓ α ω σ) (lines : List ℓ) : Except Err (List (Entry15 ω σ)) := do
  let idx ← dropUntil lex.idxHeader lines
  scrapeWith lex.idxH idx

def scrapeHydrogenLike (lex : Lex15 ℓ α ω σ) (lines : List ℓ) : Except Err (List (Entry15 ω σ)) := do
  let idx ← dropUntil lex.idxHeader lines
  scrapeWith lex.idxHL idx

/-- the configuration lines between the two headers (`configuration_lines`), and the rest -/
def takeUntil (p : ℓ → Bool) : List ℓ → Except Err (List ℓ × List ℓ)
  | [] => .error .index
  | l :: t => if p l then .ok ([], l :: t) else
      match takeUntil p t with
      | .error e => .error e
      | .ok (a, b) => .ok (l :: a, b)

def cfgDict (lex : Lex15 ℓ α ω σ) : List ℓ → List (Nat × Level σ) → Except Err (List (Nat × Level σ))
  | [], d => .ok d
  | l :: t, d =>
    match lex.cfg l with
    | none => cfgDict lex t d
    | some m =>
      match m.id with
      | none => .error .value
      | some i =>
        match m.l with
        | none => .error .value
        | some lq => if 13 < lq then .error .key             -- _L_LOOKUP[...]
                     else cfgDict lex t (dictSet d i (.cfg m.conf m.spin lq m.j))

def entryF (d : List (Nat × Level σ)) (m : IdxMatch ω) : Except Err (Entry15 ω σ) := do
  let b ← opt .value m.isel
  let w ← opt .value m.wl
  let u ← opt .value m.up
  let ul ← opt .key (dictGet d u)
  let l ← opt .value m.lo
  let ll ← opt .key (dictGet d l)
  let t ← opt .value m.typ
  return { typ := t, tr := (ul, ll), block := b, wl := w }

def scrapeFullIdx (view : ℓ → Option (IdxMatch ω)) (d : List (Nat × Level σ)) : List ℓ → Except Err (List (Entry15 ω σ))
  | [] => .ok []
  | l :: t =>
    match view l with
    | none => scrapeFullIdx view d t
    | some m =>
      match entryF d m with
      | .error e => .error e
      | .ok en => match scrapeFullIdx view d t with
        | .error e => .error e
        | .ok es => .ok (en :: es)

def scrapeFull (lex : Lex15 ℓ α ω σ) (lines : List ℓ) : Except Err (List (Entry15 ω σ)) := do
  let l1 ← dropUntil lex.cfgHeader lines
  let (cl, idx) ← takeUntil lex.idxHeader l1
  let d ← cfgDict lex cl []
  scrapeFullIdx lex.idxF d idx

/-- how parse_adf15 chooses the metadata dialect -/
inductive HeaderFormat | hydrogen | hydrogenLike deriving DecidableEq, Repr

structure Sel15 where
  headerFormat : Option HeaderFormat   -- the `header_format` argument when it is one of the two recognised strings
  isHydrogen : Bool                    -- element == hydrogen
  oneElectron : Bool                   -- element.atomic_number - charge == 1
  bnd : Bool                           -- 'bnd#' in adf_file_path

def scrape (lex : Lex15 ℓ α ω σ) (s : Sel15) (lines : List ℓ) : Except Err (List (Entry15 ω σ)) :=
  if s.headerFormat = some .hydrogen || s.isHydrogen then scrapeHydrogen lex lines
  else if s.headerFormat = some .hydrogenLike then scrapeHydrogenLike lex lines
  else if s.oneElectron then
    match scrapeHydrogenLike lex lines with
    | .error e => .error e
    | .ok [] => if s.bnd then scrapeHydrogen lex lines else .ok []
    | .ok es => .ok es
  else scrapeFull lex lines

structure Out15 (α ω σ : Type) where
  excitation : List (Trans σ × Rate15 α)
  recombination : List (Trans σ × Rate15 α)
  thermalcx : List (Trans σ × Rate15 α)
  wavelength : List (Trans σ × ω)           -- Angstrom / 10
  deriving DecidableEq

/-- config[cls][...][transition] = block_num in scraping order -/
def configOf [DecidableEq σ] (es : List (Entry15 ω σ)) (t : RateType) : List (Trans σ × Nat) :=
  dictOfList ((es.filter (·.typ == t)).map fun e => (e.tr, e.block))

def extractAll [DecidableEq σ] (lex : Lex15 ℓ α ω σ) (lines : List ℓ) : List (Trans σ × Nat) → Except Err (List (Trans σ × Rate15 α))
  | [] => .ok []
  | (tr, b) :: t =>
    match extractRate lex lines b with
    | .error e => .error e
    | .ok r => match extractAll lex lines t with
      | .error e => .error e
      | .ok rs => .ok ((tr, r) :: rs)

/-- parse_adf15 -/
def parse15 [DecidableEq σ] (lex : Lex15 ℓ α ω σ) (s : Sel15) (lines : List ℓ) : Except Err (Out15 α ω σ) := do
  let h ← opt .value lines.head?          -- readline() of an empty file gives '', which does not match
  if !lex.fileHeader h then .error .value
  else
    let es ← scrape lex s lines
    if es.isEmpty then .error .runtime     -- "Unable to parse ADF15 metadata."
    else
      let ex ← extractAll lex lines (configOf es .excit)
      let re ← extractAll lex lines (configOf es .recom)
      let cx ← extractAll lex lines (configOf es .chexc)
      return { excitation := ex, recombination := re, thermalcx := cx,
               wavelength := dictOfList (es.map fun e => (e.tr, e.wl)) }

/-- abstract lines of an ADF15 file -/
inductive K15 (α ω σ : Type)
  | fileHeader (n : Nat)
  | blockHdr (wl : ω) (numN numT : Nat) (typ : RateType) (isel : Nat)
  | data (xs : List α)
  | comment                                              -- "C", "C----", free comment text
  | cfgHeader
  | cfgLine (id : Nat) (conf spin : σ) (l : Nat) (j : σ)
  | idxHeader
  | idxH (isel : Nat) (wl : ω) (up lo : Nat) (typ : RateType)       -- "N= u - N= l"
  | idxC (dot : Bool) (isel : Nat) (wl : ω) (up lo : Nat) (typ : RateType)   -- "u(2S+1)L(J)- l(…)": hydrogen-like and full
  deriving BEq, Repr

def lexK15 : Lex15 (K15 α ω σ) α ω σ where
  fileHeader := fun l => match l with | .fileHeader _ => true | _ => false
  wl := fun l => match l with | .blockHdr .. => true | _ => false
  blockId := fun l => match l with
    | .blockHdr _ n t _ i => some { numN := some n, numT := some t, isel := some i }
    | _ => none
  split := fun l => match l with | .data xs => some xs | _ => none
  idxHeader := fun l => match l with | .idxHeader => true | _ => false
  cfgHeader := fun l => match l with | .cfgHeader => true | _ => false
  idxH := fun l => match l with
    | .idxH i w u lo t => some { isel := some i, wl := some w, up := some u, lo := some lo, typ := some t }
    | _ => none
  idxHL := fun l => match l with
    | .idxC true i w u lo t => some { isel := some i, wl := some w, up := some u, lo := some lo, typ := some t }
    | _ => none
  idxF := fun l => match l with
    | .idxC _ i w u lo t => some { isel := some i, wl := some w, up := some u, lo := some lo, typ := some t }
    | _ => none
  cfg := fun l => match l with
    | .cfgLine i c s lq j => some { id := some i, conf := c, spin := s, l := some lq, j := j }
    | _ => none

structure Blk15 (α ω : Type) where
  isel : Nat
  wl : ω                   -- wavelength printed in the block header (not used by the parser)
  typ : RateType           -- TYPE printed in the block header (not used by the parser)
  ne : List α
  te : List α
  rate : Nat → Nat → α     -- rate i_ne i_te

structure Idx15 (ω : Type) where
  isel : Nat
  wl : ω
  up : Nat
  lo : Nat
  typ : RateType

structure Cfg15 (σ : Type) where
  id : Nat
  conf : σ
  spin : σ
  l : Nat
  j : σ

inductive Dialect | hydrogen | hydrogenLike | full (dot : Bool) deriving DecidableEq, Repr

structure Tab15 (α ω σ : Type) where
  blocks : List (Blk15 α ω)
  cfgs : List (Cfg15 σ)         -- full dialect only
  idx : List (Idx15 ω)
  dialect : Dialect

def renderBlk15 (b : Blk15 α ω) : List (K15 α ω σ) :=
  .blockHdr b.wl b.ne.length b.te.length b.typ b.isel
  :: ((chunk 8 b.ne).map .data ++ (chunk 8 b.te).map .data
      ++ (List.range b.ne.length).flatMap fun i => (chunk 8 ((List.range b.te.length).map fun j => b.rate i j)).map .data)

def renderIdx15 (d : Dialect) (e : Idx15 ω) : K15 α ω σ :=
  match d with
  | .hydrogen => .idxH e.isel e.wl e.up e.lo e.typ
  | .hydrogenLike => .idxC true e.isel e.wl e.up e.lo e.typ
  | .full dot => .idxC dot e.isel e.wl e.up e.lo e.typ

def render15 (t : Tab15 α ω σ) : List (K15 α ω σ) :=
  .fileHeader t.blocks.length :: t.blocks.flatMap renderBlk15
  ++ [.comment, .comment]
  ++ (match t.dialect with
      | .full _ => [.cfgHeader, .comment] ++ t.cfgs.map (fun c => .cfgLine c.id c.conf c.spin c.l c.j) ++ [.comment]
      | _ => [])
  ++ [.idxHeader, .comment] ++ t.idx.map (renderIdx15 t.dialect) ++ [.comment, .comment]

def rateOfBlk15 (b : Blk15 α ω) : Rate15 α :=
  { ne := b.ne, te := b.te, rate := tabulate b.ne.length b.te.length b.rate }

end adf15

/-! ## which conversion each returned field carries (parsers: ADF12/15/21/22; installer notation step: ADF11) -/

def convs2x (k : Kind2x) : List (String × Conv) :=
  [("e", .id), ("n", .perCm3), ("t", .id), ("sen", k.norm), ("st", k.norm), ("eref", .id), ("nref", .perCm3), ("tref", .id),
   ("sref", k.norm)]

def convs12 : List (String × Conv) :=
  [("eb", .id), ("ti", .id), ("ni", .perCm3), ("z", .id), ("b", .id), ("qeb", .cm3), ("qti", .cm3), ("qni", .cm3), ("qz", .cm3),
   ("qb", .cm3), ("ebref", .id), ("tiref", .id), ("niref", .perCm3), ("zref", .id), ("bref", .id), ("qref", .cm3)]

/-- parse_adf11 returns the log10 values as written; `_notation_adf11_adas2cherab` converts -/
def convs11parsed : List (String × Conv) := [("ne", .id), ("te", .id), ("rates", .id)]
def convs11installed : List (String × Conv) := [("ne", convNe11), ("te", convTe11), ("rates", convRate11)]

def convs15 : List (String × Conv) := [("ne", .perCm3), ("te", .id), ("rate", .cm3), ("wl", .angstrom)]

/-! ## install.py `install_files`: the bulk entry point (configuration dict → installers) -/

/-- configuration key (compared after `.lower()`) → installer → keyword arguments handed on.  Transcribed from the chain
of `if adf.lower() == …` statements; pinned to the source by `dispatch_table_pinned`. -/
def installDispatch : List (String × String × String) := [
  ("adf11scd", "install_adf11scd", "download=download repository_path=repository_path adas_path=adas_path"),
  ("adf11acd", "install_adf11acd", "download=download repository_path=repository_path adas_path=adas_path"),
  ("adf11ccd", "install_adf11ccd", "download=download repository_path=repository_path adas_path=adas_path"),
  ("adf11plt", "install_adf11plt", "download=download repository_path=repository_path adas_path=adas_path"),
  ("adf11prb", "install_adf11prb", "download=download repository_path=repository_path adas_path=adas_path"),
  ("adf11prc", "install_adf11prc", "download=download repository_path=repository_path adas_path=adas_path"),
  ("adf12", "install_adf12", "download=download repository_path=repository_path adas_path=adas_path"),
  ("adf15", "install_adf15", "download=download repository_path=repository_path adas_path=adas_path"),
  ("adf21", "install_adf21", "download=download repository_path=repository_path adas_path=adas_path"),
  ("adf22bmp", "install_adf22bmp", "download=download repository_path=repository_path adas_path=adas_path"),
  ("adf22bme", "install_adf22bme", "download=download repository_path=repository_path adas_path=adas_path")
]

/-- installer → parser called, notation class given to `_notation_adf11_adas2cherab`, repository update calls -/
def installerTable : List (String × String × String × String) := [
  ("install_adf11scd", "parse_adf11", "scd", "update_ionisation_rates(repository_path)"),
  ("install_adf11acd", "parse_adf11", "acd", "update_recombination_rates(repository_path)"),
  ("install_adf11ccd", "parse_adf11", "ccd", "update_thermal_cx_rates(repository_path)"),
  ("install_adf11plt", "parse_adf11", "plt", "update_line_power_rates(repository_path)"),
  ("install_adf11prb", "parse_adf11", "prb", "update_continuum_power_rates(repository_path)"),
  ("install_adf11prc", "parse_adf11", "prc", "update_cx_power_rates(repository_path)"),
  ("install_adf12", "parse_adf12", "", "update_beam_cx_rates(repository_path)"),
  ("install_adf15", "parse_adf15", "", "update_pec_rates(repository_path) update_wavelengths(repository_path) update_pec_thermal_cx_rates(repository_path)"),
  ("install_adf21", "parse_adf21", "", "update_beam_stopping_rates(repository_path)"),
  ("install_adf22bmp", "parse_adf22bmp", "", "update_beam_population_rates(repository_path)"),
  ("install_adf22bme", "parse_adf22bme", "", "update_beam_emission_rates(repository_path)")
]

/-- the installers that `install_files` runs for one configuration key, in order (the `if`s are not exclusive) -/
def installFilesTargets (key : String) : List String :=
  (installDispatch.filter fun e => e.1 == String.ofList (key.toList.map Char.toLower)).map (·.2.1)

/-- what an installer writes: its repository update calls -/
def installerWrites (name : String) : Option String :=
  (installerTable.find? fun e => e.1 == name).map (·.2.2.2)

/-! ## install.py `_locate_adas_file`: which copy of a file an installer parses -/

/-- where the file that gets parsed comes from -/
inductive Place
  | adas       -- os.path.join(adas_path, file_path)
  | cache      -- os.path.join(repository_path, "_download_cache", file_path)
  | network    -- urllib.request.urlretrieve into the cache
  deriving DecidableEq, Repr

def Place.code : Place → String
  | .adas => "adas" | .cache => "cache" | .network => "network"

/-- `_locate_adas_file` transcribed: `adasGiven` = a non-empty `adas_path` was passed, `inAdas` / `inCache` =
`os.path.isfile` of the two candidates.  `none` = returns None (the installers then raise ValueError). -/
def locateAdasFile (download adasGiven inAdas inCache : Bool) : Option Place :=
  let path : Option Place := if adasGiven && inAdas then some .adas else none
  match path with
  | some p => some p
  | none => if download then (if inCache then some .cache else some .network) else none

/-- the same as a candidate list, first available wins: the local ADAS tree, then (only with `download`) the cache, then
the network, which is always "available" -/
def locateCandidates (download adasGiven : Bool) : List Place :=
  (if adasGiven then [Place.adas] else []) ++ (if download then [Place.cache, Place.network] else [])

def placeAvailable (inAdas inCache : Bool) : Place → Bool
  | .adas => inAdas
  | .cache => inCache
  | .network => true

end Cherab.Adf
