import Cherab.Props.C06TableRoot
open Cherab.Props.C06Table
#print axioms all_paths_under_root
