#!/usr/bin/env python3
"""regenerates the table between the SEEDED-TABLE markers of DESIGN.md from seeded/*/meta.json"""
import json, os, glob
D = os.path.dirname(os.path.dirname(os.path.abspath(__file__)))
rows = ['| id | property | change (needs … to manifest) | check result | how it is caught |', '|---|---|---|---|---|']
for f in sorted(glob.glob(os.path.join(D, 'seeded', '*', 'meta.json'))):
    m = json.load(open(f))
    c = m.get('check', {})
    sig = '; '.join(s.split(' ')[0] for s in c.get('signatures', [])[:2])
    rows.append('| %s | %s | %s (%s) | exit %s, %s VIOLATION line(s) | %s%s |' % (
        m['id'], m['property'], (m.get('summary') or '').replace('|', '/')[:160], (m.get('needs_to_manifest') or '').replace('|', '/')[:140],
        c.get('exit'), c.get('violation_lines'), c.get('verdict'), ((' — ' + sig) if sig else '') + ((' — *' + m['history'] + '*') if m.get('history') else '')))
p = os.path.join(D, 'DESIGN.md')
s = open(p).read()
a, b = '<!-- SEEDED-TABLE-BEGIN -->', '<!-- SEEDED-TABLE-END -->'
if a in s and b in s:
    s = s[:s.index(a) + len(a)] + '\n' + '\n'.join(rows) + '\n' + s[s.index(b):]
    open(p, 'w').write(s)
print('\n'.join(rows))
