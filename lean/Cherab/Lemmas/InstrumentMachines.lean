import Cherab.Model.InstrumentMachines

/-! Helpers for `Props/C16Machines.lean`: the invariants of the `Spectrometer` / `Polychromator` value-level machines
("every stored derived value is the function of the current parameters") and their preservation. -/
namespace Cherab.Lemmas.InstrumentMachines
set_option linter.unusedSectionVars false
open Cherab.Instruments

variable {α : Type} [Add α] [Sub α] [Mul α] [Div α] [Neg α] [Zero α] [One α] [OfScientific α] [NatCast α]
  [LT α] [LE α] [DecidableLT α] [DecidableLE α]

/-! ## Spectrometer -/

theorem spStep_setW2p_acc (ceil : α → Int) (s : SpState α) (v : List (List α)) (hv : w2pAccepted v = true) :
    spStep ceil s (.setW2p v)
      = ({ s with p := { s.p with w2p := v }, wavelengths := v.map centres, settings := none }, .done) := by
  simp [spStep, spSetW2p, hv]

theorem spStep_setW2p_rej (ceil : α → Int) (s : SpState α) (v : List (List α)) (hv : ¬ w2pAccepted v = true) :
    spStep ceil s (.setW2p v) = (s, .valueError) := by
  simp [spStep, spSetW2p, hv]

theorem spStep_setMbpp_acc (ceil : α → Int) (s : SpState α) (v : Int) (hv : ¬ v ≤ 0) :
    spStep ceil s (.setMbpp v) = ({ s with p := { s.p with mbpp := v.toNat }, settings := none }, .done) := by
  simp [spStep, spSetMbpp, hv]

theorem spStep_setMbpp_rej (ceil : α → Int) (s : SpState α) (v : Int) (hv : v ≤ 0) :
    spStep ceil s (.setMbpp v) = (s, .valueError) := by
  simp [spStep, spSetMbpp, hv]

def SpInv (ceil : α → Int) (s : SpState α) : Prop :=
  s.wavelengths = s.p.w2p.map centres ∧
  (∀ st, s.settings = some st → spectralSettings ceil s.p.w2p s.p.mbpp = some st) ∧
  (∀ n, s.classes = some n → n = 1) ∧
  (∀ k, s.kwargs = some k → k = specPipelineNames' s.p.name)

theorem spInv_fresh (ceil : α → Int) (p : SpParams α) : SpInv ceil (spFresh p) := by
  refine ⟨rfl, ?_, ?_, ?_⟩ <;> intro _ h <;> simp [spFresh] at h

theorem spInv_fill (ceil : α → Int) (s : SpState α) (h : SpInv ceil s) :
    SpInv ceil (spFill ceil s).1 ∧ (spFill ceil s).1.p = s.p ∧
    (spFill ceil s).2 = spectralSettings ceil s.p.w2p s.p.mbpp := by
  unfold spFill
  cases hs : s.settings with
  | some st => exact ⟨h, rfl, (h.2.1 st hs).symm⟩
  | none =>
    cases hq : spectralSettings ceil s.p.w2p s.p.mbpp with
    | some st =>
      refine ⟨⟨h.1, ?_, h.2.2.1, h.2.2.2⟩, rfl, rfl⟩
      intro st' hst'
      have : st = st' := by simpa using hst'
      subst this; exact hq
    | none => exact ⟨h, rfl, rfl⟩

theorem spInv_step (ceil : α → Int) (s : SpState α) (o : SpOp α) (h : SpInv ceil s) : SpInv ceil (spStep ceil s o).1 := by
  cases o with
  | setW2p v =>
    by_cases hv : w2pAccepted v = true
    · rw [spStep_setW2p_acc ceil s v hv]
      refine ⟨rfl, ?_, h.2.2.1, h.2.2.2⟩
      intro _ h'; simp at h'
    · rw [spStep_setW2p_rej ceil s v hv]; exact h
  | setMbpp v =>
    by_cases hv : v ≤ 0
    · rw [spStep_setMbpp_rej ceil s v hv]; exact h
    · rw [spStep_setMbpp_acc ceil s v hv]
      refine ⟨h.1, ?_, h.2.2.1, h.2.2.2⟩
      intro _ h'; simp at h'
  | setName v =>
    simp only [spStep, spSetName]
    refine ⟨h.1, h.2.1, h.2.2.1, ?_⟩
    intro _ h'; simp at h'
  | getMin => simp only [spStep]; have := (spInv_fill ceil s h).1; split <;> simp_all
  | getMax => simp only [spStep]; have := (spInv_fill ceil s h).1; split <;> simp_all
  | getBins => simp only [spStep]; have := (spInv_fill ceil s h).1; split <;> simp_all
  | getW2p => exact h
  | getWavelengths => exact h
  | getMbpp => exact h
  | getName => exact h
  | getClasses =>
    simp only [spStep]; split
    · exact h
    · refine ⟨h.1, h.2.1, ?_, h.2.2.2⟩
      intro n hn; simp only [Option.some.injEq] at hn; exact hn.symm
  | getKwargs =>
    simp only [spStep]; split
    · exact h
    · refine ⟨h.1, h.2.1, h.2.2.1, ?_⟩
      intro k hk; simp only [Option.some.injEq] at hk; exact hk.symm
  | calibrate I a b =>
    simp only [spStep]; have := (spInv_fill ceil s h).1
    split
    · split <;> simp_all
    · simp_all

theorem spInv_run (ceil : α → Int) (ops : List (SpOp α)) (s : SpState α) (h : SpInv ceil s) :
    SpInv ceil (spRun ceil s ops) := by
  induction ops generalizing s with
  | nil => exact h
  | cons o os ih => exact ih _ (spInv_step ceil s o h)

/-- a getter / `calibrate` does not change the parameters -/
theorem spStep_p_of_not_setter (ceil : α → Int) (s : SpState α) (o : SpOp α) (ho : o.isSetter = false) :
    (spStep ceil s o).1.p = s.p := by
  have hf : (spFill ceil s).1.p = s.p := by
    unfold spFill; split
    · rfl
    · split <;> rfl
  cases o with
  | setW2p v => simp [SpOp.isSetter] at ho
  | setMbpp v => simp [SpOp.isSetter] at ho
  | setName v => simp [SpOp.isSetter] at ho
  | getMin => simp only [spStep]; split <;> simp_all
  | getMax => simp only [spStep]; split <;> simp_all
  | getBins => simp only [spStep]; split <;> simp_all
  | getW2p => rfl
  | getWavelengths => rfl
  | getMbpp => rfl
  | getName => rfl
  | getClasses => simp only [spStep]; split <;> rfl
  | getKwargs => simp only [spStep]; split <;> rfl
  | calibrate I a b =>
    simp only [spStep]
    split
    · split <;> simp_all
    · simp_all

/-- what a setter does to the parameters depends on the parameters only -/
theorem spStep_p_congr (ceil : α → Int) (s t : SpState α) (o : SpOp α) (ho : o.isSetter = true) (h : s.p = t.p) :
    (spStep ceil s o).1.p = (spStep ceil t o).1.p := by
  cases o with
  | setW2p v =>
    by_cases hv : w2pAccepted v = true
    · rw [spStep_setW2p_acc ceil s v hv, spStep_setW2p_acc ceil t v hv]; simp [h]
    · rw [spStep_setW2p_rej ceil s v hv, spStep_setW2p_rej ceil t v hv]; exact h
  | setMbpp v =>
    by_cases hv : v ≤ 0
    · rw [spStep_setMbpp_rej ceil s v hv, spStep_setMbpp_rej ceil t v hv]; exact h
    · rw [spStep_setMbpp_acc ceil s v hv, spStep_setMbpp_acc ceil t v hv]; simp [h]
  | setName v => simp [spStep, spSetName, h]
  | _ => simp [SpOp.isSetter] at ho

theorem spRun_p_filter (ceil : α → Int) (ops : List (SpOp α)) (s t : SpState α) (h : s.p = t.p) :
    (spRun ceil s ops).p = (spRun ceil t (ops.filter SpOp.isSetter)).p := by
  induction ops generalizing s t with
  | nil => exact h
  | cons o os ih =>
    cases ho : o.isSetter with
    | true =>
      simp only [List.filter_cons, ho, if_true]
      exact ih _ _ (spStep_p_congr ceil s t o ho h)
    | false =>
      simp only [List.filter_cons, ho]
      exact ih _ _ ((spStep_p_of_not_setter ceil s o ho).trans h)

/-- the stored arrays are always ones the setter accepted -/
theorem spStep_accepted (ceil : α → Int) (s : SpState α) (o : SpOp α) (h : w2pAccepted s.p.w2p = true) :
    w2pAccepted (spStep ceil s o).1.p.w2p = true := by
  cases ho : o.isSetter with
  | false => rw [spStep_p_of_not_setter ceil s o ho]; exact h
  | true =>
    cases o with
    | setW2p v =>
      by_cases hv : w2pAccepted v = true
      · rw [spStep_setW2p_acc ceil s v hv]; exact hv
      · rw [spStep_setW2p_rej ceil s v hv]; exact h
    | setMbpp v =>
      by_cases hv : v ≤ 0
      · rw [spStep_setMbpp_rej ceil s v hv]; exact h
      · rw [spStep_setMbpp_acc ceil s v hv]; exact h
    | setName v => exact h
    | _ => simp [SpOp.isSetter] at ho

theorem spRun_accepted (ceil : α → Int) (ops : List (SpOp α)) (s : SpState α) (h : w2pAccepted s.p.w2p = true) :
    w2pAccepted (spRun ceil s ops).p.w2p = true := by
  induction ops generalizing s with
  | nil => exact h
  | cons o os ih => exact ih _ (spStep_accepted ceil s o h)

/-! ## Polychromator -/

theorem polyStep_setFilters_acc (x : PolyExt α) (s : PolyState α) (v : List (Option (String × PFilter α)))
    (hv : v.all Option.isSome = true) :
    polyStep x s (.setFilters v)
      = ({ s with p := { s.p with filters := v.filterMap id }, settings := none, classes := none, kwargs := none }, .done) := by
  simp only [polyStep, polySetFilters, hv, if_true]

theorem polyStep_setFilters_rej (x : PolyExt α) (s : PolyState α) (v : List (Option (String × PFilter α)))
    (hv : ¬ v.all Option.isSome = true) :
    polyStep x s (.setFilters v) = (s, .typeError) := by
  simp [polyStep, polySetFilters, hv]

theorem polyStep_setMbpw_acc (x : PolyExt α) (s : PolyState α) (v : Int) (hv : ¬ v ≤ 0) :
    polyStep x s (.setMbpw v) = ({ s with p := { s.p with mbpw := v.toNat }, settings := none }, .done) := by
  simp [polyStep, polySetMbpw, hv]

theorem polyStep_setMbpw_rej (x : PolyExt α) (s : PolyState α) (v : Int) (hv : v ≤ 0) :
    polyStep x s (.setMbpw v) = (s, .valueError) := by
  simp [polyStep, polySetMbpw, hv]

def PolyInv (x : PolyExt α) (s : PolyState α) : Prop :=
  (∀ st, s.settings = some st → st = polySettings x.ceil x.inf (s.p.filters.map (·.2)) s.p.mbpw) ∧
  (∀ n, s.classes = some n → n = s.p.filters.length) ∧
  (∀ k, s.kwargs = some k → k = polyKwargs s.p)

theorem polyInv_fresh (x : PolyExt α) (p : PolyParams α) : PolyInv x (polyFresh p) := by
  refine ⟨?_, ?_, ?_⟩ <;> intro _ h <;> simp [polyFresh] at h

theorem polyFill_spec (x : PolyExt α) (s : PolyState α) (h : PolyInv x s) :
    PolyInv x (polyFill x s).1 ∧ (polyFill x s).1.p = s.p ∧
    (polyFill x s).2 = polySettings x.ceil x.inf (s.p.filters.map (·.2)) s.p.mbpw := by
  unfold polyFill
  cases hs : s.settings with
  | some st => exact ⟨h, rfl, h.1 st hs⟩
  | none =>
    refine ⟨⟨?_, h.2.1, h.2.2⟩, rfl, rfl⟩
    intro st hst; simp only [Option.some.injEq] at hst; exact hst.symm

theorem polyFillClasses_spec (x : PolyExt α) (s : PolyState α) (h : PolyInv x s) :
    PolyInv x (polyFillClasses s).1 ∧ (polyFillClasses s).1.p = s.p ∧ (polyFillClasses s).2 = s.p.filters.length := by
  unfold polyFillClasses
  cases hs : s.classes with
  | some n => exact ⟨h, rfl, h.2.1 n hs⟩
  | none =>
    refine ⟨⟨h.1, ?_, h.2.2⟩, rfl, rfl⟩
    intro n hn; simp only [Option.some.injEq] at hn; exact hn.symm

theorem polyFillKwargs_spec (x : PolyExt α) (s : PolyState α) (h : PolyInv x s) :
    PolyInv x (polyFillKwargs s).1 ∧ (polyFillKwargs s).1.p = s.p ∧ (polyFillKwargs s).2 = polyKwargs s.p := by
  unfold polyFillKwargs
  cases hs : s.kwargs with
  | some k => exact ⟨h, rfl, h.2.2 k hs⟩
  | none =>
    refine ⟨⟨h.1, h.2.1, ?_⟩, rfl, rfl⟩
    intro k hk; simp only [Option.some.injEq] at hk; exact hk.symm

theorem polyInv_step (x : PolyExt α) (s : PolyState α) (o : PolyOp α) (h : PolyInv x s) :
    PolyInv x (polyStep x s o).1 := by
  cases o with
  | setFilters v =>
    by_cases hv : v.all Option.isSome = true
    · rw [polyStep_setFilters_acc x s v hv]
      refine ⟨?_, ?_, ?_⟩ <;> intro _ h' <;> simp at h'
    · rw [polyStep_setFilters_rej x s v hv]; exact h
  | setMbpw v =>
    by_cases hv : v ≤ 0
    · rw [polyStep_setMbpw_rej x s v hv]; exact h
    · rw [polyStep_setMbpw_acc x s v hv]
      refine ⟨?_, h.2.1, h.2.2⟩
      intro _ h'; simp at h'
  | setName v =>
    simp only [polyStep, polySetName]
    refine ⟨h.1, h.2.1, ?_⟩
    intro _ h'; simp at h'
  | getMin => exact (polyFill_spec x s h).1
  | getMax => exact (polyFill_spec x s h).1
  | getBins => exact (polyFill_spec x s h).1
  | getFilters => exact h
  | getMbpw => exact h
  | getName => exact h
  | getClasses => exact (polyFillClasses_spec x s h).1
  | getKwargs => exact (polyFillKwargs_spec x s h).1
  | createPipelines => exact (polyFillKwargs_spec x _ (polyFillClasses_spec x s h).1).1

theorem polyInv_run (x : PolyExt α) (ops : List (PolyOp α)) (s : PolyState α) (h : PolyInv x s) :
    PolyInv x (polyRun x s ops) := by
  induction ops generalizing s with
  | nil => exact h
  | cons o os ih => exact ih _ (polyInv_step x s o h)

theorem polyStep_p_of_not_setter (x : PolyExt α) (s : PolyState α) (o : PolyOp α) (ho : o.isSetter = false) :
    (polyStep x s o).1.p = s.p := by
  have hf : (polyFill x s).1.p = s.p := by unfold polyFill; split <;> rfl
  have hc : ∀ s : PolyState α, (polyFillClasses s).1.p = s.p := by intro s; unfold polyFillClasses; split <;> rfl
  have hk : ∀ s : PolyState α, (polyFillKwargs s).1.p = s.p := by intro s; unfold polyFillKwargs; split <;> rfl
  cases o with
  | setFilters v => simp [PolyOp.isSetter] at ho
  | setMbpw v => simp [PolyOp.isSetter] at ho
  | setName v => simp [PolyOp.isSetter] at ho
  | getMin => exact hf
  | getMax => exact hf
  | getBins => exact hf
  | getFilters => rfl
  | getMbpw => rfl
  | getName => rfl
  | getClasses => exact hc s
  | getKwargs => exact hk s
  | createPipelines => exact (hk _).trans (hc s)

theorem polyStep_p_congr (x : PolyExt α) (s t : PolyState α) (o : PolyOp α) (ho : o.isSetter = true) (h : s.p = t.p) :
    (polyStep x s o).1.p = (polyStep x t o).1.p := by
  cases o with
  | setFilters v =>
    by_cases hv : v.all Option.isSome = true
    · rw [polyStep_setFilters_acc x s v hv, polyStep_setFilters_acc x t v hv]; simp [h]
    · rw [polyStep_setFilters_rej x s v hv, polyStep_setFilters_rej x t v hv]; exact h
  | setMbpw v =>
    by_cases hv : v ≤ 0
    · rw [polyStep_setMbpw_rej x s v hv, polyStep_setMbpw_rej x t v hv]; exact h
    · rw [polyStep_setMbpw_acc x s v hv, polyStep_setMbpw_acc x t v hv]; simp [h]
  | setName v => simp [polyStep, polySetName, h]
  | _ => simp [PolyOp.isSetter] at ho

theorem polyRun_p_filter (x : PolyExt α) (ops : List (PolyOp α)) (s t : PolyState α) (h : s.p = t.p) :
    (polyRun x s ops).p = (polyRun x t (ops.filter PolyOp.isSetter)).p := by
  induction ops generalizing s t with
  | nil => exact h
  | cons o os ih =>
    cases ho : o.isSetter with
    | true =>
      simp only [List.filter_cons, ho, if_true]
      exact ih _ _ (polyStep_p_congr x s t o ho h)
    | false =>
      simp only [List.filter_cons, ho]
      exact ih _ _ ((polyStep_p_of_not_setter x s o ho).trans h)

end Cherab.Lemmas.InstrumentMachines
