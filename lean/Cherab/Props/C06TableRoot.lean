import Cherab.Model.Repository
import Cherab.Gen.RepoPaths

namespace Cherab.Props.C06Table
open Cherab.Repository Cherab.Gen.RepoPaths

/-- **`all_paths_under_root`**: every `install_*` hands `repository_path` to every `repository.update_*` it calls, and
so does every other caller of a function that takes `repository_path` (install_files, populate, add_* → update_*, …) -/
theorem all_paths_under_root : tables.rootPassed = true := by decide

end Cherab.Props.C06Table
