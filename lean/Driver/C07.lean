import Cherab.Drv.Proto
import Cherab.Model.Rates
import Cherab.Gen.OpenAdasPolicy
import Cherab.Model.Conversion
import Cherab.Gen.Conversion
open Cherab.Drv Cherab.Rates

/-!
C07 driver.  The model functions of `Cherab/Model/Rates.lean` at `Float`.

External functions supplied here:
* `logc` (NumPy's vectorised `log10` in the constructors): the harness sends, for every axis knot, the value NumPy
  computed; other values (table entries) fall back to libm's `log10`;
* `loge` (libm `log10` in `evaluate`): the harness sends libm's value for every evaluation argument;
* `pow10 x = pow(10, x)`;
* the interpolants: *multilinear* interpolation through the knots, 'nearest' = clamp, 'linear'/'quadratic' = linear
  continuation of the end cells, 'none' = raise outside the knot range.  They satisfy the contract `ExtSpec` of
  `Props/C07.lean` (through the knots; raise outside iff 'none'); values between knots are not compared with raysect's
  cubic by the harness.
-/

abbrev Assoc := List (Float × Float)

def lookupOr (t : Assoc) (f : Float → Float) (x : Float) : Float :=
  match t.find? (fun p => p.1 == x) with
  | some p => p.2
  | none => f x

def lerp (a b t : Float) : Float := if t == 0.0 then a else if t == 1.0 then b else a + (b - a) * t

/-- cell index and local coordinate of `p` on the axis `xs` (size ≥ 2); `none` = raise -/
def coord (k : Extrap) (xs : Array Float) (p : Float) : Option (Nat × Float) :=
  let n := xs.size
  if n < 2 then none else
  let lo := xs[0]!
  let hi := xs[n - 1]!
  if p < lo then
    match k with
    | Extrap.none => none
    | Extrap.nearest => some (0, 0.0)
    | _ => some (0, (p - lo) / (xs[1]! - lo))
  else if p > hi then
    match k with
    | Extrap.none => none
    | Extrap.nearest => some (n - 2, 1.0)
    | _ => some (n - 2, (p - xs[n - 2]!) / (hi - xs[n - 2]!))
  else
    -- last i ≤ n-2 with xs[i] ≤ p
    let i := (List.range (n - 1)).foldl (fun acc j => if xs[j]! ≤ p then j else acc) 0
    some (i, (p - xs[i]!) / (xs[i + 1]! - xs[i]!))

def at1 (f : List Float) (i : Nat) : Float := f.getD i 0.0
def at2 (f : List (List Float)) (i j : Nat) : Float := (f.getD i []).getD j 0.0
def at3 (f : List (List (List Float))) (i j l : Nat) : Float := ((f.getD i []).getD j []).getD l 0.0

def fi1 (k : Extrap) (xs fs : List Float) (p : Float) : Option Float :=
  match coord k xs.toArray p with
  | none => none
  | some (i, t) => some (lerp (at1 fs i) (at1 fs (i + 1)) t)

def fi2 (k : Extrap) (xs ys : List Float) (f : List (List Float)) (p q : Float) : Option Float :=
  match coord k xs.toArray p, coord k ys.toArray q with
  | some (i, t), some (j, u) =>
    some (lerp (lerp (at2 f i j) (at2 f i (j + 1)) u) (lerp (at2 f (i + 1) j) (at2 f (i + 1) (j + 1)) u) t)
  | _, _ => none

def fi3 (k : Extrap) (xs ys zs : List Float) (f : List (List (List Float))) (p q r : Float) : Option Float :=
  match coord k xs.toArray p, coord k ys.toArray q, coord k zs.toArray r with
  | some (i, t), some (j, u), some (l, w) =>
    let g := fun (a b : Nat) => lerp (at3 f a b l) (at3 f a b (l + 1)) w
    some (lerp (lerp (g i j) (g i (j + 1)) u) (lerp (g (i + 1) j) (g (i + 1) (j + 1)) u) t)
  | _, _, _ => none

def mkExt (knots evals : Assoc) : Ext Float :=
  { logc := lookupOr knots Float.log10
    loge := lookupOr evals Float.log10
    pow10 := fun x => Float.pow 10.0 x
    i1 := fi1, i2 := fi2, i3 := fi3 }

def showOut : Out Float → String
  | Out.val v => "v:" ++ fF v
  | Out.valueError => "VE"
  | Out.ctorError => "CT"

/-- token stream reader -/
structure Rd where
  ts : List String

def Rd.f (r : Rd) : Float × Rd := match r.ts with
  | t :: rest => (pF t, ⟨rest⟩)
  | [] => (0.0, r)
def Rd.n (r : Rd) : Nat × Rd := match r.ts with
  | t :: rest => (pN t, ⟨rest⟩)
  | [] => (0, r)
def Rd.s (r : Rd) : String × Rd := match r.ts with
  | t :: rest => (t, ⟨rest⟩)
  | [] => ("", r)
def Rd.fs (r : Rd) (k : Nat) : List Float × Rd := ((r.ts.take k).map pF, ⟨r.ts.drop k⟩)
def Rd.ss (r : Rd) (k : Nat) : List String × Rd := (r.ts.take k, ⟨r.ts.drop k⟩)

def chunks (k : Nat) : Nat → List Float → List (List Float)
  | 0, _ => []
  | n + 1, l => l.take k :: chunks k n (l.drop k)

/-- an axis: `n`, then the `n` knots, then NumPy's log10 of each -/
def Rd.axis (r : Rd) : List Float × Assoc × Rd :=
  let (n, r) := r.n
  let (xs, r) := r.fs n
  let (ls, r) := r.fs n
  (xs, xs.zip ls, r)

def modelOf (cls : String) : Option RateClassModel := modelled.find? (·.name == cls)

def extrapAt (m : RateClassModel) (i : Nat) : Extrap :=
  match m.extrap[i]? with
  | some p => extrapOfString p.2
  | none => Extrap.none

/-- evaluation points: `K` then `K` groups of `arity` (argument, libm log10 of it) pairs -/
def Rd.points (r : Rd) (arity : Nat) : List (List Float) × Assoc × Rd :=
  let (k, r) := r.n
  let (raw, r) := r.fs (2 * arity * k)
  let groups := chunks (2 * arity) k raw
  let pts := groups.map fun g => (List.range arity).map fun i => g.getD (2 * i) 0.0
  let ev := groups.flatMap fun g => (List.range arity).map fun i => (g.getD (2 * i) 0.0, g.getD (2 * i + 1) 0.0)
  (pts, ev, r)

/-- does the generated class table say that BeamCXPEC.evaluate guards temperature and density as well? -/
def guardTD : Bool :=
  match Cherab.Gen.OpenAdasPolicy.rateClasses.find? (·.name == "BeamCXPEC") with
  | some c => c.guarded.contains "temperature" && c.guarded.contains "density"
  | none => false

def wlOpt (photon : Bool) (wl : Float) : Option Float := if photon then some wl else none

def runRate (ts : List String) : String :=
  let r : Rd := ⟨ts⟩
  let (cls, r) := r.s
  match modelOf cls with
  | none => "unknown-class"
  | some m =>
    let (ex, r) := r.n
    let ex := ex == 1
    let (wl, r) := r.f
    let (cf, r) := r.f
    match m.shape with
    | Shape.grid2 =>
      let (ne, k1, r) := r.axis
      let (te, k2, r) := r.axis
      let (rate, r) := r.fs (ne.length * te.length)
      let (pts, ev, _) := r.points 2
      let E := mkExt (k1 ++ k2) ev
      let t : Table2 Float := ⟨ne, te, chunks te.length ne.length rate⟩
      " ".intercalate (pts.map fun p =>
        showOut (grid2 E cf (wlOpt m.photon wl) (extrapAt m 0) ex t (p.getD 0 0.0) (p.getD 1 0.0)))
    | Shape.grid3 =>
      let (ne, k1, r) := r.axis
      let (te, k2, r) := r.axis
      let (td, k3, r) := r.axis
      let (rate, r) := r.fs (ne.length * te.length * td.length)
      let (pts, ev, _) := r.points 3
      let E := mkExt (k1 ++ k2 ++ k3) ev
      let planes := chunks (te.length * td.length) ne.length rate
      let t : Table3 Float := ⟨ne, te, td, planes.map fun pl => chunks td.length te.length pl⟩
      " ".intercalate (pts.map fun p =>
        showOut (grid3 E cf wl ex t (p.getD 0 0.0) (p.getD 1 0.0) (p.getD 2 0.0)))
    | Shape.beam =>
      let (e, k1, r) := r.axis
      let (n, k2, r) := r.axis
      let (t, k3, r) := r.axis
      let (sen, r) := r.fs (e.length * n.length)
      let (st, r) := r.fs t.length
      let (sref, r) := r.f
      let (pts, ev, _) := r.points 3
      let E := mkExt (k1 ++ k2 ++ k3) ev
      let b : BeamTable Float := ⟨e, n, t, chunks n.length e.length sen, st, sref⟩
      " ".intercalate (pts.map fun p =>
        showOut (beam E cf (wlOpt m.photon wl) ex b (p.getD 0 0.0) (p.getD 1 0.0) (p.getD 2 0.0)))
    | Shape.beamCX =>
      let (eb, k1, r) := r.axis
      let (ti, _, r) := r.axis
      let (ni, _, r) := r.axis
      let (z, _, r) := r.axis
      let (b, _, r) := r.axis
      let (qeb, r) := r.fs eb.length
      let (qti, r) := r.fs ti.length
      let (qni, r) := r.fs ni.length
      let (qz, r) := r.fs z.length
      let (qb, r) := r.fs b.length
      let (qref, r) := r.f
      let (pts, ev, _) := r.points 5
      let E := mkExt k1 ev
      let c : CXTable Float := ⟨eb, ti, ni, z, b, qeb, qti, qni, qz, qb, qref⟩
      " ".intercalate (pts.map fun p =>
        showOut (beamCXGuarded guardTD E cf wl ex c (p.getD 0 0.0) (p.getD 1 0.0) (p.getD 2 0.0) (p.getD 3 0.0) (p.getD 4 0.0)))

/-- `pol <accessor> <null> <fallback> <nsp> {param sym elemSym iso}* <nstored> {<len> sym*}* <nwl> sym*` -/
def runPolicy (ts : List String) : String :=
  let r : Rd := ⟨ts⟩
  let (name, r) := r.s
  match Cherab.Gen.OpenAdasPolicy.accessors.find? (·.name == name) with
  | none => "unknown-accessor"
  | some a =>
    let (nl, r) := r.n
    let (fb, r) := r.n
    let (nsp, r) := r.n
    let (sp, r) := (List.range nsp).foldl (fun (acc : List Policy.Sp × Rd) _ =>
      let (q, r) := acc.2.ss 4
      (acc.1 ++ [⟨q.getD 0 "", q.getD 1 "", q.getD 2 "", q.getD 3 "" == "1"⟩], r)) ([], r)
    let (nst, r) := r.n
    let (stored, r) := (List.range nst).foldl (fun (acc : List (List String) × Rd) _ =>
      let (len, r) := acc.2.n
      let (key, r) := r.ss len
      (acc.1 ++ [key], r)) ([], r)
    let (nwl, r) := r.n
    let (wls, _) := r.ss nwl
    let c : Policy.Call := ⟨sp, stored, wls, nl == 1, fb == 1⟩
    match Policy.run Cherab.Gen.OpenAdasPolicy.nullSigs Cherab.Gen.OpenAdasPolicy.wavelengthPolicy a c with
    | Policy.Result.raises e => "raises:" ++ e
    | Policy.Result.null l => "null:" ++ fB l
    | Policy.Result.rate key wl l => "rate:" ++ ",".intercalate key ++ ":" ++ wl.getD "-" ++ ":" ++ fB l
    | Policy.Result.unknown => "unknown"

/-- `wl <fallback> <param> <sym> <elemSym> <iso> <nwl> sym*` : `OpenADAS.wavelength` itself -/
def runWavelength (ts : List String) : String :=
  let r : Rd := ⟨ts⟩
  let (fb, r) := r.n
  let (q, r) := r.ss 4
  let (nwl, r) := r.n
  let (wls, _) := r.ss nwl
  let sp : Policy.Sp := ⟨q.getD 0 "", q.getD 1 "", q.getD 2 "", q.getD 3 "" == "1"⟩
  let c : Policy.Call := ⟨[sp], [], wls, false, fb == 1⟩
  match Policy.wavelengthLookup Cherab.Gen.OpenAdasPolicy.wavelengthPolicy c (Src.raw sp.param) with
  | none => "unknown"
  | some none => "raises:RuntimeError"
  | some (some sym) => "ok:" ++ sym

/-- what the generated table says deviates from the uniform policy / the complete guard (tie between T and S) -/
def deviants : String :=
  let pol := (Cherab.Gen.OpenAdasPolicy.accessors.filter fun a =>
    !Policy.Uniform Cherab.Gen.OpenAdasPolicy.nullSigs a).map (·.name)
  let grd := (Cherab.Gen.OpenAdasPolicy.rateClasses.filter fun c =>
    !c.isNull && !(c.evalParams.all fun p => !isDTE p || c.guarded.contains p)).map (·.name)
  let clm := (Cherab.Gen.OpenAdasPolicy.rateClasses.filter fun c =>
    !c.chainOk || !(c.chain.all fun t => t.2.2)).map (·.name)
  "policy:" ++ ",".intercalate pol ++ " guards:" ++ ",".intercalate grd ++ " clamps:" ++ ",".intercalate clm

def pOptF (s : String) : Option Float := if s == "VE" then none else some (pF s)

/-- `cxf <energy> <temperature> <density> <log-rate of _eb | VE> <factor | VE>*` : BeamCXPEC.evaluate on raysect's own
interpolator values; guard and clamp flags come from the generated class table -/
def runChain (ts : List String) : String :=
  match ts with
  | en :: t :: d :: l :: fs =>
    let clamps := match Cherab.Gen.OpenAdasPolicy.rateClasses.find? (·.name == "BeamCXPEC") with
      | some c => c.chain.map (·.2.2)
      | none => []
    let en := pF en
    if (guardTD && (en ≤ 0 || pF t ≤ 0 || pF d ≤ 0)) || en ≤ 0 then showOut (Out.val (0.0 : Float))
    else match pOptF l with
      | none => "VE"
      | some l => showOut (cxChainF (Float.pow 10.0 l) ((fs.map pOptF).zip (clamps ++ List.replicate fs.length true)))
  | _ => "bad-op"

/-- constants environment `name value name value …` -/
def constsOf : List String → String → Float
  | n :: v :: rest, k => if n == k then pF v else constsOf rest k
  | _, _ => 0.0

/-- the hand-written function for `<class>.<to|inv>` (none = not a class of the model) -/
def handConv (cls : String) (inverse : Bool) (cf x wl : Float) : Option Float :=
  if cls == "EvAmuToMS" then some (if inverse then Cherab.Conv.evAmuInv cf x else Cherab.Conv.evAmuTo Float.sqrt cf x)
  else if cls == "PhotonToJ" then some (if inverse then Cherab.Conv.photonInv cf x wl else Cherab.Conv.photonTo cf x wl)
  else if (Cherab.Conv.modelled.any fun c => c.name == cls) then
    some (if inverse then Cherab.Conv.factorInv cf x else Cherab.Conv.factorTo cf x)
  else none

/-- `cv <class> <to|inv> <x> <wavelength> <cf>` : the GENERATED return expression (method resolution along the base
chain) and the hand-written function, both at Float with IEEE `sqrt` -/
def runConv (ts : List String) : String :=
  match ts with
  | [cls, dir, x, wl, cf] =>
    let inverse := dir == "inv"
    let g := Cherab.Conv.evalMethod Cherab.Gen.Conversion.conversions cls inverse Float.sqrt (fun _ => 0.0) (pF cf) (pF x) (pF wl)
    let h := handConv cls inverse (pF cf) (pF x) (pF wl)
    (match g with | some v => fF v | none => "none") ++ " " ++ (match h with | some v => fF v | none => "none")
  | _ => "bad-op"

/-- `cvf <class> {name value}*` : the generated `conversion_factor` expression in the given scipy.constants environment,
then the hand-written factor -/
def runConvFactor (ts : List String) : String :=
  match ts with
  | cls :: env =>
    let c := constsOf env
    let g := Cherab.Conv.evalFactor Cherab.Gen.Conversion.conversions cls c
    let h : Option Float :=
      if cls == "EvAmuToMS" then some (Cherab.Conv.evAmuFactor (c "elementary_charge") (c "atomic_mass"))
      else if cls == "PhotonToJ" then some (Cherab.Conv.hc9 (c "Planck") (c "speed_of_light"))
      else Cherab.Conv.evalFactor Cherab.Conv.modelled cls c
    (match g with | some v => fF v | none => "none") ++ " " ++ (match h with | some v => fF v | none => "none")
  | _ => "bad-op"

/-- `cvt` : class names of the generated table, then those with a statement the translator does not read -/
def convTable : String :=
  ",".intercalate (Cherab.Gen.Conversion.conversions.map (·.name)) ++ " not-understood:" ++
    ",".intercalate Cherab.Gen.Conversion.notUnderstood

def step (ts : List String) : String :=
  match ts with
  | "cv" :: rest => runConv rest
  | "cvf" :: rest => runConvFactor rest
  | ["cvt"] => convTable
  | ["deviants"] => deviants
  | "cxf" :: rest => runChain rest
  | "rate" :: rest => runRate rest
  | "wl" :: rest => runWavelength rest
  | "pol" :: rest => runPolicy rest
  | ["null"] => showOut (nullRate : Out Float)
  | ["conv", x, w, cf] => fF (photonToJ (pF cf) (pF x) (pF w))
  | _ => "bad-op"

def main : IO UInt32 := do
  loop (stateless step) (← IO.getStdin) (← IO.getStdout) ()
  return 0
