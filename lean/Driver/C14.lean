import Cherab.Drv.Proto
import Cherab.Model.Caching
import Std.Data.HashMap
open Cherab.Drv Cherab.Caching

/-!
C14 driver.  Interactive line protocol (one reply per line):

  fn <fid> <x..> <v|R>                     record f(x..) = v (R: f raises there) in table <fid>; may be overwritten -> ok
  new1 <id> <fid> mn mx dx nbe hasb lo hi       construct Caching1D model                        -> ok <top> <dom nodes> <xn nodes> | ValueError
  new2 <id> <fid> mnx mxx mny mxy dx dy nbe hasb lo hi                                           -> ok <topx> <topy> <domx> <domy> <xnx> <xny> | ValueError
  new3 <id> <fid> (6 bounds) dx dy dz nbe hasb lo hi                                             -> ok <topx> <topy> <topz> ... | ValueError
  ev <id> <p..>           evaluate; if a new cell must be solved: -> solve <n> <A row-major> <b>   (then send `sol`)
                          else                                   -> val <bits> <ncalls> <coords..> | raise 0 | missing ...
  sol <c0..c(n-1)>        solution of the pending system          -> val <bits> <ncalls> <coords..>
  sol fail                numpy.linalg.solve raised LinAlgError   -> error <ncalls> <coords..>
  dump <id>               cache state                             -> <ndata> (<idx..> <bits>)* <ncoeff> (<cell idx..>)*
  fi <top> <padding> <v> <x0..xtop>        find_index                                              -> <int>
  pure <id> <p..>         history-free `evalPure` of the object's Spec/Env at p (state not read, not changed); if the
                          point is located and every stencil node returns: -> solve <n> <A> <b> (then send `sol`)
                          else / after `sol`                               -> val <bits> 0 | raise 0 | error 0 | fraise 0
-/

abbrev Tbl := Std.HashMap (Nat × List UInt64) (Option Float)   -- `none`: the wrapped function raised there

def truncF (x : Float) : Nat := x.floor.toUInt64.toNat
def powF (x : Float) (n : Nat) : Float := Float.pow x n.toFloat
def nanF : Float := 0.0 / 0.0

inductive Obj where
  | d1 (fid : Nat) (ax : Axis Float) (nm : Norm Float) (nbe : Bool) (st : St Float Nat Nat (Nat → Float))
  | d2 (fid : Nat) (ax ay : Axis Float) (nm : Norm Float) (nbe : Bool)
      (st : St Float (Nat × Nat) (Nat × Nat) (Nat → Float))
  | d3 (fid : Nat) (ax ay az : Axis Float) (nm : Norm Float) (nbe : Bool)
      (st : St Float (Nat × Nat × Nat) (Nat × Nat × Nat) (Nat → Float))

structure DS where
  tbl : Tbl := {}
  objs : Std.HashMap Nat Obj := {}
  pending : Option (Nat × List Float × List (List Float) × List Float) := none   -- id, point, A, b
  missing : Bool := false
  pendingPure : Bool := false     -- the pending system belongs to a `pure` request

def bitsOf (l : List Float) : List UInt64 := l.map Float.toBits

/-- the recorded function; a coordinate that was never recorded yields NaN and is reported -/
def fnOf (tbl : Tbl) (fid : Nat) (coords : List Float) : Option Float :=
  match tbl.get? (fid, bitsOf coords) with
  | some v => v
  | none => some nanF

def known (tbl : Tbl) (fid : Nat) (coords : List Float) : Bool := (tbl.get? (fid, bitsOf coords)).isSome

def env1 (tbl : Tbl) (fid : Nat) (nm : Norm Float) : Env Float Float :=
  { f := fun x => fnOf tbl fid [x], isnan := Float.isNaN, nan := nanF, norm := nm.apply }
def env2 (tbl : Tbl) (fid : Nat) (nm : Norm Float) : Env Float (Float × Float) :=
  { f := fun p => fnOf tbl fid [p.1, p.2], isnan := Float.isNaN, nan := nanF, norm := nm.apply }
def env3 (tbl : Tbl) (fid : Nat) (nm : Norm Float) : Env Float (Float × Float × Float) :=
  { f := fun p => fnOf tbl fid [p.1, p.2.1, p.2.2], isnan := Float.isNaN, nan := nanF, norm := nm.apply }

def extWith (sol : List (List Float) → List Float → Option (Nat → Float)) : Ext Float := { solve := sol, powi := powF }
def zeroSol : List (List Float) → List Float → Option (Nat → Float) := fun _ _ => some (fun _ => 0.0)
def failSol : List (List Float) → List Float → Option (Nat → Float) := fun _ _ => none

/-- a tabulated coefficient vector (captures the evaluated array; avoids re-evaluating closures) -/
@[noinline] def tabOf (arr : Array Float) : Nat → Float := fun k => arr.getD k nanF

/-- `solve` answering with the vector supplied by the harness (numpy.linalg.solve of the system the driver printed) -/
def givenSol (c : List Float) : List (List Float) → List Float → Option (Nat → Float) :=
  let arr := c.toArray
  fun _ _ => some (tabOf arr)

/-- replace the most recently stored coefficient closure by its table (extensionally equal, evaluated once) -/
def tabHead {κ : Type} (n : Nat) : List (κ × (Nat → Float)) → List (κ × (Nat → Float))
  | [] => []
  | (c, co) :: t => let arr := ((List.range n).map co).toArray; (c, tabOf arr) :: t

def fmtOut (o : Out Float) (calls : List (List Float)) (tbl : Tbl) (fid : Nat) : String :=
  let miss := calls.filter (fun c => !known tbl fid c)
  if !miss.isEmpty then "missing " ++ fFs (miss.headD []) else
  let cs := " ".intercalate (calls.map fFs)
  match o with
  | .val v => s!"val {fF v} {calls.length} {cs}".trimAscii.toString
  | .raise => s!"raise {calls.length} {cs}".trimAscii.toString
  | .error => s!"error {calls.length} {cs}".trimAscii.toString
  | .fraise => s!"fraise {calls.length} {cs}".trimAscii.toString

def axisLine (ax : Axis Float) : String :=
  let idx := List.range (ax.top + 1)
  fFs (idx.map ax.dom) ++ " " ++ fFs (idx.map ax.xn)

def parseNorm (hasb lo hi : String) : Norm Float := mkNorm (if pB hasb then some (pF lo, pF hi) else none)

/-- run one evaluation of object `o` at `pt` with the given `solve`; returns (object', out, calls, system if a new cell
was calculated) -/
def evalObj (tbl : Tbl) (sol : List (List Float) → List Float → Option (Nat → Float)) (o : Obj) (pt : List Float) :
    Obj × Out Float × List (List Float) × Option (List (List Float) × List Float) :=
  match o with
  | .d1 fid ax nm nbe st =>
    let E := env1 tbl fid nm
    let S := spec1 (extWith sol) ax nm
    let p := pt.getD 0 nanF
    let r := evalStep S E nbe st p
    let sys := if r.1.coeffs.length == st.coeffs.length then none else
      match cellOf ax p with
      | some c =>
        let vals := (stencil1 c).map (readNode E r.1.data)
        some (system1 ax c (fun k => vals.getD k 0))
      | none => none
    (.d1 fid ax nm nbe (if sys.isSome then { r.1 with coeffs := tabHead 4 r.1.coeffs } else r.1), r.2.1, r.2.2.map (fun x => [x]), sys)
  | .d2 fid ax ay nm nbe st =>
    let E := env2 tbl fid nm
    let S := spec2 (extWith sol) ax ay nm
    let p := (pt.getD 0 nanF, pt.getD 1 nanF)
    let r := evalStep S E nbe st p
    let sys := if r.1.coeffs.length == st.coeffs.length then none else
      match cellOf2 ax ay p with
      | some c =>
        let vals := (stencil2 c).map (readNode E r.1.data)
        some (system2 ax ay c (fun a b => vals.getD (4 * a + b) 0))
      | none => none
    (.d2 fid ax ay nm nbe (if sys.isSome then { r.1 with coeffs := tabHead 16 r.1.coeffs } else r.1), r.2.1, r.2.2.map (fun x => [x.1, x.2]), sys)
  | .d3 fid ax ay az nm nbe st =>
    let E := env3 tbl fid nm
    let S := spec3 (extWith sol) ax ay az nm
    let p := (pt.getD 0 nanF, pt.getD 1 nanF, pt.getD 2 nanF)
    let r := evalStep S E nbe st p
    let sys := if r.1.coeffs.length == st.coeffs.length then none else
      match cellOf3 ax ay az p with
      | some c =>
        let vals := (stencil3 c).map (readNode E r.1.data)
        some (system3 ax ay az c (fun a b cc => vals.getD (16 * a + 4 * b + cc) 0))
      | none => none
    (.d3 fid ax ay az nm nbe (if sys.isSome then { r.1 with coeffs := tabHead 64 r.1.coeffs } else r.1), r.2.1, r.2.2.map (fun x => [x.1, x.2.1, x.2.2]), sys)

/-- `evalPure` of object `o` at `pt` with the given `solve` (the state of `o` is ignored); also the coordinates the
specification reads (stencil nodes, or the point itself on pass-through) and the cell's system when it is built -/
def pureObj (tbl : Tbl) (sol : List (List Float) → List Float → Option (Nat → Float)) (o : Obj) (pt : List Float) :
    Out Float × List (List Float) × Option (List (List Float) × List Float) :=
  match o with
  | .d1 fid ax nm nbe _ =>
    let E := env1 tbl fid nm
    let S := spec1 (extWith sol) ax nm
    let p := pt.getD 0 nanF
    match S.locate p with
    | none => (evalPure S E nbe p, if nbe then [[p]] else [], none)
    | some c =>
      let nodes := (S.stencil c).map (fun u => [ax.dom u])
      let sys := if (S.stencil c).all (fun u => (E.f (S.coord u)).isSome) then
          let vals := (S.stencil c).map (nodeVal S E)
          some (system1 ax c (fun k => vals.getD k 0))
        else none
      (evalPure S E nbe p, nodes, sys)
  | .d2 fid ax ay nm nbe _ =>
    let E := env2 tbl fid nm
    let S := spec2 (extWith sol) ax ay nm
    let p := (pt.getD 0 nanF, pt.getD 1 nanF)
    match S.locate p with
    | none => (evalPure S E nbe p, if nbe then [[p.1, p.2]] else [], none)
    | some c =>
      let nodes := (S.stencil c).map (fun u => [ax.dom u.1, ay.dom u.2])
      let sys := if (S.stencil c).all (fun u => (E.f (S.coord u)).isSome) then
          let vals := (S.stencil c).map (nodeVal S E)
          some (system2 ax ay c (fun a b => vals.getD (4 * a + b) 0))
        else none
      (evalPure S E nbe p, nodes, sys)
  | .d3 fid ax ay az nm nbe _ =>
    let E := env3 tbl fid nm
    let S := spec3 (extWith sol) ax ay az nm
    let p := (pt.getD 0 nanF, pt.getD 1 nanF, pt.getD 2 nanF)
    match S.locate p with
    | none => (evalPure S E nbe p, if nbe then [[p.1, p.2.1, p.2.2]] else [], none)
    | some c =>
      let nodes := (S.stencil c).map (fun u => [ax.dom u.1, ay.dom u.2.1, az.dom u.2.2])
      let sys := if (S.stencil c).all (fun u => (E.f (S.coord u)).isSome) then
          let vals := (S.stencil c).map (nodeVal S E)
          some (system3 ax ay az c (fun a b cc => vals.getD (16 * a + 4 * b + cc) 0))
        else none
      (evalPure S E nbe p, nodes, sys)

def fidOf : Obj → Nat
  | .d1 fid .. => fid
  | .d2 fid .. => fid
  | .d3 fid .. => fid

def dumpObj : Obj → String
  | .d1 _ _ _ _ st =>
    s!"{st.data.length} " ++ " ".intercalate (st.data.map fun (u, v) => s!"{u} {fF v}") ++
    s!" {st.coeffs.length} " ++ " ".intercalate (st.coeffs.map fun (c, _) => s!"{c}")
  | .d2 _ _ _ _ _ st =>
    s!"{st.data.length} " ++ " ".intercalate (st.data.map fun (u, v) => s!"{u.1} {u.2} {fF v}") ++
    s!" {st.coeffs.length} " ++ " ".intercalate (st.coeffs.map fun (c, _) => s!"{c.1} {c.2}")
  | .d3 _ _ _ _ _ _ st =>
    s!"{st.data.length} " ++ " ".intercalate (st.data.map fun (u, v) => s!"{u.1} {u.2.1} {u.2.2} {fF v}") ++
    s!" {st.coeffs.length} " ++ " ".intercalate (st.coeffs.map fun (c, _) => s!"{c.1} {c.2.1} {c.2.2}")

def step (s : DS) (ts : List String) : DS × String :=
  match ts with
  | "fn" :: fid :: rest =>
    let coords := rest.dropLast.map pF
    let v : Option Float := if rest.getLastD "" == "R" then none else some (pF (rest.getLastD "0"))
    ({ s with tbl := s.tbl.insert (pN fid, bitsOf coords) v }, "ok")
  | ["new1", id, fid, mn, mx, dx, nbe, hasb, lo, hi] =>
    if !axisOk (pF mn) (pF mx) (pF dx) then (s, "ValueError") else
    let ax := mkAxis truncF (pF mn) (pF mx) (pF dx)
    let o := Obj.d1 (pN fid) ax (parseNorm hasb lo hi) (pB nbe) St.init
    ({ s with objs := s.objs.insert (pN id) o }, s!"ok {ax.top} {axisLine ax}")
  | ["new2", id, fid, mnx, mxx, mny, mxy, dx, dy, nbe, hasb, lo, hi] =>
    -- the constructor checks both ranges first, then both resolutions; every failure is a ValueError
    if !(axisOk (pF mnx) (pF mxx) (pF dx) && axisOk (pF mny) (pF mxy) (pF dy)) then (s, "ValueError") else
    let ax := mkAxis truncF (pF mnx) (pF mxx) (pF dx)
    let ay := mkAxis truncF (pF mny) (pF mxy) (pF dy)
    let o := Obj.d2 (pN fid) ax ay (parseNorm hasb lo hi) (pB nbe) St.init
    ({ s with objs := s.objs.insert (pN id) o }, s!"ok {ax.top} {ay.top} {axisLine ax} {axisLine ay}")
  | ["new3", id, fid, mnx, mxx, mny, mxy, mnz, mxz, dx, dy, dz, nbe, hasb, lo, hi] =>
    if !(axisOk (pF mnx) (pF mxx) (pF dx) && axisOk (pF mny) (pF mxy) (pF dy) && axisOk (pF mnz) (pF mxz) (pF dz)) then
      (s, "ValueError") else
    let ax := mkAxis truncF (pF mnx) (pF mxx) (pF dx)
    let ay := mkAxis truncF (pF mny) (pF mxy) (pF dy)
    let az := mkAxis truncF (pF mnz) (pF mxz) (pF dz)
    let o := Obj.d3 (pN fid) ax ay az (parseNorm hasb lo hi) (pB nbe) St.init
    ({ s with objs := s.objs.insert (pN id) o },
     s!"ok {ax.top} {ay.top} {az.top} {axisLine ax} {axisLine ay} {axisLine az}")
  | "ev" :: id :: pt =>
    match s.objs.get? (pN id) with
    | none => (s, "bad-id")
    | some o =>
      let p := pt.map pF
      let (o', out, calls, sys) := evalObj s.tbl zeroSol o p
      match sys with
      | some (A, b) =>
        -- a new cell: ask for numpy.linalg.solve(A, b); state is committed by `sol`
        let miss := calls.filter (fun c => !known s.tbl (fidOf o) c)
        if !miss.isEmpty then (s, "missing " ++ fFs (miss.headD [])) else
        ({ s with pending := some (pN id, p, A, b), pendingPure := false }, s!"solve {b.length} {fFs A.flatten} {fFs b}")
      | none => ({ s with objs := s.objs.insert (pN id) o' }, fmtOut out calls s.tbl (fidOf o))
  | "pure" :: id :: pt =>
    match s.objs.get? (pN id) with
    | none => (s, "bad-id")
    | some o =>
      let p := pt.map pF
      let (out, nodes, sys) := pureObj s.tbl zeroSol o p
      let miss := nodes.filter (fun c => !known s.tbl (fidOf o) c)
      if !miss.isEmpty then (s, "missing " ++ fFs (miss.headD [])) else
      match sys with
      | some (A, b) =>
        ({ s with pending := some (pN id, p, A, b), pendingPure := true }, s!"solve {b.length} {fFs A.flatten} {fFs b}")
      | none => (s, fmtOut out [] s.tbl (fidOf o))
  | "sol" :: cs =>
    match s.pending with
    | none => (s, "no-pending")
    | some (id, p, _, _) =>
      match s.objs.get? id with
      | none => (s, "bad-id")
      | some o =>
        if s.pendingPure then
          let (out, _, _) := pureObj s.tbl (if cs == ["fail"] then failSol else givenSol (cs.map pF)) o p
          ({ s with pending := none, pendingPure := false }, fmtOut out [] s.tbl (fidOf o))
        else
        let (o', out, calls, _) := evalObj s.tbl (if cs == ["fail"] then failSol else givenSol (cs.map pF)) o p
        ({ s with objs := s.objs.insert id o', pending := none }, fmtOut out calls s.tbl (fidOf o))
  | ["dump", id] =>
    match s.objs.get? (pN id) with
    | none => (s, "bad-id")
    | some o => (s, (dumpObj o).trimAscii.toString)
  | "fi" :: top :: pad :: v :: xs =>
    let arr := (xs.map pF).toArray
    (s, toString (findIndex (fun i => arr.getD i nanF) (pN top) (pF v) (pF pad)))
  | _ => (s, "bad-op")

partial def go (inp out : IO.FS.Stream) (s : DS) : IO Unit := do
  let line ← inp.getLine
  if line.isEmpty then return ()
  let (s', o) := step s (toks line)
  out.putStrLn o
  out.flush
  go inp out s'

def main : IO UInt32 := do
  go (← IO.getStdin) (← IO.getStdout) {}
  return 0
