import Cherab.Model.Admt
import Mathlib.Tactic.Ring
import Mathlib.Tactic.FieldSimp
import Mathlib.Tactic.Linarith
import Mathlib.Tactic.NormNum
import Mathlib.Tactic.Push
import Mathlib.Tactic.Positivity
import Mathlib.Algebra.Order.Field.Basic
import Mathlib.Algebra.Order.Ring.Abs
import Mathlib.Algebra.Order.Ring.Cast
import Mathlib.Data.Int.Cast.Lemmas
import Mathlib.Algebra.BigOperators.Group.List.Basic

/-!
# C20 — helper definitions and lemmas

* boundary classes of a cell and the lookups that succeed in each (`Cls`, `Cls.has`);
* the discrete view of a row table: integer coefficients ×4 and their moments `Σ w·Δixᵃ·Δiyᵇ` (decidable);
* transfer from the discrete view to any field (`val_eq_coef4`, `applyStencil_quadratic`);
* the first-order jet algebra used to *define* `div(D ∇f)`.
-/
namespace Cherab.Admt
open Cherab.Gen.Admt

/-! ### boundary classes -/

/-- which of the four axis neighbours of a cell are missing (`at_left, at_right, at_top, at_bottom`) -/
structure Cls where
  l : Bool
  r : Bool
  t : Bool
  b : Bool
  deriving DecidableEq, Repr

/-- the lookups that succeed for a cell of class `c` of a full rectangular grid -/
def Cls.has (c : Cls) : Pos → Bool
  | .self => true | .left => !c.l | .right => !c.r | .above => !c.t | .below => !c.b
  | .aboveLeft => !c.t && !c.l | .aboveRight => !c.t && !c.r
  | .belowLeft => !c.b && !c.l | .belowRight => !c.b && !c.r

/-- at least two columns and two rows: a cell is not on both opposite edges -/
def Cls.valid (c : Cls) : Bool := !(c.l && c.r) && !(c.t && c.b)
def Cls.interior (c : Cls) : Bool := !c.l && !c.r && !c.t && !c.b

def allCls : List Cls :=
  [false, true].flatMap fun l => [false, true].flatMap fun r => [false, true].flatMap fun t =>
    [false, true].map fun b => ⟨l, r, t, b⟩

theorem mem_allCls (c : Cls) : c ∈ allCls := by
  rcases c with ⟨l, r, t, b⟩
  cases l <;> cases r <;> cases t <;> cases b <;> decide

theorem Op5.mem_all (op : Op5) : op ∈ Op5.all := by cases op <;> decide
theorem Pos.mem_all (p : Pos) : p ∈ Pos.all := by cases p <;> decide

/-- rows generated for a cell of class `c` -/
def stencil (c : Cls) : Option Table := runProgram program c.has

/-! ### discrete view -/

def coef4 (t : Table) (op : Op5) (p : Pos) : Int :=
  match t op p with
  | some c => c.num * ((4 / c.den : Nat) : Int)
  | none => 0

def denOK (t : Table) (op : Op5) (p : Pos) : Bool :=
  match t op p with
  | some c => c.den == 1 || c.den == 2 || c.den == 4
  | none => true

/-- `4 · Σ_p w_p · Δixᵃ · Δiyᵇ` -/
def mom (t : Table) (op : Op5) (a b : Nat) : Int :=
  Pos.all.foldl (fun s p => s + coef4 t op p * p.off.1 ^ a * p.off.2 ^ b) 0

/-- all six moments up to order two, ×4: `[m00, m10, m01, m20, m11, m02]` -/
def moms (t : Table) (op : Op5) : List Int :=
  [mom t op 0 0, mom t op 1 0, mom t op 0 1, mom t op 2 0, mom t op 1 1, mom t op 0 2]

section field
variable {α : Type} [Field α] [LinearOrder α] [IsStrictOrderedRing α]
set_option linter.unusedSectionVars false
set_option linter.unnecessarySeqFocus false

theorem psum_eq (f : Pos → α) :
    psum f = f .self + f .left + f .right + f .above + f .below + f .aboveLeft + f .aboveRight
      + f .belowLeft + f .belowRight := by
  simp [psum, Pos.all, List.foldl]

theorem coefVal_eq (n : Int) (d : Nat) : (Coef.val ⟨n, d⟩ : α) = (n : α) / (d : α) := by
  unfold Coef.val
  simp only
  split_ifs with h
  · rw [Nat.cast_natAbs, abs_of_neg h]; push_cast; ring
  · rw [Nat.cast_natAbs, abs_of_nonneg (not_lt.mp h)]

theorem val_eq_coef4 (t : Table) (op : Op5) (p : Pos) (h : denOK t op p = true) :
    (t.val op p : α) = (coef4 t op p : α) / 4 := by
  unfold Table.val coef4
  unfold denOK at h
  cases hc : t op p with
  | none => simp
  | some c =>
    rcases c with ⟨n, d⟩
    rw [hc] at h
    simp only [Bool.or_eq_true, beq_iff_eq] at h
    simp only [coefVal_eq]
    rcases h with (h | h) | h <;> subst h <;> push_cast <;> norm_num <;> ring

theorem mom_cast (t : Table) (op : Op5) (a b : Nat) :
    ((mom t op a b : Int) : α) =
      psum (fun p => (coef4 t op p : α) * ((p.off.1 : Int) : α) ^ a * ((p.off.2 : Int) : α) ^ b) := by
  rw [psum_eq]
  simp only [mom, Pos.all, List.foldl]
  push_cast
  ring

/-- a stencil applied to a quadratic in the index offsets, in terms of its moments -/
theorem psum_quadratic (w : Pos → α) (A B C D E F : α) :
    psum (fun p => w p * (A + B * ((p.off.1 : Int) : α) + C * ((p.off.2 : Int) : α)
        + D * ((p.off.1 : Int) : α) ^ 2 + E * (((p.off.1 : Int) : α) * ((p.off.2 : Int) : α))
        + F * ((p.off.2 : Int) : α) ^ 2)) =
      A * psum (fun p => w p * ((p.off.1 : Int) : α) ^ 0 * ((p.off.2 : Int) : α) ^ 0)
      + B * psum (fun p => w p * ((p.off.1 : Int) : α) ^ 1 * ((p.off.2 : Int) : α) ^ 0)
      + C * psum (fun p => w p * ((p.off.1 : Int) : α) ^ 0 * ((p.off.2 : Int) : α) ^ 1)
      + D * psum (fun p => w p * ((p.off.1 : Int) : α) ^ 2 * ((p.off.2 : Int) : α) ^ 0)
      + E * psum (fun p => w p * ((p.off.1 : Int) : α) ^ 1 * ((p.off.2 : Int) : α) ^ 1)
      + F * psum (fun p => w p * ((p.off.1 : Int) : α) ^ 0 * ((p.off.2 : Int) : α) ^ 2) := by
  simp only [psum_eq, Pos.off]
  push_cast
  ring

/-- value of a quadratic polynomial -/
def quad (a0 a1 a2 a3 a4 a5 X Y : α) : α := a0 + a1 * X + a2 * Y + a3 * X ^ 2 + a4 * (X * Y) + a5 * Y ^ 2

/-- **master formula**: a row applied to the samples of a quadratic `f` around the cell centre `(Xc, Yc)`
(neighbour `(Δix, Δiy)` sits at `(Xc + Δix·dx, Yc − Δiy·dy)`: `iy` grows downwards) in terms of the integer moments
of the row. -/
theorem applyStencil_quadratic (t : Table) (op : Op5) (hd : ∀ p, denOK t op p = true)
    (dx dy Xc Yc a0 a1 a2 a3 a4 a5 : α) :
    applyStencil t op dx dy (fun di dj => quad a0 a1 a2 a3 a4 a5 (Xc + (di : α) * dx) (Yc - (dj : α) * dy)) =
      (quad a0 a1 a2 a3 a4 a5 Xc Yc * (mom t op 0 0 : α)
        + (a1 + 2 * a3 * Xc + a4 * Yc) * dx * (mom t op 1 0 : α)
        - (a2 + a4 * Xc + 2 * a5 * Yc) * dy * (mom t op 0 1 : α)
        + a3 * dx ^ 2 * (mom t op 2 0 : α) - a4 * (dx * dy) * (mom t op 1 1 : α)
        + a5 * dy ^ 2 * (mom t op 0 2 : α)) / (4 * scaleDen op dx dy) := by
  unfold applyStencil
  have h1 : (fun p : Pos => (t.val op p : α) * quad a0 a1 a2 a3 a4 a5 (Xc + ((p.off.1 : Int) : α) * dx)
        (Yc - ((p.off.2 : Int) : α) * dy)) =
      fun p => ((coef4 t op p : α) / 4) * (quad a0 a1 a2 a3 a4 a5 Xc Yc
        + ((a1 + 2 * a3 * Xc + a4 * Yc) * dx) * ((p.off.1 : Int) : α)
        + (-(a2 + a4 * Xc + 2 * a5 * Yc) * dy) * ((p.off.2 : Int) : α)
        + (a3 * dx ^ 2) * ((p.off.1 : Int) : α) ^ 2
        + (-a4 * (dx * dy)) * (((p.off.1 : Int) : α) * ((p.off.2 : Int) : α))
        + (a5 * dy ^ 2) * ((p.off.2 : Int) : α) ^ 2) := by
    funext p
    rw [val_eq_coef4 t op p (hd p)]
    unfold quad
    ring
  rw [h1, psum_quadratic]
  simp only [mom_cast, psum_eq]
  ring

/-- positions where nothing was assigned do not see the field -/
theorem applyStencil_congr (t : Table) (op : Op5) (dx dy : α) (g g' : Int → Int → α)
    (h : ∀ p, t op p ≠ none → g p.off.1 p.off.2 = g' p.off.1 p.off.2) :
    applyStencil t op dx dy g = applyStencil t op dx dy g' := by
  unfold applyStencil
  congr 1
  have : (fun p : Pos => (t.val op p : α) * g p.off.1 p.off.2) = fun p => t.val op p * g' p.off.1 p.off.2 := by
    funext p
    by_cases hp : t op p = none
    · simp [Table.val, hp]
    · rw [h p hp]
  rw [this]

end field

/-! ### what `decide` establishes about the generated program, for all boundary classes at once -/

/-- everything the theorems need to know about the rows `t` of a class-`c` cell -/
structure StencilFacts (c : Cls) (t : Table) : Prop where
  den : ∀ op ∈ Op5.all, ∀ p ∈ Pos.all, denOK t op p = true
  /-- nothing is written to a neighbour that does not exist -/
  absent : ∀ op ∈ Op5.all, ∀ p ∈ Pos.all, c.has p = false → t op p = none
  /-- all rows sum to zero -/
  m00 : ∀ op ∈ Op5.all, mom t op 0 0 = 0
  dx : mom t .Dx 1 0 = 4 ∧ mom t .Dx 0 1 = 0
  dy : mom t .Dy 1 0 = 0 ∧ mom t .Dy 0 1 = -4
  dxy : moms t .Dxy = [0, 0, 0, 0, -4, 0]
  interior : c.interior = true → moms t .Dx = [0, 4, 0, 0, 0, 0] ∧ moms t .Dy = [0, 0, -4, 0, 0, 0]
    ∧ moms t .Dxx = [0, 0, 0, 8, 0, 0] ∧ moms t .Dyy = [0, 0, 0, 0, 0, 8]

instance (c : Cls) (t : Table) : Decidable (StencilFacts c t) :=
  decidable_of_iff
    ((∀ op ∈ Op5.all, ∀ p ∈ Pos.all, denOK t op p = true)
      ∧ (∀ op ∈ Op5.all, ∀ p ∈ Pos.all, c.has p = false → t op p = none)
      ∧ (∀ op ∈ Op5.all, mom t op 0 0 = 0) ∧ (mom t .Dx 1 0 = 4 ∧ mom t .Dx 0 1 = 0)
      ∧ (mom t .Dy 1 0 = 0 ∧ mom t .Dy 0 1 = -4) ∧ (moms t .Dxy = [0, 0, 0, 0, -4, 0])
      ∧ (c.interior = true → moms t .Dx = [0, 4, 0, 0, 0, 0] ∧ moms t .Dy = [0, 0, -4, 0, 0, 0]
          ∧ moms t .Dxx = [0, 0, 0, 8, 0, 0] ∧ moms t .Dyy = [0, 0, 0, 0, 0, 8]))
    ⟨fun ⟨b, c', d, e, f, g, h⟩ => ⟨b, c', d, e, f, g, h⟩,
     fun ⟨b, c', d, e, f, g, h⟩ => ⟨b, c', d, e, f, g, h⟩⟩

def factsB (c : Cls) : Bool :=
  match stencil c with
  | some t => decide (StencilFacts c t)
  | none => false

/-- evaluated by the kernel on the generated program: all nine boundary classes -/
theorem factsB_all : ∀ c ∈ allCls, c.valid = true → factsB c = true := by decide

/-- rows exist (no `IndexError`) and have the listed properties, for every cell of a grid with ≥ 2 rows and columns -/
theorem stencil_facts (c : Cls) (hv : c.valid = true) : ∃ t, stencil c = some t ∧ StencilFacts c t := by
  have h := factsB_all c (mem_allCls c) hv
  unfold factsB at h
  split at h
  · next t ht => exact ⟨t, ht, of_decide_eq_true h⟩
  · exact absurd h (by simp)

/-- a single row or a single column: some assignment indexes with `nan` (`IndexError`) -/
theorem stencil_invalid : ∀ c ∈ allCls, c.valid = false → stencil c = none := by decide

/-! ### dense matrices on the documented layout = stencils -/

section sums
variable {α : Type} [Field α]

theorem foldl_add_eq {ι : Type} (f : ι → α) (l : List ι) (a : α) :
    l.foldl (fun s j => s + f j) a = a + (l.map f).sum := by
  induction l generalizing a with
  | nil => simp
  | cons x xs ih => simp [List.foldl, ih, add_assoc]

theorem foldl_ite_add_eq {ι : Type} (c : ι → Bool) (f : ι → α) (l : List ι) (a : α) :
    l.foldl (fun s j => if c j then s + f j else s) a = a + (l.map (fun j => if c j then f j else 0)).sum := by
  induction l generalizing a with
  | nil => simp
  | cons x xs ih =>
    simp only [List.foldl, ih, List.map, List.sum_cons]
    split_ifs <;> ring

theorem dotN_eq_sum (n : Nat) (row v : Nat → α) :
    dotN n row v = ((List.range n).map fun j => row j * v j).sum := by
  unfold dotN; rw [foldl_add_eq]; simp

theorem sum_swap {ι κ : Type} (L : List ι) (R : List κ) (F : ι → κ → α) :
    (R.map fun j => (L.map fun p => F p j).sum).sum = (L.map fun p => (R.map fun j => F p j).sum).sum := by
  induction L with
  | nil => simp
  | cons x xs ih => simp only [List.map, List.sum_cons, List.sum_map_add, ih]

theorem sum_range_single (n : Nat) (o : Option Nat) (w : α) (v : Nat → α) :
    ((List.range n).map fun j => (if o == some j then w else 0) * v j).sum =
      match o with
      | some j => if j < n then w * v j else 0
      | none => 0 := by
  cases o with
  | none => simp
  | some k =>
    induction n with
    | zero => simp
    | succ m ih =>
      rw [List.sum_range_succ, ih]
      by_cases h1 : k < m
      · have : k ≠ m := by omega
        simp [h1, this, Nat.lt_succ_of_lt h1]
      · by_cases h2 : k = m
        · subst h2; simp
        · have : ¬ k < m + 1 := by omega
          simp [h1, h2, this]

/-- dense row × vector = sum over the stencil positions that have a column -/
theorem dense_dot (cells : List (Int × Int)) (c : Int × Int) (t : Table) (op : Op5) (dx dy : α) (n : Nat)
    (v : Nat → α) :
    dotN n (opEntry cells dx dy c t op) v =
      (Pos.all.map fun p => match neighbour cells c p with
        | some j => if j < n then t.val op p * v j else 0
        | none => 0).sum / scaleDen op dx dy := by
  rw [dotN_eq_sum]
  unfold opEntry rawEntry
  simp only [foldl_ite_add_eq, zero_add]
  have : ∀ j, ((Pos.all.map fun p => if neighbour cells c p == some j then (t.val op p : α) else 0).sum
        / scaleDen op dx dy) * v j =
      (Pos.all.map fun p => (if neighbour cells c p == some j then (t.val op p : α) else 0) * v j).sum
        / scaleDen op dx dy := by
    intro j
    rw [div_mul_eq_mul_div]
    congr 1
    induction Pos.all with
    | nil => simp
    | cons x xs ih => simp only [List.map, List.sum_cons, add_mul, ih]
  simp only [this]
  have h2 : ∀ (l : List Nat) (f : Nat → α) (s : α), (l.map fun j => f j / s).sum = (l.map f).sum / s := by
    intro l f s
    induction l with
    | nil => simp
    | cons x xs ih => simp only [List.map, List.sum_cons, ih, add_div]
  rw [h2, sum_swap]
  congr 2
  apply List.map_congr_left
  intro p _
  exact sum_range_single n _ _ v

end sums
theorem fullCells_length (nx ny : Nat) : (fullCells nx ny).length = nx * ny := by simp [fullCells]

theorem fullCells_get (nx ny k : Nat) (h : k < (fullCells nx ny).length) :
    (fullCells nx ny)[k] = (((k / ny : Nat) : Int), ((k % ny : Nat) : Int)) := by
  simp [fullCells]

theorem lookup_full (nx ny : Nat) (jx jy : Int) :
    lookup (fullCells nx ny) jx jy =
      if 0 ≤ jx ∧ jx < nx ∧ 0 ≤ jy ∧ jy < ny then some (jx.toNat * ny + jy.toNat) else none := by
  unfold lookup
  split_ifs with h
  · obtain ⟨h1, h2, h3, h4⟩ := h
    obtain ⟨a, rfl⟩ := Int.eq_ofNat_of_zero_le h1
    obtain ⟨b, rfl⟩ := Int.eq_ofNat_of_zero_le h3
    have ha : a < nx := by exact_mod_cast h2
    have hb : b < ny := by exact_mod_cast h4
    simp only [Int.toNat_natCast]
    rw [List.findIdx?_eq_some_iff_getElem]
    have hlen : a * ny + b < (fullCells nx ny).length := by
      rw [fullCells_length]
      calc a * ny + b < a * ny + ny := by omega
        _ = (a + 1) * ny := by ring
        _ ≤ nx * ny := Nat.mul_le_mul_right _ ha
    refine ⟨hlen, ?_, ?_⟩
    · rw [fullCells_get]
      have e1 : (a * ny + b) / ny = a := by
        rw [Nat.mul_comm, Nat.mul_add_div (by omega), Nat.div_eq_of_lt hb]; rfl
      have e2 : (a * ny + b) % ny = b := by
        rw [Nat.mul_comm, Nat.mul_add_mod, Nat.mod_eq_of_lt hb]
      simp [e1, e2]
    · intro j hj
      rw [fullCells_get nx ny j (by omega)]
      simp only [Bool.and_eq_true, beq_iff_eq, not_and]
      intro e1 e2
      have e1' : j / ny = a := by exact_mod_cast e1
      have e2' : j % ny = b := by exact_mod_cast e2
      have := Nat.div_add_mod j ny
      rw [e1', e2', Nat.mul_comm] at this
      omega
  · rw [List.findIdx?_eq_none_iff]
    intro x hx
    obtain ⟨k, hk, rfl⟩ := List.getElem_of_mem hx
    rw [fullCells_get]
    rw [fullCells_length] at hk
    have hny : 0 < ny := by
      rcases Nat.eq_zero_or_pos ny with h0 | h0
      · subst h0; simp at hk
      · exact h0
    have hq : k / ny < nx := by
      rw [Nat.div_lt_iff_lt_mul hny]; exact hk
    have hr : k % ny < ny := Nat.mod_lt _ hny
    simp only [Bool.and_eq_false_iff, beq_eq_false_iff_ne, ne_eq]
    by_contra hc
    push Not at hc
    apply h
    rw [← hc.1, ← hc.2]
    refine ⟨by positivity, by exact_mod_cast hq, by positivity, by exact_mod_cast hr⟩


/-- boundary class of the cell `(ix, iy)` of the full `nx × ny` grid -/
def clsOf (nx ny ix iy : Nat) : Cls := ⟨ix == 0, ix + 1 == nx, iy == 0, iy + 1 == ny⟩

theorem clsOf_valid (nx ny ix iy : Nat) (h2x : 2 ≤ nx) (h2y : 2 ≤ ny) : (clsOf nx ny ix iy).valid = true := by
  simp only [Cls.valid, clsOf, Bool.and_eq_true, Bool.not_eq_true', Bool.and_eq_false_iff, beq_eq_false_iff_ne,
    ne_eq]
  omega

theorem isSome_ite {β : Type} (c : Prop) [Decidable c] (a : β) :
    (if c then some a else none).isSome = decide c := by
  split_ifs <;> simp [*]

theorem neighbour_full (nx ny ix iy : Nat) (p : Pos) :
    neighbour (fullCells nx ny) ((ix : Int), (iy : Int)) p =
      if 0 ≤ (ix : Int) + p.off.1 ∧ (ix : Int) + p.off.1 < nx ∧ 0 ≤ (iy : Int) + p.off.2 ∧ (iy : Int) + p.off.2 < ny
      then some (((ix : Int) + p.off.1).toNat * ny + ((iy : Int) + p.off.2).toNat) else none := by
  unfold neighbour; rw [lookup_full]

theorem hasOf_full (nx ny ix iy : Nat) (hx : ix < nx) (hy : iy < ny) :
    hasOf (fullCells nx ny) ((ix : Int), (iy : Int)) = (clsOf nx ny ix iy).has := by
  funext p
  unfold hasOf
  rw [neighbour_full, isSome_ite, Bool.eq_iff_iff, decide_eq_true_iff]
  cases p
  all_goals (simp only [Pos.off, Cls.has, clsOf]
             simp only [Bool.and_eq_true, Bool.not_eq_true', beq_eq_false_iff_ne, ne_eq, iff_true]
             omega)

theorem neighbour_lt (cells : List (Int × Int)) (c : Int × Int) (p : Pos) (j : Nat)
    (h : neighbour cells c p = some j) : j < cells.length := by
  unfold neighbour lookup at h
  rw [List.findIdx?_eq_some_iff_getElem] at h
  exact h.1

section dense
variable {α : Type} [Field α]

/-- **dense = stencil** on the documented layout: the row of cell `(ix, iy)` of the dense operator times a vector is
the stencil sum over the 2-D neighbours; and the row table is the one of the cell's boundary class. -/
theorem dense_dot_eq_stencil (nx ny ix iy : Nat) (hx : ix < nx) (hy : iy < ny) (h2x : 2 ≤ nx) (h2y : 2 ≤ ny) :
    ∃ t, rowTable (fullCells nx ny) ((ix : Int), (iy : Int)) = some t ∧ StencilFacts (clsOf nx ny ix iy) t ∧
      ∀ (op : Op5) (dx dy : α) (v : Nat → α),
        dotN (nx * ny) (opEntry (fullCells nx ny) dx dy ((ix : Int), (iy : Int)) t op) v =
          applyStencil t op dx dy (fun di dj => v (((ix : Int) + di).toNat * ny + ((iy : Int) + dj).toNat)) := by
  obtain ⟨t, ht, hf⟩ := stencil_facts (clsOf nx ny ix iy) (clsOf_valid nx ny ix iy h2x h2y)
  refine ⟨t, ?_, hf, ?_⟩
  · unfold rowTable; rw [hasOf_full nx ny ix iy hx hy]; exact ht
  · intro op dx dy v
    rw [dense_dot]
    unfold applyStencil psum
    rw [foldl_add_eq, zero_add]
    congr 2
    apply List.map_congr_left
    intro p _
    have hhas : (neighbour (fullCells nx ny) ((ix : Int), (iy : Int)) p).isSome = (clsOf nx ny ix iy).has p := by
      have := congrFun (hasOf_full nx ny ix iy hx hy) p
      simpa [hasOf] using this
    cases hn : neighbour (fullCells nx ny) ((ix : Int), (iy : Int)) p with
    | none =>
      rw [hn] at hhas
      have : t op p = none := hf.absent op (Op5.mem_all op) p (Pos.mem_all p) (by simpa using hhas.symm)
      simp [Table.val, this]
    | some j =>
      have hj : j < nx * ny := by
        have := neighbour_lt _ _ _ _ hn
        rwa [fullCells_length] at this
      rw [neighbour_full] at hn
      split_ifs at hn with hr
      simp only [Option.some.injEq] at hn
      simp [hj, hn]

end dense

end Cherab.Admt

/-! ### jets: the definition of `div(D ∇f)` used as specification -/
namespace Cherab.Admt

/-- first-order jet of a function of `(x, y)` at a point: value, ∂/∂x, ∂/∂y -/
structure Jet (α : Type) where
  v : α
  x : α
  y : α

namespace Jet
variable {α : Type} [Field α]
def const (c : α) : Jet α := ⟨c, 0, 0⟩
instance : Add (Jet α) := ⟨fun a b => ⟨a.v + b.v, a.x + b.x, a.y + b.y⟩⟩
instance : Sub (Jet α) := ⟨fun a b => ⟨a.v - b.v, a.x - b.x, a.y - b.y⟩⟩
/-- Leibniz rule -/
instance : Mul (Jet α) := ⟨fun a b => ⟨a.v * b.v, a.x * b.v + a.v * b.x, a.y * b.v + a.v * b.y⟩⟩
/-- quotient rule -/
instance : Div (Jet α) :=
  ⟨fun a b => ⟨a.v / b.v, (a.x * b.v - a.v * b.x) / (b.v * b.v), (a.y * b.v - a.v * b.y) / (b.v * b.v)⟩⟩
theorem add_def (a b : Jet α) : a + b = ⟨a.v + b.v, a.x + b.x, a.y + b.y⟩ := rfl
theorem sub_def (a b : Jet α) : a - b = ⟨a.v - b.v, a.x - b.x, a.y - b.y⟩ := rfl
theorem mul_def (a b : Jet α) : a * b = ⟨a.v * b.v, a.x * b.v + a.v * b.x, a.y * b.v + a.v * b.y⟩ := rfl
theorem div_def (a b : Jet α) :
    a / b = ⟨a.v / b.v, (a.x * b.v - a.v * b.x) / (b.v * b.v), (a.y * b.v - a.v * b.y) / (b.v * b.v)⟩ := rfl
end Jet

variable {α : Type} [Field α]

/-- **Specification.**  `div(T ∇f)` in cylindrical coordinates `(x, y) = (R, Z)`:
`(1/R) ∂ₓ(R Fₓ) + ∂_y F_y`, `F = T ∇f`, with the field-aligned diffusion tensor
`T = D∥ (I − n nᵀ) + D⊥ n nᵀ`, `n = ∇ψ / |∇ψ|` (so `n nᵀ = ∇ψ ∇ψᵀ / |∇ψ|²`; in two dimensions `I − n nᵀ = t tᵀ`).
Inputs: the first and second derivatives of ψ and of `f` at the point, the jets of `D⊥`, `D∥`, and `R`. -/
def specDiv (ψx ψy ψxx ψxy ψyy : α) (Dperp Dpar : Jet α) (R : α) (fx fy fxx fxy fyy : α) : α :=
  let px : Jet α := ⟨ψx, ψxx, ψxy⟩
  let py : Jet α := ⟨ψy, ψxy, ψyy⟩
  let N := px * px + py * py
  let nxx := px * px / N
  let nxy := px * py / N
  let nyy := py * py / N
  let one : Jet α := Jet.const 1
  let Txx := Dpar * (one - nxx) + Dperp * nxx
  let Txy := Dperp * nxy - Dpar * nxy
  let Tyy := Dpar * (one - nyy) + Dperp * nyy
  let jfx : Jet α := ⟨fx, fxx, fxy⟩
  let jfy : Jet α := ⟨fy, fxy, fyy⟩
  let Rj : Jet α := ⟨R, 1, 0⟩
  let Fx := Txx * jfx + Txy * jfy
  let Fy := Txy * jfx + Tyy * jfy
  (Rj * Fx).x / R + Fy.y

end Cherab.Admt

/-! ### linearity of the dense products, and the sampled-field bookkeeping -/
namespace Cherab.Admt
open Cherab.Gen.Admt
section
variable {α : Type} [Field α]

theorem dotN_entry (n : Nat) (cx cy cxx cxy cyy s : α) (A B C D E v : Nat → α) :
    dotN n (fun j => entry cx cy cxx cxy cyy (A j) (B j) (C j) (D j) (E j) * s) v =
      entry cx cy cxx cxy cyy (dotN n A v) (dotN n B v) (dotN n C v) (dotN n D v) (dotN n E v) * s := by
  simp only [dotN_eq_sum]
  induction List.range n with
  | nil => simp [entry]
  | cons x xs ih =>
    simp only [List.map, List.sum_cons, ih]
    unfold entry
    ring

theorem dotN_const_zero (n : Nat) (row : Nat → α) (c : α) (h : dotN n row (fun _ => 1) = 0) :
    dotN n row (fun _ => c) = 0 := by
  have : dotN n row (fun _ => c) = dotN n row (fun _ => 1) * c := by
    simp only [dotN_eq_sum]
    induction List.range n with
    | nil => simp
    | cons x xs ih => simp only [List.map, List.sum_cons, ih]; ring
  rw [this, h, zero_mul]

end
end Cherab.Admt

/-! ### extraction of dx, dy from the cell centres -/
namespace Cherab.Admt
section extract
variable {α : Type} [Field α] [LinearOrder α] [IsStrictOrderedRing α]
set_option linter.unusedSectionVars false

theorem absA_eq (x : α) : absA x = |x| := by
  unfold absA
  split_ifs with h
  · exact (abs_of_neg h).symm
  · exact (abs_of_nonneg (not_lt.mp h)).symm

theorem foldl_min_le (r : List α) (a : α) :
    ∀ x ∈ a :: r, r.foldl (fun m x => if x < m then x else m) a ≤ x := by
  induction r generalizing a with
  | nil => intro x hx; simp at hx; simp [hx]
  | cons b r ih =>
    intro x hx
    simp only [List.foldl]
    simp only [List.mem_cons] at hx
    split_ifs with h
    · rcases hx with rfl | rfl | hx
      · exact le_trans (ih b b (by simp)) h.le
      · exact ih x x (by simp)
      · exact ih b x (by simp [hx])
    · rcases hx with rfl | rfl | hx
      · exact ih x x (by simp)
      · exact le_trans (ih a a (by simp)) (not_lt.mp h)
      · exact ih a x (by simp [hx])

theorem foldl_min_mem (r : List α) (a : α) :
    r.foldl (fun m x => if x < m then x else m) a ∈ a :: r := by
  induction r generalizing a with
  | nil => simp
  | cons b r ih =>
    simp only [List.foldl]
    split_ifs with h
    · have := ih b; simp only [List.mem_cons] at this ⊢; tauto
    · have := ih a; simp only [List.mem_cons] at this ⊢; tauto

/-- `np.min(abs(d[d != 0]))` returns `d` when every non-zero entry has modulus ≥ d and one attains it -/
theorem minAbsNonzero_eq (l : List α) (d : α) (hall : ∀ e ∈ l, e = 0 ∨ d ≤ |e|)
    (hex : ∃ e ∈ l, e ≠ 0 ∧ |e| = d) : minAbsNonzero l = some d := by
  unfold minAbsNonzero
  have hmem : ∀ y ∈ (l.filter fun d => !(d == 0)).map absA, d ≤ y := by
    intro y hy
    simp only [List.mem_map, List.mem_filter, Bool.not_eq_true', beq_eq_false_iff_ne, ne_eq] at hy
    obtain ⟨e, ⟨he, hne⟩, rfl⟩ := hy
    rw [absA_eq]
    rcases hall e he with h | h
    · exact absurd h hne
    · exact h
  have hd : d ∈ (l.filter fun d => !(d == 0)).map absA := by
    obtain ⟨e, he, hne, habs⟩ := hex
    simp only [List.mem_map, List.mem_filter, Bool.not_eq_true', beq_eq_false_iff_ne, ne_eq]
    exact ⟨e, ⟨he, hne⟩, by rw [absA_eq, habs]⟩
  cases hl : (l.filter fun d => !(d == 0)).map absA with
  | nil => rw [hl] at hd; simp at hd
  | cons a r =>
    rw [hl] at hd hmem
    simp only
    congr 1
    apply le_antisymm
    · exact foldl_min_le r a d hd
    · exact hmem _ (foldl_min_mem r a)

theorem diffs_map_range' (f : Nat → α) (s n : Nat) :
    diffs ((List.range' s n).map f) = (List.range' s (n - 1)).map fun k => f (k + 1) - f k := by
  induction n generalizing s with
  | zero => simp [diffs]
  | succ n ih =>
    cases n with
    | zero => simp [diffs, List.range']
    | succ m =>
      have := ih (s + 1)
      simp only [List.range', List.map, diffs] at this ⊢
      simp only [Nat.add_sub_cancel] at this ⊢
      rw [this]
      simp [List.range']


/-- centres of the voxels of the documented layout -/
def gridCentres (nx ny : Nat) (x0 y0 dx dy : α) : List (α × α) :=
  (List.range (nx * ny)).map fun k => (x0 + ((k / ny : Nat) : α) * dx, y0 - ((k % ny : Nat) : α) * dy)

theorem succ_div_cases (k ny : Nat) : (k + 1) / ny = k / ny ∨ (k + 1) / ny = k / ny + 1 := by
  rw [Nat.succ_div]; split_ifs <;> simp

theorem succ_mod_cases (k ny : Nat) (hny : 0 < ny) :
    (k % ny + 1 < ny ∧ (k + 1) % ny = k % ny + 1) ∨ (k % ny + 1 = ny ∧ (k + 1) % ny = 0) := by
  have hr := Nat.mod_lt k hny
  have hk := Nat.div_add_mod k ny
  by_cases h : k % ny + 1 < ny
  · left
    refine ⟨h, ?_⟩
    conv_lhs => rw [← hk, Nat.add_assoc, Nat.mul_add_mod, Nat.mod_eq_of_lt h]
  · right
    have h' : k % ny + 1 = ny := by omega
    refine ⟨h', ?_⟩
    have : k + 1 = ny * (k / ny + 1) := by rw [Nat.mul_add, Nat.mul_one]; omega
    rw [this, Nat.mul_mod_right]

/-- **dx, dy as the code extracts them** (`np.min(abs(np.diff(centres)[≠ 0]))`) are the grid's steps, whatever the
origin: with the operators' stencils not depending on coordinates at all, the generated operators depend on the
geometry only through `(dx, dy)`. -/
theorem extractSteps_full (nx ny : Nat) (h2x : 2 ≤ nx) (h2y : 2 ≤ ny) (x0 y0 dx dy : α) (hdx : 0 < dx)
    (hdy : 0 < dy) : extractSteps (gridCentres nx ny x0 y0 dx dy) = some (dx, dy) := by
  have hn : 2 * ny ≤ nx * ny := Nat.mul_le_mul_right _ h2x
  have em : ∀ (cs : List (α × α)) (k : Nat), evalS cs (.min (.abs (.nonzero (.diffCol k)))) =
      minAbsNonzero (evalV cs (.diffCol k)) := fun _ _ => rfl
  unfold extractSteps gridCentres
  simp only [Cherab.Gen.Admt.stepDx, Cherab.Gen.Admt.stepDy, em, evalV]
  simp only [List.map_map, Function.comp_def, List.range_eq_range', diffs_map_range']
  have hx : minAbsNonzero ((List.range' 0 (nx * ny - 1)).map fun k =>
      (x0 + (((k + 1) / ny : Nat) : α) * dx) - (x0 + ((k / ny : Nat) : α) * dx)) = some dx := by
    apply minAbsNonzero_eq
    · intro e he
      simp only [List.mem_map, List.mem_range'_1] at he
      obtain ⟨k, _, rfl⟩ := he
      rcases succ_div_cases k ny with h | h
      · left; rw [h]; ring
      · right; rw [h]; push_cast
        have : x0 + ((k / ny : Nat) + 1 : α) * dx - (x0 + ((k / ny : Nat) : α) * dx) = dx := by ring
        rw [this, abs_of_pos hdx]
    · refine ⟨dx, ?_, hdx.ne', abs_of_pos hdx⟩
      simp only [List.mem_map, List.mem_range'_1]
      refine ⟨ny - 1, ⟨by omega, by omega⟩, ?_⟩
      have e1 : (ny - 1 + 1) / ny = 1 := by rw [Nat.sub_add_cancel (by omega)]; exact Nat.div_self (by omega)
      have e2 : (ny - 1) / ny = 0 := Nat.div_eq_of_lt (by omega)
      rw [e1, e2]; push_cast; ring
  have hy : minAbsNonzero ((List.range' 0 (nx * ny - 1)).map fun k =>
      (y0 - (((k + 1) % ny : Nat) : α) * dy) - (y0 - ((k % ny : Nat) : α) * dy)) = some dy := by
    apply minAbsNonzero_eq
    · intro e he
      simp only [List.mem_map, List.mem_range'_1] at he
      obtain ⟨k, _, rfl⟩ := he
      right
      rcases succ_mod_cases k ny (by omega) with ⟨_, h⟩ | ⟨h1, h⟩
      · rw [h]; push_cast
        have : y0 - ((k % ny : Nat) + 1 : α) * dy - (y0 - ((k % ny : Nat) : α) * dy) = -dy := by ring
        rw [this, abs_neg, abs_of_pos hdy]
      · rw [h]; push_cast
        have : y0 - (0 : α) * dy - (y0 - ((k % ny : Nat) : α) * dy) = ((k % ny : Nat) : α) * dy := by ring
        rw [this]
        have h1' : 1 ≤ k % ny := by omega
        have : (1 : α) ≤ ((k % ny : Nat) : α) := by exact_mod_cast h1'
        rw [abs_of_nonneg (by positivity)]
        nlinarith
    · refine ⟨-dy, ?_, by linarith [hdy], by rw [abs_neg, abs_of_pos hdy]⟩
      simp only [List.mem_map, List.mem_range'_1]
      refine ⟨0, ⟨by omega, by omega⟩, ?_⟩
      have e1 : (0 + 1) % ny = 1 := Nat.mod_eq_of_lt (by omega)
      rw [e1, Nat.zero_mod]; push_cast; ring
  rw [hx, hy]

/-- `np.mean` of the four vertices of an axis-aligned `dx × dy` voxel centred at `(h, k)` is `(h, k)` -/
theorem centre_rect (h k dx dy : α) :
    centre [(h + dx / 2, k + dy / 2), (h + dx / 2, k - dy / 2), (h - dx / 2, k - dy / 2), (h - dx / 2, k + dy / 2)]
      = (h, k) := by
  simp only [centre, List.foldl, List.length]
  push_cast
  rw [Prod.mk.injEq]
  constructor <;> ring

end extract
end Cherab.Admt

/-! ### proof-deepening pass: the rows of every boundary class on quadratics; linearity in the vector -/
namespace Cherab.Admt
open Cherab.Gen.Admt

/-- +1 in the first column, −1 in the last, 0 elsewhere: sign of the one-sided `x` difference -/
def Cls.sx (c : Cls) : Int := if c.l then 1 else if c.r then -1 else 0
/-- −1 in the top row, +1 in the bottom row (`y` decreases with `iy`) -/
def Cls.sy (c : Cls) : Int := if c.t then -1 else if c.b then 1 else 0

/-- all second-order moments of the first- and second-derivative rows, for every boundary class -/
structure BoundaryFacts (c : Cls) (t : Table) : Prop where
  dx : moms t .Dx = [0, 4, 0, 4 * c.sx, 0, 0]
  dy : moms t .Dy = [0, 0, -4, 0, 0, 4 * c.sy]
  dxx : moms t .Dxx = if c.sx = 0 then [0, 0, 0, 8, 0, 0] else [0, 4, 0, 4 * c.sx, 0, 0]
  dyy : moms t .Dyy = if c.sy = 0 then [0, 0, 0, 0, 0, 8] else [0, 0, -4, 0, 0, 4 * c.sy]

instance (c : Cls) (t : Table) : Decidable (BoundaryFacts c t) :=
  decidable_of_iff
    (moms t .Dx = [0, 4, 0, 4 * c.sx, 0, 0] ∧ moms t .Dy = [0, 0, -4, 0, 0, 4 * c.sy]
      ∧ moms t .Dxx = (if c.sx = 0 then [0, 0, 0, 8, 0, 0] else [0, 4, 0, 4 * c.sx, 0, 0])
      ∧ moms t .Dyy = (if c.sy = 0 then [0, 0, 0, 0, 0, 8] else [0, 0, -4, 0, 0, 4 * c.sy]))
    ⟨fun ⟨a, b, c', d⟩ => ⟨a, b, c', d⟩, fun ⟨a, b, c', d⟩ => ⟨a, b, c', d⟩⟩

def boundaryB (c : Cls) : Bool :=
  match stencil c with
  | some t => decide (BoundaryFacts c t)
  | none => false

/-- evaluated by the kernel on the generated program, all nine boundary classes -/
theorem boundaryB_all : ∀ c ∈ allCls, c.valid = true → boundaryB c = true := by decide

theorem boundary_facts (c : Cls) (hv : c.valid = true) (t : Table) (ht : stencil c = some t) :
    BoundaryFacts c t := by
  have h := boundaryB_all c (mem_allCls c) hv
  unfold boundaryB at h
  rw [ht] at h
  exact of_decide_eq_true h

section
variable {α : Type} [Field α]

theorem dotN_add_const (n : Nat) (row v : Nat → α) (c : α) :
    dotN n row (fun k => v k + c) = dotN n row v + dotN n row (fun _ => c) := by
  simp only [dotN_eq_sum]
  induction List.range n with
  | nil => simp
  | cons x xs ih => simp only [List.map, List.sum_cons, ih]; ring

theorem dotN_smul (n : Nat) (row v : Nat → α) (c : α) :
    dotN n row (fun k => c * v k) = c * dotN n row v := by
  simp only [dotN_eq_sum]
  induction List.range n with
  | nil => simp
  | cons x xs ih => simp only [List.map, List.sum_cons, ih]; ring

end
end Cherab.Admt
